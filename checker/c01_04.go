package main

import (
	"fmt"
	"go/ast"
	"go/token"
	"go/types"
	"sort"
	"strings"

	"golang.org/x/tools/go/cfg"
)

// ruleEntryPointsStoreNothing: the resolution entry points record no state
// themselves (generalises R15.5b to Get/GetKeyed/GetGroup/resolve).
func ruleEntryPointsStoreNothing(w *World, r *Report, rule string) {
	ro := resolveRoles(w)
	fns := []*FuncInfo{ro.resolve, w.MustFn(w.Godi, "(*scope).Get"), w.MustFn(w.Godi, "(*scope).GetKeyed"), w.MustFn(w.Godi, "(*scope).GetGroup"),
		w.MustFn(w.Godi, "(*provider).Get"), w.MustFn(w.Godi, "(*provider).GetKeyed"), w.MustFn(w.Godi, "(*provider).GetGroup"), ro.getInstance, ro.getSingleton, // either may be nil when the one-line lookup was inlined
		w.MustFn(w.Godi, "(*provider).findDescriptor"), w.MustFn(w.Godi, "(*provider).findGroupDescriptors")}
	for _, fi := range fns {
		if fi == nil {
			continue
		}
		r.Analysed(fi)
		info := fi.Pkg.TypesInfo
		n := 0
		ast.Inspect(fi.Decl.Body, func(x ast.Node) bool {
			switch s := x.(type) {
			case *ast.AssignStmt:
				for _, l := range s.Lhs {
					target := unparen(l)
					if ix, ok := target.(*ast.IndexExpr); ok {
						target = unparen(ix.X)
					}
					if fv := fieldOf(info, target); fv != nil {
						o := ownerOfField(w, fv)
						if o == "scope" || o == "provider" {
							n++
							r.Fail(rule, fmt.Sprintf("%s#store:%s.%s/%d", fi.Name(), o, fv.Name(), n), s.Pos(), "%s writes %s.%s itself: instances must only be recorded by setInstance after a successful construction, keyed by the full identity (a memo here hands out instances under another identity or lifetime than they were registered with)", fi.Name(), o, fv.Name())
						}
					}
				}
			case *ast.CallExpr:
				if cal := callee(info, s); cal != nil {
					if rcv, _, ok := methodCall(s); ok {
						if fv := fieldOf(info, rcv); fv != nil && isSyncType(fv.Type()) {
							if cal.Name() == "Add" && isPureCounter(w, fv) {
								return true
							}
							switch cal.Name() {
							case "Store", "LoadOrStore", "Swap", "CompareAndSwap", "Do", "Add":
								n++
								r.Fail(rule, fmt.Sprintf("%s#%s:%s/%d", fi.Name(), cal.Name(), fv.Name(), n), s.Pos(), "%s records state in %s with %s: resolution must not memoise outside setInstance", fi.Name(), fv.Name(), cal.Name())
							}
						}
					}
				}
			}
			return true
		})
		if n == 0 {
			r.OK(rule, fi.Name()+"#no-stores", fi.Decl.Pos(), true, "stores nothing in the scope or provider")
		}
	}
}

// ruleResolveSwitch analyses how resolve dispatches on the lifetime (switch or
// if-chain), on the function's flow restricted to each lifetime.
func ruleResolveSwitch(w *World, r *Report, rSingleton, rScoped, rTransient string) {
	ro := resolveRoles(w)
	fi := ro.resolve
	r.Analysed(fi)
	info := fi.Pkg.TypesInfo
	d := lifetimeDispatch(w, fi)
	if !d.dispatches() {
		r.Undecided(rSingleton+rScoped+rTransient, fi.Name()+"#lifetime-dispatch", fi.Decl.Pos(), "resolve does not dispatch on the lifetime")
		return
	}
	ev := withStoreGens(trackingEvents(w, ro), w, ro)
	ev.Stop = ro.isCreate // the creation chain is checked on its own (ruleCreateChain)
	type region struct {
		fl   *Flow
		may  Facts
		must *Sol
	}
	reg := func(name string) *region {
		may, fl := d.mayFacts(w, ev, name)
		return &region{fl: fl, may: may, must: ev.Solve(fl, true)}
	}
	// exits after the dispatch decided for the lifetime
	if rSingleton != "" {
		con := fi.Name() + "#Singleton"
		rg := reg("Singleton")
		bad := ""
		if rg.may.Has("call:createInstance") || rg.may.Has("call:Invoke") {
			bad = "the Singleton clause can construct an instance (it reaches createInstance): a singleton that is missing from the table is created lazily, a second time, outside Build"
		}
		if !rg.may.Has("call:getSingleton") {
			bad = "the Singleton clause does not read the singleton table"
		}
		r.Check(bad == "", rSingleton, con, d.pos, true, "the Singleton clause only reads the singleton table; a miss is an error", bad)
	}
	if rScoped != "" {
		con := fi.Name() + "#Scoped"
		rg := reg("Scoped")
		fl := rg.fl
		// `case Scoped: return s.resolveScoped(key, descriptor)`: the clause lives in a private method
		top, topInfo := fi, info
		info := info
		keyParamOf := func(name string) bool {
			for _, f := range top.Decl.Type.Params.List {
				for _, nm := range f.Names {
					if nm.Name == name {
						return true
					}
				}
			}
			return false
		}
		if h, call := clauseDelegate(w, d, rg.fl, rg.must, "Scoped"); h != nil {
			r.Analysed(h)
			// the helper's parameters that receive resolve's own parameters
			bound := map[string]bool{}
			k := 0
			for _, f := range h.Decl.Type.Params.List {
				for _, nm := range f.Names {
					if k < len(call.Args) {
						if o := objOf(topInfo, call.Args[k]); o != nil && keyParamOf(o.Name()) {
							bound[nm.Name] = true
						}
					}
					k++
				}
			}
			keyParamOf = func(name string) bool { return bound[name] }
			info, fl = h.Pkg.TypesInfo, w.FlowOf(h)
		}
		// createInstance dominated by a miss of getInstance(key) on the same key; the hit edge returns the cached value
		hitVars := map[types.Object]struct {
			val types.Object
			key string
		}{}
		for _, nd := range fl.Nodes() {
			if as, ok := nd.(*ast.AssignStmt); ok && len(as.Lhs) == 2 && len(as.Rhs) == 1 {
				if tbl, key := ro.lookupSite(w, info, as.Rhs[0]); tbl == ro.cache && key != nil {
					hitVars[objOf(info, as.Lhs[1])] = struct {
						val types.Object
						key string
					}{objOf(info, as.Lhs[0]), exprStr(key)}
				}
			}
		}
		sol := fl.Solve(Spec{Must: true, Edge: func(b *cfg.Block, i int, cond ast.Expr, in Facts) (gen, kill []string) {
			if cond == nil {
				return
			}
			c := unparen(cond)
			neg := false
			if u, ok := c.(*ast.UnaryExpr); ok && u.Op == token.NOT {
				c, neg = unparen(u.X), true
			}
			if hv, ok := hitVars[objOf(info, c)]; ok {
				if (i == 0) != neg {
					gen = append(gen, "hit:"+hv.key)
				} else {
					gen = append(gen, "miss:"+hv.key)
				}
			}
			return
		}})
		bad := ""
		created := false
		for _, n := range fl.Nodes() {
			for _, c := range callsIn(n, false) {
				if ro.isCreate(callee(info, c)) {
					created = true
					missed := false
					for k := range sol.Before[n] {
						if strings.HasPrefix(k, "miss:") {
							missed = true
						}
					}
					if !missed {
						bad = "createInstance is called without a preceding miss of the scope's cache: every resolution of a scoped service constructs a new instance"
					}
				}
			}
		}
		if !created {
			bad = "the Scoped clause never constructs"
		}
		for _, ex := range fl.Exits() {
			at := sol.AtExit(ex)
			for k := range at {
				if strings.HasPrefix(k, "hit:") {
					if ex.Ret == nil || len(ex.Ret.Results) != 2 || !isNilIdent(info, ex.Ret.Results[1]) {
						bad = "the cache-hit edge does not return the cached instance"
					} else {
						okVal := false
						for _, hv := range hitVars {
							if objOf(info, ex.Ret.Results[0]) == hv.val {
								okVal = true
							}
						}
						if !okVal {
							bad = "the cache-hit edge returns " + exprStr(ex.Ret.Results[0]) + ", not the cached instance"
						}
					}
				}
			}
		}
		if len(hitVars) == 0 {
			bad = "the Scoped clause does not consult the scope's cache before constructing"
		}
		// the key looked up is the key being resolved (a parameter of resolve)
		for _, hv := range hitVars {
			isParam := keyParamOf(hv.key)
			if !isParam {
				bad = "the cache is consulted with " + hv.key + ", not with the key being resolved"
			}
		}
		r.Check(bad == "", rScoped, con, d.pos, true, "scoped resolution: cache lookup on the resolved key; hit returns the cached instance; construction only on a miss", bad)
	}
	if rTransient != "" {
		con := fi.Name() + "#Transient"
		rg := reg("Transient")
		bad := ""
		if rg.may.Has("call:getInstance") || rg.may.Has("call:getSingleton") || rg.may.Has("read:"+ownerField(w, ro.cache)) {
			bad = "the Transient clause consults a cache: a transient instance can be handed out twice"
		}
		// every exit past the dispatch is the result of createInstance(descriptor)
		fl := rg.fl
		created := fl.Solve(Spec{Must: true, Node: func(n ast.Node, in Facts) (gen, kill []string) {
			for _, c := range callsIn(n, false) {
				if ro.isCreate(callee(info, c)) {
					gen = append(gen, "created")
				}
			}
			return
		}})
		n := 0
		for _, ex := range fl.Exits() {
			if ex.Ret == nil || !created.AtExit(ex).Has("lt:Transient") {
				continue // an exit before the lifetime was looked at (built-ins, not found)
			}
			n++
			okRet := false
			if len(ex.Ret.Results) == 1 {
				if c, ok := unparen(ex.Ret.Results[0]).(*ast.CallExpr); ok && ro.isCreate(callee(info, c)) {
					okRet = true
				}
			}
			if len(ex.Ret.Results) == 2 {
				// instance, err := createInstance(); return instance, err / return nil, err
				okRet = rg.must.AtExit(ex).Has("call:createInstance") || created.AtExit(ex).Has("created")
			}
			if !okRet {
				bad = "an exit of the Transient clause does not come from a fresh createInstance call"
			}
		}
		if n == 0 {
			bad = "no exit of resolve is specific to transient services"
		}
		r.Check(bad == "", rTransient, con, d.pos, true, "transient resolution always constructs and never looks at a cache", bad)
	}
}

// ruleWhoWritesTables: R01.1 / R02.1 who-may-write the singleton table and the scoped cache.
func ruleWhoWritesTables(w *World, r *Report, rSingle, rCache string, la *LockAnalysis) {
	ro := resolveRoles(w)
	closeP := w.MustFn(w.Godi, "(*provider).Close")
	closeS := w.MustFn(w.Godi, "(*scope).Close")
	accesses := collectAccesses(w, la, func(v *types.Var) bool { return v == ro.singletons || v == ro.cache })
	n := 0
	// the storing functions and their private halves: the only doors into the instance tables
	doors := map[*FuncInfo]string{}
	if ro.setInstance != nil {
		doors[ro.setInstance] = "setInstance"
	}
	if ro.setSingleton != nil {
		doors[ro.setSingleton] = "setSingleton"
	}
	// the creation chain may file the instance it has just produced under the sibling descriptors
	// recorded for the same registration (a repair of D1 does) - but not under a descriptor it
	// looks up in the registry at that moment: what is found there was registered by someone else
	chain := map[*FuncInfo]string{}
	if ro.createInstance != nil {
		chain[ro.createInstance] = "createInstance"
	}
	for c := range ro.creators {
		if t := w.Decls[c]; t != nil {
			chain[t] = t.Name()
		}
	}
	for f, why := range w.HelperClosure(chain) {
		looksUp := false
		for _, c := range callsIn(f.Decl.Body, true) {
			if cal := callee(f.Pkg.TypesInfo, c); w.IsFn(cal, w.Godi, "(*provider).findDescriptor") || w.IsFn(cal, w.Godi, "(*provider).findGroupDescriptors") {
				looksUp = true
			}
		}
		if !looksUp {
			if _, have := doors[f]; !have {
				doors[f] = "creation chain: " + why
			}
		}
	}
	doors = w.HelperClosure(doors)
	for _, a := range accesses {
		fi := a.Unit.fi
		switch a.Field {
		case ro.singletons:
			if rSingle == "" {
				continue
			}
			m := ""
			switch {
			case a.Kind == "method" && a.Call != nil:
				m = callee(a.Unit.pkg.TypesInfo, a.Call).Name()
			case a.Kind == "index-write": // the table as a plain map
				m = "Store"
			case a.Kind == "delete" || a.Kind == "clear":
				m = "Delete"
			case a.Kind == "write":
				if a.Unit != nil && isAllocatingFunc(w, a.Unit.fi, namedOfStruct(w, "provider")) {
					continue
				}
				m = "Delete" // the whole table is replaced
			case a.Kind == "read":
				m = "Load"
			default:
				continue
			}
			n++
			con := fmt.Sprintf("%s#singletons.%s/%d", fi.Name(), m, n)
			switch m {
			case "Store", "LoadOrStore", "Swap", "CompareAndSwap":
				_, door := doors[fi]
				okW := fi == ro.setSingleton || (door && onlyFromSingletonPaths(w, ro, fi, 3))
				r.Check(okW, rSingle, con, a.Pos(), false, "the singleton table is written only by setSingleton (or its private caching half, reached under Lifetime == Singleton only)", "the singleton table is written in "+fi.Name()+" (only setSingleton and its private halves, reached from setInstance's Singleton clause, may store singletons: an instance that enters the table by another door was not produced for the descriptor it is filed under)")
			case "Delete", "LoadAndDelete", "Clear", "CompareAndDelete":
				r.Check(fi == closeP || isHelperOfClose(w, fi), rSingle, con, a.Pos(), false, "singletons are removed only by the provider's Close", "a singleton is removed from the table in "+fi.Name()+", outside the provider's Close: a later resolution fails or a new instance appears")
			default:
				r.OK(rSingle, con, a.Pos(), false, "read")
			}
		case ro.cache:
			if rCache == "" || !a.IsWrite() {
				continue
			}
			n++
			con := fmt.Sprintf("%s#instances:%s/%d", fi.Name(), a.Kind, n)
			switch {
			case a.Kind == "index-write":
				// only when setInstance dispatches to Scoped (in its body or in a private helper called from there)
				_, door := doors[fi]
				ok := door && onlyUnderLifetime(w, ro, fi, a.Pos(), "Scoped", 3)
				r.Check(ok, rCache, con, a.Pos(), true, "the scoped cache is filled only in the Scoped clause of setInstance", "the scoped cache is written in "+fi.Name()+", not by setInstance (or a private half of it) under Lifetime == Scoped: an instance that enters the cache by another door was not produced for the descriptor it is filed under")
			case a.Kind == "write":
				// whole-map assignment: fresh make, nil
				val := ""
				if as, ok := a.Node.(*ast.AssignStmt); ok {
					for i, l := range as.Lhs {
						if fieldOf(a.Unit.pkg.TypesInfo, l) == a.Field && i < len(as.Rhs) {
							val = exprStr(as.Rhs[i])
						}
					}
				}
				ok := (val == "nil" && (fi == closeS || isHelperOfClose(w, fi))) || strings.HasPrefix(val, "make(")
				r.Check(ok, rCache, con, a.Pos(), false, "the cache field receives nil (Close) or a fresh map", "the cache field of a scope is assigned "+val+" in "+fi.Name()+": scopes may share a cache")
			default:
				r.Check(fi == closeS, rCache, con, a.Pos(), false, "cache emptied by Close", "the scoped cache is modified ("+a.Kind+") in "+fi.Name())
			}
		}
	}
	// the cache in the scope literal is a fresh make
	if rCache != "" {
		fi := ro.allocScope
		info := fi.Pkg.TypesInfo
		ast.Inspect(fi.Decl.Body, func(x ast.Node) bool {
			if cl, ok := x.(*ast.CompositeLit); ok {
				if tv, ok := info.Types[cl]; ok && isNamedType(tv.Type, modPath, "scope") {
					v, has := compositeFields(cl)[ro.cache.Name()]
					ok := has && strings.HasPrefix(exprStr(v), "make(")
					if !has {
						// the literal leaves the cache out and the allocating function assigns it right away:
						// every assignment of the field in that function is a fresh make
						n, fresh := 0, true
						ast.Inspect(fi.Decl.Body, func(y ast.Node) bool {
							if as, isAs := y.(*ast.AssignStmt); isAs {
								for i, l := range as.Lhs {
									if fieldOf(info, l) == ro.cache && i < len(as.Rhs) {
										n++
										if !strings.HasPrefix(exprStr(as.Rhs[i]), "make(") {
											fresh = false
										}
										v = as.Rhs[i]
									}
								}
							}
							return true
						})
						ok = n > 0 && fresh
					}
					r.Check(ok, rCache, fi.Name()+"#fresh-cache", cl.Pos(), false, "every new scope starts with its own empty cache", "a new scope's cache is "+exprStr(v)+", not a fresh map: scopes share instances")
				}
			}
			return true
		})
		// isolation: the cache is only reached through the receiver
		for _, a := range accesses {
			if a.Field != ro.cache {
				continue
			}
			base := exprStr(a.Base)
			if strings.Contains(base, "parentScope") || strings.Contains(base, "rootScope") || strings.Contains(base, "parent.") {
				n++
				r.Fail(rCache, fmt.Sprintf("%s#foreign-cache/%d", a.Unit.fi.Name(), n), a.Pos(), "%s reaches the cache of another scope (%s.%s): scoped instances are shared between scopes", a.Unit.fi.Name(), base, a.Field.Name())
			}
		}
		// getInstance is only called on the receiver
		for _, fi := range w.FuncsOf(w.Godi) {
			info := fi.Pkg.TypesInfo
			for _, c := range callsIn(fi.Decl.Body, true) {
				if ro.getInstance != nil && callee(info, c) == ro.getInstance.Obj {
					rcv, _, _ := methodCall(c)
					if id, ok := unparen(rcv).(*ast.Ident); !ok || !w.isReceiver(info.Uses[id]) {
						n++
						r.Fail(rCache, fmt.Sprintf("%s#foreign-lookup/%d", fi.Name(), n), c.Pos(), "%s looks an instance up in another scope's cache (%s): a scope would hand out its parent's or the root's scoped instance", fi.Name(), exprStr(rcv))
					}
				}
			}
		}
	}
}

// ruleCreateCallSites: R01.3 who-may-call createInstance, and the guards of eager creation.
func ruleCreateCallSites(w *World, r *Report, rule string) {
	ro := resolveRoles(w)
	allowed := w.HelperClosure(map[*FuncInfo]string{ro.resolve: "resolve (Scoped / Transient clauses)", ro.runInits: "scope initializer pass", ro.createAll: "eager singleton creation"})
	n := 0
	for _, fi := range w.FuncsOf(w.Godi) {
		info := fi.Pkg.TypesInfo
		for _, c := range callsIn(fi.Decl.Body, true) {
			if !ro.isCreate(callee(info, c)) {
				continue
			}
			n++
			con := fmt.Sprintf("%s#createInstance/%d", fi.Name(), n)
			why, ok := allowed[fi]
			r.Check(ok, rule, con, c.Pos(), false, "allowed caller: "+why, "createInstance is called from "+fi.Name()+": constructors may only run in the scope initializer pass, the scoped/transient clauses of resolve and eager singleton creation")
		}
	}
	// eager creation: guarded by Lifetime != Singleton -> continue and by already-present -> continue on a from-descriptor key
	fi := ro.createAll
	for _, f := range w.Within(ro.createAll, 3) {
		if ro.creators[f.Obj] || recvIs(f, "scope") {
			continue
		}
		for _, c := range callsIn(f.Decl.Body, true) {
			if ro.isCreate(callee(f.Pkg.TypesInfo, c)) {
				fi = f // the function that holds the call (eager creation itself or a private helper of it)
			}
		}
	}
	r.Analysed(fi)
	info := fi.Pkg.TypesInfo
	fl := w.FlowOf(fi)
	// presence variable from getSingleton(key)
	present := map[types.Object]string{}
	ast.Inspect(fi.Decl.Body, func(x ast.Node) bool {
		if as, ok := x.(*ast.AssignStmt); ok && len(as.Lhs) == 2 && len(as.Rhs) == 1 {
			if tbl, key := ro.lookupSite(w, info, as.Rhs[0]); tbl == ro.singletons && key != nil {
				present[objOf(info, as.Lhs[1])] = exprStr(key)
			}
		}
		return true
	})
	sol := fl.Solve(Spec{Must: true, Edge: func(b *cfg.Block, i int, cond ast.Expr, in Facts) (gen, kill []string) {
		g, _ := condEdge(w, info, 1)(b, i, cond, in)
		gen = append(gen, g...)
		if cond != nil {
			c := unparen(cond)
			neg := false
			if u, ok := c.(*ast.UnaryExpr); ok && u.Op == token.NOT {
				c, neg = unparen(u.X), true
			}
			if k, ok := present[objOf(info, c)]; ok && (i == 1) != neg {
				gen = append(gen, "absent:"+k)
			}
		}
		return
	}})
	for _, nd := range fl.Nodes() {
		for _, c := range callsIn(nd, false) {
			if !ro.isCreate(callee(info, c)) || len(c.Args) != 1 {
				continue
			}
			d := exprStr(c.Args[0])
			bf := sol.Before[nd]
			isSingleton := bf.Has(d+".Lifetime==Singleton") || knownSingleton(w, fi, nd, c.Args[0], 3)
			for k := range bf {
				if strings.HasPrefix(k, d+".Lifetime!=") {
					// a != test taken on its false edge also yields ==; handled by condFacts
				}
				_ = k
			}
			r.Check(isSingleton, rule, ro.createAll.Name()+"#only-singletons", c.Pos(), true,
				"eager creation constructs only descriptors whose lifetime was tested to be Singleton",
				"eager creation can construct a descriptor without having established that its lifetime is Singleton: scoped or transient constructors run at Build")
			absent := false
			for k := range bf {
				if strings.HasPrefix(k, "absent:") {
					absent = true
				}
			}
			r.Check(absent, rule, ro.createAll.Name()+"#skip-existing", c.Pos(), true,
				"eager creation skips a descriptor whose key is already in the singleton table (a multi-output constructor has already produced it)",
				"eager creation does not skip descriptors whose key is already in the singleton table: a constructor that yields several singletons runs once per output")
			// the key tested is built from the same descriptor
			keyOK := false
			for _, kc := range keyConsIn(w, info, fi.Decl.Body) {
				if kc.typ == "instanceKey" && kc.f["Type"].baseStr == d && kc.f["Key"].baseStr == d && kc.f["Group"].baseStr == d &&
					kc.f["Type"].sel == "Type" && kc.f["Key"].sel == "Key" && kc.f["Group"].sel == "Group" {
					keyOK = true
				}
			}
			r.Check(keyOK, rule, ro.createAll.Name()+"#key-from-descriptor", c.Pos(), false,
				"the key tested is instanceKey{Type, Key, Group} of the descriptor being constructed", "the presence test does not use the full (Type, Key, Group) identity of the descriptor being constructed")
		}
	}
}

// ruleKeyLiterals: R-KEYLIT. A key literal that takes Type from a carrier with
// Key/Group fields must also take Key/Group (no dropped component).
func ruleKeyLiterals(w *World, r *Report, rule string) {
	seq := map[string]int{}
	for _, fi := range w.AllFuncs() {
		if fi.Pkg != w.Godi && fi.Pkg != w.Graph {
			continue
		}
		info := fi.Pkg.TypesInfo
		for _, kc := range keyConsIn(w, info, fi.Decl.Body) {
			name := kc.typ
			nt := namedOf(info.TypeOf(kc.node))
			if nt == nil {
				continue
			}
			st := nt.Underlying().(*types.Struct)
			tf, hasT := kc.f["Type"]
			if !hasT {
				continue
			}
			key := fi.Name() + "#" + name + "{" + tf.str + "}"
			seq[key]++
			con := fmt.Sprintf("%s/%d", key, seq[key])
			if tf.baseStr == "" {
				r.OK(rule, con, kc.pos, false, "key built from an API argument")
				continue
			}
			var carrier *types.Struct
			if n := namedOf(tf.baseType); n != nil {
				carrier, _ = n.Underlying().(*types.Struct)
			}
			if carrier == nil {
				r.OK(rule, con, kc.pos, false, "key built from a non-struct source")
				continue
			}
			has := func(s *types.Struct, fld string) bool {
				for i := 0; i < s.NumFields(); i++ {
					if s.Field(i).Name() == fld {
						return true
					}
				}
				return false
			}
			var dropped []string
			for _, comp := range []string{"Key", "Group"} {
				if has(st, comp) && has(carrier, comp) {
					if v, set := kc.f[comp]; !set || v.str == "nil" || v.str == `""` {
						if !set || tf.sel != "" {
							dropped = append(dropped, comp)
						}
					}
				}
			}
			// a component that is known to be empty where the key is built is not dropped
			if len(dropped) > 0 {
				fl := w.FlowOf(fi)
				sol := fl.Solve(Spec{Must: true, Edge: condEdge(w, info, 2)})
				if nd := fl.NodeContaining(kc.pos); nd != nil {
					var rest []string
					for _, comp := range dropped {
						fact := tf.baseStr + "." + comp + map[string]string{"Key": "=nil", "Group": "=empty"}[comp]
						if !sol.Before[nd].Has(fact) {
							rest = append(rest, comp)
						}
					}
					dropped = rest
				}
			}
			// the group linker names a group's reference node: {Type, Key: nil, Group} by construction
			if len(dropped) == 1 && dropped[0] == "Key" && kc.f["Group"].sel == "Group" && fi.Pkg == w.Graph {
				if lk := groupLinker(w); lk != nil && (fi == lk || isHelperOfNamed(w, fi, lk.Obj.Name())) {
					dropped = nil
				}
			}
			// frozen exception: the services view has no group component
			if len(dropped) == 1 && dropped[0] == "Group" && (fi.Obj.Name() == "validateLifetimes" || isHelperOfNamed(w, fi, "validateLifetimes")) && tf.baseStr != "dep" {
				dropped = nil
			}
			r.Check(len(dropped) == 0, rule, con, kc.pos, false,
				"the key carries every identity component its source has",
				fmt.Sprintf("%s takes Type from %s but drops %v: keyed or grouped services collapse onto the unkeyed identity (wrong wiring, missed cycles, missed lifetime conflicts)", name, tf.baseStr, dropped))
		}
	}
}

// isHelperOfNamed: fi is a private function reached only from the function named name.
func isHelperOfNamed(w *World, fi *FuncInfo, name string) bool {
	for c := range w.Callers()[fi] {
		if c.Obj.Name() != name {
			return false
		}
	}
	return len(w.Callers()[fi]) > 0
}

// ruleFunctionIdentity: R04.1.
func ruleFunctionIdentity(w *World, r *Report, rule string) {
	ro := resolveRoles(w)
	// (a) Pointer()-derived identities carry the reflect.Type too
	n := 0
	for _, fi := range w.AllFuncs() {
		if fi.Pkg != w.Godi && fi.Pkg != w.Graph && fi.Pkg != w.Refl {
			continue
		}
		info := fi.Pkg.TypesInfo
		var stack []ast.Node
		ast.Inspect(fi.Decl.Body, func(x ast.Node) bool {
			if x == nil {
				stack = stack[:len(stack)-1]
				return true
			}
			stack = append(stack, x)
			c, ok := x.(*ast.CallExpr)
			if !ok {
				return true
			}
			cal := callee(info, c)
			if !isFunc(cal, "reflect", "Value", "Pointer") && !isFunc(cal, "reflect", "Value", "UnsafePointer") {
				return true
			}
			n++
			con := fmt.Sprintf("%s#Pointer/%d", fi.Name(), n)
			good, how := false, ""
			// v.Kind() == reflect.Pointer && … v.Pointer(): the address of a value, not the code pointer of a function
			if sel, isSel := unparen(c.Fun).(*ast.SelectorExpr); isSel {
				if ro := objOf(info, sel.X); ro != nil {
					isData := false
					ast.Inspect(fi.Decl.Body, func(y ast.Node) bool {
						be, ok := y.(*ast.BinaryExpr)
						if !ok || be.Op != token.EQL {
							return true
						}
						for _, pair := range [][2]ast.Expr{{be.X, be.Y}, {be.Y, be.X}} {
							kc, isC := unparen(pair[0]).(*ast.CallExpr)
							if !isC {
								continue
							}
							ks, isS := unparen(kc.Fun).(*ast.SelectorExpr)
							if !isS || ks.Sel.Name != "Kind" || objOf(info, ks.X) != ro {
								continue
							}
							if ko := objOf(info, pair[1]); ko != nil && (ko.Name() == "Pointer" || ko.Name() == "Ptr") {
								isData = true
							}
							if s2, ok := unparen(pair[1]).(*ast.SelectorExpr); ok && (s2.Sel.Name == "Pointer" || s2.Sel.Name == "Ptr") {
								isData = true
							}
						}
						return true
					})
					if isData {
						r.OK(rule, con, c.Pos(), false, "the value is tested to be of pointer kind: Pointer() is the address of a value, not a code pointer")
						return true
					}
				}
			}
			// runtime.FuncForPC(v.Pointer()): the pointer names the function for a message, it identifies nothing
			if len(stack) >= 2 {
				if pc, isC := stack[len(stack)-2].(*ast.CallExpr); isC && isFunc(callee(info, pc), "runtime", "", "FuncForPC") {
					r.OK(rule, con, c.Pos(), false, "the code pointer is only used to look up the function's name (runtime.FuncForPC)")
					return true
				}
			}
			if len(stack) >= 2 {
				switch p := stack[len(stack)-2].(type) {
				case *ast.AssignStmt:
					for _, l := range p.Lhs {
						if fv := fieldOf(info, l); fv != nil {
							// the struct holding it has a reflect.Type field, and that field has been
							// given a value on every path to this assignment
							if st, ok := info.TypeOf(selBase(l)).Underlying().(*types.Struct); ok {
								for i := 0; i < st.NumFields(); i++ {
									if isNamedType(st.Field(i).Type(), "reflect", "Type") {
										if typeFieldSetBefore(w, fi, p, selBase(l), st.Field(i)) {
											good, how = true, "stored in a key struct that also carries the reflect.Type"
										} else {
											how = "stored in a key struct whose reflect.Type component is not set on this path"
										}
									}
								}
							}
						}
					}
				case *ast.KeyValueExpr:
					good, how = true, "component of a composite key"
				}
			}
			r.Check(good, rule, con, c.Pos(), false, "the code pointer is "+how,
				"the code pointer of a function value is used as an identity on its own: closures of one literal, method values and reflect.MakeFunc functions share it, so distinct constructors are confused")
			return true
		})
	}
	// the analysis cache must not be keyed by a bare uintptr
	_, st := w.Struct(w.Refl, "Analyzer")
	for i := 0; i < st.NumFields(); i++ {
		f := st.Field(i)
		if m, ok := f.Type().Underlying().(*types.Map); ok && isNamedType(m.Elem(), modPath+"/internal/reflection", "ConstructorInfo") {
			bad := ""
			if b, ok := m.Key().Underlying().(*types.Basic); ok && b.Kind() == types.Uintptr {
				bad = "the analysis cache is keyed by a bare code pointer"
			}
			r.Check(bad == "", rule, "Analyzer."+f.Name()+"#key-type", f.Pos(), false, "the analysis cache key is a struct (pointer, type)", bad)
		}
	}
	// (b) createInstance calls the constructor stored in the descriptor (the invoker call
	// may live in a private helper that receives the descriptor)
	fi := ro.createInstance
	info := fi.Pkg.TypesInfo
	dParam := descriptorParam(fi)
	m := 0
	for _, site := range invokeSites(w, ro) {
		g, c := site.fn, site.call
		ginfo := g.Pkg.TypesInfo
		gd := descriptorParam(g)
		cal := callee(ginfo, c)
		m++
		passes := false
		var invokeParam int = -1
		for i, a := range c.Args {
			if isFieldNamed(ginfo, a, "Constructor") && gd != nil && objOf(ginfo, selBase(a)) == gd {
				passes, invokeParam = true, i
			}
		}
		if g != fi && !site.descriptorForwarded {
			passes = false
		}
		r.Check(passes, rule, fmt.Sprintf("%s#constructor-operand/%d", fi.Name(), m), c.Pos(), true,
			"the invoker is handed descriptor.Constructor of the descriptor being constructed",
			"the invoker is not given descriptor.Constructor: it calls the function stored in the shared analysis cache, which belongs to whichever registration with the same code pointer was analysed first")
		// follow the parameter to reflect.Value.Call
		if passes {
			t := w.Decls[cal]
			ok := t != nil && paramReachesCall(w, t, invokeParam, 3)
			r.Check(ok, rule, fmt.Sprintf("%s#constructor-reaches-call/%d", fi.Name(), m), c.Pos(), true,
				"the constructor value handed over is the receiver of reflect.Value.Call",
				"the constructor value handed to the invoker is not what reflect.Value.Call is invoked on")
		}
	}
	if m == 0 {
		r.Fail(rule, fi.Name()+"#constructor-operand/0", fi.Decl.Pos(), "createInstance never invokes a constructor")
	}
	// (c) instance registrations bypass the invoker
	fl := w.FlowOf(fi)
	sol := fl.Solve(Spec{Must: true, Edge: condEdge(w, info, 1)})
	invoking := map[*types.Func]bool{}
	for _, site := range invokeSites(w, ro) {
		if site.fn != fi {
			invoking[site.fn.Obj] = true
		}
	}
	for _, nd := range fl.Nodes() {
		for _, c := range callsIn(nd, false) {
			cal := callee(info, c)
			if cal != nil && ((recvNamed(cal) != nil && recvNamed(cal).Obj().Name() == "ConstructorInvoker") || invoking[cal]) {
				r.Check(sol.Before[nd].Has(objName(dParam)+".IsInstance=false"), rule, fi.Name()+"#instances-bypass-invoker", c.Pos(), true,
					"instance registrations are answered with descriptor.Instance before the invoker is reached",
					"instance registrations go through the invoker, which returns the instance value held by the shared analysis record (keyed by type): the second instance of a type resolves to the first")
			}
		}
	}
}

// descriptorParam: the (first) parameter of type *Descriptor.
func descriptorParam(fi *FuncInfo) types.Object {
	info := fi.Pkg.TypesInfo
	for _, f := range fi.Decl.Type.Params.List {
		for _, nm := range f.Names {
			if o := info.Defs[nm]; o != nil && isNamedType(o.Type(), modPath, "Descriptor") {
				return o
			}
		}
	}
	return nil
}

type invokeSite struct {
	fn                  *FuncInfo
	call                *ast.CallExpr
	descriptorForwarded bool // fn is a helper and createInstance hands it its own descriptor
}

// invokeSites: the ConstructorInvoker.Invoke* calls of createInstance and of the
// private helpers it calls (depth 2).
func invokeSites(w *World, ro *roles) []invokeSite {
	var out []invokeSite
	top := ro.createInstance
	topD := descriptorParam(top)
	for _, g := range w.Within(top, 2) {
		if g != top && (g == ro.setInstance || g == ro.setSingleton || g == ro.resolve || g == ro.resolveTop) {
			continue
		}
		ginfo := g.Pkg.TypesInfo
		for _, c := range callsIn(g.Decl.Body, true) {
			cal := callee(ginfo, c)
			if cal == nil || recvNamed(cal) == nil || recvNamed(cal).Obj().Name() != "ConstructorInvoker" || !strings.HasPrefix(cal.Name(), "Invoke") {
				continue
			}
			site := invokeSite{fn: g, call: c}
			if g != top {
				// every call of g from the chain passes the descriptor being created
				fwd := false
				for caller := range w.Callers()[g] {
					cd := descriptorParam(caller)
					for _, cc := range callsIn(caller.Decl.Body, true) {
						if callee(caller.Pkg.TypesInfo, cc) != g.Obj {
							continue
						}
						fwd = false
						for _, a := range cc.Args {
							if cd != nil && objOf(caller.Pkg.TypesInfo, a) == cd {
								fwd = true
							}
						}
					}
				}
				_ = topD
				site.descriptorForwarded = fwd
			}
			out = append(out, site)
		}
	}
	return out
}

// paramReachesCall: parameter idx of fi is, possibly through same-package calls, the receiver of reflect.Value.Call.
func paramReachesCall(w *World, fi *FuncInfo, idx int, depth int) bool {
	if depth < 0 || idx < 0 {
		return false
	}
	info := fi.Pkg.TypesInfo
	var params []types.Object
	for _, f := range fi.Decl.Type.Params.List {
		for _, nm := range f.Names {
			params = append(params, info.Defs[nm])
		}
	}
	if idx >= len(params) {
		return false
	}
	p := params[idx]
	ok := false
	for _, c := range callsIn(fi.Decl.Body, true) {
		cal := callee(info, c)
		if isFunc(cal, "reflect", "Value", "Call") || isFunc(cal, "reflect", "Value", "CallSlice") {
			if rcv, _, isM := methodCall(c); isM && objOf(info, rcv) == p {
				ok = true
			}
			continue
		}
		if cal != nil {
			if t := w.Decls[cal]; t != nil {
				for i, a := range c.Args {
					if objOf(info, a) == p && paramReachesCall(w, t, i, depth-1) {
						ok = true
					}
				}
			}
		}
	}
	return ok
}

// ruleGroupOrder: R04.2 - group resolution and registration keep order.
func ruleGroupOrder(w *World, r *Report, rule string) {
	gg := w.MustFn(w.Godi, "(*scope).GetGroup")
	r.Analysed(gg)
	info := gg.Pkg.TypesInfo
	found := false
	ast.Inspect(gg.Decl.Body, func(x ast.Node) bool {
		switch s := x.(type) {
		case *ast.RangeStmt:
			o := objOf(info, s.X)
			if o == nil {
				return true
			}
			if sl, ok := o.Type().Underlying().(*types.Slice); !ok || !isNamedType(sl.Elem(), modPath, "Descriptor") {
				return true
			}
			found = true
			// body appends the resolved instance
			app := false
			for _, c := range callsIn(s.Body, false) {
				if exprStr(c.Fun) == "append" && !c.Ellipsis.IsValid() {
					app = true
				}
			}
			bad := ""
			if !app {
				bad = "the resolved members are not appended in traversal order"
			}
			inspectNoLit(s.Body, func(m ast.Node) bool {
				if b, ok := m.(*ast.BranchStmt); ok && (b.Tok == token.CONTINUE || b.Tok == token.BREAK) {
					bad = "members are skipped (" + b.Tok.String() + ")"
				}
				return true
			})
			r.Check(bad == "", rule, gg.Name()+"#member-loop", s.Pos(), false, "members are resolved front to back and appended in that order; none is skipped", bad)
		case *ast.ForStmt:
			for _, c := range callsIn(s.Body, false) {
				if exprStr(c.Fun) == "append" {
					found = true
					var iObj types.Object
					if as, ok := s.Init.(*ast.AssignStmt); ok && len(as.Lhs) == 1 {
						iObj = objOf(info, as.Lhs[0])
					}
					dir := "odd"
					if iObj != nil {
						// collection: any indexed object in the body
						var coll types.Object
						ast.Inspect(s.Body, func(y ast.Node) bool {
							if ix, ok := y.(*ast.IndexExpr); ok && objOf(info, ix.Index) == iObj {
								coll = objOf(info, ix.X)
							}
							return true
						})
						dir, _ = indexLoopDirection(info, s, iObj, coll)
					}
					r.Check(dir == "fwd", rule, gg.Name()+"#member-loop", s.Pos(), false, "forward index loop", "group members are resolved "+map[string]string{"rev": "in reverse registration order", "odd": "by an irregular traversal"}[dir])
				}
			}
		}
		return true
	})
	if !found {
		r.Fail(rule, gg.Name()+"#member-loop", gg.Decl.Pos(), "GetGroup has no loop resolving the members of the group in order")
	}
	// no result assembled inside a range over a map in the ordered-result functions
	for _, name := range []struct {
		p  string
		fn string
	}{{"godi", "(*scope).GetGroup"}, {"godi", "(*provider).findGroupDescriptors"}, {"godi", "(*collection).ToSlice"}, {"godi", "(*collection).insertDescriptor"},
		{"reflection", "(*ResultObjectProcessor).ProcessResultObject"}, {"reflection", "(*ParamObjectBuilder).BuildParamObject"}, {"reflection", "(*ConstructorInvoker).buildArguments"}} {
		fi := w.Fn(w.pkgByShort(name.p), name.fn)
		if fi == nil {
			continue
		}
		finfo := fi.Pkg.TypesInfo
		bad := ""
		ast.Inspect(fi.Decl.Body, func(x ast.Node) bool {
			if rs, ok := x.(*ast.RangeStmt); ok {
				if tv, ok := finfo.Types[rs.X]; ok {
					if _, isMap := tv.Type.Underlying().(*types.Map); isMap {
						for _, c := range callsIn(rs.Body, false) {
							if exprStr(c.Fun) == "append" {
								bad = "a result is assembled while ranging over the map " + exprStr(rs.X)
							}
						}
					}
				}
			}
			return true
		})
		r.Check(bad == "", rule, fi.Name()+"#no-map-order", fi.Decl.Pos(), false, "no ordered result depends on map iteration", fi.Name()+": "+bad+": the order differs from run to run")
	}
}

// fieldLoop is a loop over the fields of a struct type or value through
// reflection, in any surface form:
//
//	for i := 0; i < t.NumField(); i++ { f := t.Field(i) … }
//	for i := range t.NumField() { … }        n := t.NumField(); for i := range n { … }
type fieldLoop struct {
	Stmt ast.Stmt
	Body *ast.BlockStmt
}

func (l *fieldLoop) Pos() token.Pos { return l.Stmt.Pos() }

// structFieldLoop finds the first loop in body whose index variable is the
// argument of a reflect Field(i) call in its body.
func structFieldLoop(info *types.Info, body ast.Node) *fieldLoop {
	var out *fieldLoop
	ast.Inspect(body, func(x ast.Node) bool {
		if out != nil {
			return false
		}
		var idx types.Object
		var b *ast.BlockStmt
		switch s := x.(type) {
		case *ast.ForStmt:
			if as, ok := s.Init.(*ast.AssignStmt); ok && len(as.Lhs) == 1 {
				idx, b = objOf(info, as.Lhs[0]), s.Body
			}
		case *ast.RangeStmt:
			if s.Key != nil {
				if tv, ok := info.Types[s.X]; ok && tv.Type != nil {
					if bt, isB := tv.Type.Underlying().(*types.Basic); isB && bt.Info()&types.IsInteger != 0 {
						idx, b = objOf(info, s.Key), s.Body
					}
				}
			}
		}
		if idx == nil || b == nil {
			return true
		}
		for _, c := range callsIn(b, false) {
			cal := callee(info, c)
			if cal == nil || cal.Name() != "Field" || cal.Pkg() == nil || cal.Pkg().Path() != "reflect" || len(c.Args) != 1 {
				continue
			}
			if objOf(info, c.Args[0]) == idx {
				out = &fieldLoop{Stmt: x.(ast.Stmt), Body: b}
				return false
			}
		}
		return true
	})
	return out
}

// ruleFieldFilters: R04.3 / R04.6 sibling agreement of the four field walkers.
func ruleFieldFilters(w *World, r *Report, rule string) {
	sibs := []string{"(*Analyzer).analyzeParamObject", "(*ParamObjectBuilder).BuildParamObject", "(*Analyzer).analyzeResultObject", "(*ResultObjectProcessor).ProcessResultObject"}
	type res struct{ unexported, embedded, ignore bool }
	skipPreds := map[string][]string{}
	for _, name := range sibs {
		fi := w.MustFn(w.Refl, name)
		r.Analysed(fi)
		info := fi.Pkg.TypesInfo
		// the loop over struct fields: for i := 0; i < T.NumField(); i++ (in the function or a private helper of it)
		var loop *fieldLoop
		var loopFn *FuncInfo // the private helper that holds the loop, if it is not fi itself
		for _, f := range w.Within(fi, 2) {
			if loop != nil {
				break
			}
			loop = structFieldLoop(f.Pkg.TypesInfo, f.Decl.Body)
			if loop != nil && f != fi {
				loopFn = f
			}
		}
		con := fi.Name() + "#field-filters"
		if loop == nil {
			r.Fail(rule, con, fi.Decl.Pos(), "no loop over the struct's fields")
			continue
		}
		got := res{}
		preds, guardEnd := skipPredicates(w, info, loop.Body)
		if loopFn != nil {
			// the walker is a shared (possibly generic) helper: its parameters are read as the
			// arguments this sibling passes (collectFields(a, structType, inType, build))
			for _, c := range callsIn(fi.Decl.Body, true) {
				cal := callee(info, c)
				if cal != nil && cal.Origin() != nil {
					cal = cal.Origin()
				}
				if cal == loopFn.Obj {
					skipSubst = &substCtx{h: loopFn, call: c, callerInfo: info}
					preds, guardEnd = skipPredicates(w, loopFn.Pkg.TypesInfo, loop.Body)
					skipSubst = nil
					break
				}
			}
		}
		for _, c := range preds {
			switch {
			case strings.Contains(c, "IsExported()") && strings.HasPrefix(c, "!"):
				got.unexported = true
			case strings.Contains(c, ".Anonymous") && strings.Contains(c, "isInOutType"):
				got.embedded = true
			case strings.HasSuffix(c, ".Ignore"):
				got.ignore = true
			}
		}
		var missing []string
		if !got.unexported {
			missing = append(missing, "unexported fields")
		}
		if !got.embedded {
			missing = append(missing, "the embedded In/Out marker")
		}
		if !got.ignore {
			missing = append(missing, `fields tagged inject:"-"`)
		}
		r.Check(len(missing) == 0, rule, con, loop.Pos(), false, "skips unexported fields, the embedded marker and ignored fields like its siblings",
			fi.Name()+" does not skip "+strings.Join(missing, ", ")+" while its sibling does: the analysis (graph edges, registrations) and the runtime walk of the same struct disagree")
		// the use of the field (Set / resolve / append of a record) comes after the guards
		bad := ""
		for _, c := range callsIn(loop.Body, false) {
			cal := callee(info, c)
			if cal == nil {
				continue
			}
			if (cal.Name() == "Set" || w.IsFn(cal, w.Refl, "(*ParamObjectBuilder).resolveFieldDependency")) && c.Pos() < guardEnd {
				bad = cal.Name() + " is reached before all skip guards"
			}
		}
		r.Check(bad == "", rule, fi.Name()+"#use-after-guards", loop.Pos(), true, "fields are only touched after the three skip guards", bad)
		// normalised skip predicates, for the pairwise comparison below
		sort.Strings(preds)
		skipPreds[name] = preds
	}
	for _, pair := range [][2]string{{sibs[0], sibs[1]}, {sibs[2], sibs[3]}} {
		a, b := skipPreds[pair[0]], skipPreds[pair[1]]
		// the runtime walkers have extra value-level skips (invalid / nil values); compare the
		// predicates that only look at the field declaration and its tags
		static := func(ps []string) []string {
			var out []string
			for _, p := range ps {
				if strings.Contains(p, "StructField") || strings.Contains(p, "TagInfo") {
					out = append(out, p)
				}
			}
			return out
		}
		sa, sb := static(a), static(b)
		same := len(sa) == len(sb)
		for i := 0; same && i < len(sa); i++ {
			if sa[i] != sb[i] {
				same = false
			}
		}
		r.Check(same, rule, "siblings("+pair[0]+","+pair[1]+")#same-skip-predicates", token.NoPos, true,
			"the analysis and the runtime walk of the same struct skip exactly the same fields",
			fmt.Sprintf("the analysis skips fields on %v but the runtime walk on %v: a field the runtime injects/extracts is invisible to the dependency list (cycle, lifetime and presence validation, creation order), or vice versa", sa, sb))
	}
	// tag -> (group, name, plain) dispatch order in the two resolvers
	for _, name := range []string{"(*ConstructorInvoker).resolveParameter", "(*ParamObjectBuilder).resolveFieldDependency"} {
		fi := w.MustFn(w.Refl, name)
		info := fi.Pkg.TypesInfo
		var order []string
		var poss []token.Pos
		for _, c := range callsIn(fi.Decl.Body, false) {
			if cal := callee(info, c); cal != nil && recvNamed(cal) != nil && recvNamed(cal).Obj().Name() == "DependencyResolver" {
				order = append(order, cal.Name())
				poss = append(poss, c.Pos())
			}
		}
		good := len(order) == 3 && order[0] == "GetGroup" && order[1] == "GetKeyed" && order[2] == "Get"
		// each under its guard
		fl := w.FlowOf(fi)
		sol := fl.Solve(Spec{Must: true, Edge: condEdge(w, info, 1)})
		if good {
			for i, p := range poss {
				n := fl.NodeContaining(p)
				bf := sol.Before[n]
				has := func(suffix string) bool {
					for k := range bf {
						if strings.HasSuffix(k, suffix) {
							return true
						}
					}
					return false
				}
				switch i {
				case 0:
					good = good && has(".Group=nonempty")
				case 1:
					good = good && has(".Group=empty") && (has(".Key=nonnil") || has(".Name=nonempty"))
				case 2:
					good = good && has(".Group=empty") && (has(".Key=nil") || has(".Name=empty"))
				}
			}
		}
		r.Check(good, rule, fi.Name()+"#dispatch", fi.Decl.Pos(), true, "group tag -> GetGroup(element type), name tag -> GetKeyed, otherwise Get, in that priority",
			fi.Name()+" does not dispatch Group -> GetGroup, Key -> GetKeyed, else Get in that order under the matching guards: a dependency is resolved under another identity than the graph and the registry use")
	}
	// dependencies are derived from the same Parameters list the invoker iterates
	{
		bd := w.MustFn(w.Refl, "(*Analyzer).buildDependencies")
		info := bd.Pkg.TypesInfo
		ok := false
		var elem *iterLoop
		for _, il := range iterLoopsIn(info, bd.Decl.Body) {
			if !isFieldNamed(info, il.Coll, "Parameters") {
				continue
			}
			elem = il
			// an append that no condition controls, and no way to leave an iteration early
			unconditional := false
			for _, c := range callsIn(il.Body, false) {
				if exprStr(c.Fun) == "append" {
					if conds, _ := controllingCondsInfo(info, il.Body, c.Pos()); len(conds) == 0 {
						unconditional = true
					}
				}
			}
			// or: deps[i] = dep into a slice made with len(Parameters), at the loop's own index
			ast.Inspect(il.Body, func(m ast.Node) bool {
				as, isAs := m.(*ast.AssignStmt)
				if !isAs || len(as.Lhs) != 1 {
					return true
				}
				ix, isIx := unparen(as.Lhs[0]).(*ast.IndexExpr)
				if !isIx || il.Index == nil || objOf(info, ix.Index) != il.Index {
					return true
				}
				mk, isMk := resolveLocal(info, bd.Decl.Body, ix.X, 2).(*ast.CallExpr)
				if !isMk || exprStr(mk.Fun) != "make" || len(mk.Args) != 2 {
					return true
				}
				if ln, isLen := unparen(mk.Args[1]).(*ast.CallExpr); isLen && exprStr(ln.Fun) == "len" && len(ln.Args) == 1 && isFieldNamed(info, ln.Args[0], "Parameters") {
					if conds, _ := controllingCondsInfo(info, il.Body, as.Pos()); len(conds) == 0 {
						unconditional = true
					}
				}
				return true
			})
			noSkip := true
			inspectNoLit(il.Body, func(m ast.Node) bool {
				if b, isB := m.(*ast.BranchStmt); isB && (b.Tok == token.CONTINUE || b.Tok == token.BREAK) {
					noSkip = false
				}
				if _, isR := m.(*ast.ReturnStmt); isR {
					noSkip = false
				}
				return true
			})
			ok = unconditional && noSkip
		}
		r.Check(ok, rule, bd.Name()+"#one-dependency-per-parameter", bd.Decl.Pos(), false, "one Dependency per analysed parameter, none dropped", "buildDependencies does not produce exactly one Dependency for each analysed parameter: the graph's edges differ from what the invoker resolves")
		// key/group/optional copied
		var missing []string
		copied := func(v ast.Expr, nm string) bool {
			if isFieldNamed(info, v, nm) {
				return true
			}
			// a local every definition of which is a field of the parameter (Type: param.Type or param.ElemType)
			o := objOf(info, v)
			if o == nil || nm != "Type" {
				return false
			}
			n, good := 0, true
			ast.Inspect(bd.Decl.Body, func(y ast.Node) bool {
				if as, isAs := y.(*ast.AssignStmt); isAs && len(as.Lhs) == len(as.Rhs) {
					for i, l := range as.Lhs {
						if objOf(info, l) == o {
							n++
							if !isFieldNamed(info, as.Rhs[i], "Type") && !isFieldNamed(info, as.Rhs[i], "ElemType") {
								good = false
							}
						}
					}
				}
				return true
			})
			return n > 0 && good
		}
		_ = elem
		ast.Inspect(bd.Decl.Body, func(x ast.Node) bool {
			if cl, isCl := x.(*ast.CompositeLit); isCl {
				if tv, ok2 := info.Types[cl]; ok2 && isNamedType(tv.Type, modPath+"/internal/reflection", "Dependency") {
					f := compositeFields(cl)
					for _, nm := range []string{"Type", "Key", "Group", "Optional"} {
						if v, has := f[nm]; !has || !copied(v, nm) {
							missing = append(missing, nm)
						}
					}
				}
			}
			return true
		})
		r.Check(len(missing) == 0, rule, bd.Name()+"#identity-copied", bd.Decl.Pos(), false, "Type, Key, Group and Optional are copied from the parameter", fmt.Sprintf("the Dependency does not copy %v from the parameter", missing))
	}
}

var _ = sort.Strings

// ruleInitializersOnce: R02.6. newScope runs the initializer pass exactly once
// on every success path; the pass has a single createInstance in its loop body;
// the allocation function itself does not run it.
func ruleInitializersOnce(w *World, r *Report, rule string) {
	ro := resolveRoles(w)
	// initialised(f): every success exit of f (a function returning a scope and an error) returns a
	// scope on which the initializer pass has run exactly once - called on that very scope, directly
	// or inside a function that itself satisfies this. The receiver of the pass matters: a pass run
	// on another scope (the parent) does not initialise the new one and re-runs the other's.
	memo := map[*FuncInfo]string{}
	var initialised func(f *FuncInfo, depth int) string
	isScopeType := func(t types.Type) bool {
		return isNamedType(t, modPath, "scope") || isNamedType(t, modPath, "Scope")
	}
	initialised = func(f *FuncInfo, depth int) string {
		if v, ok := memo[f]; ok {
			return v
		}
		memo[f] = "recursive"
		info := f.Pkg.TypesInfo
		fl := w.FlowOf(f)
		var recv types.Object
		if f.Decl.Recv != nil && len(f.Decl.Recv.List[0].Names) == 1 {
			recv = info.Defs[f.Decl.Recv.List[0].Names[0]]
		}
		foreign := ""
		gen := func(n ast.Node, in Facts) (out []string) {
			add := func(o types.Object) {
				if o == nil {
					return
				}
				if in.Has("init1:" + o.Name()) {
					out = append(out, "init2:"+o.Name())
				}
				out = append(out, "init1:"+o.Name())
			}
			for _, c := range callsIn(n, false) {
				cal := callee(info, c)
				if cal == nil {
					continue
				}
				if cal == ro.runInits.Obj {
					rcv, _, _ := methodCall(c)
					o := objOf(info, rcv)
					add(o)
					if o != nil && o == recv && f != ro.runInits {
						foreign = "the initializer pass is run on the receiver " + o.Name() + " at " + w.Pos(c.Pos()) + ", not on the scope being created"
					}
					continue
				}
				// v, err := g(...) with g initialising its result
				if t := w.Decls[cal]; t != nil && depth > 0 && t != f {
					sig := cal.Type().(*types.Signature)
					if sig.Results().Len() == 2 && isScopeType(sig.Results().At(0).Type()) && isErrorType(sig.Results().At(1).Type()) {
						if as, ok := n.(*ast.AssignStmt); ok && len(as.Rhs) == 1 && unparen(as.Rhs[0]) == ast.Expr(c) && len(as.Lhs) == 2 {
							if initialised(t, depth-1) == "" {
								add(objOf(info, as.Lhs[0]))
							}
						}
					}
				}
			}
			return
		}
		must := fl.Solve(Spec{Must: true, Node: func(n ast.Node, in Facts) ([]string, []string) { return gen(n, in), nil }})
		may := fl.Solve(Spec{Must: false, Node: func(n ast.Node, in Facts) ([]string, []string) { return gen(n, in), nil }})
		bad := ""
		n := 0
		for _, ex := range fl.Exits() {
			if ex.Ret == nil || len(ex.Ret.Results) != 2 || !isNilIdent(info, ex.Ret.Results[1]) {
				continue
			}
			o := objOf(info, ex.Ret.Results[0])
			if o == nil {
				// return newScope(...): a tail call
				if c, ok := unparen(ex.Ret.Results[0]).(*ast.CallExpr); ok {
					if t := w.Decls[callee(info, c)]; t != nil && depth > 0 && initialised(t, depth-1) == "" {
						n++
						continue
					}
				}
				bad = "the success exit at " + w.Pos(ex.Pos) + " returns " + exprStr(ex.Ret.Results[0]) + ", whose initialisation cannot be traced"
				continue
			}
			n++
			switch {
			case !must.AtExit(ex).Has("init1:" + o.Name()):
				bad = "the scope returned at " + w.Pos(ex.Pos) + " (" + o.Name() + ") can be handed out without the initializer pass having run on it"
			case may.AtExit(ex).Has("init2:" + o.Name()):
				bad = "the scope returned at " + w.Pos(ex.Pos) + " can have run the initializer pass more than once"
			}
		}
		if bad == "" && foreign != "" {
			bad = foreign
		}
		if bad == "" && n == 0 {
			bad = "no success exit"
		}
		memo[f] = bad
		return bad
	}
	for _, owner := range []string{"scope", "provider"} {
		fi := w.MustFn(w.Godi, "(*"+owner+").CreateScope")
		r.Analysed(fi)
		bad := initialised(fi, 3)
		r.Check(bad == "", rule, fi.Name()+"#initialised-once", fi.Decl.Pos(), true,
			"every scope handed to a caller has had exactly one initializer pass, run on that scope", fi.Name()+": "+bad+": scoped initialization functions do not run for the new scope (or run again for another)")
	}
	if ns := ro.newScope; ns != nil {
		r.Analysed(ns)
		bad := initialised(ns, 2)
		r.Check(bad == "", rule, ns.Name()+"#initialised-once", ns.Decl.Pos(), true, "a scope is handed out only after exactly one initializer pass", ns.Name()+": "+bad)
	}
	// loop body of the pass: one createInstance, no retry
	ri := ro.runInits
	rinfo := ri.Pkg.TypesInfo
	calls := 0
	for _, c := range callsIn(ri.Decl.Body, true) {
		if ro.isCreate(callee(rinfo, c)) {
			calls++
		}
	}
	r.Check(calls == 1, rule, ri.Name()+"#one-call-per-initializer", ri.Decl.Pos(), false, "each initializer is constructed once per pass", fmt.Sprintf("the initializer pass has %d createInstance call sites", calls))
}

// ruleArgsPerInvocation: R03.3b.
func ruleArgsPerInvocation(w *World, r *Report, rule string) {
	for _, s := range []struct{ fn, callee string }{{"(*ConstructorInvoker).buildArguments", "(*ConstructorInvoker).resolveParameter"}, {"(*ParamObjectBuilder).BuildParamObject", "(*ParamObjectBuilder).resolveFieldDependency"}} {
		top := w.MustFn(w.Refl, s.fn)
		fi := top
		for _, f := range w.Within(top, 2) {
			for _, c := range callsIn(f.Decl.Body, true) {
				if cal := callee(f.Pkg.TypesInfo, c); w.IsFn(cal, w.Refl, s.callee) {
					fi = f
				}
			}
		}
		info := fi.Pkg.TypesInfo
		ok := false
		conditional := ""
		ast.Inspect(fi.Decl.Body, func(x ast.Node) bool {
			var body *ast.BlockStmt
			switch l := x.(type) {
			case *ast.RangeStmt:
				body = l.Body
			case *ast.ForStmt:
				body = l.Body
			}
			if body != nil {
				n := 0
				for _, c := range callsIn(body, false) {
					if cal := callee(info, c); w.IsFn(cal, w.Refl, s.callee) {
						n++
					}
				}
				if n == 1 {
					ok = true
					// … and on every iteration that is not skipped: the call may depend only on the
					// loop's skip guards (`if cond { continue }`), never on "already resolved" tests
					for _, c := range callsIn(body, false) {
						if cal := callee(info, c); !w.IsFn(cal, w.Refl, s.callee) {
							continue
						}
						conds, vals := controllingCondsInfo(info, body, c.Pos())
						for i, cd := range conds {
							guard := false
							ast.Inspect(body, func(y ast.Node) bool {
								if ifs, isIf := y.(*ast.IfStmt); isIf && ifs.Cond == cd && len(ifs.Body.List) >= 1 {
									// a skip guard only skips: `if cond { continue }`. A body that does something
									// with the field first (fills it from another source) is another way of
									// resolving it, which bypasses the one dispatch on group / name / type
									if br, isBr := ifs.Body.List[len(ifs.Body.List)-1].(*ast.BranchStmt); isBr && br.Tok == token.CONTINUE && !vals[i] && len(ifs.Body.List) == 1 {
										guard = true
									}
									if _, isRet := ifs.Body.List[len(ifs.Body.List)-1].(*ast.ReturnStmt); isRet && !vals[i] {
										guard = true // an error exit taken before the call
									}
								}
								return true
							})
							if !guard {
								conditional = "the resolution at " + w.Pos(c.Pos()) + " only happens when " + exprStr(cd) + " is " + fmt.Sprint(vals[i])
							}
						}
					}
				}
			}
			return true
		})
		if conditional != "" {
			r.Fail(rule, top.Name()+"#resolved-every-iteration", top.Decl.Pos(), "%s: %s - a parameter can be filled from an earlier resolution (two parameters of one transient type receive the same instance)", top.Name(), conditional)
		} else {
			r.OK(rule, top.Name()+"#resolved-every-iteration", top.Decl.Pos(), true, "the resolver is called on every iteration that is not skipped")
		}
		// the argument slice is allocated per call
		fresh := true
		ast.Inspect(fi.Decl.Body, func(x ast.Node) bool {
			if as, isAs := x.(*ast.AssignStmt); isAs {
				for i, l := range as.Lhs {
					if ix, isIx := unparen(l).(*ast.IndexExpr); isIx {
						if o := objOf(info, ix.X); o != nil {
							// o must be defined by make in this function
							def := false
							ast.Inspect(fi.Decl.Body, func(y ast.Node) bool {
								if a2, ok2 := y.(*ast.AssignStmt); ok2 {
									for j, l2 := range a2.Lhs {
										if objOf(info, l2) == o && j < len(a2.Rhs) {
											if c, isC := unparen(a2.Rhs[j]).(*ast.CallExpr); isC && exprStr(c.Fun) == "make" {
												def = true
											} else {
												def = false
											}
										}
									}
								}
								return true
							})
							if !def {
								fresh = false
							}
						}
					}
					_ = i
				}
			}
			return true
		})
		r.Check(ok && fresh, rule, top.Name()+"#per-invocation", fi.Decl.Pos(), false,
			"each parameter / field is resolved once per invocation into a freshly allocated argument list",
			top.Name()+" does not resolve each parameter once per invocation into storage allocated by this call")
	}
}

// reexportC07 runs the rule set of C07 and files the obligations of the given
// rules under another rule id.
func reexportC07(w *World, r *Report, rule string, ids ...string) {
	sub := NewReport(r.Prop, r.Tier, w)
	for _, id := range []string{"R07.1", "R07.2", "R07.3", "R07.4", "R07.5", "R07.6", "R07.7", "R07.8", "R07.9", "R07.10", "R07.11", "R07.12"} {
		sub.Rule(id, 0, "")
	}
	checkC07(w, sub)
	for _, o := range sub.Obs {
		for _, id := range ids {
			if o.Rule == id {
				o.Rule = rule
				r.Obs = append(r.Obs, o)
			}
		}
	}
}

// ruleLifetimeTableComplete re-exports the table-before-checks part of C07 for C06.
func ruleLifetimeTableComplete(w *World, r *Report, rule string) {
	sub := NewReport(r.Prop, r.Tier, w)
	for _, id := range []string{"R07.1", "R07.2", "R07.3", "R07.4", "R07.5", "R07.6", "R07.7", "R07.8", "R07.9", "R07.10", "R07.11", "R07.12"} {
		sub.Rule(id, 0, "")
	}
	checkC07(w, sub)
	for _, o := range sub.Obs {
		if o.Rule == "R07.3" {
			o.Rule = rule
			r.Obs = append(r.Obs, o)
		}
	}
}

// normExpr renders an expression with every local variable replaced by the
// name of its type, so that two functions using different variable names for
// the same things yield the same text.
func normExpr(info *types.Info, e ast.Expr) string {
	switch x := e.(type) {
	case *ast.ParenExpr:
		return "(" + normExpr(info, x.X) + ")"
	case *ast.Ident:
		if v, ok := info.Uses[x].(*types.Var); ok && !v.IsField() && v.Parent() != nil && v.Parent() != v.Pkg().Scope() {
			if n := namedOf(v.Type()); n != nil {
				return n.Obj().Name()
			}
			return v.Type().String()
		}
		return x.Name
	case *ast.SelectorExpr:
		return normExpr(info, x.X) + "." + x.Sel.Name
	case *ast.UnaryExpr:
		return x.Op.String() + normExpr(info, x.X)
	case *ast.BinaryExpr:
		return normExpr(info, x.X) + " " + x.Op.String() + " " + normExpr(info, x.Y)
	case *ast.CallExpr:
		var args []string
		for _, a := range x.Args {
			args = append(args, normExpr(info, a))
		}
		return normExpr(info, x.Fun) + "(" + strings.Join(args, ", ") + ")"
	}
	return exprStr(e)
}

// ruleCreateChain: R03.5. Wrappers between resolve and the constructing core
// (single-flight, instrumentation, ...) may short-cut only for lifetimes other
// than Transient: every exit of a wrapper that does not return the outcome of a
// call further down the chain must be dominated by a fact that excludes
// Transient (Lifetime == Scoped/Singleton, Lifetime != Transient, IsInstance).
func ruleCreateChain(w *World, r *Report, rule string) {
	ro := resolveRoles(w)
	n := 0
	for _, fi := range w.FuncsOf(w.Godi) {
		if !ro.creators[fi.Obj] || fi == ro.createInstance {
			continue
		}
		r.Analysed(fi)
		info := fi.Pkg.TypesInfo
		fl := w.FlowOf(fi)
		sol := fl.Solve(Spec{Must: true,
			Node: func(nd ast.Node, in Facts) (gen, kill []string) {
				for _, c := range callsIn(nd, false) {
					if ro.isCreate(callee(info, c)) {
						gen = append(gen, "created")
					}
				}
				return
			},
			Edge: condEdge(w, info, 1)})
		for _, ex := range fl.Exits() {
			if ex.Panic || ex.Ret == nil {
				continue
			}
			n++
			con := fmt.Sprintf("%s#exit/%d", fi.Name(), n)
			at := sol.AtExit(ex)
			direct := false
			if len(ex.Ret.Results) == 1 {
				if c, ok := unparen(ex.Ret.Results[0]).(*ast.CallExpr); ok && ro.isCreate(callee(info, c)) {
					direct = true
				}
			}
			excl := false
			for k := range at {
				if strings.HasSuffix(k, ".Lifetime==Scoped") || strings.HasSuffix(k, ".Lifetime==Singleton") || strings.HasSuffix(k, ".Lifetime!=Transient") || strings.HasSuffix(k, ".IsInstance=true") {
					excl = true
				}
			}
			isErr := len(ex.Ret.Results) == 2 && isNilIdent(info, ex.Ret.Results[0]) && !isNilIdent(info, ex.Ret.Results[1])
			// a wrapper that is only reached where the lifetime dispatch decided for Scoped / Singleton
			if !excl {
				excl = wrapperExcludesTransient(w, ro, fi, 3)
			}
			r.Check(direct || at.Has("created") || excl || isErr, rule, con, ex.Pos, true,
				"the wrapper returns what a call further down the creation chain produced on this path, or the path excludes transient services",
				fi.Name()+" can return an instance that was not produced by this call on a path that transient services take too: concurrent or repeated requests for a transient share one instance")
		}
	}
	if n == 0 {
		r.OK(rule, "creation-chain#no-wrappers", ro.createInstance.Decl.Pos(), false, "resolve calls the constructing function directly")
	}
}

// onlyUnderLifetime: the code at pos in fi executes only when setInstance has
// dispatched to lifetime L - fi is setInstance itself, or a private helper all of
// whose call sites satisfy the same condition.
func onlyUnderLifetime(w *World, ro *roles, fi *FuncInfo, pos token.Pos, L string, depth int) bool {
	// setInstance, or a storing helper of the creation chain that dispatches on the lifetime itself
	if fi == ro.setInstance || (recvIs(fi, "scope") && fi != ro.resolve && fi != ro.resolveTop && !ro.isCreate(fi.Obj) && lifetimeDispatch(w, fi).dispatches()) {
		d := lifetimeDispatch(w, fi)
		if !d.dispatches() || !d.reachableUnder(w, L, pos) {
			return false
		}
		for _, other := range []string{"Singleton", "Scoped", "Transient"} {
			if other != L && d.reachableUnder(w, other, pos) {
				return false
			}
		}
		return true
	}
	if depth == 0 || fi.Obj.Exported() {
		return false
	}
	callers := w.Callers()[fi]
	if len(callers) == 0 {
		return false
	}
	for c := range callers {
		found := false
		for _, call := range callsIn(c.Decl.Body, true) {
			if callee(c.Pkg.TypesInfo, call) == fi.Obj {
				found = true
				if !onlyUnderLifetime(w, ro, c, call.Pos(), L, depth-1) {
					return false
				}
			}
		}
		if !found {
			return false
		}
	}
	return true
}

// knownSingleton: the descriptor denoted by e at node nd of fn is known to have
// Lifetime == Singleton - by a condition on the way, or by provenance: e is a
// parameter and every call site passes such a descriptor; e is the result of a
// private helper every non-nil return of which is such a descriptor.
func knownSingleton(w *World, fn *FuncInfo, nd ast.Node, e ast.Expr, depth int) bool {
	info := fn.Pkg.TypesInfo
	fl := w.FlowOf(fn)
	sol := fl.Solve(Spec{Must: true, Edge: condEdge(w, info, 1)})
	var bf Facts
	if nd != nil {
		bf = sol.Before[nd]
		if _, isRet := nd.(*ast.ReturnStmt); isRet {
			bf = sol.Before[nd]
		}
	}
	if bf.Has(exprStr(e) + ".Lifetime==Singleton") {
		return true
	}
	if depth == 0 {
		return false
	}
	o := objOf(info, e)
	if o == nil {
		return false
	}
	// a parameter: every call site
	idx, k := -1, 0
	for _, f := range fn.Decl.Type.Params.List {
		for _, nm := range f.Names {
			if info.Defs[nm] == o {
				idx = k
			}
			k++
		}
	}
	if idx >= 0 {
		if fn.Obj.Exported() {
			return false
		}
		n := 0
		for caller := range w.Callers()[fn] {
			cfl := w.FlowOf(caller)
			for _, cn := range cfl.Nodes() {
				for _, c := range callsIn(cn, false) {
					if callee(caller.Pkg.TypesInfo, c) != fn.Obj || idx >= len(c.Args) {
						continue
					}
					n++
					if !knownSingleton(w, caller, cn, c.Args[idx], depth-1) {
						return false
					}
				}
			}
		}
		return n > 0
	}
	// a local assigned once from a private helper's result
	var call *ast.CallExpr
	pos, cnt := -1, 0
	ast.Inspect(fn.Decl.Body, func(x ast.Node) bool {
		if as, ok := x.(*ast.AssignStmt); ok {
			for i, l := range as.Lhs {
				if objOf(info, l) == o {
					cnt++
					if len(as.Rhs) == 1 {
						if c, isC := unparen(as.Rhs[0]).(*ast.CallExpr); isC {
							call, pos = c, i
						}
					}
				}
			}
		}
		return true
	})
	if cnt != 1 || call == nil {
		return false
	}
	cal := callee(info, call)
	if cal == nil || cal.Exported() || w.Decls[cal] == nil {
		return false
	}
	h := w.Decls[cal]
	hfl := w.FlowOf(h)
	n := 0
	for _, ex := range hfl.Exits() {
		if ex.Ret == nil || pos >= len(ex.Ret.Results) {
			continue
		}
		res := ex.Ret.Results[pos]
		if isNilIdent(h.Pkg.TypesInfo, res) {
			continue
		}
		n++
		if !knownSingleton(w, h, ex.Ret, res, depth-1) {
			return false
		}
	}
	return n > 0
}

// skipPredicates: the normalised conditions on which an iteration of a field
// loop is abandoned before the field is used. Two forms are understood:
//
//	if COND { continue }
//	x, ok := helper(args…); if !ok { continue }      (helper: `if COND { return …, false }` …; return …, true)
//
// In the second form the helper's own conditions are returned with its
// parameters replaced by the (normalised) arguments, so that a walker that
// calls the helper and one that spells the tests out compare equal.
func skipPredicates(w *World, info *types.Info, body *ast.BlockStmt) (preds []string, guardEnd token.Pos) {
	okVar := map[types.Object]*ast.CallExpr{}
	for _, st := range body.List {
		if as, ok := st.(*ast.AssignStmt); ok && len(as.Rhs) == 1 && len(as.Lhs) >= 1 {
			if c, isC := unparen(as.Rhs[0]).(*ast.CallExpr); isC {
				if o := objOf(info, as.Lhs[len(as.Lhs)-1]); o != nil {
					if b, isB := o.Type().Underlying().(*types.Basic); isB && b.Info()&types.IsBoolean != 0 {
						okVar[o] = c
					}
				}
			}
		}
		ifs, ok := st.(*ast.IfStmt)
		if !ok || len(ifs.Body.List) != 1 {
			continue
		}
		b, ok := ifs.Body.List[0].(*ast.BranchStmt)
		if !ok || b.Tok != token.CONTINUE {
			continue
		}
		guardEnd = ifs.End()
		// `if !ok { continue }` on the result of a filter helper
		if u, isU := unparen(ifs.Cond).(*ast.UnaryExpr); isU && u.Op == token.NOT {
			if c, has := okVar[objOf(info, u.X)]; has {
				if hp := helperSkipPredicates(w, info, c); hp != nil {
					preds = append(preds, hp...)
					continue
				}
			}
		}
		if skipSubst != nil {
			preds = append(preds, normExprSub(info, ifs.Cond, skipSubst.h, skipSubst.call, skipSubst.callerInfo))
		} else {
			preds = append(preds, normExpr(info, ifs.Cond))
		}
	}
	return
}

// skipSubst, when set, makes skipPredicates read the parameters of the helper that
// holds the loop as the arguments of one call of it.
type substCtx struct {
	h          *FuncInfo
	call       *ast.CallExpr
	callerInfo *types.Info
}

var skipSubst *substCtx

func helperSkipPredicates(w *World, info *types.Info, c *ast.CallExpr) []string {
	cal := callee(info, c)
	if cal == nil || w.Decls[cal] == nil {
		return nil
	}
	h := w.Decls[cal]
	hinfo := h.Pkg.TypesInfo
	var out []string
	last := false
	for i, st := range h.Decl.Body.List {
		switch s := st.(type) {
		case *ast.IfStmt:
			if len(s.Body.List) == 1 {
				if ret, ok := s.Body.List[0].(*ast.ReturnStmt); ok && len(ret.Results) >= 1 && exprStr(ret.Results[len(ret.Results)-1]) == "false" {
					out = append(out, normExprSub(hinfo, s.Cond, h, c, info))
				}
			}
		case *ast.ReturnStmt:
			if i == len(h.Decl.Body.List)-1 && len(s.Results) >= 1 && exprStr(s.Results[len(s.Results)-1]) == "true" {
				last = true
			}
		}
	}
	if !last || len(out) == 0 {
		return nil
	}
	return out
}

// normExprSub: normExpr of an expression of helper h in which h's parameters are
// replaced by the normalised arguments of call c (made in a function with caller info).
func normExprSub(hinfo *types.Info, e ast.Expr, h *FuncInfo, c *ast.CallExpr, callerInfo *types.Info) string {
	argOf := map[types.Object]ast.Expr{}
	k := 0
	for _, f := range h.Decl.Type.Params.List {
		for _, nm := range f.Names {
			if k < len(c.Args) {
				a := unparen(c.Args[k])
				if ue, isU := a.(*ast.UnaryExpr); isU && ue.Op == token.AND {
					a = ue.X
				}
				argOf[hinfo.Defs[nm]] = a
			}
			k++
		}
	}
	var norm func(e ast.Expr) string
	norm = func(e ast.Expr) string {
		switch x := e.(type) {
		case *ast.ParenExpr:
			return "(" + norm(x.X) + ")"
		case *ast.Ident:
			if a, ok := argOf[hinfo.Uses[x]]; ok {
				return normExpr(callerInfo, a)
			}
			return normExpr(hinfo, x)
		case *ast.SelectorExpr:
			return norm(x.X) + "." + x.Sel.Name
		case *ast.UnaryExpr:
			return x.Op.String() + norm(x.X)
		case *ast.BinaryExpr:
			return norm(x.X) + " " + x.Op.String() + " " + norm(x.Y)
		case *ast.CallExpr:
			var args []string
			for _, a := range x.Args {
				args = append(args, norm(a))
			}
			return norm(x.Fun) + "(" + strings.Join(args, ", ") + ")"
		}
		return exprStr(e)
	}
	return norm(e)
}

// onlyFromSingletonPaths: fi is a private function every call site of which is
// setSingleton, or lies where a lifetime dispatch has decided for Singleton.
func onlyFromSingletonPaths(w *World, ro *roles, fi *FuncInfo, depth int) bool {
	if depth == 0 || fi.Obj.Exported() {
		return false
	}
	callers := w.Callers()[fi]
	if len(callers) == 0 {
		return false
	}
	for c := range callers {
		if c == ro.setSingleton {
			continue
		}
		for _, call := range callsIn(c.Decl.Body, true) {
			if callee(c.Pkg.TypesInfo, call) != fi.Obj {
				continue
			}
			if !onlyUnderLifetime(w, ro, c, call.Pos(), "Singleton", depth-1) {
				return false
			}
		}
	}
	return true
}

// wrapperExcludesTransient: every call site of the wrapper lies in resolve where
// the dispatch has decided for a lifetime other than Transient, or in another
// wrapper of which the same holds.
func wrapperExcludesTransient(w *World, ro *roles, fi *FuncInfo, depth int) bool {
	if depth == 0 {
		return false
	}
	callers := w.Callers()[fi]
	if len(callers) == 0 {
		return false
	}
	for c := range callers {
		for _, call := range callsIn(c.Decl.Body, true) {
			if callee(c.Pkg.TypesInfo, call) != fi.Obj {
				continue
			}
			if c == ro.resolve {
				d := lifetimeDispatch(w, c)
				if !d.dispatches() || d.reachableUnder(w, "Transient", call.Pos()) {
					return false
				}
				continue
			}
			if !ro.creators[c.Obj] || c == ro.createInstance || !wrapperExcludesTransient(w, ro, c, depth-1) {
				return false
			}
		}
	}
	return true
}

// typeFieldSetBefore: on every path to stmt the field tf of the struct variable
// base has been given a value (in the literal that initialised it or by an assignment).
func typeFieldSetBefore(w *World, fi *FuncInfo, stmt ast.Node, base ast.Expr, tf *types.Var) bool {
	info := fi.Pkg.TypesInfo
	bo := objOf(info, base)
	if bo == nil {
		return true // not a local key variable: nothing to track
	}
	var body *ast.BlockStmt = fi.Decl.Body
	ast.Inspect(fi.Decl.Body, func(x ast.Node) bool {
		if lit, ok := x.(*ast.FuncLit); ok && lit.Body.Pos() <= stmt.Pos() && stmt.End() <= lit.Body.End() {
			body = lit.Body
		}
		return true
	})
	fl := NewFlow(w, fi.Pkg, body, fi.Name())
	sol := fl.Solve(Spec{Must: true, Node: func(n ast.Node, in Facts) (gen, kill []string) {
		inspectNoLit(n, func(x ast.Node) bool {
			switch s := x.(type) {
			case *ast.AssignStmt:
				for i, l := range s.Lhs {
					if fieldOf(info, l) == tf && objOf(info, selBase(l)) == bo {
						gen = append(gen, "typ-set")
					}
					if objOf(info, l) == bo && i < len(s.Rhs) {
						kill = append(kill, "typ-set")
						if cl := litOf(s.Rhs[i]); cl != nil {
							if _, has := compositeFields(cl)[tf.Name()]; has {
								gen = append(gen, "typ-set")
							}
						}
					}
				}
			case *ast.ValueSpec:
				for i, nm := range s.Names {
					if info.Defs[nm] == bo && i < len(s.Values) {
						if cl := litOf(s.Values[i]); cl != nil {
							if _, has := compositeFields(cl)[tf.Name()]; has {
								gen = append(gen, "typ-set")
							}
						}
					}
				}
			}
			return true
		})
		return
	}})
	nd := fl.NodeContaining(stmt.Pos())
	return nd != nil && sol.Before[nd].Has("typ-set")
}

// clauseDelegate: in the flow of the dispatching function restricted to lifetime
// L, everything after the dispatch is a single `return recv.helper(args…)` to a
// private method of the same receiver: the clause is that method's body.
func clauseDelegate(w *World, d *ltDispatch, fl *Flow, must *Sol, L string) (*FuncInfo, *ast.CallExpr) {
	info := d.fi.Pkg.TypesInfo
	var rets []*ast.ReturnStmt
	for _, n := range fl.Nodes() {
		if ret, ok := n.(*ast.ReturnStmt); ok && must.Before[n].Has("lt:"+L) {
			rets = append(rets, ret)
		}
	}
	if len(rets) != 1 || len(rets[0].Results) != 1 {
		return nil, nil
	}
	c, ok := unparen(rets[0].Results[0]).(*ast.CallExpr)
	if !ok {
		return nil, nil
	}
	cal := callee(info, c)
	if cal == nil || cal.Exported() {
		return nil, nil
	}
	h := w.Decls[cal]
	if h == nil || h.Pkg != d.fi.Pkg || h == d.fi || h.Decl.Recv == nil || d.fi.Decl.Recv == nil {
		return nil, nil
	}
	rcv, _, isM := methodCall(c)
	if !isM || len(d.fi.Decl.Recv.List[0].Names) != 1 || objOf(info, rcv) != info.Defs[d.fi.Decl.Recv.List[0].Names[0]] {
		return nil, nil
	}
	for _, a := range c.Args {
		if objOf(info, a) == nil {
			return nil, nil
		}
	}
	return h, c
}
