package main

import (
	"fmt"
	"go/ast"
	"go/token"
	"go/types"
	"sort"
	"strings"

	"golang.org/x/tools/go/cfg"
)

// ---------------------------------------------------------------------------
// Build pipeline (doBuild)

type pipeline struct {
	fi        *FuncInfo
	info      *types.Info
	flow      *Flow
	alloc     ast.Node // node allocating the provider
	must      *Sol
	fillLoop  *ast.RangeStmt
	graphObj  types.Object
	stepNames map[string]string
}

// analysePipeline computes, for doBuild, which validation steps have certainly
// succeeded at each node: "ok:<step>" is generated on the success edge of
// `if err := <step>(); err != nil { return ... }`.
func analysePipeline(w *World) *pipeline {
	ro := resolveRoles(w)
	fi := ro.doBuild
	info := fi.Pkg.TypesInfo
	p := &pipeline{fi: fi, info: info, flow: w.FlowOf(fi)}
	// provider allocation node
	p.alloc, _ = providerAllocNode(w, ro, p.flow)
	// error variables of step calls
	stepOf := map[types.Object][]string{}
	ast.Inspect(fi.Decl.Body, func(x ast.Node) bool {
		if as, ok := x.(*ast.AssignStmt); ok && len(as.Rhs) == 1 && len(as.Lhs) >= 1 {
			if c, ok := unparen(as.Rhs[0]).(*ast.CallExpr); ok {
				if cal := callee(info, c); cal != nil && w.Decls[cal] != nil {
					if o := objOf(info, as.Lhs[len(as.Lhs)-1]); o != nil && isErrorType(o.Type()) {
						stepOf[o] = append(stepOf[o], cal.Name())
					}
				}
			}
		}
		return true
	})
	lastStep := ""
	p.must = p.flow.Solve(Spec{Must: true,
		Node: func(n ast.Node, in Facts) (gen, kill []string) {
			if as, ok := n.(*ast.AssignStmt); ok && len(as.Rhs) == 1 {
				if c, ok := unparen(as.Rhs[0]).(*ast.CallExpr); ok {
					if cal := callee(info, c); cal != nil && w.Decls[cal] != nil {
						kill = append(kill, "pending:*")
						gen = append(gen, "pending:"+cal.Name())
						lastStep = cal.Name()
					}
				}
			}
			for _, c := range callsIn(n, false) {
				if cal := callee(info, c); cal != nil && w.Decls[cal] != nil {
					gen = append(gen, "called:"+cal.Name())
				}
			}
			return
		},
		Edge: func(b *cfg.Block, i int, cond ast.Expr, in Facts) (gen, kill []string) {
			// completion of the graph-filling loop
			if b.Kind == cfg.KindRangeLoop && i == 1 {
				if rs, ok := b.Stmt.(*ast.RangeStmt); ok && rs == p.fillLoop {
					gen = append(gen, "ok:graph-filled")
				}
			}
			be, ok := unparen(cond).(*ast.BinaryExpr)
			if cond == nil || !ok || (be.Op != token.NEQ && be.Op != token.EQL) {
				return
			}
			var o types.Object
			if isNilIdent(info, be.Y) {
				o = objOf(info, be.X)
			} else if isNilIdent(info, be.X) {
				o = objOf(info, be.Y)
			}
			// the error variable may be bound by several steps (err = other(…) inside a failure
			// branch): the one that is pending on this path is the one being tested
			step, ok := "", false
			for _, cand := range stepOf[o] {
				if in.Has("pending:" + cand) {
					step, ok = cand, true
				}
			}
			if !ok {
				return
			}
			succeeded := (be.Op == token.EQL) == (i == 0)
			if succeeded {
				gen = append(gen, "ok:"+step)
			} else {
				gen = append(gen, "failed:"+step)
			}
			return
		}})
	_ = lastStep
	return p
}

// providerAllocNode finds, in the build function's CFG, the node that brings
// the provider into existence (the literal, or the call to the private helper
// that contains it) and the variable it is bound to.
func providerAllocNode(w *World, ro *roles, fl *Flow) (ast.Node, types.Object) {
	info := fl.Info
	var node ast.Node
	var obj types.Object
	for _, n := range fl.Nodes() {
		hit := false
		inspectNoLit(n, func(m ast.Node) bool {
			switch x := m.(type) {
			case *ast.CompositeLit:
				if tv, ok := info.Types[x]; ok && isNamedType(tv.Type, modPath, "provider") {
					hit = true
				}
			case *ast.CallExpr:
				if cal := callee(info, x); cal != nil && ro.allocProvider != nil && cal == ro.allocProvider.Obj && ro.allocProvider != ro.doBuild {
					hit = true
				}
			}
			return true
		})
		if hit {
			node = n
			if as, ok := n.(*ast.AssignStmt); ok && len(as.Lhs) >= 1 {
				obj = objOf(info, as.Lhs[0])
			}
		}
	}
	return node, obj
}

// ruleGraphFill: R05.1 - every descriptor is added to the graph (only a nil
// test of the element may skip one), then a checked DetectCycles, all before
// the provider exists.
func ruleBuildPipeline(w *World, r *Report, rFill, rCycle, rLifetimes, rDeps, rSingletons string) {
	ro := resolveRoles(w)
	rg := resolveRegistry(w)
	fi := ro.doBuild
	r.Analysed(fi)
	info := fi.Pkg.TypesInfo
	// locate the fill loop first (needed by the pipeline facts)
	var fill *ast.RangeStmt
	var addCall *ast.CallExpr
	ast.Inspect(fi.Decl.Body, func(x ast.Node) bool {
		rs, ok := x.(*ast.RangeStmt)
		if !ok {
			return true
		}
		for _, c := range callsIn(rs.Body, false) {
			if cal := callee(info, c); cal != nil && strings.HasPrefix(cal.Name(), "AddProvider") && recvNamed(cal) != nil && recvNamed(cal).Obj().Name() == "DependencyGraph" {
				fill, addCall = rs, c
			}
		}
		return true
	})
	if rFill != "" {
		con := fi.Name() + "#graph-fill"
		if fill == nil {
			r.Fail(rFill, con, fi.Decl.Pos(), "doBuild has no loop adding the descriptors to the dependency graph")
		} else {
			bad := ""
			// source: the descriptor list (field or a local copy of it)
			srcOK := fieldOf(info, fill.X) == rg.all
			if o := objOf(info, fill.X); o != nil {
				if f, how := localOrigin(w, fi, o); f == rg.all && how == "copy" {
					srcOK = true
				}
			}
			if !srcOK {
				bad = "the loop ranges over " + exprStr(fill.X) + ", not over the list of all descriptors"
			}
			elem := objOf(info, fill.Value)
			if len(addCall.Args) != 1 || objOf(info, addCall.Args[0]) != elem || elem == nil {
				bad = "the graph is not given the loop's own element"
			}
			// skips: only `if elem == nil { continue }`
			for _, st := range fill.Body.List {
				ifs, ok := st.(*ast.IfStmt)
				if !ok {
					continue
				}
				if isInside(addCall, ifs) {
					if ifs.Init == nil || !isInside(addCall, ifs.Init) {
						bad = "the descriptor is only added when " + exprStr(ifs.Cond)
					}
					continue
				}
				skips := false
				inspectNoLit(ifs.Body, func(m ast.Node) bool {
					if b, ok := m.(*ast.BranchStmt); ok && (b.Tok == token.CONTINUE || b.Tok == token.BREAK) {
						skips = true
					}
					return true
				})
				if skips && !isNilTestOf(info, ifs.Cond, func(e ast.Expr) bool { return objOf(info, e) == elem }, false) {
					bad = "descriptors are skipped when " + exprStr(ifs.Cond) + ": their dependencies are invisible to cycle detection and ordering"
				}
			}
			r.Check(bad == "", rFill, con, fill.Pos(), true, "every registered descriptor is added to the dependency graph (only a nil element is skipped)", bad)
		}
	}
	if ro.cycleHelper != nil {
		for _, id := range []string{rCycle, rFill, rLifetimes, rDeps, rSingletons} {
			if id != "" {
				r.Undecided(id, fi.Name()+"#pipeline-split", fi.Decl.Pos(), "graph fill and cycle check live in %s, a helper of %s that is not of the plain shape the analysis inlines (one caller, one success return at the end, error propagated unchanged): the order of the build pipeline is not decided", ro.cycleHelper.Name(), fi.Name())
				break
			}
		}
		return
	}
	p := analysePipelineWith(w, fill)
	if p.alloc == nil {
		for _, id := range []string{rCycle, rFill, rLifetimes, rDeps, rSingletons} {
			if id != "" {
				r.Undecided(id, fi.Name()+"#provider-alloc", fi.Decl.Pos(), "the function that runs the cycle check (%s) does not allocate the provider: the build pipeline is not in one function (or a tail helper) any more, its order cannot be decided", fi.Name())
				break
			}
		}
		return
	}
	at := p.must.Before[p.alloc]
	need := func(rule, step, what string) {
		if rule == "" {
			return
		}
		con := fi.Name() + "#before-provider:" + step
		r.Check(at.Has("ok:"+step), rule, con, p.alloc.Pos(), true,
			what+" has succeeded on every path that reaches the allocation of the provider",
			"a provider can be built on a path on which "+what+" did not run (or its error was not checked): the step is skipped, conditional, or its result ignored")
	}
	need(rFill, "graph-filled", "the loop adding every descriptor to the graph")
	stepName := func(display, fallback string) string {
		if f := w.Fn(w.Godi, display); f != nil {
			return f.Obj.Name()
		}
		return fallback
	}
	need(rCycle, "DetectCycles", "the cycle check (DetectCycles)")
	need(rLifetimes, stepName("(*collection).validateLifetimes", "validateLifetimes"), "lifetime validation")
	depsName := "validateDependencies"
	if f := presenceCheckFn(w); f != nil {
		depsName = f.Obj.Name()
	}
	need(rDeps, depsName, "the missing-dependency check")
	// singleton creation checked before the success return
	if rSingletons != "" {
		n := 0
		for _, ex := range p.flow.Exits() {
			if ex.Ret == nil || len(ex.Ret.Results) != 2 || !isNilIdent(info, ex.Ret.Results[1]) {
				continue
			}
			n++
			f := p.must.AtExit(ex)
			r.Check(f.Has("ok:"+ro.createAll.Obj.Name()), rSingletons, fmt.Sprintf("%s#success-exit/%d", fi.Name(), n), ex.Pos, true,
				"Build returns a provider only after eager singleton creation succeeded",
				"Build can return a provider without eager singleton creation having succeeded")
		}
	}
}

func analysePipelineWith(w *World, fill *ast.RangeStmt) *pipeline {
	p0 := &pipeline{fillLoop: fill}
	ro := resolveRoles(w)
	fi := ro.doBuild
	info := fi.Pkg.TypesInfo
	p0.fi, p0.info, p0.flow = fi, info, w.FlowOf(fi)
	// re-run analysePipeline logic with the fill loop known
	q := analysePipeline(w)
	q.fillLoop = fill
	// the Edge closure of analysePipeline captured p (without fillLoop): recompute
	stepOf := map[types.Object][]string{}
	ast.Inspect(fi.Decl.Body, func(x ast.Node) bool {
		if as, ok := x.(*ast.AssignStmt); ok && len(as.Rhs) == 1 && len(as.Lhs) >= 1 {
			if c, ok := unparen(as.Rhs[0]).(*ast.CallExpr); ok {
				if cal := callee(info, c); cal != nil && w.Decls[cal] != nil {
					if o := objOf(info, as.Lhs[len(as.Lhs)-1]); o != nil && isErrorType(o.Type()) {
						stepOf[o] = append(stepOf[o], cal.Name())
					}
				}
			}
		}
		return true
	})
	q.must = q.flow.Solve(Spec{Must: true,
		Node: func(n ast.Node, in Facts) (gen, kill []string) {
			if as, ok := n.(*ast.AssignStmt); ok && len(as.Rhs) == 1 {
				if c, ok := unparen(as.Rhs[0]).(*ast.CallExpr); ok {
					if cal := callee(info, c); cal != nil && w.Decls[cal] != nil {
						kill = append(kill, "pending:*")
						gen = append(gen, "pending:"+cal.Name())
					}
				}
			}
			return
		},
		Edge: func(b *cfg.Block, i int, cond ast.Expr, in Facts) (gen, kill []string) {
			if b.Kind == cfg.KindRangeLoop && i == 1 && fill != nil && b.Stmt == ast.Stmt(fill) {
				gen = append(gen, "ok:graph-filled")
			}
			be, ok := unparen(cond).(*ast.BinaryExpr)
			if cond == nil || !ok || (be.Op != token.NEQ && be.Op != token.EQL) {
				return
			}
			var o types.Object
			if isNilIdent(info, be.Y) {
				o = objOf(info, be.X)
			} else if isNilIdent(info, be.X) {
				o = objOf(info, be.Y)
			}
			// the error variable may be bound by several steps (err = other(…) inside a failure
			// branch): the one that is pending on this path is the one being tested
			step, ok := "", false
			for _, cand := range stepOf[o] {
				if in.Has("pending:" + cand) {
					step, ok = cand, true
				}
			}
			if !ok {
				return
			}
			if (be.Op == token.EQL) == (i == 0) {
				gen = append(gen, "ok:"+step)
			} else {
				gen = append(gen, "failed:"+step)
			}
			return
		}})
	return q
}

// ruleProviderOnlyFromBuild: R05.2.
func ruleProviderOnlyFromBuild(w *World, r *Report, rule string) {
	ro := resolveRoles(w)
	n := 0
	for _, fi := range w.AllFuncs() {
		info := fi.Pkg.TypesInfo
		ast.Inspect(fi.Decl.Body, func(x ast.Node) bool {
			if cl, ok := x.(*ast.CompositeLit); ok {
				if tv, ok := info.Types[cl]; ok && isNamedType(tv.Type, modPath, "provider") {
					n++
					inBuild := false
					for _, f := range w.Within(ro.doBuild, 3) {
						if f == fi {
							inBuild = true
						}
					}
					r.Check(inBuild, rule, fmt.Sprintf("%s#provider-literal/%d", fi.Name(), n), cl.Pos(), false,
						"providers are allocated only by the validated build", "a provider is allocated in "+fi.Name()+", bypassing the validation of Build")
				}
			}
			return true
		})
	}
	if n == 0 {
		r.Fail(rule, "provider-literal", token.NoPos, "no provider allocation found")
	}
}

// ruleGraphSeesAllDependencies: R05.5 / R04.3 - the graph-facing getters of a
// descriptor return its fields verbatim, and the graph turns every dependency
// into an edge (no filtering).
func ruleGraphSeesAllDependencies(w *World, r *Report, rule string) {
	for _, g := range []struct{ m, f string }{{"GetType", "Type"}, {"GetKey", "Key"}, {"GetGroup", "Group"}, {"GetDependencies", "Dependencies"}} {
		fi := w.MustFn(w.Godi, "(*Descriptor)."+g.m)
		r.Analysed(fi)
		info := fi.Pkg.TypesInfo
		ok := false
		if len(fi.Decl.Body.List) == 1 {
			if ret, isRet := fi.Decl.Body.List[0].(*ast.ReturnStmt); isRet && len(ret.Results) == 1 {
				if fv := fieldOf(info, ret.Results[0]); fv != nil && fv.Name() == g.f {
					ok = true
				}
			}
		}
		r.Check(ok, rule, fi.Name()+"#verbatim", fi.Decl.Pos(), false,
			"the graph sees the descriptor's "+g.f+" exactly as resolution uses it",
			fi.Name()+" does not simply return the "+g.f+" field: the dependency graph (cycle detection, creation order) is built from something other than what resolution will follow")
	}
	gr := resolveGraph(w)
	for _, name := range []string{"(*DependencyGraph).AddProvider", "(*DependencyGraph).AddProviderDeferred"} {
		fi := w.MustFn(w.Graph, name)
		r.Analysed(fi)
		info := fi.Pkg.TypesInfo
		// the loop over provider.GetDependencies()
		found := false
		ast.Inspect(fi.Decl.Body, func(x ast.Node) bool {
			rs, ok := x.(*ast.RangeStmt)
			if !ok || rs.Value == nil {
				return true
			}
			isDeps := false
			if c, ok := unparen(rs.X).(*ast.CallExpr); ok {
				if cal := callee(info, c); cal != nil && cal.Name() == "GetDependencies" {
					isDeps = true
				}
			}
			if o := objOf(info, rs.X); o != nil {
				ast.Inspect(fi.Decl.Body, func(y ast.Node) bool {
					if as, ok := y.(*ast.AssignStmt); ok && len(as.Rhs) == 1 && len(as.Lhs) == 1 && objOf(info, as.Lhs[0]) == o {
						if c, ok := unparen(as.Rhs[0]).(*ast.CallExpr); ok {
							if cal := callee(info, c); cal != nil && cal.Name() == "GetDependencies" {
								isDeps = true
							}
						}
					}
					return true
				})
			}
			if !isDeps {
				return true
			}
			found = true
			// the first statements build the key and append it unconditionally
			bad := ""
			appended := false
			for _, st := range rs.Body.List {
				if as, ok := st.(*ast.AssignStmt); ok && len(as.Rhs) == 1 {
					if c, ok := unparen(as.Rhs[0]).(*ast.CallExpr); ok && exprStr(c.Fun) == "append" {
						appended = true
					}
				}
				if ifs, ok := st.(*ast.IfStmt); ok && !appended {
					skip := false
					inspectNoLit(ifs.Body, func(m ast.Node) bool {
						if b, ok := m.(*ast.BranchStmt); ok && (b.Tok == token.CONTINUE || b.Tok == token.BREAK) {
							skip = true
						}
						return true
					})
					if skip {
						bad = "dependencies are skipped when " + exprStr(ifs.Cond)
					}
					for _, c := range callsIn(ifs.Body, false) {
						if exprStr(c.Fun) == "append" {
							bad = "a dependency only becomes an edge when " + exprStr(ifs.Cond)
						}
					}
				}
			}
			if !appended && bad == "" {
				bad = "the loop does not append an edge for each dependency at its top level"
			}
			r.Check(bad == "", rule, fi.Name()+"#every-dependency-an-edge", rs.Pos(), true,
				"every dependency of the provider becomes an edge of the graph", fi.Name()+": "+bad+": cycles and ordering constraints through such dependencies are not seen")
			return true
		})
		if !found {
			r.Fail(rule, fi.Name()+"#every-dependency-an-edge", fi.Decl.Pos(), "no loop over the provider's dependencies")
		}
		// the edges table receives the collected keys
		stores := false
		ast.Inspect(fi.Decl.Body, func(x ast.Node) bool {
			if as, ok := x.(*ast.AssignStmt); ok {
				for _, l := range as.Lhs {
					if ix, ok := unparen(l).(*ast.IndexExpr); ok && fieldOf(info, ix.X) == gr.edges {
						stores = true
					}
				}
			}
			return true
		})
		r.Check(stores, rule, fi.Name()+"#stores-edges", fi.Decl.Pos(), false, "the collected dependency keys are stored as the node's edges", fi.Name()+" never stores the node's edges")
	}
}

// ruleGroupLinkGraph: R05.4 - the group placeholder of a group dependency is
// linked to the group's members before every cycle search and sort.
func ruleGroupLinkGraph(w *World, r *Report, rule string) {
	gr := resolveGraph(w)
	link := groupLinker(w)
	if link == nil {
		r.Fail(rule, "graph#group-linking", token.NoPos, "the graph has no step that connects a group dependency's placeholder node to the members of the group: cycles through a group are invisible and consumers are not ordered after members")
		return
	}
	r.Analysed(link)
	// members are collected by (Type, Group) irrespective of Key, and all of them become edges
	{
		info := link.Pkg.TypesInfo
		bad := ""
		appendsMembers := false
		ast.Inspect(link.Decl.Body, func(x ast.Node) bool {
			if c, ok := x.(*ast.CallExpr); ok && exprStr(c.Fun) == "append" && c.Ellipsis.IsValid() {
				appendsMembers = true
			}
			_ = info
			return true
		})
		if !appendsMembers {
			bad = "the members of the group are not appended to the placeholder's edges"
		}
		r.Check(bad == "", rule, link.Name()+"#links-all-members", link.Decl.Pos(), false, "every member of the group becomes an edge of the group's placeholder node", bad)
	}
	// a group is identified by element type AND name: the members linked to a
	// placeholder are selected by both
	{
		info := link.Pkg.TypesInfo
		bad, found := "", false
		hasTypeAndName := func(t types.Type) bool {
			st, ok := t.Underlying().(*types.Struct)
			if !ok {
				return false
			}
			ty, name := false, false
			for i := 0; i < st.NumFields(); i++ {
				ft := st.Field(i).Type()
				if isNamedType(ft, "reflect", "Type") {
					ty = true
				}
				if b, ok := ft.Underlying().(*types.Basic); ok && b.Kind() == types.String {
					name = true
				}
			}
			return ty && name
		}
		ast.Inspect(link.Decl.Body, func(x ast.Node) bool {
			c, ok := x.(*ast.CallExpr)
			if !ok || exprStr(c.Fun) != "append" || !c.Ellipsis.IsValid() || len(c.Args) != 2 {
				return true
			}
			found = true
			if ix, ok := unparen(c.Args[1]).(*ast.IndexExpr); ok {
				if tv, ok := info.Types[ix.X]; ok {
					if m, ok := tv.Type.Underlying().(*types.Map); ok {
						if !hasTypeAndName(m.Key()) {
							bad = "the members appended to a placeholder are selected from an index keyed by " + types.TypeString(m.Key(), nil) + ", which does not identify a group by element type and name: members of another group that shares one component are linked as well (spurious edges, false cycles)"
						}
						return true
					}
				}
			}
			// selected some other way: both components must be compared
			cmpType, cmpGroup := false, false
			ast.Inspect(link.Decl.Body, func(y ast.Node) bool {
				if be, ok := y.(*ast.BinaryExpr); ok && be.Op == token.EQL {
					for _, e := range []ast.Expr{be.X, be.Y} {
						if sel, ok := unparen(e).(*ast.SelectorExpr); ok {
							switch sel.Sel.Name {
							case "Type":
								cmpType = true
							case "Group":
								cmpGroup = true
							}
						}
					}
				}
				return true
			})
			if !cmpType || !cmpGroup {
				bad = "the members appended to a placeholder are not selected by both element type and group name"
			}
			return true
		})
		if found {
			r.Check(bad == "", rule, link.Name()+"#group-identity", link.Decl.Pos(), false, "members are selected by element type and group name", bad)
		}
	}
	for _, use := range []struct{ fn, before string }{
		{"(*DependencyGraph).DetectCycles", "search"}, {"(*DependencyGraph).AddProvider", "search"}} {
		fi := w.MustFn(w.Graph, use.fn)
		r.Analysed(fi)
		info := fi.Pkg.TypesInfo
		fl := w.FlowOf(fi)
		sol := fl.Solve(Spec{Must: true, Node: func(n ast.Node, in Facts) (gen, kill []string) {
			m, _ := gr.structWrites(info, n)
			for _, c := range callsIn(n, false) {
				if callee(info, c) == link.Obj {
					gen = append(gen, "linked")
				}
			}
			if len(m) > 0 {
				linked := false
				for _, c := range callsIn(n, false) {
					if callee(info, c) == link.Obj {
						linked = true
					}
				}
				if !linked {
					kill = append(kill, "linked")
				}
			}
			return
		}})
		n := 0
		for _, nd := range fl.Nodes() {
			for _, c := range callsIn(nd, false) {
				cal := callee(info, c)
				if cal == nil || w.Decls[cal] == nil || cal == link.Obj || cal == gr.updateDegrees.Obj {
					continue
				}
				if w.Decls[cal].Pkg != w.Graph || !isCycleSearch(w, w.Decls[cal]) {
					continue
				}
				n++
				r.Check(sol.Before[nd].Has("linked"), rule, fmt.Sprintf("%s#linked-before-search/%d", fi.Name(), n), c.Pos(), true,
					"group placeholders are linked to their members, after the last change to nodes/edges, before the cycle search runs",
					"the cycle search at "+w.Pos(c.Pos())+" can run on a graph whose group placeholders are not linked to the members registered so far: a cycle through a group is not reported and a group's consumer is not ordered after its members")
			}
		}
		if n == 0 {
			r.Fail(rule, fi.Name()+"#linked-before-search/0", fi.Decl.Pos(), "no cycle search found in %s", fi.Name())
		}
	}
}

// ---------------------------------------------------------------------------
// lifetime validation

type lifetimeCheck struct {
	fn      *FuncInfo
	body    *ast.BlockStmt // per-descriptor check (function or literal)
	depLoop *ast.RangeStmt
	depObj  types.Object
	descObj types.Object
	table   types.Object
}

func findLifetimeCheck(w *World) *lifetimeCheck {
	fi := w.MustFn(w.Godi, "(*collection).validateLifetimes")
	info := fi.Pkg.TypesInfo
	lc := &lifetimeCheck{fn: fi}
	// the loop over X.Dependencies whose body can return a LifetimeConflictError
	var search func(body *ast.BlockStmt, owner *ast.BlockStmt)
	search = func(body *ast.BlockStmt, owner *ast.BlockStmt) {
		ast.Inspect(body, func(x ast.Node) bool {
			switch s := x.(type) {
			case *ast.FuncLit:
				search(s.Body, s.Body)
				return false
			case *ast.RangeStmt:
				if isFieldNamed(info, s.X, "Dependencies") && s.Value != nil {
					lc.depLoop, lc.body = s, owner
					lc.depObj = objOf(info, s.Value)
					lc.descObj = objOf(info, selBase(s.X))
				}
			}
			return true
		})
	}
	search(fi.Decl.Body, fi.Decl.Body)
	// same-package helpers called from validateLifetimes may hold the loop
	if lc.depLoop == nil {
		for _, c := range callsIn(fi.Decl.Body, true) {
			if cal := callee(info, c); cal != nil && w.Decls[cal] != nil && w.Decls[cal].Pkg == w.Godi {
				t := w.Decls[cal]
				search(t.Decl.Body, t.Decl.Body)
			}
		}
	}
	// the lifetimes table
	ast.Inspect(fi.Decl.Body, func(x ast.Node) bool {
		if as, ok := x.(*ast.AssignStmt); ok && len(as.Lhs) == 1 && len(as.Rhs) == 1 {
			if o := objOf(info, as.Lhs[0]); o != nil {
				if m, ok := o.Type().Underlying().(*types.Map); ok && isNamedType(m.Elem(), modPath, "Lifetime") {
					lc.table = o
				}
			}
		}
		return true
	})
	return lc
}

// readsOptional: does the body (following same-package calls, bound 3) read Dependency.Optional?
func readsOptional(w *World, info *types.Info, body ast.Node, depth int, seen map[*FuncInfo]bool) (token.Pos, bool) {
	var pos token.Pos
	found := false
	ast.Inspect(body, func(x ast.Node) bool {
		if found {
			return false
		}
		switch s := x.(type) {
		case *ast.SelectorExpr:
			if fv := fieldOf(info, s); fv != nil && fv.Name() == "Optional" {
				pos, found = s.Pos(), true
			}
		case *ast.CallExpr:
			if cal := callee(info, s); cal != nil && depth > 0 {
				if t := w.Decls[cal]; t != nil && !seen[t] && t.Pkg.PkgPath == modPath {
					seen[t] = true
					if p, ok := readsOptional(w, t.Pkg.TypesInfo, t.Decl.Body, depth-1, seen); ok {
						pos, found = p, true
						_ = p
						pos = s.Pos()
					}
				}
			}
		}
		return true
	})
	return pos, found
}

func checkC07(w *World, r *Report) {
	rg := resolveRegistry(w)
	r.Rule("R07.1", 1, "a checked validateLifetimes dominates the allocation of the provider")
	r.Rule("R07.2", 1, "the only lifetime that exempts a dependent from the check is Scoped; no attribute of a dependency other than nil/group/lookup-miss exempts it (optional dependencies are resolved like any other)")
	r.Rule("R07.3", 3, "every registration is checked: the lifetime table is complete before the first check and is not written afterwards; every element of every view is passed to the check; the check's loop over dependencies is left only by `continue` or by returning the conflict")
	r.Rule("R07.8", 3, "lifetime validation sees the lifetime the registration asked for: Descriptor.Lifetime is only ever the Lifetime parameter or a copy of the base descriptor's")
	r.Try(func() { ruleLifetimeSource(w, r, "R07.8") })
	r.Rule("R07.9", 3, "the lifetime Build validated is the lifetime resolution uses: a registered descriptor is never changed in place")
	r.Try(func() { ruleDescriptorImmutable(w, r, "R07.9") })
	r.Rule("R07.11", 1, "the registrations validated are the registrations the provider serves: validation and the registry snapshot happen in one critical section of the collection")
	r.Try(func() { ruleBuildOneCriticalSection(w, r, "R07.11") })
	r.Rule("R07.12", 20, "R-KEYLIT: the lifetime table, the registry and resolution agree on the identity of a dependency (a lookup that falls back to another key must fall back in validation too)")
	r.Try(func() { ruleKeyLiterals(w, r, "R07.12") })
	r.Rule("R07.10", 3, "what lifetime validation walks (services and groups) and what Build constructs (the descriptor list) stay in step: every writer of a view writes the others, a removal drops exactly the descriptor it found")
	r.Try(func() { reexport(w, r, "R07.10", func(sub *Report) { checkC17(w, sub) }, "R17.1", "R17.8") })
	r.Rule("R07.4", 2, "group dependencies are checked against every member of the group (group-keyed lookup in the groups view); plain and keyed dependencies against the table entry for exactly (Type, Key)")
	r.Rule("R07.5", 2, "the conflict is raised exactly when the dependency's lifetime is Scoped, as a LifetimeConflictError")
	r.Rule("R07.6", 3, "every descriptor created for a multi-output registration copies Lifetime, Constructor and Dependencies from the base descriptor")

	ruleBuildPipeline(w, r, "", "", "R07.1", "", "")
	r.Rule("R07.13", 1, "the registrations validated are the registrations the provider serves: the dependency graph (and with it what Build constructs and the provider is given) is filled from the registry's own descriptor list, not from a derived list (configured copies, synthesized bindings) the lifetime validation never sees")
	r.Try(func() { reexport(w, r, "R07.13", func(sub *Report) { sub.Rule("R05.1", 0, ""); ruleBuildPipeline(w, sub, "R05.1", "", "", "", "") }, "R05.1") })

	lc := findLifetimeCheck(w)
	fi := lc.fn
	r.Analysed(fi)
	info := fi.Pkg.TypesInfo
	if lc.depLoop == nil {
		r.Fail("R07.3", fi.Name()+"#dependency-loop", fi.Decl.Pos(), "lifetime validation has no loop over a descriptor's dependencies")
		return
	}
	// ---- R07.2: exemptions of the dependent
	{
		bad := ""
		n := 0
		ast.Inspect(lc.body, func(x ast.Node) bool {
			be, ok := x.(*ast.BinaryExpr)
			if !ok || (be.Op != token.EQL && be.Op != token.NEQ) {
				return true
			}
			if isFieldNamed(info, be.X, "Lifetime") && objOf(info, selBase(be.X)) == lc.descObj && lc.descObj != nil && x.Pos() < lc.depLoop.Pos() {
				n++
				if o := objOf(info, be.Y); o == nil || o.Name() != "Scoped" || be.Op != token.EQL {
					bad = "the dependent is exempted from the check on the condition " + exprStr(be)
				}
			}
			return true
		})
		// the exemption test may only be joined, by ||, with nil tests of the descriptor
		ast.Inspect(lc.body, func(x ast.Node) bool {
			ifs, ok := x.(*ast.IfStmt)
			if !ok || ifs.Pos() > lc.depLoop.Pos() || !strings.Contains(exprStr(ifs.Cond), ".Lifetime") {
				return true
			}
			var disjuncts []ast.Expr
			var split func(e ast.Expr)
			split = func(e ast.Expr) {
				if be, ok := unparen(e).(*ast.BinaryExpr); ok && be.Op == token.LOR {
					split(be.X)
					split(be.Y)
					return
				}
				disjuncts = append(disjuncts, unparen(e))
			}
			split(ifs.Cond)
			for _, d := range disjuncts {
				be, ok := d.(*ast.BinaryExpr)
				okD := false
				if ok && be.Op == token.EQL {
					if isNilIdent(info, be.Y) || isNilIdent(info, be.X) {
						okD = true
					}
					if isFieldNamed(info, be.X, "Lifetime") {
						if o := objOf(info, be.Y); o != nil && o.Name() == "Scoped" {
							okD = true
						}
					}
				}
				if !okD {
					bad = "the dependent is exempted from the check on the condition " + exprStr(ifs.Cond) + " (only `Lifetime == Scoped` may exempt a dependent: transients must be checked too, or a singleton reaches scoped services through them)"
				}
			}
			return true
		})
		// every other exit ahead of the dependency loop: only a nil descriptor, an empty dependency
		// list or the Scoped exemption may end the check of a registration before it started
		var stack []ast.Node
		ast.Inspect(lc.body, func(x ast.Node) bool {
			if x == nil {
				stack = stack[:len(stack)-1]
				return true
			}
			stack = append(stack, x)
			if _, isLit := x.(*ast.FuncLit); isLit && x.Pos() != lc.body.Pos() && len(stack) > 1 {
				return true
			}
			ret, ok := x.(*ast.ReturnStmt)
			if !ok || ret.Pos() > lc.depLoop.Pos() {
				return true
			}
			for i := len(stack) - 2; i >= 0; i-- {
				ifs, isIf := stack[i].(*ast.IfStmt)
				if !isIf {
					continue
				}
				// the return must be in the if's body (not in its else)
				if !(ifs.Body.Pos() <= ret.Pos() && ret.Pos() < ifs.Body.End()) {
					continue
				}
				var disjuncts []ast.Expr
				var split func(e ast.Expr)
				split = func(e ast.Expr) {
					if be, ok := unparen(e).(*ast.BinaryExpr); ok && be.Op == token.LOR {
						split(be.X)
						split(be.Y)
						return
					}
					disjuncts = append(disjuncts, unparen(e))
				}
				split(ifs.Cond)
				for _, d := range disjuncts {
					okD := false
					if be, ok := d.(*ast.BinaryExpr); ok && be.Op == token.EQL {
						if isNilIdent(info, be.Y) || isNilIdent(info, be.X) {
							okD = true
						}
						if isFieldNamed(info, be.X, "Lifetime") {
							okD = true // judged above
						}
						if c, isC := unparen(be.X).(*ast.CallExpr); isC && exprStr(c.Fun) == "len" && len(c.Args) == 1 && isFieldNamed(info, c.Args[0], "Dependencies") {
							if lit, isLit := unparen(be.Y).(*ast.BasicLit); isLit && lit.Value == "0" {
								okD = true
							}
						}
					}
					if !okD && bad == "" {
						bad = "the check of a registration ends before its dependencies are looked at on the condition " + exprStr(ifs.Cond) + " (only a nil descriptor, an empty dependency list or `Lifetime == Scoped` may do that): registrations the condition holds for are never validated"
					}
				}
			}
			return true
		})
		if n == 0 && bad == "" {
			bad = "the per-descriptor check never looks at the dependent's lifetime"
		}
		r.Check(bad == "", "R07.2", fi.Name()+"#dependent-exemption", lc.body.Pos(), false, "only `descriptor.Lifetime == Scoped` exempts a dependent", bad)
		pos, reads := readsOptional(w, info, lc.body, 3, map[*FuncInfo]bool{})
		r.Check(!reads, "R07.2", fi.Name()+"#optional-not-exempt", lc.body.Pos(), true,
			"the lifetime check does not depend on whether a dependency is optional",
			"the lifetime check reads Dependency.Optional (at "+w.Pos(pos)+"): a registered optional dependency is resolved like any other, so exempting it lets a singleton or transient capture a scoped instance")
	}
	// ---- R07.3: loop exits; completeness of the table; all views checked
	{
		bad := ""
		inspectNoLit(lc.depLoop.Body, func(m ast.Node) bool {
			switch s := m.(type) {
			case *ast.ReturnStmt:
				if len(s.Results) != 1 || literalResult(w, info, lc.body, s.Results[0]) == nil {
					bad = "the loop over the dependencies is left by `return " + exprStrs(s.Results) + "`, which can be nil: the dependencies after this one are never checked"
				}
			case *ast.BranchStmt:
				if s.Tok == token.BREAK || s.Tok == token.GOTO {
					// break of the inner member loop is fine if it is inside a nested loop
					inner := false
					ast.Inspect(lc.depLoop.Body, func(y ast.Node) bool {
						if l, ok := y.(*ast.RangeStmt); ok && l != lc.depLoop && isInside(s, l) {
							inner = true
						}
						if l, ok := y.(*ast.ForStmt); ok && isInside(s, l) {
							inner = true
						}
						return true
					})
					if !inner {
						bad = s.Tok.String() + " leaves the loop over the dependencies early"
					}
				}
			}
			return true
		})
		r.Check(bad == "", "R07.3", fi.Name()+"#dependency-loop-exits", lc.depLoop.Pos(), true, "every dependency of a checked descriptor is examined unless a conflict is returned", bad)

		// table complete before first check
		fl := w.FlowOf(fi)
		binds := litBindings(info, fi.Decl.Body)
		var checkObj types.Object
		for o, lit := range binds {
			if lit.Body == lc.body {
				checkObj = o
			}
		}
		isCheckCall := func(c *ast.CallExpr) bool {
			if id, ok := unparen(c.Fun).(*ast.Ident); ok && checkObj != nil && info.Uses[id] == checkObj {
				return true
			}
			if cal := callee(info, c); cal != nil && w.Decls[cal] != nil && w.Decls[cal].Decl.Body == lc.body {
				return true
			}
			return false
		}
		writesTable := func(n ast.Node) bool {
			wr := false
			if as, ok := n.(*ast.AssignStmt); ok && lc.table != nil {
				for _, l := range as.Lhs {
					if ix, ok := unparen(l).(*ast.IndexExpr); ok && objOf(info, ix.X) == lc.table {
						wr = true
					}
				}
			}
			return wr
		}
		may := fl.Solve(Spec{Must: false, Node: func(n ast.Node, in Facts) (gen, kill []string) {
			for _, c := range callsIn(n, false) {
				if isCheckCall(c) {
					gen = append(gen, "checking")
				}
			}
			return
		}})
		bad = ""
		for _, n := range fl.Nodes() {
			if writesTable(n) && may.Before[n].Has("checking") {
				bad = "the lifetime table is still being filled (at " + w.Pos(n.Pos()) + ") after checks have started: whether a conflict is found depends on the order of registration"
			}
		}
		if lc.table == nil {
			// direct lookups in the registry views are order independent
			bad = ""
		}
		r.Check(bad == "", "R07.3", fi.Name()+"#table-before-checks", fi.Decl.Pos(), true, "the lifetime table is complete before the first descriptor is checked", bad)

		// every view is ranged with each element checked
		views := map[*types.Var]bool{}
		ast.Inspect(fi.Decl.Body, func(x ast.Node) bool {
			rs, ok := x.(*ast.RangeStmt)
			if !ok {
				return true
			}
			calls := false
			for _, c := range callsIn(rs.Body, false) {
				if isCheckCall(c) {
					calls = true
				}
			}
			if calls {
				if fv := fieldOf(info, rs.X); fv != nil {
					views[fv] = true
				}
				// early exits other than returning the check's error
				inspectNoLit(rs.Body, func(m ast.Node) bool {
					if b, ok := m.(*ast.BranchStmt); ok && (b.Tok == token.BREAK || b.Tok == token.CONTINUE) {
						bad = b.Tok.String() + " in the loop that checks every registration"
					}
					return true
				})
			}
			return true
		})
		covered := views[rg.all] || (views[rg.services] && views[rg.groups])
		r.Check(covered && bad == "", "R07.3", fi.Name()+"#all-registrations-checked", fi.Decl.Pos(), true,
			"every registration (services and group members) is passed to the check",
			"not every registration is checked: the check is applied to "+viewNames(views)+" only "+bad)
	}
	// ---- R07.4: group branch and plain lookup
	{
		// a range over groups[GroupKey{dep.Type, dep.Group}] inside the dependency loop
		good, why := false, "group dependencies are not looked up in the groups view by (Type, Group) of the dependency"
		ast.Inspect(lc.depLoop.Body, func(x ast.Node) bool {
			var src ast.Expr
			switch s := x.(type) {
			case *ast.RangeStmt:
				src = s.X
			case *ast.CallExpr:
				if cal := callee(info, s); cal != nil && w.Decls[cal] != nil {
					// helper: look inside it
					t := w.Decls[cal]
					ast.Inspect(t.Decl.Body, func(y ast.Node) bool {
						if rs, ok := y.(*ast.RangeStmt); ok {
							if ix, ok := unparen(rs.X).(*ast.IndexExpr); ok && fieldOf(t.Pkg.TypesInfo, ix.X) == rg.groups {
								good = true
							}
						}
						return true
					})
				}
				return true
			default:
				return true
			}
			ix, ok := unparen(src).(*ast.IndexExpr)
			if !ok || fieldOf(info, ix.X) != rg.groups {
				return true
			}
			if kc := keyConsOf(w, info, ix.Index); kc != nil {
				if kc.f["Type"].base == lc.depObj && kc.f["Group"].base == lc.depObj && kc.f["Type"].sel == "Type" && kc.f["Group"].sel == "Group" {
					good = true
				}
			}
			return true
		})
		r.Check(good, "R07.4", fi.Name()+"#group-members", lc.depLoop.Pos(), true, "a group dependency is checked against every member found under GroupKey{dep.Type, dep.Group}", why)
		// plain lookup: key literal with Type and Key of dep
		plain := false
		for _, kc := range keyConsIn(w, info, lc.depLoop.Body) {
			if (kc.typ == "instanceKey" || kc.typ == "TypeKey") && kc.f["Type"].base == lc.depObj && kc.f["Key"].base == lc.depObj &&
				kc.f["Type"].sel == "Type" && kc.f["Key"].sel == "Key" {
				plain = true
			}
		}
		r.Check(plain, "R07.4", fi.Name()+"#plain-lookup", lc.depLoop.Pos(), false, "plain and keyed dependencies are looked up by (dep.Type, dep.Key)", "the dependency's lifetime is not looked up by (dep.Type, dep.Key): keyed dependencies are checked against the wrong registration")
	}
	// ---- R07.5
	{
		n := 0
		fl := NewFlow(w, fi.Pkg, lc.body, "lifetime-check")
		sol := fl.Solve(Spec{Must: true, Edge: condEdge(w, info, 2)})
		dbgFacts(w, sol, fl)
		for _, ex := range fl.Exits() {
			if ex.Ret == nil || len(ex.Ret.Results) != 1 {
				continue
			}
			l := literalResult(w, info, lc.body, ex.Ret.Results[0])
			if l == nil {
				continue
			}
			tv, ok := info.Types[l]
			if !ok || !isNamedType(tv.Type, modPath, "LifetimeConflictError") {
				continue
			}
			n++
			at := sol.AtExit(ex)
			scoped := false
			for k := range at {
				if strings.HasSuffix(k, "==Scoped") && !strings.HasPrefix(k, objName(lc.descObj)+".") {
					scoped = true
				}
			}
			r.Check(scoped, "R07.5", fmt.Sprintf("%s#conflict/%d", fi.Name(), n), ex.Pos, true,
				"the conflict is reported exactly on the edge where the dependency's lifetime equals Scoped",
				"a LifetimeConflictError is returned on a path that did not establish that the dependency's lifetime is Scoped")
		}
		if n == 0 {
			r.Fail("R07.5", fi.Name()+"#conflict/0", fi.Decl.Pos(), "lifetime validation never returns a LifetimeConflictError")
		}
	}
	// ---- R07.6
	ruleFamilyCopies(w, r, "R07.6")
	r.Rule("R07.7", 10, "the dependencies that are validated are the dependencies that are injected: sibling agreement of the struct walkers (analysis vs runtime) and resolvers")
	ruleFieldFilters(w, r, "R07.7")
}

func exprStrs(es []ast.Expr) string {
	var s []string
	for _, e := range es {
		s = append(s, exprStr(e))
	}
	return strings.Join(s, ", ")
}

func viewNames(v map[*types.Var]bool) string {
	var s []string
	for k := range v {
		s = append(s, k.Name())
	}
	sort.Strings(s)
	if len(s) == 0 {
		return "no view"
	}
	return strings.Join(s, ", ")
}

// ruleFamilyCopies: R-FAMILY (a).
func ruleFamilyCopies(w *World, r *Report, rule string) {
	add := w.MustFn(w.Godi, "(*collection).addService")
	n := 0
	for _, fi := range w.Within(add, 3) {
		r.Analysed(fi)
		info := fi.Pkg.TypesInfo
		ast.Inspect(fi.Decl.Body, func(x ast.Node) bool {
			cl, ok := x.(*ast.CompositeLit)
			if !ok {
				return true
			}
			tv, ok := info.Types[cl]
			if !ok || !isNamedType(tv.Type, modPath, "Descriptor") {
				return true
			}
			f := compositeFields(cl)
			if _, derived := f["Constructor"]; !derived && len(f) < 4 {
				return true
			}
			// only descriptors derived from another descriptor (family members)
			var base types.Object
			if v, ok := f["Constructor"]; ok {
				if o := objOf(info, selBase(v)); o != nil && isNamedType(o.Type(), modPath, "Descriptor") {
					base = o
				}
			}
			if base == nil {
				if _, isNew := f["ConstructorType"]; isNew && fi.Obj.Name() != "addService" {
					return true // the primary descriptor built from reflection data, not a family member
				}
			}
			n++
			fam := "family"
			if t, ok := f["Type"]; ok {
				fam = exprStr(t)
			}
			con := fmt.Sprintf("%s#family-literal(Type:%s)", add.Name(), fam)
			var missing []string
			for _, name := range []string{"Lifetime", "Constructor", "ConstructorType", "Dependencies"} {
				v, ok := f[name]
				if !ok || !isFieldNamed(info, v, name) || base == nil || objOf(info, selBase(v)) != base {
					missing = append(missing, name)
				}
			}
			r.Check(len(missing) == 0, rule, con, cl.Pos(), false,
				"the derived descriptor copies Lifetime, Constructor, ConstructorType and Dependencies from the base descriptor",
				fmt.Sprintf("the derived descriptor does not copy %v from the base descriptor: a missing Lifetime defaults to Singleton, missing Dependencies hide the constructor's dependencies from lifetime and cycle validation", missing))
			return true
		})
	}
	if n < 3 {
		r.Fail(rule, add.Name()+"#family-literals", add.Decl.Pos(), "expected the three derived-descriptor literals (result-object field, multiple return, As alias), found %d", n)
	}
}

// ---------------------------------------------------------------------------
// C08

func checkC08(w *World, r *Report) {
	ro := resolveRoles(w)
	rg := resolveRegistry(w)
	r.Rule("R08.1", 2, "a presence check for every lifetime exists and is checked before the provider is allocated: it ranges over every registration and every dependency, tests membership in the services view by (dep.Type, dep.Key), and its error is a ResolutionError carrying ErrServiceNotFound")
	r.Rule("R08.1a", 3, "acceptance: the missing-dependency error is only reached for a dependency that is not optional, not a group, and not an unkeyed built-in")
	r.Rule("R08.1b", 1, "the presence check does not depend on the dependent's lifetime")
	r.Rule("R08.2", 1, "no scoped initializer runs on the root scope before the singletons exist")
	r.Rule("R08.3", 2, "a group without members resolves to an empty, non-error result; only the optional tag lets a failed field resolution continue")
	r.Rule("R08.4", 1, "the runtime miss is a ResolutionError whose Cause is ErrServiceNotFound")

	ruleBuildPipeline(w, r, "", "", "", "R08.1", "")
	r.Rule("R08.5", 10, "the dependencies that are checked for presence are the dependencies that are injected: sibling agreement of the struct walkers (analysis vs runtime) and resolvers")
	ruleFieldFilters(w, r, "R08.5")
	r.Rule("R08.6", 6, "the graph has one edge per declared dependency (verbatim getters): a set is not rejected for a cycle the dependency lists do not contain")
	r.Try(func() { ruleGraphSeesAllDependencies(w, r, "R08.6") })
	r.Rule("R08.14", 1, "the set Build accepted is the set the provider serves: validation and the registry snapshot happen in one critical section of the collection")
	r.Try(func() { ruleBuildOneCriticalSection(w, r, "R08.14") })
	r.Rule("R08.15", 20, "R-KEYLIT: presence validation, the graph and resolution agree on the identity of a dependency")
	r.Try(func() { ruleKeyLiterals(w, r, "R08.15") })
	r.Rule("R08.12", 3, "the registrations Build validates are the registrations resolution can reach: every writer of the services / groups views keeps the descriptor list in step, and a removal drops exactly the descriptor it found")
	r.Try(func() { reexport(w, r, "R08.12", func(sub *Report) { checkC17(w, sub) }, "R17.1", "R17.8") })
	r.Rule("R08.13", 3, "what Build validated is what is resolved: a registered descriptor is never changed in place (a registration swapped under its key is not re-checked for presence of its dependencies)")
	r.Try(func() { ruleDescriptorImmutable(w, r, "R08.13") })
	r.Rule("R08.7", 1, "a descriptor's dependency list is the analyzer's list, unfiltered: what is injected is what is checked for presence")
	r.Try(func() { ruleDependenciesUnfiltered(w, r, "R08.7") })
	r.Rule("R08.11", 1, "a constructor that succeeded is not reported as failed: its error result is tested for nil on the reflect.Value before it is converted to error")
	r.Try(func() { ruleErrorResultNilCheckedOnValue(w, r, "R08.11") })
	r.Rule("R08.10", 1, "a resolvable set is not rejected as circular: the degree recomputation counts every edge (a dependency listed twice is two edges on both sides of Kahn's counter)")
	r.Try(func() { ruleDegreeCountsEveryEdge(w, r, "R08.10") })
	r.Rule("R08.9", 3, "a resolvable set is not rejected for a cycle it does not contain: group placeholders are linked only to the members of their own element type and group name")
	r.Try(func() { ruleGroupLinkGraph(w, r, "R08.9") })
	r.Rule("R08.8", 1, "a resolvable set is not rejected for a cycle it does not contain: the edge table and the nodes' own dependency lists describe the same edges")
	r.Try(func() { ruleEdgesAgreeWithNodeLists(w, r, "R08.8") })
	fi := presenceCheckFn(w)
	if false {
		// role: the function called from doBuild that returns ErrServiceNotFound
		for _, f := range w.FuncsOf(w.Godi) {
			if f == ro.resolve {
				continue
			}
			uses := false
			ast.Inspect(f.Decl.Body, func(x ast.Node) bool {
				if id, ok := x.(*ast.Ident); ok && id.Name == "ErrServiceNotFound" {
					uses = true
				}
				return true
			})
			if uses && recvNamed(f.Obj) != nil && recvNamed(f.Obj).Obj().Name() == "collection" {
				fi = f
			}
		}
	}
	if fi == nil {
		r.Fail("R08.1", "collection#presence-check", token.NoPos, "Build has no check that every required dependency is registered: a scoped or transient service with a missing dependency builds and fails only at resolution")
		return
	}
	r.Analysed(fi)
	info := fi.Pkg.TypesInfo
	// loops
	var outer, inner *ast.RangeStmt
	ast.Inspect(fi.Decl.Body, func(x ast.Node) bool {
		if rs, ok := x.(*ast.RangeStmt); ok {
			if fieldOf(info, rs.X) == rg.all || fieldOf(info, rs.X) == rg.services {
				outer = rs
			}
			if isFieldNamed(info, rs.X, "Dependencies") {
				inner = rs
			}
		}
		return true
	})
	shape := outer != nil && inner != nil && isInside(inner, outer.Body)
	r.Check(shape, "R08.1", fi.Name()+"#loops", fi.Decl.Pos(), false, "every dependency of every registration is examined", "the presence check does not range over every registration and each of its dependencies")
	if !shape {
		return
	}
	dep := objOf(info, inner.Value)
	desc := objOf(info, outer.Value)
	fl := w.FlowOf(fi)
	depName := objName(dep)
	sol := fl.Solve(Spec{Must: true,
		Node: func(n ast.Node, in Facts) (gen, kill []string) {
			// membership test: _, ok := services[TypeKey{dep.Type, dep.Key}]
			if as, ok := n.(*ast.AssignStmt); ok && len(as.Lhs) == 2 && len(as.Rhs) == 1 {
				if ix, ok := unparen(as.Rhs[0]).(*ast.IndexExpr); ok {
					okName := exprStr(as.Lhs[1])
					if fieldOf(info, ix.X) == rg.services {
						if kc := keyConsOf(w, info, ix.Index); kc != nil {
							if kc.f["Type"].base == dep && kc.f["Key"].base == dep && kc.f["Type"].sel == "Type" && kc.f["Key"].sel == "Key" {
								gen = append(gen, "lookup-var:"+okName)
							}
						}
					}
					if o := objOf(info, ix.X); o != nil && o.Name() == "reservedTypes" {
						gen = append(gen, "builtin-var:"+okName)
					}
				}
			}
			return
		},
		Edge: func(b *cfg.Block, i int, cond ast.Expr, in Facts) (gen, kill []string) {
			g, k := condEdge(w, info, 3)(b, i, cond, in)
			gen, kill = append(gen, g...), append(kill, k...)
			if cond == nil {
				return
			}
			for _, f := range g {
				name := strings.TrimSuffix(strings.TrimSuffix(f, "=true"), "=false")
				if in.Has("lookup-var:" + name) {
					if strings.HasSuffix(f, "=false") {
						gen = append(gen, "missing")
					} else {
						gen = append(gen, "present")
					}
				}
				if in.Has("builtin-var:" + name) {
					if strings.HasSuffix(f, "=false") {
						gen = append(gen, "not-builtin")
					}
				}
			}
			return
		}})
	nErr := 0
	for _, ex := range fl.Exits() {
		if ex.Ret == nil || len(ex.Ret.Results) != 1 || isNilIdent(info, ex.Ret.Results[0]) {
			continue
		}
		nErr++
		at := sol.AtExit(ex)
		con := fmt.Sprintf("%s#missing-dependency-error/%d", fi.Name(), nErr)
		// error shape
		l := litOf(ex.Ret.Results[0])
		okShape := false
		if l != nil {
			if tv, ok := info.Types[l]; ok && isNamedType(tv.Type, modPath, "ResolutionError") {
				if c, ok := compositeFields(l)["Cause"]; ok {
					if o := objOf(info, c); o != nil && o.Name() == "ErrServiceNotFound" {
						okShape = true
					}
				}
			}
		}
		r.Check(okShape && at.Has("missing"), "R08.1", con, ex.Pos, true,
			"the error is ResolutionError{Cause: ErrServiceNotFound}, returned on the edge where (dep.Type, dep.Key) is not in the services view",
			"the presence check's error exit is not a ResolutionError{Cause: ErrServiceNotFound} on the miss edge of the lookup by (dep.Type, dep.Key)")
		nonOpt := at.Has(depName + ".Optional=false")
		nonGroup := at.Has(depName + ".Group=empty")
		builtinOK := at.Has("not-builtin") || at.Has(depName+".Key=nonnil")
		// through a predicate: `if dep.Key == nil && isReservedType(dep.Type) { continue }`
		for k := range at {
			for _, pc := range reservedPredicateCalls(w, fi, dep) {
				if k == pc+"=false" || k == "or("+depName+".Key=nonnil|"+pc+"=false)" || k == "or("+pc+"=false|"+depName+".Key=nonnil)" {
					builtinOK = true
				}
			}
		}
		for k := range at {
			if strings.HasPrefix(k, "or(") && strings.Contains(k, "=false|"+depName+".Key=nonnil)") {
				name := strings.TrimSuffix(strings.TrimPrefix(k, "or("), "=false|"+depName+".Key=nonnil)")
				if at.Has("builtin-var:" + name) {
					builtinOK = true
				}
			}
		}
		r.Check(nonOpt, "R08.1a", con+":optional", ex.Pos, true,
			"the error is only reached for a dependency whose optional flag has been tested false",
			"a missing dependency is reported without its optional flag having been tested false on this path: a valid registration set whose only gap is a missing optional dependency is rejected")
		r.Check(nonGroup, "R08.1a", con+":group", ex.Pos, true,
			"group dependencies (which may be empty) are never reported missing",
			"a group dependency can be reported missing: an empty group makes Build fail")
		r.Check(builtinOK, "R08.1a", con+":builtin", ex.Pos, true,
			"the unkeyed built-in services (context, Provider, Scope) are never reported missing",
			"a built-in service can be reported missing")
	}
	if nErr == 0 {
		r.Fail("R08.1", fi.Name()+"#missing-dependency-error/0", fi.Decl.Pos(), "the presence check never fails: unregistered required dependencies are accepted at Build for every lifetime")
	}
	// the converse for the built-ins: only the *unkeyed* built-in is injectable, so a dependency is
	// exempted as "built-in" only where its key is known to be nil (a keyed dependency on
	// context.Context can never be satisfied: reserved types cannot be registered)
	{
		preds := reservedPredicateCalls(w, fi, dep)
		// ok-variables of a direct lookup in the reserved table: _, isBuiltin := reservedTypes[dep.Type]
		builtinVars := map[types.Object]bool{}
		ast.Inspect(inner.Body, func(x ast.Node) bool {
			if as, ok := x.(*ast.AssignStmt); ok && len(as.Lhs) == 2 && len(as.Rhs) == 1 {
				if ix, ok := unparen(as.Rhs[0]).(*ast.IndexExpr); ok {
					if o := objOf(info, ix.X); o != nil && o.Name() == "reservedTypes" {
						builtinVars[objOf(info, as.Lhs[1])] = true
					}
				}
			}
			return true
		})
		isBuiltinTest := func(e ast.Expr) bool {
			e = unparen(e)
			if builtinVars[objOf(info, e)] {
				return true
			}
			for _, pc := range preds {
				if exprStr(e) == pc {
					return true
				}
			}
			return false
		}
		isKeyNil := func(e ast.Expr) bool {
			for _, f := range condFacts(info, e, true) {
				if f == depName+".Key=nil" {
					return true
				}
			}
			return false
		}
		var split func(e ast.Expr, op token.Token) []ast.Expr
		split = func(e ast.Expr, op token.Token) []ast.Expr {
			if be, ok := unparen(e).(*ast.BinaryExpr); ok && be.Op == op {
				return append(split(be.X, op), split(be.Y, op)...)
			}
			return []ast.Expr{unparen(e)}
		}
		nSkip := 0
		ast.Inspect(inner.Body, func(x ast.Node) bool {
			ifs, ok := x.(*ast.IfStmt)
			if !ok || len(ifs.Body.List) == 0 {
				return true
			}
			br, ok := ifs.Body.List[len(ifs.Body.List)-1].(*ast.BranchStmt)
			if !ok || br.Tok != token.CONTINUE {
				return true
			}
			for _, d := range split(ifs.Cond, token.LOR) {
				conj := split(d, token.LAND)
				hasBuiltin, hasKeyNil := false, false
				for _, c := range conj {
					if isBuiltinTest(c) {
						hasBuiltin = true
					}
					if isKeyNil(c) {
						hasKeyNil = true
					}
				}
				if !hasBuiltin {
					continue
				}
				// the key test may also enclose the if
				conds, vals := controllingCondsInfo(info, inner.Body, ifs.Pos())
				for i, cd := range conds {
					if vals[i] && isKeyNil(cd) {
						hasKeyNil = true
					}
					for _, f := range condFacts(info, cd, vals[i]) {
						if f == depName+".Key=nil" {
							hasKeyNil = true
						}
					}
				}
				nSkip++
				r.Check(hasKeyNil, "R08.1a", fmt.Sprintf("%s#builtin-exemption/%d", fi.Name(), nSkip), ifs.Pos(), true,
					"a dependency is exempted as a built-in only when it is unkeyed",
					"a dependency on a built-in type is exempted from the presence check without its key having been found nil: a keyed dependency on context.Context / Scope / Provider is accepted at Build although it can never be resolved")
			}
			return true
		})
	}
	// R08.16: which dependencies escape the presence check. Every `continue` of the dependency
	// loop is one of the exemptions resolution itself honours: a nil entry, an optional
	// dependency, a group (which may be empty), an unkeyed built-in of the reserved table. Any
	// other exemption (a second table of "default" types, a naming convention) lets a
	// registration set through that fails with 'service not found' at resolution.
	{
		r.Rule("R08.16", 2, "a dependency escapes the presence check only as nil, optional, group or reserved built-in: every skip of the dependency loop is one of those exemptions")
		preds := reservedPredicateCalls(w, fi, dep)
		builtinVars := map[types.Object]bool{}
		ast.Inspect(inner.Body, func(x ast.Node) bool {
			if as, ok := x.(*ast.AssignStmt); ok && len(as.Lhs) == 2 && len(as.Rhs) == 1 {
				if ix, ok := unparen(as.Rhs[0]).(*ast.IndexExpr); ok {
					if o := objOf(info, ix.X); o != nil && o.Name() == "reservedTypes" {
						builtinVars[objOf(info, as.Lhs[1])] = true
					}
				}
			}
			return true
		})
		var split func(e ast.Expr, op token.Token) []ast.Expr
		split = func(e ast.Expr, op token.Token) []ast.Expr {
			if be, ok := unparen(e).(*ast.BinaryExpr); ok && be.Op == op {
				return append(split(be.X, op), split(be.Y, op)...)
			}
			return []ast.Expr{unparen(e)}
		}
		var exemption func(ainfo *types.Info, e ast.Expr, d types.Object, depth int) bool
		var allowed func(ainfo *types.Info, cond ast.Expr, d types.Object, depth int) bool
		exemption = func(ainfo *types.Info, e ast.Expr, d types.Object, depth int) bool {
			e = unparen(e)
			switch x := e.(type) {
			case *ast.Ident:
				if builtinVars[ainfo.Uses[x]] {
					return true
				}
			case *ast.SelectorExpr:
				if x.Sel.Name == "Optional" && objOf(ainfo, x.X) == d {
					return true
				}
			case *ast.BinaryExpr:
				if x.Op == token.EQL && ((objOf(ainfo, x.X) == d && isNilIdent(ainfo, x.Y)) || (objOf(ainfo, x.Y) == d && isNilIdent(ainfo, x.X))) {
					return true
				}
				mentionsGroup := func(y ast.Expr) bool {
					found := false
					ast.Inspect(y, func(z ast.Node) bool {
						if sel, ok := z.(*ast.SelectorExpr); ok && sel.Sel.Name == "Group" && objOf(ainfo, sel.X) == d {
							found = true
						}
						return true
					})
					return found
				}
				if (x.Op == token.NEQ || x.Op == token.GTR) && (mentionsGroup(x.X) || mentionsGroup(x.Y)) {
					return true
				}
			case *ast.CallExpr:
				for _, pc := range preds {
					if ainfo == info && exprStr(e) == pc {
						return true
					}
				}
				// a private one-line predicate over the dependency: judged by what it returns
				if cal := callee(ainfo, x); cal != nil && depth > 0 {
					if t := w.Decls[cal]; t != nil && t.Decl.Body != nil && len(t.Decl.Body.List) == 1 {
						if ret, ok := t.Decl.Body.List[0].(*ast.ReturnStmt); ok && len(ret.Results) == 1 {
							for ai, a := range x.Args {
								if objOf(ainfo, a) == d {
									if ps := paramObjs(t); ai < len(ps) && ps[ai] != nil {
										return allowed(t.Pkg.TypesInfo, ret.Results[0], ps[ai], depth-1)
									}
								}
							}
							// a method of the dependency itself: dep.isOptional()
							if rcv, _, isM := methodCall(x); isM && objOf(ainfo, rcv) == d && t.Decl.Recv != nil && len(t.Decl.Recv.List[0].Names) == 1 {
								return allowed(t.Pkg.TypesInfo, ret.Results[0], t.Pkg.TypesInfo.Defs[t.Decl.Recv.List[0].Names[0]], depth-1)
							}
						}
					}
				}
			}
			return false
		}
		allowed = func(ainfo *types.Info, cond ast.Expr, d types.Object, depth int) bool {
			for _, dj := range split(cond, token.LOR) {
				ok := false
				for _, c := range split(dj, token.LAND) {
					if exemption(ainfo, c, d, depth) {
						ok = true
					}
				}
				if !ok {
					return false
				}
			}
			return true
		}
		nSkip := 0
		ast.Inspect(inner.Body, func(x ast.Node) bool {
			ifs, ok := x.(*ast.IfStmt)
			if !ok || len(ifs.Body.List) == 0 {
				return true
			}
			br, ok := ifs.Body.List[len(ifs.Body.List)-1].(*ast.BranchStmt)
			if !ok || br.Tok != token.CONTINUE {
				return true
			}
			nSkip++
			good := allowed(info, ifs.Cond, dep, 2)
			// `if _, ok := services[key]; ok { continue }`: the presence test itself, in its "found" form
			hitVar := func(as *ast.AssignStmt) types.Object {
				if as != nil && len(as.Lhs) == 2 && len(as.Rhs) == 1 {
					if ix, isIx := unparen(as.Rhs[0]).(*ast.IndexExpr); isIx && fieldOf(info, ix.X) == rg.services {
						return objOf(info, as.Lhs[1])
					}
				}
				return nil
			}
			if id, isId := unparen(ifs.Cond).(*ast.Ident); !good && isId {
				if as, isAs := ifs.Init.(*ast.AssignStmt); isAs && hitVar(as) != nil && hitVar(as) == info.Uses[id] {
					good = true
				}
				ast.Inspect(inner.Body, func(y ast.Node) bool {
					if as, isAs := y.(*ast.AssignStmt); isAs && as.Pos() < ifs.Pos() && hitVar(as) != nil && hitVar(as) == info.Uses[id] {
						good = true
					}
					return true
				})
			}
			// a skip nested in a branch that is itself one of the exemptions
			if !good {
				conds, vals := controllingCondsInfo(info, inner.Body, ifs.Pos())
				for i, cd := range conds {
					if vals[i] && allowed(info, cd, dep, 2) {
						good = true
					}
				}
			}
			r.Check(good, "R08.16", fmt.Sprintf("%s#skip/%d", fi.Name(), nSkip), ifs.Pos(), true,
				"the dependency is skipped as nil, optional, a group or an unkeyed reserved built-in",
				"the presence check skips a dependency on the condition "+exprStr(ifs.Cond)+", which is none of the exemptions resolution honours (nil entry, optional, group, reserved built-in): a registration set with such a dependency missing builds, and the service fails with 'service not found' when it is resolved")
			return true
		})
		if nSkip == 0 {
			r.OK("R08.16", fi.Name()+"#skip/none", fi.Decl.Pos(), false, "the dependency loop skips nothing by `continue` (exemptions, if any, are judged by R08.1a at the error exit)")
		}
	}
	// R08.1b: no dependence on the dependent's lifetime
	{
		bad := ""
		ast.Inspect(fi.Decl.Body, func(x ast.Node) bool {
			if sel, ok := x.(*ast.SelectorExpr); ok && sel.Sel.Name == "Lifetime" && objOf(info, sel.X) == desc {
				bad = "the presence check looks at the dependent's lifetime (" + w.Pos(sel.Pos()) + "): some lifetimes escape the check"
			}
			return true
		})
		r.Check(bad == "", "R08.1b", fi.Name()+"#all-lifetimes", fi.Decl.Pos(), false, "the presence check applies to dependents of every lifetime", bad)
	}
	// ---- R08.2
	{
		p := analysePipelineWith(w, nil)
		d := ro.doBuild
		dinfo := d.Pkg.TypesInfo
		n := 0
		for _, nd := range p.flow.Nodes() {
			for _, c := range callsIn(nd, false) {
				cal := callee(dinfo, c)
				if cal == nil {
					continue
				}
				runs := cal == ro.runInits.Obj || (ro.newScope != nil && cal == ro.newScope.Obj)
				if !runs {
					continue
				}
				n++
				r.Check(p.must.Before[nd].Has("ok:"+ro.createAll.Obj.Name()), "R08.2", fmt.Sprintf("%s#root-initializers/%d", d.Name(), n), c.Pos(), true,
					"the root scope's initialization functions run only after eager singleton creation succeeded",
					"scoped initialization functions are run on the root scope (via "+cal.Name()+") before the singletons exist: an initializer that depends on a singleton makes every Build fail")
			}
		}
		if n == 0 {
			r.Fail("R08.2", d.Name()+"#root-initializers/0", d.Decl.Pos(), "doBuild never runs the root scope's initialization functions")
		}
	}
	// ---- R08.3
	{
		gg := w.MustFn(w.Godi, "(*scope).GetGroup")
		ginfo := gg.Pkg.TypesInfo
		fl := w.FlowOf(gg)
		sol := fl.Solve(Spec{Must: true, Edge: condEdge(w, ginfo, 1)})
		good := false
		for _, ex := range fl.Exits() {
			if ex.Ret == nil || len(ex.Ret.Results) != 2 || !isNilIdent(ginfo, ex.Ret.Results[1]) {
				continue
			}
			for k := range sol.AtExit(ex) {
				if strings.HasPrefix(k, "len(") || strings.Contains(k, "=nil") {
					_ = k
				}
			}
			if cl, ok := unparen(ex.Ret.Results[0]).(*ast.CompositeLit); ok && len(cl.Elts) == 0 {
				good = true
			}
		}
		r.Check(good, "R08.3", gg.Name()+"#empty-group", gg.Decl.Pos(), false, "a group without members yields an empty slice and no error", "GetGroup has no exit returning an empty result without error for a group that has no members")
		ruleOptionalOnly(w, r, "R08.3")
	}
	// ---- R08.4
	{
		f := ro.resolveTop
		ok := false
		for _, g := range w.Within(f, 2) {
			if ro.isCreate(g.Obj) {
				continue
			}
			finfo := g.Pkg.TypesInfo
			ast.Inspect(g.Decl.Body, func(x ast.Node) bool {
				if cl, isCl := x.(*ast.CompositeLit); isCl {
					if tv, ok2 := finfo.Types[cl]; ok2 && isNamedType(tv.Type, modPath, "ResolutionError") {
						if c, has := compositeFields(cl)["Cause"]; has {
							if o := objOf(finfo, c); o != nil && o.Name() == "ErrServiceNotFound" {
								ok = true
							}
						}
					}
				}
				return true
			})
		}
		r.Check(ok, "R08.4", f.Name()+"#not-found", f.Decl.Pos(), false, "an unregistered service is reported as ResolutionError{Cause: ErrServiceNotFound}", "resolution does not report an unregistered service as ResolutionError{Cause: ErrServiceNotFound}")
	}
}

// ruleOptionalOnly: R04.5 - in BuildParamObject the only edge that continues
// after a field-resolution error is guarded by the field's optional tag.
func ruleOptionalOnly(w *World, r *Report, rule string) {
	top := w.MustFn(w.Refl, "(*ParamObjectBuilder).BuildParamObject")
	fi := top
	for _, f := range w.Within(top, 2) {
		for _, c := range callsIn(f.Decl.Body, true) {
			if cal := callee(f.Pkg.TypesInfo, c); w.IsFn(cal, w.Refl, "(*ParamObjectBuilder).resolveFieldDependency") {
				fi = f
			}
		}
	}
	r.Analysed(fi)
	info := fi.Pkg.TypesInfo
	fl := w.FlowOf(fi)
	// err variable of resolveFieldDependency
	var errObj types.Object
	ast.Inspect(fi.Decl.Body, func(x ast.Node) bool {
		if as, ok := x.(*ast.AssignStmt); ok && len(as.Rhs) == 1 && len(as.Lhs) == 2 {
			if c, ok := unparen(as.Rhs[0]).(*ast.CallExpr); ok {
				if cal := callee(info, c); w.IsFn(cal, w.Refl, "(*ParamObjectBuilder).resolveFieldDependency") {
					errObj = objOf(info, as.Lhs[1])
				}
			}
		}
		return true
	})
	if errObj == nil {
		r.Fail(rule, top.Name()+"#field-error", fi.Decl.Pos(), "BuildParamObject does not resolve its fields through resolveFieldDependency")
		return
	}
	sol := fl.Solve(Spec{Must: true, Edge: condEdge(w, info, 1)})
	bad := ""
	sawReturn := false
	for _, n := range fl.Nodes() {
		bf := sol.Before[n]
		if !bf.Has(errObj.Name() + "=nonnil") {
			continue
		}
		switch s := n.(type) {
		case *ast.BranchStmt:
			if s.Tok == token.CONTINUE {
				opt := false
				for k := range bf {
					if strings.HasSuffix(k, ".Optional=true") {
						opt = true
					}
				}
				if !opt {
					bad = "a field whose resolution failed is skipped at " + w.Pos(s.Pos()) + " without its optional tag having been found set: a required dependency is silently left zero"
				}
			}
		case *ast.ReturnStmt:
			if len(s.Results) >= 1 && !isNilIdent(info, s.Results[len(s.Results)-1]) {
				sawReturn = true
				nonOpt := false
				for k := range bf {
					if strings.HasSuffix(k, ".Optional=false") {
						nonOpt = true
					}
				}
				if !nonOpt {
					bad = "a failed field resolution is returned as an error at " + w.Pos(s.Pos()) + " without the field's optional tag having been tested false: a missing optional dependency makes construction fail although Build accepted the registration"
				}
			}
		}
	}
	if !sawReturn && bad == "" {
		bad = "a failed resolution of a required field does not make BuildParamObject return the error"
	}
	r.Check(bad == "", rule, top.Name()+"#optional-only", fi.Decl.Pos(), true, "only fields tagged optional survive a failed resolution; any other failure is returned", bad)
}

// presenceCheckFn: the collection method that reports ErrServiceNotFound at build time.
func presenceCheckFn(w *World) *FuncInfo {
	if fi := w.Fn(w.Godi, "(*collection).validateDependencies"); fi != nil {
		return fi
	}
	ro := resolveRoles(w)
	var out *FuncInfo
	for _, f := range w.FuncsOf(w.Godi) {
		if f == ro.resolve || !recvIs(f, "collection") {
			continue
		}
		uses := false
		ast.Inspect(f.Decl.Body, func(x ast.Node) bool {
			if id, ok := x.(*ast.Ident); ok && id.Name == "ErrServiceNotFound" {
				uses = true
			}
			return true
		})
		if uses {
			out = f
		}
	}
	return out
}

// isCycleSearch: an unexported graph function that can return a CircularDependencyError
// and walks the edge table (the DFS), as opposed to path reconstruction for the message.
func isCycleSearch(w *World, fi *FuncInfo) bool {
	if fi.Obj.Exported() {
		return false
	}
	sig := fi.Obj.Type().(*types.Signature)
	if sig.Results().Len() != 1 || !isErrorType(sig.Results().At(0).Type()) {
		return false
	}
	return hasLiteralOf(w, fi, modPath+"/internal/graph", "CircularDependencyError", 0)
}

// literalResult: the composite literal that e evaluates to - e itself, or the
// single `return <literal>` of a locally bound function literal / private helper
// that e calls (conflict(dep, lt) building the error). nil if e is anything else.
func literalResult(w *World, info *types.Info, scope ast.Node, e ast.Expr) *ast.CompositeLit {
	if l := litOf(e); l != nil {
		return l
	}
	c, ok := unparen(e).(*ast.CallExpr)
	if !ok {
		return nil
	}
	var body *ast.BlockStmt
	if id, ok := unparen(c.Fun).(*ast.Ident); ok && scope != nil {
		if bs, ok := scope.(*ast.BlockStmt); ok {
			if lit := litBindings(info, bs)[info.Uses[id]]; lit != nil {
				body = lit.Body
			}
		}
	}
	if body == nil {
		if cal := callee(info, c); cal != nil && !cal.Exported() {
			if t := w.Decls[cal]; t != nil {
				body = t.Decl.Body
			}
		}
	}
	if body == nil || len(body.List) != 1 {
		return nil
	}
	ret, ok := body.List[0].(*ast.ReturnStmt)
	if !ok || len(ret.Results) != 1 {
		return nil
	}
	return litOf(ret.Results[0])
}

// groupLinker: the unexported graph function that writes edges and reads .Group
// (connects group placeholders to the members of the group).
func groupLinker(w *World) *FuncInfo {
	gr := resolveGraph(w)
	var link *FuncInfo
	for _, fi := range w.FuncsOf(w.Graph) {
		if fi.Obj.Exported() || fi == gr.updateDegrees {
			continue
		}
		info := fi.Pkg.TypesInfo
		writesEdges, readsGroup := false, false
		ast.Inspect(fi.Decl.Body, func(x ast.Node) bool {
			if as, ok := x.(*ast.AssignStmt); ok {
				for _, l := range as.Lhs {
					if ix, ok := unparen(l).(*ast.IndexExpr); ok && fieldOf(info, ix.X) == gr.edges {
						writesEdges = true
					}
				}
			}
			if sel, ok := x.(*ast.SelectorExpr); ok && sel.Sel.Name == "Group" {
				readsGroup = true
			}
			return true
		})
		if writesEdges && readsGroup {
			link = fi
		}
	}
	return link
}

// reservedPredicate: a function func(t reflect.Type) bool whose answer is the
// membership of its parameter in the reserved-types table.
func reservedPredicate(w *World, cal *types.Func) bool {
	t := w.Decls[cal]
	if t == nil || t.Decl.Body == nil {
		return false
	}
	sig := cal.Type().(*types.Signature)
	if sig.Params().Len() != 1 || sig.Results().Len() != 1 || !isNamedType(sig.Params().At(0).Type(), "reflect", "Type") {
		return false
	}
	if b, ok := sig.Results().At(0).Type().Underlying().(*types.Basic); !ok || b.Info()&types.IsBoolean == 0 {
		return false
	}
	info := t.Pkg.TypesInfo
	var param types.Object
	if len(t.Decl.Type.Params.List) == 1 && len(t.Decl.Type.Params.List[0].Names) == 1 {
		param = info.Defs[t.Decl.Type.Params.List[0].Names[0]]
	}
	reserved := w.Godi.Types.Scope().Lookup("reservedTypes")
	reads := false
	ast.Inspect(t.Decl.Body, func(n ast.Node) bool {
		if ix, ok := n.(*ast.IndexExpr); ok && reserved != nil && objOf(info, ix.X) == reserved && objOf(info, ix.Index) == param {
			reads = true
		}
		return true
	})
	// nothing else decides the answer: the body has no other condition
	conds := 0
	ast.Inspect(t.Decl.Body, func(n ast.Node) bool {
		switch n.(type) {
		case *ast.IfStmt, *ast.SwitchStmt, *ast.ForStmt, *ast.RangeStmt:
			conds++
		}
		return true
	})
	return reads && conds == 0
}

// reservedPredicateCalls: the texts of the calls pred(dep.Type) in fi with pred a reserved predicate.
func reservedPredicateCalls(w *World, fi *FuncInfo, dep types.Object) []string {
	info := fi.Pkg.TypesInfo
	var out []string
	for _, c := range callsIn(fi.Decl.Body, true) {
		if cal := callee(info, c); cal != nil && reservedPredicate(w, cal) && len(c.Args) == 1 {
			if isFieldNamed(info, c.Args[0], "Type") && objOf(info, selBase(c.Args[0])) == dep {
				out = append(out, exprStr(c))
			}
		}
	}
	return out
}
