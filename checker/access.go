package main

import (
	"go/ast"
	"go/token"
	"go/types"
)

// Access is one syntactic access to a struct field.
type Access struct {
	Field    *types.Var
	Sel      *ast.SelectorExpr
	Base     ast.Expr // x in x.f
	Kind     string   // read | write | index-write | delete | clear | addr | atomic | incdec | range | method
	Unit     *unit
	Node     ast.Node // CFG node containing the access (nil inside composite literal at package level)
	Pkg      string
	Call     *ast.CallExpr // for atomic/method: the consuming call
	ViaAlias string        // write through a local alias of the field's slice/map
	At       token.Pos     // position of the access (differs from Sel for alias writes)
}

// Pos is where the access happens.
func (a *Access) Pos() token.Pos {
	if a.At.IsValid() {
		return a.At
	}
	return a.Sel.Pos()
}

func (a *Access) IsWrite() bool {
	switch a.Kind {
	case "write", "index-write", "delete", "clear", "incdec", "addr":
		return true
	}
	return false
}

// isAtomicFunc reports whether f is a function of sync/atomic.
func isAtomicFunc(f *types.Func) bool {
	return f != nil && f.Pkg() != nil && f.Pkg().Path() == "sync/atomic"
}

// collectAccesses enumerates every selector expression that selects a field
// for which want returns true, classified by syntactic context.
func collectAccesses(w *World, la *LockAnalysis, want func(*types.Var) bool) []*Access {
	var out []*Access
	for _, fi := range w.AllFuncs() {
		info := fi.Pkg.TypesInfo
		var stack []ast.Node
		ast.Inspect(fi.Decl, func(n ast.Node) bool {
			if n == nil {
				stack = stack[:len(stack)-1]
				return true
			}
			stack = append(stack, n)
			sel, ok := n.(*ast.SelectorExpr)
			if !ok {
				return true
			}
			fv := fieldOf(info, sel)
			if fv == nil || !want(fv) {
				return true
			}
			a := &Access{Field: fv, Sel: sel, Base: sel.X, Kind: "read", Pkg: fi.Pkg.PkgPath}
			// climb parents
			var cur ast.Node = sel
			for i := len(stack) - 2; i >= 0; i-- {
				p := stack[i]
				switch x := p.(type) {
				case *ast.ParenExpr:
					cur = x
					continue
				case *ast.IndexExpr:
					if x.X == cur {
						// x.f[k]: look one level further for assignment
						if i-1 >= 0 {
							if as, ok := stack[i-1].(*ast.AssignStmt); ok {
								for _, l := range as.Lhs {
									if unparen(l) == x {
										a.Kind = "index-write"
									}
								}
							}
							if id, ok := stack[i-1].(*ast.IncDecStmt); ok && unparen(id.X) == x {
								a.Kind = "index-write"
							}
						}
					}
				case *ast.AssignStmt:
					for _, l := range x.Lhs {
						if unparen(l) == cur {
							a.Kind = "write"
						}
					}
				case *ast.IncDecStmt:
					if unparen(x.X) == cur {
						a.Kind = "incdec"
					}
				case *ast.UnaryExpr:
					if x.Op == token.AND && unparen(x.X) == cur {
						a.Kind = "addr"
						if i-1 >= 0 {
							if c, ok := stack[i-1].(*ast.CallExpr); ok && isAtomicFunc(callee(info, c)) {
								a.Kind = "atomic"
								a.Call = c
							}
						}
					}
				case *ast.CallExpr:
					if id, ok := unparen(x.Fun).(*ast.Ident); ok {
						if b, ok := info.Uses[id].(*types.Builtin); ok && len(x.Args) > 0 && unparen(x.Args[0]) == cur {
							switch b.Name() {
							case "delete":
								a.Kind = "delete"
							case "clear":
								a.Kind = "clear"
							}
						}
					}
				case *ast.RangeStmt:
					if unparen(x.X) == cur {
						a.Kind = "range"
					}
				case *ast.SelectorExpr:
					if x.X == cur {
						// x.f.m(...) or x.f.g
						if i-1 >= 0 {
							if c, ok := stack[i-1].(*ast.CallExpr); ok && unparen(c.Fun) == x {
								if _, isMethod := info.Uses[x.Sel].(*types.Func); isMethod {
									a.Kind = "method"
									a.Call = c
								}
							}
						}
					}
				}
				break
			}
			if la != nil {
				a.Unit, a.Node = la.NodeAt(sel.Pos())
			}
			out = append(out, a)
			return true
		})
		out = append(out, aliasWrites(fi, la, want)...)
	}
	return out
}

// aliasWrites finds writes through a local alias of a slice- or map-typed
// field: v := x.f (or x.f[a:b]) followed by v[i] = ..., delete(v, k), clear(v).
// Each is reported as an index-write to the field at the position of the write.
func aliasWrites(fi *FuncInfo, la *LockAnalysis, want func(*types.Var) bool) []*Access {
	info := fi.Pkg.TypesInfo
	alias := map[types.Object]*ast.SelectorExpr{}
	ast.Inspect(fi.Decl, func(n ast.Node) bool {
		as, ok := n.(*ast.AssignStmt)
		if !ok || len(as.Lhs) != len(as.Rhs) {
			return true
		}
		for i, l := range as.Lhs {
			o := objOf(info, l)
			if o == nil {
				continue
			}
			rhs := unparen(as.Rhs[i])
			if sl, ok := rhs.(*ast.SliceExpr); ok {
				rhs = unparen(sl.X)
			}
			sel, ok := rhs.(*ast.SelectorExpr)
			if !ok {
				continue
			}
			fv := fieldOf(info, sel)
			if fv == nil || !want(fv) {
				continue
			}
			switch fv.Type().Underlying().(type) {
			case *types.Slice, *types.Map:
				alias[o] = sel
			}
		}
		return true
	})
	if len(alias) == 0 {
		return nil
	}
	var out []*Access
	emit := func(target ast.Expr, pos token.Pos, kind string) {
		id := rootIdent(target)
		if id == nil {
			return
		}
		sel := alias[info.Uses[id]]
		if sel == nil {
			return
		}
		a := &Access{Field: fieldOf(info, sel), Sel: sel, Base: sel.X, Kind: kind, Pkg: fi.Pkg.PkgPath, ViaAlias: id.Name, At: pos}
		if la != nil {
			a.Unit, a.Node = la.NodeAt(pos)
		}
		out = append(out, a)
	}
	ast.Inspect(fi.Decl, func(n ast.Node) bool {
		switch s := n.(type) {
		case *ast.AssignStmt:
			for _, l := range s.Lhs {
				if ix, ok := unparen(l).(*ast.IndexExpr); ok {
					emit(ix.X, ix.Pos(), "index-write")
				}
			}
		case *ast.IncDecStmt:
			if ix, ok := unparen(s.X).(*ast.IndexExpr); ok {
				emit(ix.X, ix.Pos(), "index-write")
			}
		case *ast.CallExpr:
			if id, ok := unparen(s.Fun).(*ast.Ident); ok {
				if b, ok := info.Uses[id].(*types.Builtin); ok && len(s.Args) > 0 {
					switch b.Name() {
					case "delete":
						emit(s.Args[0], s.Pos(), "delete")
					case "clear":
						emit(s.Args[0], s.Pos(), "clear")
					}
				}
			}
		}
		return true
	})
	return out
}

// ctorSet computes, for a struct type, the functions in which an object of the
// type is being constructed before anybody else can see it: the functions that
// contain a composite literal of the type, plus the unexported helpers all of
// whose call sites lie in the set.
func ctorSet(w *World, la *LockAnalysis, named *types.Named) map[*FuncInfo]bool {
	set := map[*FuncInfo]bool{}
	for _, fi := range w.AllFuncs() {
		info := fi.Pkg.TypesInfo
		ast.Inspect(fi.Decl, func(n ast.Node) bool {
			if cl, ok := n.(*ast.CompositeLit); ok {
				if tv, ok := info.Types[cl]; ok {
					if nt := namedOf(tv.Type); nt != nil && nt.Obj() == named.Obj() {
						set[fi] = true
					}
				}
			}
			return true
		})
	}
	for changed := true; changed; {
		changed = false
		for _, u := range la.units {
			if u.lit != nil || set[u.fi] || u.root || len(u.calls) == 0 {
				continue
			}
			all := true
			for _, cs := range u.calls {
				if !set[cs.in.fi] {
					all = false
				}
			}
			if all {
				set[u.fi] = true
				changed = true
			}
		}
	}
	return set
}
