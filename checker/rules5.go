package main

import (
	"fmt"
	"go/ast"
	"go/token"
	"go/types"
	"golang.org/x/tools/go/cfg"
	"golang.org/x/tools/go/packages"
	"os"
	"sort"
	"strings"
)

// Round-6 rules: invariants that new code (a feature, a fast path, a
// robustness patch) breaks without touching the functions the older rules are
// anchored in. Each is a who-may-write / who-may-call rule over the whole
// program, so a new function is judged like an old one.

// registrationClosure: the functions that run only while a registration is
// being added - those that build Descriptor values and their private helpers.
func registrationClosure(w *World) map[*FuncInfo]string {
	named, _ := w.Struct(w.Godi, "Descriptor")
	base := map[*FuncInfo]string{}
	if named == nil {
		return base
	}
	for _, fi := range w.FuncsOf(w.Godi) {
		lit := false
		ast.Inspect(fi.Decl, func(n ast.Node) bool {
			if cl, ok := n.(*ast.CompositeLit); ok {
				if nt := namedOf(fi.Pkg.TypesInfo.TypeOf(cl)); nt != nil && nt.Obj() == named.Obj() {
					lit = true
				}
			}
			return !lit
		})
		if lit {
			base[fi] = fi.Name()
		}
	}
	// the registration entry itself (it may have handed all the literals to factory helpers)
	if add := w.Fn(w.Godi, "(*collection).addService"); add != nil {
		base[add] = add.Name()
	}
	return w.HelperClosure(base)
}

// ruleDescriptorImmutable: a Descriptor is shared by the collection, by every
// provider built from it and by all their scopes; it is written only while it is
// being built and registered. Every write to a Descriptor field - an assignment,
// an in-place overwrite through the pointer, a mutating call on a sync/atomic
// field - must have a base that is fresh in the writing function, or be in a
// function that runs only as part of a registration.
func ruleDescriptorImmutable(w *World, r *Report, rule string) {
	named, _ := w.Struct(w.Godi, "Descriptor")
	if named == nil {
		r.Undecided(rule, "Descriptor", token.NoPos, "struct Descriptor not found")
		return
	}
	reg := registrationClosure(w)
	isDesc := func(t types.Type) bool {
		n := namedOf(t)
		return n != nil && n.Obj() == named.Obj()
	}
	type site struct {
		fi   *FuncInfo
		base ast.Expr
		pos  token.Pos
		what string
	}
	var sites []site
	accs := collectAccesses(w, nil, func(v *types.Var) bool { return ownerOfFieldRaw(w, v) == "Descriptor" })
	for _, a := range accs {
		fi := w.FuncAt(a.Sel.Pos())
		if fi == nil {
			continue
		}
		write := a.IsWrite() && a.Kind != "addr"
		what := a.Kind
		switch a.Kind {
		case "atomic":
			if cal := callee(fi.Pkg.TypesInfo, a.Call); cal != nil && !strings.HasPrefix(cal.Name(), "Load") {
				write, what = true, "atomic."+cal.Name()
			}
		case "method":
			if isSyncType(a.Field.Type()) {
				if sel, ok := unparen(a.Call.Fun).(*ast.SelectorExpr); ok && sel.Sel.Name != "Load" && sel.Sel.Name != "RLock" && sel.Sel.Name != "RUnlock" {
					write, what = true, "."+sel.Sel.Name
				}
			}
		case "addr":
			// &d.f handed to something that is not an atomic load: may be written through
			write = !isSyncType(a.Field.Type()) && false
		}
		if write {
			sites = append(sites, site{fi, a.Base, a.Pos(), a.Field.Name() + " (" + what + ")"})
		}
	}
	// *d = …
	for _, fi := range w.AllFuncs() {
		info := fi.Pkg.TypesInfo
		ast.Inspect(fi.Decl.Body, func(n ast.Node) bool {
			as, ok := n.(*ast.AssignStmt)
			if !ok {
				return true
			}
			for _, l := range as.Lhs {
				if st, ok := unparen(l).(*ast.StarExpr); ok {
					if tv, ok := info.Types[st]; ok && isDesc(tv.Type) {
						sites = append(sites, site{fi, st.X, st.Pos(), "the whole value (overwrite through the pointer)"})
					}
				}
			}
			return true
		})
	}
	sort.Slice(sites, func(i, j int) bool { return posLess(sites[i].pos, sites[j].pos) })
	seen := map[string]int{}
	for _, s := range sites {
		info := s.fi.Pkg.TypesInfo
		ok, why := false, ""
		if id := rootIdent(s.base); id != nil {
			if o, isVar := info.ObjectOf(id).(*types.Var); isVar && !o.IsField() {
				_, in := reg[s.fi]
				// an element of a list: judged like the list it is taken from
				id2 := id
				ast.Inspect(s.fi.Decl.Body, func(x ast.Node) bool {
					if rs, ok := x.(*ast.RangeStmt); ok && rs.Value != nil {
						if vid, ok := rs.Value.(*ast.Ident); ok && info.Defs[vid] == o {
							if rid := rootIdent(rs.X); rid != nil {
								if ro, ok := info.ObjectOf(rid).(*types.Var); ok && !ro.IsField() {
									o, id2 = ro, rid
								}
							}
						}
					}
					return true
				})
				id = id2
				switch {
				case !isParamOrRecv(s.fi, info, o) && freshExprIn(s.fi, id, 2):
					ok, why = true, "the descriptor is fresh in the writing function"
				case !isParamOrRecv(s.fi, info, o) && isDesc(o.Type()) && !isPointerType(o.Type()) && s.fi.Decl.Body.Pos() <= o.Pos() && o.Pos() < s.fi.Decl.Body.End():
					// a local of the struct type itself (clone := *d): the write changes the copy
					ok, why = true, "the write goes to a local copy of the descriptor"
				case isParamOrRecv(s.fi, info, o) && in:
					ok, why = true, "the function runs only as part of a registration, on the descriptor it is handed"
				case freshDescriptor(w, s.fi, id, 3, isDesc):
					ok, why = true, "every call path hands this function a descriptor that was built for the call (a literal, a copy)"
				}
			}
		}
		con := fmt.Sprintf("%s#descriptor-write:%s", s.fi.Name(), strings.SplitN(s.what, " ", 2)[0])
		seen[con]++
		if seen[con] > 1 {
			con = fmt.Sprintf("%s/%d", con, seen[con])
		}
		r.Check(ok, rule, con, s.pos, false,
			"write to Descriptor."+s.what+": "+why,
			"writes Descriptor."+s.what+" of a descriptor that may already be registered: descriptors are shared by the collection, every provider built from it and all their scopes - state kept on one is shared between providers (two providers built from one collection, a provider and a later Build), and a registration changed in place changes under validation results, caches and topological orders that were computed from it")
	}
	if len(sites) == 0 {
		r.Fail(rule, "Descriptor#writes", token.NoPos, "no write to a Descriptor field found (the descriptor builders were expected)")
	}
}

func isParamOrRecv(fi *FuncInfo, info *types.Info, o types.Object) bool {
	if fi.Decl.Recv != nil {
		for _, f := range fi.Decl.Recv.List {
			for _, n := range f.Names {
				if info.Defs[n] == o {
					return true
				}
			}
		}
	}
	for _, f := range fi.Decl.Type.Params.List {
		for _, n := range f.Names {
			if info.Defs[n] == o {
				return true
			}
		}
	}
	return false
}

// ruleEveryExportedMethodChecksDisposed: R-ENTRY for methods the fixed list does
// not name. An exported method of *scope / *provider that can reach the core of
// the container - resolution, construction, storing, scope creation, the
// invoker, a dynamic call - or that writes a field of its receiver, tests its own
// disposed flag before any of that and answers with its own sentinel. Read-only
// queries (the registry, counters, the flag itself) and pure accessors are
// recorded. Close is the subject of the close rules.
func ruleEveryExportedMethodChecksDisposed(w *World, r *Report, rule string) {
	ro := resolveRoles(w)
	listed := map[string]bool{"Get": true, "GetKeyed": true, "GetGroup": true, "CreateScope": true, "Close": true}
	core := map[*FuncInfo]bool{}
	for _, f := range []*FuncInfo{ro.resolve, ro.resolveTop, ro.createInstance, ro.createEntry, ro.setInstance, ro.setSingleton, ro.newScope, ro.allocScope, ro.runInits, ro.createAll} {
		if f != nil {
			core[f] = true
		}
	}
	for c := range ro.creators {
		if t := w.Decls[c]; t != nil {
			core[t] = true
		}
	}
	isOwner := func(f *types.Func) string {
		if rn := recvNamed(f); rn != nil && rn.Obj().Pkg() == w.Godi.Types && (rn.Obj().Name() == "scope" || rn.Obj().Name() == "provider") {
			return rn.Obj().Name()
		}
		return ""
	}
	curOwner := ""
	var reaches func(fi *FuncInfo, depth int, seen map[*FuncInfo]bool) string
	reaches = func(fi *FuncInfo, depth int, seen map[*FuncInfo]bool) string {
		if seen[fi] {
			return ""
		}
		seen[fi] = true
		info := fi.Pkg.TypesInfo
		why := ""
		for _, c := range callsIn(fi.Decl.Body, true) {
			cal := callee(info, c)
			if cal == nil {
				if id, isId := unparen(c.Fun).(*ast.Ident); isId {
					if _, isB := info.Uses[id].(*types.Builtin); isB {
						continue
					}
				}
				// a dynamic call: through a function value that is not a local literal or a parameter of a repository-only helper
				if _, isLit := unparen(c.Fun).(*ast.FuncLit); !isLit {
					if id, isId := unparen(c.Fun).(*ast.Ident); !isId || info.Uses[id] == nil || !isLocalFuncValue(info, fi, id) {
						if tv, ok := info.Types[c.Fun]; !ok || !tv.IsType() {
							why = "a call through the function value " + exprStr(c.Fun)
						}
					}
				}
				continue
			}
			if cal.Pkg() != nil && cal.Pkg().Path() == "reflect" && (cal.Name() == "Call" || cal.Name() == "CallSlice") {
				why = "reflect.Value.Call"
			}
			if rn := recvNamed(cal); rn != nil && rn.Obj().Pkg() != nil && rn.Obj().Pkg() == w.Refl.Types {
				switch rn.Obj().Name() {
				case "ConstructorInvoker", "ParamObjectBuilder", "ResultObjectProcessor":
					why = "the invoker (" + cal.Name() + ")"
				}
			}
			t := w.Decls[cal]
			if t == nil {
				continue
			}
			if core[t] {
				why = t.Name()
				continue
			}
			if depth > 0 && (!cal.Exported() || isOwner(cal) != "") && !listed[cal.Name()] {
				if sub := reaches(t, depth-1, seen); sub != "" {
					why = sub + " (through " + t.Name() + ")"
				}
			}
			// an exported entry point of the other owner (p.rootScope.Get): resolution all the same
			if cal.Exported() && isOwner(cal) != "" && isOwner(cal) != curOwner && listed[cal.Name()] && cal.Name() != "Close" {
				why = t.Name()
			}
		}
		return why
	}
	for _, owner := range []string{"scope", "provider"} {
		sentinel := map[string]string{"scope": "ErrScopeDisposed", "provider": "ErrProviderDisposed"}[owner]
		flag := w.Field(w.Godi, owner, "disposed")
		named, _ := w.Struct(w.Godi, owner)
		for _, fi := range w.FuncsOf(w.Godi) {
			rn := recvNamed(fi.Obj)
			if rn == nil || rn.Obj().Name() != owner || !fi.Obj.Exported() || listed[fi.Obj.Name()] || fi.Decl.Body == nil {
				continue
			}
			con := fi.Name() + "#entry-check"
			body := fi
			for i := 0; i < 2; i++ {
				t := pureDelegation(w, body)
				if t == nil {
					break
				}
				body = t
			}
			curOwner = owner
			why := reaches(body, 3, map[*FuncInfo]bool{})
			// writes a field of the receiver's struct (directly or in a private helper)
			if why == "" && named != nil {
				for _, f := range w.Within(body, 2) {
					for _, a := range collectAccessesIn(w, f, func(v *types.Var) bool { return ownerOfFieldRaw(w, v) == owner && !isSyncType(v.Type()) }) {
						// the container's own tables and bookkeeping (the fields the rules know by role);
						// a list a new feature added for itself (listeners, hooks) is that feature's business
						if _, known := fieldRoles[w.canonField(a.Field)]; !known {
							continue
						}
						if a.IsWrite() && a.Kind != "addr" {
							why = "a write to " + owner + "." + a.Field.Name()
						}
					}
				}
			}
			if why == "" {
				r.OK(rule, con, fi.Decl.Pos(), false, "read-only: reaches neither resolution, construction, storing, scope creation nor a dynamic call, and writes no field of the %s", owner)
				continue
			}
			res := analyseEntryWith(w, body, flag, sentinel, 2, true)
			switch {
			case res.bad != "":
				r.Fail(rule, con, fi.Decl.Pos(), "%s reaches %s; %s (every exported method of %s that uses the container must refuse a closed one with %s)", fi.Name(), why, res.bad, owner, sentinel)
			case !res.sawTest:
				r.Fail(rule, con, fi.Decl.Pos(), "%s reaches %s and never tests its own disposed flag: on a closed %s it works, or fails with another object's error, instead of %s", fi.Name(), why, owner, sentinel)
			default:
				r.OK(rule, con, fi.Decl.Pos(), true, "reaches %s; the atomic load of %s.disposed dominates every use of the container and its set edge returns %s", why, owner, sentinel)
			}
		}
	}
}

// isLocalFuncValue: id names a function literal bound in fi, or a parameter of an unexported function.
func isLocalFuncValue(info *types.Info, fi *FuncInfo, id *ast.Ident) bool {
	o := info.Uses[id]
	if o == nil {
		return false
	}
	if isParamOf(fi, info, o) && !fi.Obj.Exported() {
		return true
	}
	bound := false
	ast.Inspect(fi.Decl.Body, func(x ast.Node) bool {
		if as, ok := x.(*ast.AssignStmt); ok && len(as.Lhs) == len(as.Rhs) {
			for i, l := range as.Lhs {
				if objOf(info, l) == o {
					if _, isLit := unparen(as.Rhs[i]).(*ast.FuncLit); isLit {
						bound = true
					}
				}
			}
		}
		return true
	})
	return bound
}

// collectAccessesIn: collectAccesses restricted to one function.
func collectAccessesIn(w *World, fi *FuncInfo, want func(*types.Var) bool) []*Access {
	var out []*Access
	for _, a := range collectAccessesCached(w, want) {
		if fi.Decl.Pos() <= a.Pos() && a.Pos() < fi.Decl.End() {
			out = append(out, a)
		}
	}
	return out
}

var accessCache []*Access

// collectAccessesCached: all field accesses of the repository (computed once), filtered.
func collectAccessesCached(w *World, want func(*types.Var) bool) []*Access {
	if accessCache == nil {
		accessCache = collectAccesses(w, nil, func(*types.Var) bool { return true })
	}
	var out []*Access
	for _, a := range accessCache {
		if want(a.Field) {
			out = append(out, a)
		}
	}
	return out
}

// ruleStoresOnlyCreated: what a scope stores - and therefore tracks for disposal -
// is what it created. The instance handed to setInstance / setSingleton never
// comes out of an instance table (this scope's, an ancestor's, the provider's):
// a scope that stores another owner's instance closes it a second time, and
// closes it while its owner is still open.
func ruleStoresOnlyCreated(w *World, r *Report, rule string) {
	ro := resolveRoles(w)
	n := 0
	for _, fi := range w.FuncsOf(w.Godi) {
		info := fi.Pkg.TypesInfo
		// variables of fi defined by a lookup in an instance table (any receiver)
		looked := map[types.Object]ast.Expr{}
		ast.Inspect(fi.Decl.Body, func(x ast.Node) bool {
			as, ok := x.(*ast.AssignStmt)
			if !ok || len(as.Rhs) != 1 || len(as.Lhs) == 0 {
				return true
			}
			if tbl, _ := ro.lookupSite(w, info, as.Rhs[0]); tbl != nil {
				if o := objOf(info, as.Lhs[0]); o != nil {
					looked[o] = as.Rhs[0]
				}
			}
			// … or by a resolution (resolve, Get, GetKeyed): what a resolution returns was stored - and
			// is tracked - by the scope that owns it (an alias that files the target's instance again)
			if c, isC := unparen(as.Rhs[0]).(*ast.CallExpr); isC && isResolutionFunc(w, ro, callee(info, c)) {
				if o := objOf(info, as.Lhs[0]); o != nil {
					looked[o] = as.Rhs[0]
				}
			}
			return true
		})
		k := 0
		for _, c := range callsIn(fi.Decl.Body, true) {
			cal := callee(info, c)
			if cal == nil || !((ro.setInstance != nil && cal == ro.setInstance.Obj) || (ro.setSingleton != nil && cal == ro.setSingleton.Obj)) {
				continue
			}
			n++
			k++
			bad := ""
			for _, a := range c.Args {
				tv, ok := info.Types[a]
				if !ok || !types.IsInterface(tv.Type) {
					continue
				}
				if tbl, _ := ro.lookupSite(w, info, a); tbl != nil {
					bad = exprStr(a)
				}
				if id := rootIdent(a); id != nil {
					if src, ok := looked[info.ObjectOf(id)]; ok {
						bad = exprStr(a) + " (from " + exprStr(src) + ")"
					}
				}
			}
			con := fmt.Sprintf("%s#stores:%s/%d", fi.Name(), cal.Name(), k)
			r.Check(bad == "", rule, con, c.Pos(), false,
				"the instance handed to "+cal.Name()+" does not come out of an instance table",
				"the instance handed to "+cal.Name()+" was read from an instance table or came out of a resolution: "+bad+" - the storing scope tracks an instance another owner created and closes it a second time (and while its owner is still open)")
		}
	}
	if n == 0 {
		r.Fail(rule, "setInstance#callers", token.NoPos, "no call of setInstance / setSingleton found")
	}
}

// ruleNoRepeatedConstructorCall: one argument resolution per constructor call.
// On the chain from createInstance down to reflect.Value.Call no call site sits
// in a loop, unless every iteration resolves the arguments again (the callee
// itself reaches the resolver, or the loop body calls something that does). A
// retry loop around the bare call hands the constructor the transient
// dependencies of the previous attempt.
func ruleNoRepeatedConstructorCall(w *World, r *Report, rule string) {
	ro := resolveRoles(w)
	reaches := map[*FuncInfo]bool{}
	resolverCall := func(info *types.Info, c *ast.CallExpr) bool {
		cal := callee(info, c)
		if cal == nil {
			return false
		}
		rn := recvNamed(cal)
		return rn != nil && rn.Obj().Name() == "DependencyResolver"
	}
	reachesResolver := func(fi *FuncInfo) bool {
		if v, ok := reaches[fi]; ok {
			return v
		}
		v := false
		for _, f := range w.Within(fi, 4) {
			for _, c := range callsIn(f.Decl.Body, true) {
				if resolverCall(f.Pkg.TypesInfo, c) {
					v = true
				}
			}
		}
		reaches[fi] = v
		return v
	}
	loopsAround := func(fi *FuncInfo, pos token.Pos) []*ast.BlockStmt {
		var out []*ast.BlockStmt
		ast.Inspect(fi.Decl.Body, func(x ast.Node) bool {
			if x == nil || !(x.Pos() <= pos && pos < x.End()) {
				return x == nil || false
			}
			switch l := x.(type) {
			case *ast.ForStmt:
				if l.Body.Pos() <= pos && pos < l.Body.End() {
					out = append(out, l.Body)
				}
			case *ast.RangeStmt:
				if l.Body.Pos() <= pos && pos < l.Body.End() {
					out = append(out, l.Body)
				}
			}
			return true
		})
		return out
	}
	type site struct {
		fi     *FuncInfo
		call   *ast.CallExpr
		target *FuncInfo // nil for the reflect call itself
	}
	var sites []site
	frontier := map[*FuncInfo]bool{}
	for _, fi := range w.FuncsOf(w.Refl) {
		info := fi.Pkg.TypesInfo
		for _, c := range callsIn(fi.Decl.Body, true) {
			cal := callee(info, c)
			if cal == nil || cal.Pkg() == nil || cal.Pkg().Path() != "reflect" || (cal.Name() != "Call" && cal.Name() != "CallSlice") {
				continue
			}
			// the constructor call: not the call of a resolver-produced function value
			sites = append(sites, site{fi, c, nil})
			frontier[fi] = true
		}
	}
	seen := map[*FuncInfo]bool{}
	for depth := 0; depth < 6 && len(frontier) > 0; depth++ {
		next := map[*FuncInfo]bool{}
		for _, g := range w.AllFuncs() {
			if g.Decl.Body == nil {
				continue
			}
			for _, c := range callsIn(g.Decl.Body, true) {
				cal := callee(g.Pkg.TypesInfo, c)
				if cal == nil {
					continue
				}
				t := w.Decls[cal]
				if t == nil || !frontier[t] || t == ro.createInstance {
					continue
				}
				sites = append(sites, site{g, c, t})
				if !seen[g] && g != ro.createInstance {
					next[g] = true
				}
				seen[g] = true
			}
		}
		frontier = next
	}
	n := 0
	cnt := map[string]int{}
	for _, s := range sites {
		// only the chain below createInstance (and the invoker's own functions) is judged
		if s.fi.Pkg != w.Refl && s.fi != ro.createInstance && !ro.creators[s.fi.Obj] {
			in := false
			for _, f := range w.Within(ro.createInstance, 3) {
				if f == s.fi {
					in = true
				}
			}
			if !in {
				continue
			}
		}
		n++
		info := s.fi.Pkg.TypesInfo
		name := "reflect.Value.Call"
		if s.target != nil {
			name = s.target.Name()
		}
		con := fmt.Sprintf("%s#calls:%s", s.fi.Name(), name)
		cnt[con]++
		if cnt[con] > 1 {
			con = fmt.Sprintf("%s/%d", con, cnt[con])
		}
		bad := ""
		for _, body := range loopsAround(s.fi, s.call.Pos()) {
			if s.target != nil && reachesResolver(s.target) {
				continue
			}
			again := false
			for _, c := range callsIn(body, true) {
				if c == s.call {
					continue
				}
				if resolverCall(info, c) {
					again = true
				}
				if cal := callee(info, c); cal != nil && w.Decls[cal] != nil && w.Decls[cal] != s.target && reachesResolver(w.Decls[cal]) {
					again = true
				}
			}
			if !again {
				bad = "the call is repeated by the loop at " + w.Pos(body.Pos()) + " with arguments that were resolved once, before the loop"
			}
		}
		r.Check(bad == "", rule, con, s.call.Pos(), false,
			"not repeated with the same resolved arguments",
			bad+": a second attempt hands the constructor the dependencies - transient ones included - that the first attempt already received")
	}
	if n == 0 {
		r.Fail(rule, "constructor-call-chain", token.NoPos, "no reflect.Value.Call found below createInstance")
	}
}

// collectionFieldWrites: for every field of the collection, the functions that write it.
func collectionFieldWrites(w *World) map[*types.Var]map[*FuncInfo]token.Pos {
	out := map[*types.Var]map[*FuncInfo]token.Pos{}
	for _, a := range collectAccesses(w, nil, func(v *types.Var) bool { return ownerOfFieldRaw(w, v) == "collection" }) {
		write := a.IsWrite()
		if a.Kind == "atomic" {
			fi := w.FuncAt(a.Sel.Pos())
			if fi != nil {
				if cal := callee(fi.Pkg.TypesInfo, a.Call); cal != nil && !strings.HasPrefix(cal.Name(), "Load") {
					write = true
				}
			}
		}
		if !write {
			continue
		}
		fi := w.FuncAt(a.Pos())
		if fi == nil {
			continue
		}
		if out[a.Field] == nil {
			out[a.Field] = map[*FuncInfo]token.Pos{}
		}
		if _, ok := out[a.Field][fi]; !ok {
			out[a.Field][fi] = a.Pos()
		}
	}
	return out
}

// ruleBuildCachesInvalidated: Build derives everything from the current
// registrations. If Build keeps a result on the collection (a memoised graph, a
// validation verdict), every function that changes a registry view also writes
// one of the fields that decide whether the kept result is still valid.
func ruleBuildCachesInvalidated(w *World, r *Report, rule string) {
	rg := resolveRegistry(w)
	named, st := w.Struct(w.Godi, "collection")
	if named == nil {
		r.Undecided(rule, "collection", token.NoPos, "struct collection not found")
		return
	}
	// the functions a Build runs
	build := map[*FuncInfo]bool{}
	for _, fi := range w.FuncsOf(w.Godi) {
		if rn := recvNamed(fi.Obj); rn != nil && rn.Obj() == named.Obj() && fi.Obj.Exported() && strings.HasPrefix(fi.Obj.Name(), "Build") {
			for _, f := range w.Within(fi, 4) {
				build[f] = true
			}
		}
	}
	if len(build) == 0 {
		r.Undecided(rule, "collection#Build", token.NoPos, "no Build method on the collection")
		return
	}
	writes := collectionFieldWrites(w)
	isView := func(v *types.Var) bool { return v == rg.services || v == rg.groups || v == rg.all }
	kept := map[*types.Var]bool{}
	var keptNames []string
	for i := 0; i < st.NumFields(); i++ {
		f := st.Field(i)
		if isView(f) || isSyncType(f.Type()) {
			continue
		}
		for fi := range writes[f] {
			if build[fi] && !isAllocatingFunc(w, fi, named) {
				kept[f] = true
			}
		}
		if kept[f] {
			keptNames = append(keptNames, f.Name())
		}
	}
	if len(kept) == 0 {
		r.OK(rule, "collection#build-keeps-nothing", named.Obj().Pos(), false, "Build writes no field of the collection: graph, validation and provider are derived from the current registrations on every call (%d functions of the build examined)", len(build))
		return
	}
	sort.Strings(keptNames)
	// validity fields: the kept fields and every collection field read in a condition that mentions one
	valid := map[*types.Var]bool{}
	for f := range kept {
		valid[f] = true
	}
	for fi := range build {
		info := fi.Pkg.TypesInfo
		ast.Inspect(fi.Decl.Body, func(x ast.Node) bool {
			ifs, ok := x.(*ast.IfStmt)
			if !ok {
				return true
			}
			var inCond []*types.Var
			mentions := false
			ast.Inspect(ifs.Cond, func(y ast.Node) bool {
				if sel, ok := y.(*ast.SelectorExpr); ok {
					if fv := fieldOf(info, sel); fv != nil && ownerOfFieldRaw(w, fv) == "collection" {
						inCond = append(inCond, fv)
						if kept[fv] {
							mentions = true
						}
					}
				}
				return true
			})
			if mentions {
				for _, fv := range inCond {
					valid[fv] = true
				}
			}
			return true
		})
	}
	var vs []string
	for f := range valid {
		vs = append(vs, f.Name())
	}
	sort.Strings(vs)
	var writers []*FuncInfo
	for fi := range rg.viewWriters {
		writers = append(writers, fi)
	}
	sort.Slice(writers, func(i, j int) bool { return posLess(writers[i].Decl.Pos(), writers[j].Decl.Pos()) })
	for _, fi := range writers {
		if isAllocatingFunc(w, fi, named) {
			continue
		}
		ok := false
		for _, f := range w.Within(fi, 2) {
			for v := range valid {
				if _, wr := writes[v][f]; wr {
					ok = true
				}
			}
		}
		r.Check(ok, rule, fi.Name()+"#invalidates-build-cache", fi.Decl.Pos(), false,
			fmt.Sprintf("changes a registry view and writes one of %v, which decide whether what Build keeps (%v) is still valid", vs, keptNames),
			fmt.Sprintf("%s changes a registry view but writes none of %v: Build keeps %v on the collection and goes on using it after this change - the next Build validates, orders and creates from registrations that are no longer the collection's", fi.Name(), vs, keptNames))
	}
}

// ruleDuplicateTestReadsViewsOnly: whether a registration is accepted depends on
// the registry views (what Contains/Count/ToSlice describe) and on the batch in
// hand, on nothing else. Every table the duplicate test consults is the services
// view, or a set its caller made for this batch; a set kept on the collection
// between registrations is hidden registry state (a rejected batch leaves its
// identities in it).
func ruleDuplicateTestReadsViewsOnly(w *World, r *Report, rule string) {
	rg := resolveRegistry(w)
	chk := rg.check
	if chk == nil {
		r.Undecided(rule, "duplicate-test", token.NoPos, "the duplicate test was not found")
		return
	}
	info := chk.Pkg.TypesInfo
	params := map[types.Object]int{}
	k := 0
	for _, f := range chk.Decl.Type.Params.List {
		for _, nm := range f.Names {
			params[info.Defs[nm]] = k
			k++
		}
	}
	n := 0
	consulted := map[int]bool{}
	seenField := map[*types.Var]bool{}
	for _, g := range w.Within(chk, 1) {
		ginfo := g.Pkg.TypesInfo
		ast.Inspect(g.Decl.Body, func(x ast.Node) bool {
			ix, ok := x.(*ast.IndexExpr)
			if !ok {
				return true
			}
			if _, isMap := ginfo.TypeOf(ix.X).Underlying().(*types.Map); !isMap {
				return true
			}
			if fv := plainFieldOf(ginfo, ix.X); fv != nil && ownerOfFieldRaw(w, fv) == "collection" {
				if !seenField[fv] {
					seenField[fv] = true
					n++
					r.Check(fv == rg.services || fv == rg.groups, rule, g.Name()+"#consults:"+fv.Name(), ix.Pos(), false,
						"the duplicate test consults the "+fv.Name()+" view",
						"the duplicate test consults collection."+fv.Name()+", which is not a registry view: acceptance depends on state that Contains, Count and ToSlice do not describe")
				}
				return true
			}
			if g == chk {
				if i, isP := params[objOf(ginfo, ix.X)]; isP {
					consulted[i] = true
				}
			}
			return true
		})
	}
	// the sets handed in by the callers
	cnt := map[string]int{}
	for caller := range w.Callers()[chk] {
		cinfo := caller.Pkg.TypesInfo
		for _, c := range callsIn(caller.Decl.Body, true) {
			if cal := callee(cinfo, c); cal == nil || cal != chk.Obj {
				continue
			}
			for i := range consulted {
				if i >= len(c.Args) {
					continue
				}
				a := resolveLocal(cinfo, caller.Decl.Body, c.Args[i], 2)
				con := fmt.Sprintf("%s#batch-set/%d", caller.Name(), i)
				cnt[con]++
				if cnt[con] > 1 {
					con = fmt.Sprintf("%s/%d", con, cnt[con])
				}
				n++
				switch {
				case isNilIdent(cinfo, a):
					r.OK(rule, con, c.Pos(), false, "no batch set (nil)")
				case plainFieldOf(cinfo, a) == rg.services || plainFieldOf(cinfo, a) == rg.groups:
					r.OK(rule, con, c.Pos(), false, "a registry view")
				case plainFieldOf(cinfo, a) != nil:
					fv := plainFieldOf(cinfo, a)
					r.Fail(rule, con, c.Pos(), "the set the duplicate test consults is %s.%s, kept between registrations: identities checked for a batch that was then rejected stay in it, and a later registration of one of them is refused as already registered although Contains says it is free", ownerOfFieldRaw(w, fv), fv.Name())
				default:
					if cc, isC := a.(*ast.CallExpr); isC && exprStr(cc.Fun) == "make" {
						r.OK(rule, con, c.Pos(), false, "a set made for this batch")
					} else if _, isLit := a.(*ast.CompositeLit); isLit {
						r.OK(rule, con, c.Pos(), false, "a set made for this batch")
					} else if o := objOf(cinfo, a); o != nil && isParamOf(caller, cinfo, o) {
						r.OK(rule, con, c.Pos(), false, "the caller's own batch set, handed through")
					} else {
						r.Undecided(rule, con, c.Pos(), "cannot tell where the set %s handed to the duplicate test comes from", exprStr(c.Args[i]))
					}
				}
			}
		}
	}
	if n == 0 {
		r.Fail(rule, chk.Name()+"#consults", chk.Decl.Pos(), "the duplicate test consults no table")
	}
}

// ruleNoInstanceEquality: instances are never compared with == / !=. Two
// operands of the Disposable interface type (neither of them nil) compare the
// dynamic values: that panics for a dynamic type that is not comparable (a
// struct with a slice field and a value-receiver Close) - outside any recover -
// and it merges two distinct instances that happen to be equal (two zero-size
// values, two equal structs), so one of them is never closed.
func ruleNoInstanceEquality(w *World, r *Report, rule string) {
	n, bad := 0, 0
	isDisp := func(t types.Type) bool { return t != nil && isNamedType(t, modPath, "Disposable") }
	for _, fi := range w.FuncsOf(w.Godi) {
		info := fi.Pkg.TypesInfo
		k := 0
		ast.Inspect(fi.Decl.Body, func(x ast.Node) bool {
			be, ok := x.(*ast.BinaryExpr)
			if !ok || (be.Op != token.EQL && be.Op != token.NEQ) {
				return true
			}
			tx, ty := info.TypeOf(be.X), info.TypeOf(be.Y)
			if tx == nil || ty == nil || !types.IsInterface(tx) || !types.IsInterface(ty) {
				return true
			}
			n++
			if isNilIdent(info, be.X) || isNilIdent(info, be.Y) || !(isDisp(tx) || isDisp(ty)) {
				return true
			}
			bad++
			k++
			r.Fail(rule, fmt.Sprintf("%s#instance-equality/%d", fi.Name(), k), be.Pos(),
				"%s compares two instances through the Disposable interface: for a dynamic type that is not comparable this panics at run time (outside the constructor's recover), and two distinct instances that are equal as values are taken for one - the second is never tracked, so never closed", exprStr(be))
			return true
		})
	}
	if bad == 0 {
		r.OK(rule, "godi#instance-equality:none", token.NoPos, false, "%d comparisons between interface-typed operands examined: none compares two Disposable values", n)
	}
}

// ruleNoCallbackIdentity: the integrations never identify a user callback (a
// middleware, an error handler) by its code pointer: closures made by one
// factory share it, so "already registered" drops all but the first of them and
// a request runs without middlewares the user configured.
func ruleNoCallbackIdentity(w *World, r *Report, rule string) {
	for _, m := range integrations {
		p := w.Integ[m]
		if p == nil {
			r.Undecided(rule, m+"#package", token.NoPos, "integration package %s not loaded", m)
			continue
		}
		calls, bad := 0, 0
		for _, f := range p.Syntax {
			ast.Inspect(f, func(x ast.Node) bool {
				c, ok := x.(*ast.CallExpr)
				if !ok {
					return true
				}
				calls++
				cal := callee(p.TypesInfo, c)
				if isFunc(cal, "reflect", "Value", "Pointer") || isFunc(cal, "reflect", "Value", "UnsafePointer") {
					bad++
					where := m
					if fi := w.FuncAt(c.Pos()); fi != nil {
						where = m + "/" + fi.Name()
					}
					r.Fail(rule, fmt.Sprintf("%s#code-pointer/%d", where, bad), c.Pos(),
						"%s takes the code pointer of a function value: closures of one literal (every middleware made by the same factory) share it, so telling callbacks apart by it drops configured middlewares - the request runs without them", where)
				}
				return true
			})
		}
		if bad == 0 {
			r.OK(rule, m+"#code-pointer:none", token.NoPos, false, "%d calls examined: no function value is identified by its code pointer", calls)
		}
	}
}

// ruleFamilyRegisteredWhole: the descriptors one registration call derives (one
// per result field, per return value, per alias) share a constructor, and
// createInstance stores every output of a call under its sibling descriptors.
// They are registered all or none: between the derivation in addService and the
// insert loop no function turns a descriptor list into another one (a filter
// "only those not yet registered" registers part of a family: the constructor
// then runs for the part, and its other outputs overwrite or shadow the
// registrations that were already there).
func ruleFamilyRegisteredWhole(w *World, r *Report, rule string) {
	isDescList := func(t types.Type) bool {
		s, ok := t.Underlying().(*types.Slice)
		if !ok {
			return false
		}
		p, ok := s.Elem().(*types.Pointer)
		return ok && isNamedType(p.Elem(), modPath, "Descriptor")
	}
	transformer := func(f *types.Func) bool {
		sig, ok := f.Type().(*types.Signature)
		if !ok {
			return false
		}
		in, out := false, false
		for i := 0; i < sig.Params().Len(); i++ {
			if isDescList(sig.Params().At(i).Type()) {
				in = true
			}
		}
		for i := 0; i < sig.Results().Len(); i++ {
			if isDescList(sig.Results().At(i).Type()) {
				out = true
			}
		}
		return in && out
	}
	add := w.MustFn(w.Godi, "(*collection).addService")
	reg := registrationClosure(w)
	reg[add] = add.Name()
	rg := resolveRegistry(w)
	for _, f := range rg.insert {
		reg[f] = f.Name()
	}
	for _, f := range w.Within(add, 3) {
		reg[f] = f.Name()
	}
	var fns []*FuncInfo
	for f := range reg {
		fns = append(fns, f)
	}
	sort.Slice(fns, func(i, j int) bool { return posLess(fns[i].Decl.Pos(), fns[j].Decl.Pos()) })
	calls, bad := 0, 0
	for _, f := range fns {
		info := f.Pkg.TypesInfo
		for _, c := range callsIn(f.Decl.Body, true) {
			calls++
			cal := callee(info, c)
			if cal == nil || !transformer(cal) {
				continue
			}
			bad++
			r.Fail(rule, fmt.Sprintf("%s#list-transformer:%s", f.Name(), cal.Name()), c.Pos(),
				"%s passes the descriptors derived for one registration through %s, which returns another descriptor list: a family of descriptors that share one constructor can be registered in part - the constructor still yields every output, and createInstance stores them under descriptors that belong to other registrations (or finds none), so which instance a consumer gets depends on what was registered first", f.Name(), cal.Name())
		}
	}
	if bad == 0 {
		r.OK(rule, add.Name()+"#family-whole", add.Decl.Pos(), false, "%d calls in %d functions of the registration path examined: none turns a descriptor list into another one", calls, len(fns))
	}
}

// ruleNoInPlaceOnShared: the in-place operations of the slices package (Delete,
// DeleteFunc, Compact, CompactFunc, Insert, Replace, Reverse, Sort…) and the
// `x[:0]` filter idiom rewrite the backing array of their operand (and zero the
// tail). They are applied only to a slice the function built itself, or to the
// owner's own field with the result stored back into that same field. Applied
// to a parameter, to an alias of a field, or to a descriptor's / analysis
// record's list they silently rewrite storage somebody else still reads: the
// collection's descriptor list, a descriptor's dependency list (shared with the
// analyzer's cache and read again by the next Build), the caller's variadic slice.
func ruleNoInPlaceOnShared(w *World, r *Report, rule string) {
	inPlace := map[string]bool{"Delete": true, "DeleteFunc": true, "Compact": true, "CompactFunc": true, "Insert": true, "Replace": true,
		"Reverse": true, "Sort": true, "SortFunc": true, "SortStableFunc": true}
	sites, bad := 0, 0
	var pkgs []*packages.Package
	pkgs = append(pkgs, w.Godi, w.Graph, w.Refl)
	for _, m := range integrations {
		if p := w.Integ[m]; p != nil {
			pkgs = append(pkgs, p)
		}
	}
	for _, p := range pkgs {
		for _, fi := range w.FuncsOf(p) {
			info := fi.Pkg.TypesInfo
			fresh := func(e ast.Expr) bool { return freshSliceExpr(w, fi, e, 2) }
			k := 0
			report := func(pos token.Pos, op string, operand ast.Expr, assignedBack bool) {
				sites++
				if fresh(operand) {
					return
				}
				if fv := plainFieldOf(info, operand); fv != nil && assignedBack {
					return
				}
				bad++
				k++
				what := "a slice this function did not build"
				if fv := plainFieldOf(info, operand); fv != nil {
					what = "the field " + ownerOfFieldRaw(w, fv) + "." + fv.Name() + " (and the result is not stored back into it)"
				} else if o := objOf(info, operand); o != nil && isParamOf(fi, info, o) {
					what = "the parameter " + o.Name() + " (the caller's slice)"
				}
				r.Fail(rule, fmt.Sprintf("%s#in-place:%s/%d", fi.Name(), op, k), pos,
					"%s rewrites %s in place: the backing array is compacted and its tail zeroed under every other holder of that slice (the collection's descriptor list, a descriptor's dependency list shared with the analysis cache, the caller's list of module options) - the first use looks right, the next Build or the next use of the caller's slice sees the damage", op, what)
			}
			ast.Inspect(fi.Decl.Body, func(x ast.Node) bool {
				switch s := x.(type) {
				case *ast.AssignStmt:
					for i, rh := range s.Rhs {
						// y := x[:0] - the filter idiom with a named alias (y = append(y, …) follows)
						if sl, isSl := unparen(rh).(*ast.SliceExpr); isSl && sl.High != nil && sl.Low == nil {
							if v, isC := constInt(info, sl.High); isC && v == 0 {
								back := i < len(s.Lhs) && exprStr(s.Lhs[i]) == exprStr(sl.X)
								report(sl.Pos(), "x[:0] reuse", sl.X, back)
							}
						}
						c, ok := unparen(rh).(*ast.CallExpr)
						if !ok {
							continue
						}
						cal := callee(info, c)
						if cal != nil && cal.Pkg() != nil && cal.Pkg().Path() == "slices" && inPlace[cal.Name()] && len(c.Args) > 0 {
							back := i < len(s.Lhs) && exprStr(s.Lhs[i]) == exprStr(c.Args[0])
							report(c.Pos(), "slices."+cal.Name(), c.Args[0], back)
						}
						// append(x[:0], …): the filter idiom
						if id, isId := unparen(c.Fun).(*ast.Ident); isId && id.Name == "append" && len(c.Args) > 0 {
							if sl, isSl := unparen(c.Args[0]).(*ast.SliceExpr); isSl && sl.High != nil {
								if v, isC := constInt(info, sl.High); isC && v == 0 {
									back := i < len(s.Lhs) && exprStr(s.Lhs[i]) == exprStr(sl.X)
									report(c.Pos(), "append(x[:0], …)", sl.X, back)
								}
							}
						}
					}
				case *ast.ExprStmt:
					if c, ok := unparen(s.X).(*ast.CallExpr); ok {
						cal := callee(info, c)
						if cal != nil && cal.Pkg() != nil && (cal.Pkg().Path() == "slices" || cal.Pkg().Path() == "sort") && len(c.Args) > 0 &&
							(inPlace[cal.Name()] || cal.Pkg().Path() == "sort") {
							if _, isSlice := info.TypeOf(c.Args[0]).Underlying().(*types.Slice); isSlice {
								report(c.Pos(), cal.Pkg().Name()+"."+cal.Name(), c.Args[0], plainFieldOf(info, c.Args[0]) != nil)
							}
						}
					}
				case *ast.ValueSpec:
					for _, v := range s.Values {
						if c, ok := unparen(v).(*ast.CallExpr); ok {
							cal := callee(info, c)
							if cal != nil && cal.Pkg() != nil && cal.Pkg().Path() == "slices" && inPlace[cal.Name()] && len(c.Args) > 0 {
								report(c.Pos(), "slices."+cal.Name(), c.Args[0], false)
							}
						}
					}
				case *ast.RangeStmt:
					if c, ok := unparen(s.X).(*ast.CallExpr); ok {
						cal := callee(info, c)
						if cal != nil && cal.Pkg() != nil && cal.Pkg().Path() == "slices" && inPlace[cal.Name()] && len(c.Args) > 0 {
							report(c.Pos(), "slices."+cal.Name(), c.Args[0], false)
						}
					}
				}
				return true
			})
		}
	}
	if bad == 0 {
		r.OK(rule, "repository#in-place-on-shared:none", token.NoPos, false, "%d in-place slice operations examined: each works on a slice its function built, or on the owner's own field with the result stored back", sites)
	}
}

// ruleBuildOneCriticalSection: what Build validates is what it hands to the
// provider. All the functions a Build runs take the collection's lock exactly
// once: graph, validation and the snapshot of the registry views are read in
// one critical section. Two sections (one to validate, one to snapshot) let a
// registration made in between into the provider without ever having been
// graphed or validated - a writer blocked on the lock is served exactly there.
func ruleBuildOneCriticalSection(w *World, r *Report, rule string) {
	named, st := w.Struct(w.Godi, "collection")
	if named == nil {
		r.Undecided(rule, "collection", token.NoPos, "struct collection not found")
		return
	}
	var mu *types.Var
	for i := 0; i < st.NumFields(); i++ {
		if f := st.Field(i); isNamedType(f.Type(), "sync", "RWMutex") || isNamedType(f.Type(), "sync", "Mutex") {
			mu = f
		}
	}
	if mu == nil {
		r.Undecided(rule, "collection#lock", named.Obj().Pos(), "the collection has no mutex field")
		return
	}
	build := map[*FuncInfo]bool{}
	var entry *FuncInfo
	for _, fi := range w.FuncsOf(w.Godi) {
		if rn := recvNamed(fi.Obj); rn != nil && rn.Obj() == named.Obj() && fi.Obj.Exported() && strings.HasPrefix(fi.Obj.Name(), "Build") {
			for _, f := range w.Within(fi, 4) {
				build[f] = true
			}
			if entry == nil || fi.Decl.Pos() < entry.Decl.Pos() {
				entry = fi
			}
		}
	}
	if entry == nil {
		r.Undecided(rule, "collection#Build", token.NoPos, "no Build method on the collection")
		return
	}
	type acq struct {
		fi  *FuncInfo
		pos token.Pos
		op  string
	}
	var acqs []acq
	// a critical section that touches none of the registry views (it reads a list of
	// callbacks, an option) is not a second look at the registry
	rg := resolveRegistry(w)
	touchesViews := func(fi *FuncInfo) bool {
		for _, f := range w.Within(fi, 4) {
			touched := false
			finfo := f.Pkg.TypesInfo
			ast.Inspect(f.Decl.Body, func(x ast.Node) bool {
				if sel, ok := x.(*ast.SelectorExpr); ok {
					if fv := fieldOf(finfo, sel); fv != nil && (fv == rg.services || fv == rg.groups || fv == rg.all) {
						touched = true
					}
				}
				return true
			})
			if touched {
				return true
			}
		}
		return false
	}
	other := 0
	for fi := range build {
		info := fi.Pkg.TypesInfo
		for _, c := range callsIn(fi.Decl.Body, true) {
			_, fld, op, ok := mutexOp(info, c)
			if ok && fld == mu && (op == "Lock" || op == "RLock") {
				if rg.services != nil && !touchesViews(fi) {
					other++
					continue
				}
				acqs = append(acqs, acq{fi, c.Pos(), op})
			}
		}
	}
	sort.Slice(acqs, func(i, j int) bool { return posLess(acqs[i].pos, acqs[j].pos) })
	switch {
	case len(acqs) == 1:
		r.OK(rule, entry.Name()+"#one-critical-section", acqs[0].pos, false, "the %d functions a Build runs take collection.%s once around the registry views (%s in %s; %d other section(s) touch no view): graph, validation and snapshot see one state of the registry", len(build), mu.Name(), acqs[0].op, acqs[0].fi.Name(), other)
	case len(acqs) == 0:
		r.Fail(rule, entry.Name()+"#one-critical-section", entry.Decl.Pos(), "no function a Build runs takes collection.%s: the registry is read while registrations may change it", mu.Name())
	default:
		var where []string
		for _, a := range acqs {
			where = append(where, a.fi.Name()+" ("+a.op+" at "+w.Pos(a.pos)+")")
		}
		r.Fail(rule, entry.Name()+"#one-critical-section", acqs[1].pos, "the functions a Build runs take collection.%s %d times: %s. What is validated in one critical section and what is handed to the provider in another are two states of the registry: a registration that lands in between is served without having been graphed or validated (never constructed at Build, not checked for cycles or captive dependencies)", mu.Name(), len(acqs), strings.Join(where, ", "))
	}
}

// ruleDisposedFlagWriters: the disposed flag of a scope / provider has two
// states and one writer: the compare-and-swap gate of that owner's Close (or a
// private one-line half of it). A third state (a "resetting" value), a Store
// that re-opens an object (scope reuse, a pool), or a gate in another method make
// Close's losing edge - "already closed: return nil" - lie: a Close that arrives
// then returns nil and closes nothing.
func ruleDisposedFlagWriters(w *World, r *Report, rule string) {
	n := 0
	for _, owner := range []string{"scope", "provider"} {
		flag := w.Field(w.Godi, owner, "disposed")
		if flag == nil {
			r.Undecided(rule, owner+".disposed", token.NoPos, "the disposed flag of %s was not found", owner)
			continue
		}
		closeFn := w.MustFn(w.Godi, "(*"+owner+").Close")
		allowed := w.HelperClosure(map[*FuncInfo]string{closeFn: closeFn.Name()})
		named, _ := w.Struct(w.Godi, owner)
		k := 0
		for _, a := range collectAccesses(w, nil, func(v *types.Var) bool { return v == flag }) {
			fi := w.FuncAt(a.Sel.Pos())
			if fi == nil {
				continue
			}
			info := fi.Pkg.TypesInfo
			write, what := false, a.Kind
			switch a.Kind {
			case "atomic":
				if cal := callee(info, a.Call); cal != nil && !strings.HasPrefix(cal.Name(), "Load") {
					write, what = true, "atomic."+cal.Name()
				}
			case "method":
				if sel, ok := unparen(a.Call.Fun).(*ast.SelectorExpr); ok && sel.Sel.Name != "Load" {
					write, what = true, "."+sel.Sel.Name
				}
			case "write", "incdec":
				write = true
			case "addr":
				// &x.disposed handed to a private helper: judged where the helper writes through it
				continue
			}
			if !write {
				continue
			}
			n++
			k++
			_, ok := allowed[fi]
			if !ok && named != nil && isAllocatingFunc(w, fi, named) && a.Kind == "write" {
				ok = true
			}
			r.Check(ok, rule, fmt.Sprintf("%s#%s.disposed:%s/%d", fi.Name(), owner, strings.TrimPrefix(what, "atomic."), k), a.Pos(), false,
				"the flag is written by the gate of "+closeFn.Name(),
				fmt.Sprintf("%s writes %s.disposed (%s) outside %s: the flag has two states and one writer - an object that is re-opened, or held in a third state, makes the losing edge of Close's gate (\"already closed, return nil\") wrong: a Close that arrives meanwhile returns nil and closes nothing, and a late Close of an old holder closes the object under its new user", fi.Name(), owner, what, closeFn.Name()))
		}
	}
	if n == 0 {
		r.Fail(rule, "disposed#writers", token.NoPos, "no write of a disposed flag found (the gates of Close were expected)")
	}
}

// ruleNoDeferredResolution: the core of resolution (resolve, createInstance,
// setInstance) is entered only through Get / GetKeyed / GetGroup, which refuse a
// closed container. A function literal that outlives the call that made it (it
// is returned, stored, or handed to reflect.MakeFunc / sync.OnceValue /
// context.AfterFunc and the like) and calls the core directly runs it later with
// no disposed check at all: an injected factory resolves from a closed scope.
func ruleNoDeferredResolution(w *World, r *Report, rule string) {
	ro := resolveRoles(w)
	core := map[*types.Func]string{}
	for _, f := range []*FuncInfo{ro.resolve, ro.resolveTop, ro.createInstance, ro.setInstance, ro.setSingleton, ro.createEntry} {
		if f != nil {
			core[f.Obj] = f.Name()
		}
	}
	for c := range ro.creators {
		if t := w.Decls[c]; t != nil {
			core[c] = t.Name()
		}
	}
	lits, bad := 0, 0
	for _, fi := range w.FuncsOf(w.Godi) {
		info := fi.Pkg.TypesInfo
		var all []*ast.FuncLit
		ast.Inspect(fi.Decl.Body, func(x ast.Node) bool {
			if l, ok := x.(*ast.FuncLit); ok {
				all = append(all, l)
			}
			return true
		})
		k := 0
		for _, lit := range all {
			lits++
			// calls made by this literal itself
			var hit *ast.CallExpr
			name := ""
			ast.Inspect(lit.Body, func(x ast.Node) bool {
				if l2, ok := x.(*ast.FuncLit); ok && l2 != lit {
					return false
				}
				if c, ok := x.(*ast.CallExpr); ok {
					if cal := callee(info, c); cal != nil {
						if nm, isCore := core[cal]; isCore && hit == nil {
							hit, name = c, nm
						}
					}
				}
				return true
			})
			if hit == nil {
				continue
			}
			use := litUse(fi.Decl.Body, lit)
			escaping, how := false, ""
			switch use {
			case "call", "defer":
			case "arg":
				// handed to a function outside the repository: it decides when (and how often) the literal runs
				ast.Inspect(fi.Decl.Body, func(x ast.Node) bool {
					if c, ok := x.(*ast.CallExpr); ok {
						for _, a := range c.Args {
							if unparen(a) == ast.Expr(lit) {
								if cal := callee(info, c); cal == nil || w.Decls[cal] == nil {
									escaping, how = true, "it is handed to "+exprStr(c.Fun)
								}
							}
						}
					}
					return true
				})
			case "go":
				escaping, how = true, "it runs in its own goroutine"
			default:
				// bound to a local that is only called here?
				if o := litBoundTo(info, fi.Decl.Body, lit); o != nil && onlyCalled(info, fi.Decl.Body, o) {
					break
				}
				escaping, how = true, "it is returned or stored"
			}
			if !escaping {
				continue
			}
			bad++
			k++
			r.Fail(rule, fmt.Sprintf("%s#deferred-resolution/%d", fi.Name(), k), hit.Pos(),
				"a function literal of %s calls %s directly and outlives the call that made it (%s): when it runs, nothing has checked that the scope or provider is still open - resolution on a closed container succeeds, or fails with another error than the disposed one", fi.Name(), name, how)
		}
	}
	if bad == 0 {
		r.OK(rule, "godi#deferred-resolution:none", token.NoPos, false, "%d function literals examined: none that outlives its maker calls resolve / createInstance / setInstance directly", lits)
	}
}

// litBoundTo: the local variable a literal is assigned to (f := func…), or nil.
func litBoundTo(info *types.Info, body *ast.BlockStmt, lit *ast.FuncLit) types.Object {
	var out types.Object
	ast.Inspect(body, func(x ast.Node) bool {
		if as, ok := x.(*ast.AssignStmt); ok && len(as.Lhs) == len(as.Rhs) {
			for i, rh := range as.Rhs {
				if unparen(rh) == ast.Expr(lit) {
					out = objOf(info, as.Lhs[i])
				}
			}
		}
		return true
	})
	return out
}

// onlyCalled: every use of o in body is in call position (or its definition).
func onlyCalled(info *types.Info, body *ast.BlockStmt, o types.Object) bool {
	calls, uses := 0, 0
	ast.Inspect(body, func(x ast.Node) bool {
		switch n := x.(type) {
		case *ast.CallExpr:
			if id, ok := unparen(n.Fun).(*ast.Ident); ok && info.Uses[id] == o {
				calls++
			}
		case *ast.Ident:
			if info.Uses[n] == o {
				uses++
			}
		}
		return true
	})
	return uses == calls
}

// ruleResolutionErrorsKept: a failure of resolution is reported as it is. In the
// root package, wherever the error of Get / GetKeyed / GetGroup / resolve /
// createInstance is bound to a variable, every return reached on that
// variable's non-nil edge hands the variable on (as it is, or inside the error it
// builds). A path that answers a failure with something else - a fallback to
// another registration, a nil error - swallows the constructor's own error.
func ruleResolutionErrorsKept(w *World, r *Report, rule string) {
	ro := resolveRoles(w)
	isRes := func(cal *types.Func) bool {
		if cal == nil {
			return false
		}
		if t := w.Decls[cal]; t != nil && (t == ro.resolve || t == ro.resolveTop || t == ro.createInstance || ro.creators[cal]) {
			return true
		}
		switch cal.Name() {
		case "Get", "GetKeyed", "GetGroup":
			rn := recvNamed(cal)
			if rn == nil || rn.Obj().Pkg() == nil || !strings.HasPrefix(rn.Obj().Pkg().Path(), modPath) {
				return false
			}
			switch rn.Obj().Name() {
			case "scope", "provider", "Scope", "Provider", "DependencyResolver":
				return true
			}
		}
		return false
	}
	n := 0
	for _, fi := range w.FuncsOf(w.Godi) {
		info := fi.Pkg.TypesInfo
		errOf := map[types.Object]string{}
		ast.Inspect(fi.Decl.Body, func(x ast.Node) bool {
			if _, isLit := x.(*ast.FuncLit); isLit {
				return false
			}
			if as, ok := x.(*ast.AssignStmt); ok && len(as.Rhs) == 1 && len(as.Lhs) >= 2 {
				if c, ok := unparen(as.Rhs[0]).(*ast.CallExpr); ok && isRes(callee(info, c)) {
					if o := objOf(info, as.Lhs[len(as.Lhs)-1]); o != nil && isErrorType(o.Type()) {
						errOf[o] = exprStr(c.Fun)
					}
				}
			}
			return true
		})
		if len(errOf) == 0 {
			continue
		}
		fl := w.FlowOf(fi)
		sol := fl.Solve(Spec{Must: true,
			Node: func(nd ast.Node, in Facts) (gen, kill []string) {
				if as, ok := nd.(*ast.AssignStmt); ok {
					for _, l := range as.Lhs {
						if o := objOf(info, l); o != nil {
							if _, tracked := errOf[o]; tracked {
								kill = append(kill, "failed:"+o.Name())
							}
						}
					}
				}
				return
			},
			Edge: func(b *cfg.Block, i int, cond ast.Expr, in Facts) (gen, kill []string) {
				if cond == nil {
					return
				}
				// `re.Cause == ErrServiceNotFound` with re bound by `re, ok := err.(*ResolutionError)`: the
				// exact outer shape of the error - this very request was not found, nothing was
				// constructed, there is no constructor error to lose
				if be, isBe := unparen(cond).(*ast.BinaryExpr); isBe && be.Op == token.EQL && i == 0 {
					for _, pair := range [][2]ast.Expr{{be.X, be.Y}, {be.Y, be.X}} {
						sel, isSel := unparen(pair[0]).(*ast.SelectorExpr)
						if !isSel || sel.Sel.Name != "Cause" {
							continue
						}
						if so := objOf(info, pair[1]); so == nil || so.Name() != "ErrServiceNotFound" {
							continue
						}
						if src := assertedFrom(info, fi.Decl.Body, objOf(info, sel.X)); src != nil {
							if _, tracked := errOf[src]; tracked {
								gen = append(gen, "exact-not-found:"+src.Name())
							}
						}
					}
				}
				// a predicate on the error (errors.Is(err, X), IsNotFound(err)): true implies err != nil
				{
					c, neg := unparen(cond), false
					if u, isU := c.(*ast.UnaryExpr); isU && u.Op == token.NOT {
						c, neg = unparen(u.X), true
					}
					if call, isC := c.(*ast.CallExpr); isC {
						if tv, okT := info.Types[call]; okT && tv.Type != nil {
							if b, isB := tv.Type.Underlying().(*types.Basic); isB && b.Kind() == types.Bool {
								for _, a := range call.Args {
									if o := objOf(info, a); o != nil {
										if _, tracked := errOf[o]; tracked && (i == 0) != neg {
											gen = append(gen, "failed:"+o.Name())
										}
									}
								}
							}
						}
						return
					}
				}
				be, ok := unparen(cond).(*ast.BinaryExpr)
				if !ok || (be.Op != token.NEQ && be.Op != token.EQL) {
					return
				}
				var o types.Object
				if isNilIdent(info, be.Y) {
					o = objOf(info, be.X)
				} else if isNilIdent(info, be.X) {
					o = objOf(info, be.Y)
				}
				if _, tracked := errOf[o]; !tracked {
					return
				}
				if (be.Op == token.NEQ) == (i == 0) {
					gen = append(gen, "failed:"+o.Name())
				} else {
					kill = append(kill, "failed:"+o.Name())
				}
				return
			}})
		k := 0
		for o, what := range errOf {
			for _, ex := range fl.Exits() {
				if ex.Panic || !sol.AtExit(ex).Has("failed:"+o.Name()) {
					continue
				}
				if sol.AtExit(ex).Has("exact-not-found:" + o.Name()) {
					continue
				}
				n++
				k++
				kept := false
				if ex.Ret != nil {
					for _, res := range ex.Ret.Results {
						if usesObj(info, res, o) {
							kept = true
						}
					}
					// named results: `err` is the result variable itself
					if len(ex.Ret.Results) == 0 && fi.Decl.Type.Results != nil {
						for _, f := range fi.Decl.Type.Results.List {
							for _, nm := range f.Names {
								if info.Defs[nm] == o {
									kept = true
								}
							}
						}
					}
				}
				r.Check(kept, rule, fmt.Sprintf("%s#resolution-error:%s/%d", fi.Name(), o.Name(), k), ex.Pos, true,
					"the failure of "+what+" is handed on",
					fmt.Sprintf("the exit at %s is reached after %s failed (%s != nil) and does not hand that error on: the constructor's own error (or the disposed / not-found error) is swallowed or replaced by the outcome of something else", w.Pos(ex.Pos), what, o.Name()))
			}
		}
	}
	if n == 0 {
		r.Fail(rule, "godi#resolution-errors", token.NoPos, "no failure edge of a resolution call found in the root package")
	}
}

// ruleWhoStores: setInstance / setSingleton are called only from the creation
// chain (createInstance, the wrappers through which it is reached, and their
// private helpers): what enters an instance table was produced, just now, by the
// constructor of the descriptor it is filed under. A second caller (a "supply a
// value" API, a preload, an import) can file a caller-owned value under a
// singleton descriptor - setInstance sends it to the provider-wide table.
func ruleWhoStores(w *World, r *Report, rule string) {
	ro := resolveRoles(w)
	chain := map[*FuncInfo]string{}
	if ro.createInstance != nil {
		chain[ro.createInstance] = ro.createInstance.Name()
	}
	for c := range ro.creators {
		if t := w.Decls[c]; t != nil {
			chain[t] = t.Name()
		}
	}
	if ro.setInstance != nil {
		chain[ro.setInstance] = ro.setInstance.Name() // setInstance's Singleton clause calls setSingleton
	}
	chain = w.HelperClosure(chain)
	n := 0
	for _, target := range []*FuncInfo{ro.setInstance, ro.setSingleton} {
		if target == nil {
			continue
		}
		var callers []*FuncInfo
		for c := range w.Callers()[target] {
			callers = append(callers, c)
		}
		sort.Slice(callers, func(i, j int) bool { return posLess(callers[i].Decl.Pos(), callers[j].Decl.Pos()) })
		for _, c := range callers {
			n++
			_, ok := chain[c]
			r.Check(ok, rule, fmt.Sprintf("%s#calls:%s", c.Name(), target.Obj.Name()), c.Decl.Pos(), false,
				"called from the creation chain",
				fmt.Sprintf("%s calls %s outside the creation chain: a value that no constructor of this container produced for that descriptor enters an instance table (for a Singleton descriptor it replaces the provider-wide instance: earlier consumers keep the old one, everybody else gets the new one, and it outlives the scope that supplied it)", c.Name(), target.Obj.Name()))
		}
	}
	if n == 0 {
		r.Fail(rule, "setInstance#callers", token.NoPos, "setInstance / setSingleton have no callers")
	}
}

// ruleNoWriteUnderEscapedHeader: a slice field of a scope or provider whose
// header is copied into a local under the lock and used after the lock is
// released (the snapshot idiom of Close, a listener dispatch) must never have an
// element overwritten in place: the copy shares the backing array, so the reader
// sees the overwritten slot (a nil listener, a moved element) without any lock.
// Appending and replacing the whole slice are fine.
func ruleNoWriteUnderEscapedHeader(w *World, r *Report, rule string, la *LockAnalysis) {
	isShared := func(v *types.Var) bool {
		if _, ok := v.Type().Underlying().(*types.Slice); !ok {
			return false
		}
		o := ownerOfFieldRaw(w, v)
		return o == "scope" || o == "provider"
	}
	// (a) headers that escape their critical section
	escaped := map[*types.Var]token.Pos{}
	for _, u := range la.units {
		info := u.pkg.TypesInfo
		alias := map[types.Object]*types.Var{}
		defHeld := map[types.Object]map[string]string{}
		for _, n := range u.flow.Nodes() {
			as, ok := n.(*ast.AssignStmt)
			if !ok || len(as.Lhs) != len(as.Rhs) {
				continue
			}
			for i, rh := range as.Rhs {
				fv := plainFieldOf(info, rh)
				if fv == nil || !isShared(fv) {
					continue
				}
				if o := objOf(info, as.Lhs[i]); o != nil {
					alias[o] = fv
					defHeld[o] = heldLockFields(la, la.HeldAt(n))
				}
			}
		}
		if len(alias) == 0 {
			continue
		}
		for _, n := range u.flow.Nodes() {
			held := heldLockFields(la, la.HeldAt(n))
			ast.Inspect(n, func(x ast.Node) bool {
				id, ok := x.(*ast.Ident)
				if !ok {
					return true
				}
				o := info.Uses[id]
				fv := alias[o]
				if fv == nil {
					return true
				}
				for lock := range defHeld[o] {
					if _, still := held[lock]; !still {
						if _, seen := escaped[fv]; !seen {
							escaped[fv] = id.Pos()
						}
					}
				}
				return true
			})
		}
	}
	// (b) element writes
	n := 0
	for _, a := range collectAccesses(w, la, isShared) {
		if a.Kind != "index-write" {
			continue
		}
		n++
		pos, esc := escaped[a.Field]
		owner := ownerOfFieldRaw(w, a.Field)
		r.Check(!esc, rule, fmt.Sprintf("%s#element-write:%s.%s/%d", unitName(a.Unit), owner, a.Field.Name(), n), a.Pos(), true,
			"no header of this slice leaves its critical section",
			fmt.Sprintf("an element of %s.%s is overwritten in place, but the slice's header is copied under the lock and used after it is released (at %s): the reader walks the same backing array and sees the overwritten slot - a nil or a moved element - without synchronisation", owner, a.Field.Name(), w.Pos(pos)))
	}
	var es []string
	for fv := range escaped {
		es = append(es, ownerOfFieldRaw(w, fv)+"."+fv.Name())
	}
	sort.Strings(es)
	if n == 0 {
		r.OK(rule, "godi#element-writes:none", token.NoPos, false, "no slice field of scope / provider has an element overwritten in place (slices whose header leaves its critical section: %v)", es)
	}
}

// ruleConstructedIsStored: what reaches setInstance is what the constructor
// produced. In the creation chain the variable handed to setInstance is never
// reassigned from a call that takes its previous value (instance =
// decorate(instance)): the constructed value is dropped there, and whether it is
// ever closed depends on the replacement implementing Disposable and forwarding
// Close. A decorating feature has to store (track) the constructed value as well.
func ruleConstructedIsStored(w *World, r *Report, rule string) {
	ro := resolveRoles(w)
	n, bad := 0, 0
	for _, fi := range w.Within(ro.createInstance, 2) {
		if fi == ro.setInstance || fi == ro.setSingleton {
			continue
		}
		info := fi.Pkg.TypesInfo
		stored := map[types.Object]bool{}
		for _, c := range callsIn(fi.Decl.Body, true) {
			if cal := callee(info, c); cal != nil && ro.setInstance != nil && cal == ro.setInstance.Obj {
				n++
				for _, a := range c.Args {
					if tv, ok := info.Types[a]; ok && types.IsInterface(tv.Type) {
						if o := objOf(info, a); o != nil {
							stored[o] = true
						}
					}
				}
			}
		}
		if len(stored) == 0 {
			continue
		}
		k := 0
		ast.Inspect(fi.Decl.Body, func(x ast.Node) bool {
			as, ok := x.(*ast.AssignStmt)
			if !ok || len(as.Rhs) != 1 {
				return true
			}
			c, ok := unparen(as.Rhs[0]).(*ast.CallExpr)
			if !ok {
				return true
			}
			for _, l := range as.Lhs {
				o := objOf(info, l)
				if o == nil || !stored[o] {
					continue
				}
				for _, a := range c.Args {
					if objOf(info, a) == o {
						bad++
						k++
						r.Fail(rule, fmt.Sprintf("%s#replaced-before-stored:%s/%d", fi.Name(), o.Name(), k), as.Pos(),
							"%s replaces the constructed value by the result of %s before it is handed to setInstance: the value the constructor produced is dropped - if the replacement has no Close method (a wrapper around an interface without Close) the constructed instance is never tracked and never closed", fi.Name(), exprStr(c.Fun))
					}
				}
			}
			return true
		})
	}
	if n == 0 {
		r.Fail(rule, "createInstance#stores", token.NoPos, "the creation chain never calls setInstance")
	} else if bad == 0 {
		r.OK(rule, ro.createInstance.Name()+"#constructed-is-stored", ro.createInstance.Decl.Pos(), false, "%d calls of setInstance in the creation chain: the stored variable is never reassigned from a call on its own previous value", n)
	}
}

// freshDescriptor: e (an expression of fi) denotes a descriptor - or a list of
// descriptors - that was built for this call: a literal, the address of a local
// copy, the result of a function that returns such values, an element of such a
// list, or a parameter that every caller fills that way (depth-bounded).
func freshDescriptor(w *World, fi *FuncInfo, e ast.Expr, depth int, isDesc func(types.Type) bool) bool {
	if depth < 0 {
		return false
	}
	info := fi.Pkg.TypesInfo
	e = unparen(e)
	switch x := e.(type) {
	case *ast.CompositeLit:
		return true
	case *ast.UnaryExpr:
		if x.Op == token.AND {
			if _, isLit := unparen(x.X).(*ast.CompositeLit); isLit {
				return true
			}
			// &v, v a local of the struct type
			if o, ok := objOf(info, x.X).(*types.Var); ok && !o.IsField() && isDesc(o.Type()) && !isPointerType(o.Type()) && fi.Decl.Body.Pos() <= o.Pos() && o.Pos() < fi.Decl.Body.End() {
				return true
			}
		}
		return false
	case *ast.CallExpr:
		if id, ok := unparen(x.Fun).(*ast.Ident); ok {
			switch id.Name {
			case "new", "make":
				return true
			case "append":
				for i, a := range x.Args {
					if i == 0 {
						if isNilIdent(info, a) || freshDescriptor(w, fi, a, depth, isDesc) {
							continue
						}
						return false
					}
					if !freshDescriptor(w, fi, a, depth, isDesc) {
						return false
					}
				}
				return true
			}
		}
		cal := callee(info, x)
		if cal == nil {
			return false
		}
		if o := cal.Origin(); o != nil {
			cal = o
		}
		t := w.Decls[cal]
		if t == nil || t.Decl.Body == nil {
			return false
		}
		all, any := true, false
		ast.Inspect(t.Decl.Body, func(y ast.Node) bool {
			if _, isLit := y.(*ast.FuncLit); isLit {
				return false
			}
			if ret, ok := y.(*ast.ReturnStmt); ok && len(ret.Results) >= 1 {
				if isNilIdent(t.Pkg.TypesInfo, ret.Results[0]) {
					return true
				}
				any = true
				if !freshDescriptor(w, t, ret.Results[0], depth-1, isDesc) {
					all = false
				}
			}
			return true
		})
		return all && any
	case *ast.Ident:
		o, ok := info.ObjectOf(x).(*types.Var)
		if !ok || o.IsField() {
			return false
		}
		// a range element: judged like the list
		var list ast.Expr
		ast.Inspect(fi.Decl.Body, func(y ast.Node) bool {
			if rs, ok := y.(*ast.RangeStmt); ok && rs.Value != nil {
				if vid, ok := rs.Value.(*ast.Ident); ok && info.Defs[vid] == o {
					list = rs.X
				}
			}
			return true
		})
		if list != nil {
			return freshDescriptor(w, fi, list, depth, isDesc)
		}
		if isParamOrRecv(fi, info, o) {
			idx, k := -1, 0
			for _, f := range fi.Decl.Type.Params.List {
				for _, nm := range f.Names {
					if info.Defs[nm] == o {
						idx = k
					}
					k++
				}
			}
			if idx < 0 || fi.Obj.Exported() {
				return false
			}
			n := 0
			for caller := range w.Callers()[fi] {
				for _, c := range callsIn(caller.Decl.Body, true) {
					if callee(caller.Pkg.TypesInfo, c) != fi.Obj {
						continue
					}
					n++
					ai := idx
					if ai >= len(c.Args) {
						ai = len(c.Args) - 1 // variadic
					}
					if ai < 0 || !freshDescriptor(w, caller, c.Args[ai], depth-1, isDesc) {
						return false
					}
				}
			}
			return n > 0
		}
		// a local: every assignment gives it a fresh value (appends onto itself included)
		all, any := true, false
		ast.Inspect(fi.Decl.Body, func(y ast.Node) bool {
			switch st := y.(type) {
			case *ast.AssignStmt:
				if len(st.Lhs) == len(st.Rhs) {
					for i, l := range st.Lhs {
						if objOf(info, l) != o {
							continue
						}
						any = true
						rhs := unparen(st.Rhs[i])
						if c, isC := rhs.(*ast.CallExpr); isC {
							if id, isId := unparen(c.Fun).(*ast.Ident); isId && id.Name == "append" && len(c.Args) > 0 && objOf(info, c.Args[0]) == o {
								for _, a := range c.Args[1:] {
									if !freshDescriptor(w, fi, a, depth, isDesc) {
										all = false
									}
								}
								continue
							}
						}
						if !freshDescriptor(w, fi, rhs, depth, isDesc) {
							all = false
						}
					}
				} else if len(st.Rhs) == 1 {
					for _, l := range st.Lhs {
						if objOf(info, l) == o {
							any = true
							if !freshDescriptor(w, fi, st.Rhs[0], depth, isDesc) {
								all = false
							}
						}
					}
				}
			case *ast.ValueSpec:
				for i, nm := range st.Names {
					if info.Defs[nm] == o {
						if i < len(st.Values) {
							any = true
							if !freshDescriptor(w, fi, st.Values[i], depth, isDesc) {
								all = false
							}
						}
					}
				}
			}
			return true
		})
		return all && any
	}
	return false
}

func isPointerType(t types.Type) bool {
	_, ok := t.Underlying().(*types.Pointer)
	return ok
}

// ownedLocalSlice: o is a local (not a parameter, not a field) every assignment of
// which builds it from nothing or from itself: make / nil / a literal / a clone,
// append onto itself, a reslice of itself, an in-place slices function applied to
// itself. Such a slice never shares storage the function did not allocate.
func ownedLocalSlice(fi *FuncInfo, info *types.Info, o *types.Var) bool {
	if o.IsField() || isParamOrRecv(fi, info, o) || !(fi.Decl.Body.Pos() <= o.Pos() && o.Pos() < fi.Decl.Body.End()) {
		return false
	}
	if _, isSl := o.Type().Underlying().(*types.Slice); !isSl {
		return false
	}
	self := func(e ast.Expr) bool {
		e = unparen(e)
		if sl, ok := e.(*ast.SliceExpr); ok {
			e = unparen(sl.X)
		}
		return objOf(info, e) == o
	}
	okAll, any := true, false
	if ownedBusy[o] {
		return true // a cycle of moves between locals (cur, next = next, cur): decided by the other definitions
	}
	ownedBusy[o] = true
	defer delete(ownedBusy, o)
	judge := func(rhs ast.Expr) {
		any = true
		rhs = unparen(rhs)
		if isNilIdent(info, rhs) || self(rhs) {
			return
		}
		// a move from another local this function owns (current = next)
		if o2, isV := objOf(info, rhs).(*types.Var); isV && o2 != o && ownedLocalSlice(fi, info, o2) {
			return
		}
		if _, isLit := rhs.(*ast.CompositeLit); isLit {
			return
		}
		if c, isC := rhs.(*ast.CallExpr); isC {
			if id, isId := unparen(c.Fun).(*ast.Ident); isId && (id.Name == "make" || (id.Name == "append" && len(c.Args) > 0 && (self(c.Args[0]) || isNilIdent(info, c.Args[0])))) {
				return
			}
			cal := callee(info, c)
			if cal != nil && cal.Pkg() != nil && cal.Pkg().Path() == "slices" {
				switch cal.Name() {
				case "Clone", "Collect", "Sorted", "AppendSeq":
					if cal.Name() != "AppendSeq" || len(c.Args) == 0 || self(c.Args[0]) || isNilIdent(info, c.Args[0]) {
						return
					}
					if mk, isMk := unparen(c.Args[0]).(*ast.CallExpr); isMk && exprStr(mk.Fun) == "make" {
						return
					}
				default:
					if len(c.Args) > 0 && self(c.Args[0]) {
						return
					}
				}
			}
			if tv, ok := info.Types[c.Fun]; ok && tv.IsType() && len(c.Args) == 1 && isNilIdent(info, c.Args[0]) {
				return // []T(nil)
			}
		}
		okAll = false
	}
	ast.Inspect(fi.Decl.Body, func(x ast.Node) bool {
		switch st := x.(type) {
		case *ast.AssignStmt:
			if len(st.Lhs) == len(st.Rhs) {
				for i, l := range st.Lhs {
					if objOf(info, l) == o {
						judge(st.Rhs[i])
					}
				}
			} else {
				for _, l := range st.Lhs {
					if objOf(info, l) == o {
						any, okAll = true, false
					}
				}
			}
		case *ast.ValueSpec:
			for i, nm := range st.Names {
				if info.Defs[nm] == o && i < len(st.Values) {
					judge(st.Values[i])
				} else if info.Defs[nm] == o {
					any = true // var x []T
				}
			}
		case *ast.RangeStmt:
			if (st.Key != nil && objOf(info, st.Key) == o) || (st.Value != nil && objOf(info, st.Value) == o) {
				okAll = false
			}
		case *ast.UnaryExpr:
			if st.Op == token.AND && objOf(info, st.X) == o {
				okAll = false // its address escapes
			}
		}
		return true
	})
	return okAll && any
}

var freshSliceBusy = map[types.Object]bool{}
var ownedBusy = map[types.Object]bool{}

// ownedLocalTable: o is a local map (or slice) of slices that is only ever bound
// to make(…) or a composite literal in this function, and whose address is not taken.
func ownedLocalTable(fi *FuncInfo, info *types.Info, o *types.Var) bool {
	if o.IsField() || isParamOrRecv(fi, info, o) || !(fi.Decl.Body.Pos() <= o.Pos() && o.Pos() < fi.Decl.Body.End()) {
		return false
	}
	var elem types.Type
	switch t := o.Type().Underlying().(type) {
	case *types.Map:
		elem = t.Elem()
	case *types.Slice:
		elem = t.Elem()
	default:
		return false
	}
	if _, isSl := elem.Underlying().(*types.Slice); !isSl {
		return false
	}
	ok, any := true, false
	ast.Inspect(fi.Decl.Body, func(x ast.Node) bool {
		switch st := x.(type) {
		case *ast.AssignStmt:
			for i, l := range st.Lhs {
				id, isId := unparen(l).(*ast.Ident)
				if !isId || (info.Defs[id] != o && info.Uses[id] != o) {
					continue
				}
				any = true
				if len(st.Lhs) != len(st.Rhs) {
					ok = false
					continue
				}
				rhs := unparen(st.Rhs[i])
				if _, isLit := rhs.(*ast.CompositeLit); isLit {
					continue
				}
				if c, isC := rhs.(*ast.CallExpr); isC && exprStr(c.Fun) == "make" {
					continue
				}
				ok = false
			}
		case *ast.UnaryExpr:
			if st.Op == token.AND && objOf(info, st.X) == o {
				ok = false
			}
		}
		return true
	})
	return ok && any
}

// elementsOwned: o is a local slice of slices (or map of slices) this function
// built, and every element assignment `o[i] = rhs` gives the element storage of
// its own: append onto that element (or nil), make, nil, a literal, an owned local.
func elementsOwned(fi *FuncInfo, info *types.Info, o *types.Var) bool {
	ok := true
	ast.Inspect(fi.Decl.Body, func(x ast.Node) bool {
		as, isAs := x.(*ast.AssignStmt)
		if !isAs {
			return true
		}
		for i, l := range as.Lhs {
			ix, isIx := unparen(l).(*ast.IndexExpr)
			if !isIx || objOf(info, ix.X) != o {
				continue
			}
			if len(as.Lhs) != len(as.Rhs) {
				ok = false
				continue
			}
			rhs := unparen(as.Rhs[i])
			if isNilIdent(info, rhs) {
				continue
			}
			if _, isLit := rhs.(*ast.CompositeLit); isLit {
				continue
			}
			if o2, isV := objOf(info, rhs).(*types.Var); isV && ownedLocalSlice(fi, info, o2) {
				continue
			}
			if c, isC := rhs.(*ast.CallExpr); isC {
				if id, isId := unparen(c.Fun).(*ast.Ident); isId {
					if id.Name == "make" {
						continue
					}
					if id.Name == "append" && len(c.Args) > 0 {
						a0 := unparen(c.Args[0])
						if isNilIdent(info, a0) {
							continue
						}
						if ax, isAx := a0.(*ast.IndexExpr); isAx && objOf(info, ax.X) == o && exprStr(ax.Index) == exprStr(ix.Index) {
							continue
						}
					}
				}
			}
			ok = false
		}
		return true
	})
	return ok
}

func freshSliceExpr(w *World, fi *FuncInfo, e ast.Expr, depth int) (res bool) {
	info := fi.Pkg.TypesInfo
	if os.Getenv("GODICHECK_DEBUG") != "" {
		defer func() {
			fmt.Fprintf(os.Stderr, "freshSliceExpr %s %s depth=%d -> %v\n", fi.Name(), exprStr(e), depth, res)
		}()
	}
	if isNilIdent(info, e) {
		return true
	}
	// m[k] of a table this call built (a local map of slices, or one handed down from the caller that built it)
	if ix, isIx := unparen(e).(*ast.IndexExpr); isIx {
		if _, isMap := info.TypeOf(ix.X).Underlying().(*types.Map); isMap {
			return freshSliceExpr(w, fi, ix.X, depth)
		}
	}
	if o, isV := objOf(info, e).(*types.Var); isV && ownedLocalSlice(fi, info, o) {
		return true
	}
	// rows[i] of a local slice of slices this function built and filled row by row
	if ix, isIx := unparen(e).(*ast.IndexExpr); isIx {
		if o, isV := objOf(info, ix.X).(*types.Var); isV {
			if sl, isSl := o.Type().Underlying().(*types.Slice); isSl {
				if _, inner := sl.Elem().Underlying().(*types.Slice); inner && ownedLocalSlice(fi, info, o) && elementsOwned(fi, info, o) {
					return true
				}
			}
		}
	}
	// the element variable of a loop over a local table (map or slice of slices) this function
	// built and filled element by element: for _, list := range dependents { sort(list) }
	if o, isV := objOf(info, e).(*types.Var); isV && !assignedIn(info, fi.Decl.Body, o) {
		for _, l := range iterLoopsIn(info, fi.Decl.Body) {
			if l.Elem != o || l.CollObj == nil {
				continue
			}
			if rs, isRange := l.Stmt.(*ast.RangeStmt); !isRange || rs.Value == nil || objOf(info, rs.Value) != o {
				continue
			}
			if tbl, isT := l.CollObj.(*types.Var); isT && ownedLocalTable(fi, info, tbl) && elementsOwned(fi, info, tbl) {
				return true
			}
		}
	}
	e = resolveLocal(info, fi.Decl.Body, e, 3)
	if ok, _ := freshDepth(info, fi, e, 2); ok {
		return true
	}
	if c, isC := e.(*ast.CallExpr); isC {
		if id, isId := unparen(c.Fun).(*ast.Ident); isId && id.Name == "append" && len(c.Args) > 0 {
			a0 := unparen(c.Args[0])
			if isNilIdent(info, a0) {
				return true
			}
			if cc, ok := a0.(*ast.CallExpr); ok {
				if tv, ok := info.Types[cc.Fun]; ok && tv.IsType() {
					return true // []T(nil)
				}
				if ok, _ := freshCall(info, cc, 0, 2); ok {
					return true
				}
			}
			if _, ok := a0.(*ast.CompositeLit); ok {
				return true
			}
		}
		cal := callee(info, c)
		if isFunc(cal, "slices", "", "Collect") || isFunc(cal, "slices", "", "Sorted") || isFunc(cal, "slices", "", "AppendSeq") || isFunc(cal, "maps", "", "Keys") {
			return true
		}
	}
	if _, ok := e.(*ast.CompositeLit); ok {
		return true
	}
	// a parameter of a private function: every caller hands in a slice of its own
	if o, isV := objOf(info, e).(*types.Var); isV && depth > -3 && !fi.Obj.Exported() {
		if pidx, isP := paramIndex(fi, info, o); isP {
			if freshSliceBusy[o] {
				return true // a recursive hand-down: decided by the other call sites
			}
			freshSliceBusy[o] = true
			defer delete(freshSliceBusy, o)
			n := 0
			for caller := range w.Callers()[fi] {
				for _, c := range callsIn(caller.Decl.Body, true) {
					if callee(caller.Pkg.TypesInfo, c) != fi.Obj || pidx >= len(c.Args) {
						continue
					}
					n++
					if !freshSliceExpr(w, caller, c.Args[pidx], depth-1) {
						return false
					}
				}
			}
			if n > 0 {
				return true
			}
		}
	}
	return false
}

func paramIndex(fi *FuncInfo, info *types.Info, o types.Object) (int, bool) {
	k := 0
	for _, f := range fi.Decl.Type.Params.List {
		for _, nm := range f.Names {
			if info.Defs[nm] == o {
				return k, true
			}
			k++
		}
	}
	return 0, false
}

// isPureCounter: a field of an atomic integer type that the resolution path only
// ever adds to - it is read nowhere in resolve / createInstance / setInstance and
// their private helpers (a statistics accessor reads it). A counter carries no
// identity: it cannot hand out, skip or remember an instance.
func isPureCounter(w *World, fv *types.Var) bool {
	n := namedOf(fv.Type())
	if n == nil || n.Obj().Pkg() == nil || n.Obj().Pkg().Path() != "sync/atomic" {
		return false
	}
	switch n.Obj().Name() {
	case "Int32", "Int64", "Uint32", "Uint64", "Uintptr":
	default:
		return false
	}
	ro := resolveRoles(w)
	path := map[*FuncInfo]bool{}
	for _, root := range []*FuncInfo{ro.resolveTop, ro.resolve, ro.createInstance, ro.setInstance, ro.setSingleton} {
		if root == nil {
			continue
		}
		for _, f := range w.Within(root, 3) {
			path[f] = true
		}
	}
	for _, a := range collectAccessesCached(w, func(v *types.Var) bool { return v == fv }) {
		fi := w.FuncAt(a.Pos())
		if fi == nil || !path[fi] {
			continue
		}
		if a.Kind != "method" || a.Call == nil {
			return false
		}
		if sel, ok := unparen(a.Call.Fun).(*ast.SelectorExpr); !ok || sel.Sel.Name != "Add" {
			return false
		}
		// the result of Add is not used either (x.Add(1) as a statement)
		used := true
		ast.Inspect(fi.Decl.Body, func(x ast.Node) bool {
			if es, ok := x.(*ast.ExprStmt); ok && unparen(es.X) == ast.Expr(a.Call) {
				used = false
			}
			return true
		})
		if used {
			return false
		}
	}
	return true
}

// assertedFrom: v was bound by `v, ok := e.(*T)` (or `v := e.(*T)`); returns the object of e.
func assertedFrom(info *types.Info, body ast.Node, v types.Object) types.Object {
	if v == nil {
		return nil
	}
	var out types.Object
	ast.Inspect(body, func(x ast.Node) bool {
		as, ok := x.(*ast.AssignStmt)
		if !ok || len(as.Rhs) != 1 || len(as.Lhs) == 0 || objOf(info, as.Lhs[0]) != v {
			return true
		}
		if ta, isTA := unparen(as.Rhs[0]).(*ast.TypeAssertExpr); isTA && ta.Type != nil {
			out = objOf(info, ta.X)
		}
		return true
	})
	return out
}

// freshLocalObjectAt: the base of the selector e is a local of the enclosing
// function bound to a fresh allocation (c := &collection{…}, a constructor call):
// writes through it fill an object nobody else can see yet - a constructor-like
// copy, not a mutation of a shared object.
func freshLocalObjectAt(info *types.Info, at ast.Node, e ast.Expr) bool {
	id := rootIdent(e)
	if id == nil || theWorld == nil {
		return false
	}
	o := info.Uses[id]
	fi := theWorld.FuncAt(at.Pos())
	if o == nil || fi == nil || isParamOrRecv(fi, info, o) {
		return false
	}
	fresh := false
	ast.Inspect(fi.Decl.Body, func(y ast.Node) bool {
		if as, ok := y.(*ast.AssignStmt); ok && len(as.Lhs) == len(as.Rhs) {
			for i, l := range as.Lhs {
				if objOf(info, l) != o {
					continue
				}
				if litOf(as.Rhs[i]) != nil {
					fresh = true
				}
				if c, isC := unparen(as.Rhs[i]).(*ast.CallExpr); isC && isFreshConstructorCall(info, c) {
					fresh = true
				}
			}
		}
		return true
	})
	return fresh
}

// ruleNoStaleIndex: a slice field of the collection, a scope or a provider is
// never indexed or resliced with a function parameter that is not compared with
// the slice's length in the same function: a position taken in an earlier
// critical section (mark := c.Count() … c.list[mark:]) is stale as soon as
// something was removed in between - "slice bounds out of range", outside any recover.
func ruleNoStaleIndex(w *World, r *Report, rule string) {
	isShared := func(v *types.Var) bool {
		if _, ok := v.Type().Underlying().(*types.Slice); !ok {
			return false
		}
		switch ownerOfFieldRaw(w, v) {
		case "collection", "scope", "provider":
			return true
		}
		return false
	}
	sites, bad := 0, 0
	for _, fi := range w.FuncsOf(w.Godi) {
		info := fi.Pkg.TypesInfo
		// parameters compared with len(x.F)
		checked := map[types.Object]bool{}
		ast.Inspect(fi.Decl.Body, func(x ast.Node) bool {
			be, ok := x.(*ast.BinaryExpr)
			if !ok {
				return true
			}
			switch be.Op {
			case token.LSS, token.LEQ, token.GTR, token.GEQ:
			default:
				return true
			}
			for _, pair := range [][2]ast.Expr{{be.X, be.Y}, {be.Y, be.X}} {
				if c, isC := unparen(pair[1]).(*ast.CallExpr); isC && exprStr(c.Fun) == "len" && len(c.Args) == 1 {
					if fv := fieldOf(info, c.Args[0]); fv != nil && isShared(fv) {
						if o := objOf(info, pair[0]); o != nil {
							checked[o] = true
						}
					}
				}
			}
			return true
		})
		k := 0
		judge := func(base ast.Expr, idx ast.Expr, pos token.Pos) {
			fv := fieldOf(info, base)
			if fv == nil || !isShared(fv) || idx == nil {
				return
			}
			sites++
			o := objOf(info, idx)
			if o == nil || !isParamOf(fi, info, o) || checked[o] {
				return
			}
			bad++
			k++
			r.Fail(rule, fmt.Sprintf("%s#stale-index:%s.%s/%d", fi.Name(), ownerOfFieldRaw(w, fv), fv.Name(), k), pos,
				"%s uses its parameter %s as a position in %s.%s without comparing it with the length of the slice: a position computed before (in another critical section) is out of range once entries were removed in between - the operation panics", fi.Name(), o.Name(), ownerOfFieldRaw(w, fv), fv.Name())
		}
		ast.Inspect(fi.Decl.Body, func(x ast.Node) bool {
			switch e := x.(type) {
			case *ast.IndexExpr:
				judge(e.X, e.Index, e.Pos())
			case *ast.SliceExpr:
				judge(e.X, e.Low, e.Pos())
				judge(e.X, e.High, e.Pos())
			}
			return true
		})
	}
	if bad == 0 {
		r.OK(rule, "godi#stale-index:none", token.NoPos, false, "%d index / slice expressions on slice fields of collection, scope and provider: none uses an unchecked parameter as a position", sites)
	}
}

// ruleNoResolvedValueKept: what resolution hands out is remembered in the
// instance tables only. No function of the root package stores a value that came
// out of Get / GetKeyed / GetGroup / resolve / createInstance (directly, wrapped in
// a reflect.Value, or appended to a list) into a field of a record the container
// shares - a struct reachable from provider, scope, collection or Descriptor. A
// bound-arguments cache on a decorator, a memo on a descriptor: the transient it
// holds is injected into every later consumer.
func ruleNoResolvedValueKept(w *World, r *Report, rule string) {
	ro := resolveRoles(w)
	// shared record types: reachable through field types from the four roots
	shared := map[*types.TypeName]bool{}
	var visit func(t types.Type, depth int)
	visit = func(t types.Type, depth int) {
		if depth < 0 || t == nil {
			return
		}
		switch x := t.(type) {
		case *types.Pointer:
			visit(x.Elem(), depth)
		case *types.Slice:
			visit(x.Elem(), depth)
		case *types.Array:
			visit(x.Elem(), depth)
		case *types.Map:
			visit(x.Key(), depth)
			visit(x.Elem(), depth)
		case *types.Named:
			if x.Obj().Pkg() != w.Godi.Types || shared[x.Obj()] {
				return
			}
			st, ok := x.Underlying().(*types.Struct)
			if !ok {
				return
			}
			shared[x.Obj()] = true
			for i := 0; i < st.NumFields(); i++ {
				visit(st.Field(i).Type(), depth-1)
			}
		}
	}
	for _, root := range []string{"provider", "scope", "collection", "Descriptor"} {
		if named, _ := w.Struct(w.Godi, root); named != nil {
			visit(named, 3)
		}
	}
	isRes := func(cal *types.Func) bool {
		if cal == nil {
			return false
		}
		if t := w.Decls[cal]; t != nil && (t == ro.resolve || t == ro.resolveTop || t == ro.createInstance || ro.creators[cal]) {
			return true
		}
		switch cal.Name() {
		case "Get", "GetKeyed", "GetGroup":
			if rn := recvNamed(cal); rn != nil && rn.Obj().Pkg() != nil && strings.HasPrefix(rn.Obj().Pkg().Path(), modPath) {
				switch rn.Obj().Name() {
				case "scope", "provider", "Scope", "Provider", "DependencyResolver":
					return true
				}
			}
		}
		return false
	}
	doors := map[*FuncInfo]string{}
	for _, f := range []*FuncInfo{ro.setInstance, ro.setSingleton} {
		if f != nil {
			doors[f] = f.Name()
		}
	}
	doors = w.HelperClosure(doors)
	fns, bad := 0, 0
	for _, fi := range w.FuncsOf(w.Godi) {
		if _, isDoor := doors[fi]; isDoor {
			continue
		}
		info := fi.Pkg.TypesInfo
		tainted := map[types.Object]bool{}
		for changed, round := true, 0; changed && round < 4; round++ {
			changed = false
			ast.Inspect(fi.Decl.Body, func(x ast.Node) bool {
				as, ok := x.(*ast.AssignStmt)
				if !ok {
					return true
				}
				mark := func(l ast.Expr) {
					if o := objOf(info, l); o != nil && !tainted[o] {
						if v, isV := o.(*types.Var); isV && !v.IsField() {
							tainted[o] = true
							changed = true
						}
					}
				}
				if len(as.Rhs) == 1 {
					if c, isC := unparen(as.Rhs[0]).(*ast.CallExpr); isC && isRes(callee(info, c)) && len(as.Lhs) >= 1 {
						mark(as.Lhs[0])
						return true
					}
				}
				if len(as.Lhs) == len(as.Rhs) {
					for i, rh := range as.Rhs {
						uses := false
						ast.Inspect(rh, func(y ast.Node) bool {
							if id, isId := y.(*ast.Ident); isId && tainted[info.Uses[id]] {
								uses = true
							}
							return true
						})
						if uses {
							mark(as.Lhs[i])
						}
					}
				}
				return true
			})
		}
		if len(tainted) == 0 {
			continue
		}
		fns++
		k := 0
		ast.Inspect(fi.Decl.Body, func(x ast.Node) bool {
			as, ok := x.(*ast.AssignStmt)
			if !ok || len(as.Lhs) != len(as.Rhs) {
				return true
			}
			for i, l := range as.Lhs {
				t := unparen(l)
				if ix, isIx := t.(*ast.IndexExpr); isIx {
					t = unparen(ix.X)
				}
				fv := plainFieldOf(info, t)
				if fv == nil {
					continue
				}
				var owner *types.TypeName
				for tn := range shared {
					if st, ok := tn.Type().Underlying().(*types.Struct); ok {
						for j := 0; j < st.NumFields(); j++ {
							if st.Field(j) == fv {
								owner = tn
							}
						}
					}
				}
				if owner == nil {
					continue
				}
				uses := ""
				ast.Inspect(as.Rhs[i], func(y ast.Node) bool {
					if id, isId := y.(*ast.Ident); isId && tainted[info.Uses[id]] {
						uses = id.Name
					}
					return true
				})
				if uses == "" {
					continue
				}
				bad++
				k++
				r.Fail(rule, fmt.Sprintf("%s#keeps-resolved:%s.%s/%d", fi.Name(), owner.Name(), fv.Name(), k), as.Pos(),
					"%s stores %s, which came out of a resolution, in %s.%s - a record the container shares: the value is handed to every later user of that record, whatever its lifetime (a transient dependency resolved once is injected for ever, into every scope)", fi.Name(), uses, owner.Name(), fv.Name())
			}
			return true
		})
	}
	if bad == 0 {
		r.OK(rule, "godi#keeps-resolved:none", token.NoPos, false, "%d functions bind the result of a resolution to a variable: none stores it in a field of a shared record (%d record types reachable from provider, scope, collection, Descriptor)", fns, len(shared))
	}
}

// ruleAddReplacesEdges: the two ways of adding a provider agree on what an add
// does to the node it lands on: on every accepting path the node's edge list and
// its own dependency list are replaced by the new provider's (sibling agreement of
// AddProvider and AddProviderDeferred). An add that only writes them when the new
// provider has dependencies lets a replacement inherit the edges of the provider
// it replaces: every query disagrees with the digraph that was actually described,
// and a cycle through the stale edge is reported that does not exist.
func ruleAddReplacesEdges(w *World, r *Report, rule string) {
	g := resolveGraph(w)
	n := 0
	for _, fi := range w.FuncsOf(w.Graph) {
		if !fi.Obj.Exported() || recvNamed(fi.Obj) == nil || recvNamed(fi.Obj).Obj().Name() != "DependencyGraph" {
			continue
		}
		info := fi.Pkg.TypesInfo
		// an add: assigns Provider of a node
		setsProvider := false
		ast.Inspect(fi.Decl.Body, func(x ast.Node) bool {
			if as, ok := x.(*ast.AssignStmt); ok {
				for _, l := range as.Lhs {
					if fv := fieldOf(info, l); fv != nil && fv.Name() == "Provider" && ownerOfFieldRaw(w, fv) == "Node" {
						if len(as.Rhs) == 1 && !isNilIdent(info, as.Rhs[0]) {
							setsProvider = true
						}
					}
				}
			}
			return true
		})
		if !setsProvider {
			continue
		}
		n++
		r.Analysed(fi)
		fl := w.FlowOf(fi)
		sol := fl.Solve(Spec{Must: true, Global: globalPrefixes("edges-set", "deps-set"),
			Node: func(nd ast.Node, in Facts) (gen, kill []string) {
				if as, ok := nd.(*ast.AssignStmt); ok {
					for _, l := range as.Lhs {
						if ix, isIx := unparen(l).(*ast.IndexExpr); isIx && fieldOf(info, ix.X) == g.edges {
							gen = append(gen, "edges-set")
						}
						if fv := fieldOf(info, l); fv != nil && fv == g.nodeDeps {
							gen = append(gen, "deps-set")
						}
					}
				}
				for _, c := range callsIn(nd, false) {
					if id, ok := unparen(c.Fun).(*ast.Ident); ok && id.Name == "delete" && len(c.Args) == 2 && fieldOf(info, c.Args[0]) == g.edges {
						gen = append(gen, "edges-set")
					}
				}
				return
			}})
		// per path (a batch add does all of it inside a loop): a provider put on a node owes the
		// node its edge list and its dependency list until they are written
		owes := fl.Solve(Spec{Must: false, Global: globalPrefixes("owes:"),
			Node: func(nd ast.Node, in Facts) (gen, kill []string) {
				if as, ok := nd.(*ast.AssignStmt); ok {
					for i, l := range as.Lhs {
						if fv := fieldOf(info, l); fv != nil && fv.Name() == "Provider" && ownerOfFieldRaw(w, fv) == "Node" && len(as.Rhs) == len(as.Lhs) && !isNilIdent(info, as.Rhs[i]) {
							gen = append(gen, "owes:edges", "owes:deps")
						}
						if ix, isIx := unparen(l).(*ast.IndexExpr); isIx && fieldOf(info, ix.X) == g.edges {
							kill = append(kill, "owes:edges")
						}
						if fv := fieldOf(info, l); fv != nil && fv == g.nodeDeps {
							kill = append(kill, "owes:deps")
						}
					}
				}
				for _, c := range callsIn(nd, false) {
					if id, ok := unparen(c.Fun).(*ast.Ident); ok && id.Name == "delete" && len(c.Args) == 2 && fieldOf(info, c.Args[0]) == g.edges {
						kill = append(kill, "owes:edges")
					}
				}
				return
			}})
		k := 0
		for _, ex := range fl.Exits() {
			if ex.Panic || ex.Ret == nil || len(ex.Ret.Results) != 1 || !isNilIdent(info, ex.Ret.Results[0]) {
				continue // a rejecting exit
			}
			k++
			at := sol.AtExit(ex)
			ok := at.Has("edges-set") && at.Has("deps-set")
			if oa := owes.AtExit(ex); !ok && !oa.Has("owes:edges") && !oa.Has("owes:deps") {
				ok = true
			}
			r.Check(ok, rule, fmt.Sprintf("%s#accepting-exit/%d", fi.Name(), k), ex.Pos, true,
				"the node's edge list and dependency list have been replaced on every path to this accepting exit",
				fmt.Sprintf("%s can accept a provider without having replaced the node's entry in the edge table (set: %v) and its dependency list (set: %v): a provider that replaces an earlier one keeps the earlier one's edges when it has no dependencies of its own", fi.Name(), at.Has("edges-set"), at.Has("deps-set")))
		}
	}
	if n < 2 {
		r.Fail(rule, "graph#adds", token.NoPos, "expected two exported adds (immediate and deferred), found %d", n)
	}
}
