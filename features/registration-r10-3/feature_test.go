package godi

import (
	"context"
	"fmt"
	"reflect"
	"sync"
	"sync/atomic"
	"testing"

	"github.com/stretchr/testify/assert"
	"github.com/stretchr/testify/require"
)

// rwCounted returns a constructor for a *TService with the given ID that
// counts how often it runs.
func rwCounted(id string, calls *atomic.Int32) func() *TService {
	return func() *TService {
		calls.Add(1)
		return &TService{ID: id}
	}
}

func rwIDs(services []*TService) []string {
	ids := make([]string, 0, len(services))
	for _, s := range services {
		ids = append(ids, s.ID)
	}
	return ids
}

// rwRequireInStep checks that every view of the registry tells the same story.
func rwRequireInStep(t *testing.T, c Collection) {
	t.Helper()
	r := c.(*collection)
	r.mu.RLock()
	defer r.mu.RUnlock()

	indexed := 0
	for key, d := range r.services {
		require.Equal(t, key, TypeKey{Type: d.Type, Key: d.Key})
		require.Contains(t, r.allDescriptors, d)
		indexed++
	}
	for key, members := range r.groups {
		require.NotEmpty(t, members, "empty group %v left behind", key)
		for i, d := range members {
			require.Equal(t, key, GroupKey{Type: d.Type, Group: d.Group})
			require.Equal(t, i+1, d.Key, "group members are numbered by position")
			require.Contains(t, r.allDescriptors, d)
			indexed++
		}
	}
	require.Equal(t, indexed, len(r.allDescriptors))
}

func TestCollection_RemoveWhere(t *testing.T) {
	t.Parallel()

	t.Run("plain_keyed_and_group_members_in_one_call", func(t *testing.T) {
		t.Parallel()
		var removedCalls, keptCalls atomic.Int32

		c := BuildCollection(t,
			AddSingleton(rwCounted("plain", &removedCalls)),
			AddSingleton(rwCounted("keyed", &removedCalls), Name("k")),
			AddSingleton(rwCounted("kept-keyed", &keptCalls), Name("kept")),
			AddSingleton(rwCounted("g1", &removedCalls), Group("g")),
			AddSingleton(rwCounted("g2", &keptCalls), Group("g")),
			AddSingleton(NewTDependency),
			AddScoped(NewTScoped),
		)

		n := c.RemoveWhere(func(d *Descriptor) bool {
			return d.Type == PtrTypeOf[TService]() && d.Key != "kept" && d.Key != 2
		})
		assert.Equal(t, 3, n)

		assert.False(t, c.Contains(PtrTypeOf[TService]()))
		assert.False(t, c.ContainsKeyed(PtrTypeOf[TService](), "k"))
		assert.True(t, c.ContainsKeyed(PtrTypeOf[TService](), "kept"))
		assert.True(t, c.(*collection).HasGroup(PtrTypeOf[TService](), "g"))
		assert.True(t, c.Contains(PtrTypeOf[TDependency]()))
		assert.Equal(t, 4, c.Count())
		assert.Len(t, c.ToSlice(), 4)
		rwRequireInStep(t, c)

		p, err := c.Build()
		require.NoError(t, err)
		t.Cleanup(func() { _ = p.Close() })

		// The removed constructors never run
		assert.Equal(t, int32(0), removedCalls.Load())
		assert.Equal(t, int32(2), keptCalls.Load())

		_, err = Resolve[*TService](p)
		assert.ErrorIs(t, err, ErrServiceNotFound)
		_, err = ResolveKeyed[*TService](p, "k")
		assert.ErrorIs(t, err, ErrServiceNotFound)

		members, err := ResolveGroup[*TService](p, "g")
		require.NoError(t, err)
		assert.Equal(t, []string{"g2"}, rwIDs(members))
	})

	t.Run("remaining_group_members_keep_order_and_distinct_identities", func(t *testing.T) {
		t.Parallel()
		var calls atomic.Int32

		c := NewCollection()
		for _, id := range []string{"a", "b", "c", "d"} {
			require.NoError(t, c.AddScoped(rwCounted(id, &calls), Group("g")))
		}

		// A provider built before the removal must stay as it is
		before, err := c.Build()
		require.NoError(t, err)
		t.Cleanup(func() { _ = before.Close() })

		n := c.RemoveWhere(func(d *Descriptor) bool { return d.Group == "g" && d.Key == 2 })
		require.Equal(t, 1, n)
		rwRequireInStep(t, c)

		// The next member must not collide with a member that moved up
		require.NoError(t, c.AddScoped(rwCounted("e", &calls), Group("g")))
		rwRequireInStep(t, c)
		assert.Equal(t, 4, c.Count())

		after, err := c.Build()
		require.NoError(t, err)
		t.Cleanup(func() { _ = after.Close() })

		resolveTwice := func(p Provider) []*TService {
			s, err := p.CreateScope(context.Background())
			require.NoError(t, err)
			t.Cleanup(func() { _ = s.Close() })

			first, err := ResolveGroup[*TService](s, "g")
			require.NoError(t, err)
			second, err := ResolveGroup[*TService](s, "g")
			require.NoError(t, err)
			require.Len(t, second, len(first))
			for i := range first {
				assert.Same(t, first[i], second[i], "scoped member %d is cached per scope", i)
			}
			return first
		}

		calls.Store(0)
		got := resolveTwice(after)
		assert.Equal(t, []string{"a", "c", "d", "e"}, rwIDs(got))
		assert.Equal(t, int32(4), calls.Load(), "one construction per member")

		calls.Store(0)
		got = resolveTwice(before)
		assert.Equal(t, []string{"a", "b", "c", "d"}, rwIDs(got))
		assert.Equal(t, int32(4), calls.Load(), "one construction per member")
	})

	t.Run("whole_group_removed", func(t *testing.T) {
		t.Parallel()

		type consumer struct{ members []*TService }
		type consumerParams struct {
			In
			Members []*TService `group:"g"`
		}

		c := BuildCollection(t,
			AddSingleton(NewTServiceWithID("a"), Group("g")),
			AddSingleton(NewTServiceWithID("b"), Group("g")),
			AddSingleton(NewTServiceWithID("other"), Group("h")),
			AddSingleton(func(p consumerParams) *consumer { return &consumer{members: p.Members} }),
		)

		assert.Equal(t, 2, c.RemoveWhere(func(d *Descriptor) bool { return d.Group == "g" }))
		assert.False(t, c.(*collection).HasGroup(PtrTypeOf[TService](), "g"))
		assert.True(t, c.(*collection).HasGroup(PtrTypeOf[TService](), "h"))
		rwRequireInStep(t, c)

		// Removing again finds nothing
		assert.Equal(t, 0, c.RemoveWhere(func(d *Descriptor) bool { return d.Group == "g" }))

		p, err := c.Build()
		require.NoError(t, err)
		t.Cleanup(func() { _ = p.Close() })

		got := RequireResolve[*consumer](t, p)
		assert.NotNil(t, got.members)
		assert.Empty(t, got.members)

		// The group can be started afresh
		require.NoError(t, c.AddSingleton(NewTServiceWithID("fresh"), Group("g")))
		rwRequireInStep(t, c)
	})

	t.Run("all_outputs_of_a_multi_output_constructor", func(t *testing.T) {
		t.Parallel()
		var calls atomic.Int32
		triple := func() (*TService, *TDependency, *TDisposable) {
			calls.Add(1)
			return NewTTripleReturn()
		}

		type result struct {
			Out
			A *TScoped
			B *TScoped `name:"b"`
		}
		newResult := func() result {
			calls.Add(1)
			return result{A: NewTScoped(), B: NewTScoped()}
		}

		c := BuildCollection(t,
			AddSingleton(triple),
			AddSingleton(newResult),
			AddSingleton(NewTTransient),
		)
		require.Equal(t, 6, c.Count())

		// Select by constructor: every output of triple, and nothing else
		tripleType := reflect.TypeOf(triple)
		n := c.RemoveWhere(func(d *Descriptor) bool { return d.ConstructorType == tripleType })
		assert.Equal(t, 3, n)
		assert.False(t, c.Contains(PtrTypeOf[TDependency]()))
		assert.False(t, c.Contains(PtrTypeOf[TDisposable]()))
		assert.Equal(t, 3, c.Count())
		rwRequireInStep(t, c)

		// Result-object outputs go the same way
		resultType := reflect.TypeOf(newResult)
		assert.Equal(t, 2, c.RemoveWhere(func(d *Descriptor) bool { return d.ConstructorType == resultType }))
		rwRequireInStep(t, c)

		p, err := c.Build()
		require.NoError(t, err)
		t.Cleanup(func() { _ = p.Close() })
		assert.Equal(t, int32(0), calls.Load())
		assert.NotNil(t, RequireResolve[*TTransient](t, p))
		_, err = ResolveKeyed[*TScoped](p, "b")
		assert.ErrorIs(t, err, ErrServiceNotFound)
	})

	t.Run("nothing_to_do", func(t *testing.T) {
		t.Parallel()
		c := BuildCollection(t, AddSingleton(NewTService), AddSingleton(NewTServiceWithID("g"), Group("g")))
		before := c.ToSlice()

		assert.Equal(t, 0, c.RemoveWhere(nil))
		assert.Equal(t, 0, c.RemoveWhere(func(*Descriptor) bool { return false }))
		assert.Equal(t, 0, NewCollection().RemoveWhere(func(*Descriptor) bool { return true }))

		after := c.ToSlice()
		require.Len(t, after, len(before))
		for i := range before {
			assert.Same(t, before[i], after[i])
		}
		rwRequireInStep(t, c)
	})

	t.Run("predicate_sees_copies_in_registration_order_and_may_query_the_collection", func(t *testing.T) {
		t.Parallel()
		c := BuildCollection(t,
			AddSingleton(NewTService),
			AddSingleton(NewTDependency),
			AddScoped(NewTScoped),
		)

		var seen []string
		n := c.RemoveWhere(func(d *Descriptor) bool {
			seen = append(seen, d.Type.String())
			registered := c.Contains(d.Type) // must not deadlock
			d.Type = TypeOf[int]()           // must not reach the registry
			d.Lifetime = Transient
			return registered && len(seen) == 2
		})

		assert.Equal(t, 1, n)
		assert.Equal(t, []string{"*godi.TService", "*godi.TDependency", "*godi.TScoped"}, seen)
		assert.True(t, c.Contains(PtrTypeOf[TService]()))
		assert.False(t, c.Contains(PtrTypeOf[TDependency]()))
		assert.False(t, c.Contains(TypeOf[int]()))
		for _, d := range c.ToSlice() {
			assert.NotEqual(t, Transient, d.Lifetime)
		}
		rwRequireInStep(t, c)
	})

	t.Run("removing_a_required_dependency_is_reported_by_build", func(t *testing.T) {
		t.Parallel()
		c := BuildCollection(t,
			AddSingleton(NewTService),
			AddSingleton(NewTDependency),
			AddSingleton(NewTServiceWithDeps),
		)

		require.Equal(t, 1, c.RemoveWhere(func(d *Descriptor) bool { return d.Type == PtrTypeOf[TDependency]() }))

		_, err := c.Build()
		require.Error(t, err)
		assert.ErrorIs(t, err, ErrServiceNotFound)

		// And the identity is free again
		require.NoError(t, c.AddSingleton(NewTDependency))
		p, err := c.Build()
		require.NoError(t, err)
		require.NoError(t, p.Close())
	})

	t.Run("module_form_equals_direct_call", func(t *testing.T) {
		t.Parallel()
		isGrouped := func(d *Descriptor) bool { return d.Group != "" }

		viaModule := BuildCollection(t, NewModule("m",
			AddSingleton(NewTService),
			AddSingleton(NewTServiceWithID("a"), Group("g")),
			RemoveWhere(isGrouped),
			AddSingleton(NewTServiceWithID("b"), Group("g")),
			RemoveWhere(nil),
		))

		direct := NewCollection()
		require.NoError(t, direct.AddSingleton(NewTService))
		require.NoError(t, direct.AddSingleton(NewTServiceWithID("a"), Group("g")))
		direct.RemoveWhere(isGrouped)
		require.NoError(t, direct.AddSingleton(NewTServiceWithID("b"), Group("g")))

		require.Equal(t, direct.Count(), viaModule.Count())
		for i, d := range direct.ToSlice() {
			m := viaModule.ToSlice()[i]
			assert.Equal(t, d.Type, m.Type)
			assert.Equal(t, d.Key, m.Key)
			assert.Equal(t, d.Group, m.Group)
		}

		p, err := viaModule.Build()
		require.NoError(t, err)
		t.Cleanup(func() { _ = p.Close() })
		members, err := ResolveGroup[*TService](p, "g")
		require.NoError(t, err)
		assert.Equal(t, []string{"b"}, rwIDs(members))
	})

	t.Run("concurrent_with_add_and_build", func(t *testing.T) {
		t.Parallel()
		c := BuildCollection(t, AddSingleton(NewTDependency))

		var next atomic.Int64
		var wg sync.WaitGroup

		for w := 0; w < 3; w++ {
			wg.Add(1)
			go func() {
				defer wg.Done()
				for i := 0; i < 40; i++ {
					id := fmt.Sprintf("m%d", next.Add(1))
					assert.NoError(t, c.AddSingleton(NewTServiceWithID(id), Group("g")))
				}
			}()
		}

		for w := 0; w < 2; w++ {
			wg.Add(1)
			go func(w int) {
				defer wg.Done()
				for i := 0; i < 40; i++ {
					c.RemoveWhere(func(d *Descriptor) bool {
						position, _ := d.Key.(int)
						return d.Group == "g" && position%2 == w
					})
				}
			}(w)
		}

		for w := 0; w < 2; w++ {
			wg.Add(1)
			go func() {
				defer wg.Done()
				for i := 0; i < 20; i++ {
					p, err := c.Build()
					if !assert.NoError(t, err) {
						return
					}

					members, err := ResolveGroup[*TService](p, "g")
					assert.NoError(t, err)

					// No two members may ever share an identity
					unique := make(map[string]struct{}, len(members))
					for _, m := range members {
						unique[m.ID] = struct{}{}
					}
					assert.Len(t, unique, len(members))
					assert.NoError(t, p.Close())
				}
			}()
		}

		wg.Wait()
		rwRequireInStep(t, c)
	})
}
