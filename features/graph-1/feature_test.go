package graph_test

import (
	"math/rand"
	"reflect"
	"sync"
	"testing"

	"github.com/junioryono/godi/v4/internal/graph"
	"github.com/junioryono/godi/v4/internal/reflection"
	"github.com/stretchr/testify/assert"
	"github.com/stretchr/testify/require"
)

// tdProvider is a minimal graph.Provider for the transitive dependents tests.
type tdProvider struct {
	typ   reflect.Type
	key   any
	group string
	deps  []*reflection.Dependency
}

func (p *tdProvider) GetType() reflect.Type                     { return p.typ }
func (p *tdProvider) GetKey() any                               { return p.key }
func (p *tdProvider) GetGroup() string                          { return p.group }
func (p *tdProvider) GetDependencies() []*reflection.Dependency { return p.deps }

// tdType returns a distinct type for every i.
func tdType(i int) reflect.Type { return reflect.ArrayOf(i+1, reflect.TypeOf(0)) }

func tdPlain(i int, deps ...int) *tdProvider {
	p := &tdProvider{typ: tdType(i)}
	for _, d := range deps {
		p.deps = append(p.deps, &reflection.Dependency{Type: tdType(d)})
	}
	return p
}

func tdKeys(g *graph.DependencyGraph, i int) []graph.NodeKey {
	return g.GetTransitiveDependents(tdType(i), nil, "")
}

func tdKey(i int) graph.NodeKey { return graph.NodeKey{Type: tdType(i)} }

func TestGetTransitiveDependents_Basic(t *testing.T) {
	// 0 <- 1 <- 2 <- 4, 0 <- 3 <- 4, 5 isolated
	g := graph.NewDependencyGraph()
	require.NoError(t, g.AddProvider(tdPlain(0)))
	require.NoError(t, g.AddProvider(tdPlain(1, 0)))
	require.NoError(t, g.AddProvider(tdPlain(2, 1)))
	require.NoError(t, g.AddProvider(tdPlain(3, 0)))
	require.NoError(t, g.AddProvider(tdPlain(4, 2, 3)))
	require.NoError(t, g.AddProvider(tdPlain(5)))

	got := tdKeys(g, 0)
	assert.ElementsMatch(t, []graph.NodeKey{tdKey(1), tdKey(2), tdKey(3), tdKey(4)}, got)
	// breadth first: the direct dependents come first, 4 is reached once
	assert.ElementsMatch(t, []graph.NodeKey{tdKey(1), tdKey(3)}, got[:2])

	assert.ElementsMatch(t, []graph.NodeKey{tdKey(2), tdKey(4)}, tdKeys(g, 1))
	assert.Equal(t, []graph.NodeKey{tdKey(4)}, tdKeys(g, 3))

	// no dependents and unknown services give an empty, non-nil slice,
	// like GetTransitiveDependencies
	for _, i := range []int{4, 5, 99} {
		res := tdKeys(g, i)
		assert.NotNil(t, res)
		assert.Empty(t, res)
	}

	// the key and the group are part of the identity
	assert.Empty(t, g.GetTransitiveDependents(tdType(0), "k", ""))
	assert.Empty(t, g.GetTransitiveDependents(tdType(0), nil, "grp"))

	// the result belongs to the caller
	got[0], got[1] = tdKey(77), tdKey(78)
	assert.ElementsMatch(t, []graph.NodeKey{tdKey(1), tdKey(2), tdKey(3), tdKey(4)}, tdKeys(g, 0))
}

func TestGetTransitiveDependents_KeysAndGroups(t *testing.T) {
	base := tdType(0)
	member := tdType(1)
	consumer := tdType(2)

	add := func(g *graph.DependencyGraph, deferred bool, p graph.Provider) {
		t.Helper()
		if deferred {
			require.NoError(t, g.AddProviderDeferred(p))
		} else {
			require.NoError(t, g.AddProvider(p))
		}
	}

	for _, deferred := range []bool{false, true} {
		g := graph.NewDependencyGraph()
		// the consumer is added before the members of the group it consumes
		add(g, deferred, &tdProvider{typ: consumer, deps: []*reflection.Dependency{{Type: member, Group: "g"}}})
		add(g, deferred, &tdProvider{typ: base, key: "named"})
		add(g, deferred, &tdProvider{typ: base})
		add(g, deferred, &tdProvider{typ: member, key: 1, group: "g", deps: []*reflection.Dependency{{Type: base, Key: "named"}}})
		add(g, deferred, &tdProvider{typ: member, key: 2, group: "g"})
		require.NoError(t, g.DetectCycles())

		want := []graph.NodeKey{
			{Type: member, Key: 1, Group: "g"},
			{Type: member, Group: "g"}, // the group as a whole
			{Type: consumer},
		}
		assert.Equal(t, want, g.GetTransitiveDependents(base, "named", ""), "deferred=%v", deferred)
		assert.Empty(t, g.GetTransitiveDependents(base, nil, ""), "the unnamed registration is not used by anyone")
		assert.Equal(t, want[1:], g.GetTransitiveDependents(member, 2, "g"))
	}
}

func TestGetTransitiveDependents_DeferredBeforeCycleCheck(t *testing.T) {
	g := graph.NewDependencyGraph()
	require.NoError(t, g.AddProviderDeferred(tdPlain(0)))
	require.NoError(t, g.AddProviderDeferred(tdPlain(1, 0)))
	require.NoError(t, g.AddProviderDeferred(tdPlain(2, 1)))

	// GetDependents is only filled in by DetectCycles; the transitive query
	// does not depend on it
	assert.ElementsMatch(t, []graph.NodeKey{tdKey(1), tdKey(2)}, tdKeys(g, 0))

	// a cycle that has not been rejected yet: terminates, never lists the start
	require.NoError(t, g.AddProviderDeferred(tdPlain(0, 2)))
	assert.ElementsMatch(t, []graph.NodeKey{tdKey(1), tdKey(2)}, tdKeys(g, 0))
	assert.ElementsMatch(t, []graph.NodeKey{tdKey(0), tdKey(2)}, tdKeys(g, 1))
	require.Error(t, g.DetectCycles())

	// self dependency
	g2 := graph.NewDependencyGraph()
	require.NoError(t, g2.AddProviderDeferred(tdPlain(0, 0)))
	assert.Empty(t, tdKeys(g2, 0))
}

func TestGetTransitiveDependents_NeverStale(t *testing.T) {
	g := graph.NewDependencyGraph()
	require.NoError(t, g.AddProvider(tdPlain(0)))
	require.NoError(t, g.AddProvider(tdPlain(1, 0)))
	require.NoError(t, g.AddProvider(tdPlain(2, 1)))
	assert.ElementsMatch(t, []graph.NodeKey{tdKey(1), tdKey(2)}, tdKeys(g, 0))

	// a rejected add leaves the answer as it was
	require.Error(t, g.AddProvider(tdPlain(0, 2)))
	assert.ElementsMatch(t, []graph.NodeKey{tdKey(1), tdKey(2)}, tdKeys(g, 0))
	assert.Empty(t, tdKeys(g, 2))

	// replacing 2 so that it no longer depends on 1
	require.NoError(t, g.AddProvider(tdPlain(2)))
	assert.Equal(t, []graph.NodeKey{tdKey(1)}, tdKeys(g, 0))

	// removing the middle of a chain cuts it
	require.NoError(t, g.AddProvider(tdPlain(2, 1)))
	g.RemoveProvider(tdType(1), nil, "")
	assert.Empty(t, tdKeys(g, 0))
	assert.Empty(t, tdKeys(g, 1))

	g.Clear()
	assert.Empty(t, tdKeys(g, 0))
}

// tdModel is a plain reference digraph.
type tdModel struct {
	nodes map[int]bool
	edges map[int][]int
}

func (m *tdModel) reaches(from, to int) bool {
	seen := map[int]bool{}
	var walk func(n int) bool
	walk = func(n int) bool {
		for _, d := range m.edges[n] {
			if d == to {
				return true
			}
			if !seen[d] {
				seen[d] = true
				if walk(d) {
					return true
				}
			}
		}
		return false
	}
	return walk(from)
}

func TestGetTransitiveDependents_AgreesWithReference(t *testing.T) {
	const n = 12
	rng := rand.New(rand.NewSource(8))

	for round := 0; round < 40; round++ {
		g := graph.NewDependencyGraph()
		m := &tdModel{nodes: map[int]bool{}, edges: map[int][]int{}}
		deferred := round%2 == 1

		for op := 0; op < 60; op++ {
			i := rng.Intn(n)
			switch rng.Intn(5) {
			case 0:
				g.RemoveProvider(tdType(i), nil, "")
				delete(m.nodes, i)
				delete(m.edges, i)
				for from, tos := range m.edges {
					kept := tos[:0:0]
					for _, to := range tos {
						if to != i {
							kept = append(kept, to)
						}
					}
					m.edges[from] = kept
				}
			default:
				var deps []int
				for k := rng.Intn(3); k > 0; k-- {
					// mostly towards smaller numbers, so that many adds are acyclic
					d := rng.Intn(n)
					if d >= i && rng.Intn(4) > 0 {
						continue
					}
					deps = append(deps, d)
				}

				if deferred && len(deps) == 0 && len(m.edges[i]) > 0 {
					// a deferred add replaces the edges of an existing
					// registration only when the new one has dependencies
					continue
				}

				var err error
				if deferred {
					err = g.AddProviderDeferred(tdPlain(i, deps...))
				} else {
					err = g.AddProvider(tdPlain(i, deps...))
				}

				if err == nil {
					m.nodes[i] = true
					m.edges[i] = deps
					for _, d := range deps {
						m.nodes[d] = true
					}
				}
			}

			for x := 0; x < n; x++ {
				var want []graph.NodeKey
				if m.nodes[x] {
					for y := range m.nodes {
						if y != x && m.reaches(y, x) {
							want = append(want, tdKey(y))
						}
					}
				}

				got := tdKeys(g, x)
				require.ElementsMatch(t, want, got, "round %d op %d node %d", round, op, x)

				// mirror image of GetTransitiveDependencies
				for _, y := range got {
					require.Contains(t, g.GetTransitiveDependencies(y.Type, y.Key, y.Group), tdKey(x))
				}
			}
		}
	}
}

func TestGetTransitiveDependents_Concurrent(t *testing.T) {
	g := graph.NewDependencyGraph()
	for i := 0; i < 8; i++ {
		if i == 0 {
			require.NoError(t, g.AddProvider(tdPlain(0)))
		} else {
			require.NoError(t, g.AddProvider(tdPlain(i, i-1)))
		}
	}

	var wg sync.WaitGroup
	for w := 0; w < 4; w++ {
		wg.Add(2)
		go func(w int) {
			defer wg.Done()
			for i := 0; i < 200; i++ {
				// nodes 8.. come and go, each hanging off the stable chain
				k := 8 + (w*200+i)%5
				_ = g.AddProvider(tdPlain(k, 7))
				g.RemoveProvider(tdType(k), nil, "")
				_ = g.AddProviderDeferred(tdPlain(k, 3))
				_ = g.DetectCycles()
			}
		}(w)
		go func() {
			defer wg.Done()
			for i := 0; i < 200; i++ {
				got := tdKeys(g, 0)
				// the stable chain is always there, whatever else is going on
				for c := 1; c < 8; c++ {
					assert.Contains(t, got, tdKey(c))
				}
				got[0] = tdKey(99)
			}
		}()
	}
	wg.Wait()
}
