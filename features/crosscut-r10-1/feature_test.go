package godi

import (
	"errors"
	"sync/atomic"
	"testing"

	"github.com/stretchr/testify/assert"
	"github.com/stretchr/testify/require"
)

type btLogger struct{ closed atomic.Int32 }

func (l *btLogger) Close() error { l.closed.Add(1); return nil }

type btRepo struct{ log *btLogger }

func phaseNames(timings []BuildPhaseTiming) []string {
	names := make([]string, 0, len(timings))
	for _, timing := range timings {
		names = append(names, timing.Phase)
	}
	return names
}

func TestOnBuildPhase_SuccessReportsAllPhasesInOrder(t *testing.T) {
	var built atomic.Int32
	c := NewCollection()
	require.NoError(t, c.AddSingleton(func() *btLogger { built.Add(1); return &btLogger{} }))
	require.NoError(t, c.AddScoped(func(l *btLogger) *btRepo { return &btRepo{log: l} }))
	require.NoError(t, c.AddScoped(func(l *btLogger) {}))

	var timings []BuildPhaseTiming
	p, err := c.BuildWithOptions(&ProviderOptions{
		OnBuildPhase: func(timing BuildPhaseTiming) {
			// The collection is unlocked while the callback runs
			assert.Equal(t, 3, c.Count())
			timings = append(timings, timing)
		},
	})
	require.NoError(t, err)
	defer p.Close()

	assert.Equal(t,
		[]string{BuildPhaseGraph, BuildPhaseValidation, BuildPhaseSingletons, BuildPhaseRootScope},
		phaseNames(timings))
	for _, timing := range timings {
		assert.NoError(t, timing.Err)
		assert.GreaterOrEqual(t, int64(timing.Duration), int64(0))
	}

	// The build itself is unchanged: one singleton, usable provider
	assert.Equal(t, int32(1), built.Load())
	repo, err := Resolve[*btRepo](p)
	require.NoError(t, err)
	logger, err := Resolve[*btLogger](p)
	require.NoError(t, err)
	assert.Same(t, logger, repo.log)
}

func TestOnBuildPhase_FailureStopsAtFailingPhase(t *testing.T) {
	t.Run("validation", func(t *testing.T) {
		c := NewCollection()
		require.NoError(t, c.AddSingleton(func(r *btRepo) *btLogger { return &btLogger{} }))
		require.NoError(t, c.AddScoped(func() *btRepo { return &btRepo{} }))

		var timings []BuildPhaseTiming
		p, err := c.BuildWithOptions(&ProviderOptions{
			OnBuildPhase: func(timing BuildPhaseTiming) { timings = append(timings, timing) },
		})
		require.Error(t, err)
		assert.Nil(t, p)

		var conflict *LifetimeConflictError
		require.ErrorAs(t, err, &conflict)

		require.Equal(t, []string{BuildPhaseGraph, BuildPhaseValidation}, phaseNames(timings))
		assert.NoError(t, timings[0].Err)
		assert.Same(t, err, timings[1].Err)
	})

	t.Run("singleton constructor", func(t *testing.T) {
		boom := errors.New("boom")
		first := &btLogger{}
		c := NewCollection()
		require.NoError(t, c.AddSingleton(func() *btLogger { return first }))
		require.NoError(t, c.AddSingleton(func(*btLogger) (*btRepo, error) { return nil, boom }))

		var timings []BuildPhaseTiming
		_, err := c.BuildWithOptions(&ProviderOptions{
			OnBuildPhase: func(timing BuildPhaseTiming) { timings = append(timings, timing) },
		})
		require.ErrorIs(t, err, boom)

		require.Equal(t,
			[]string{BuildPhaseGraph, BuildPhaseValidation, BuildPhaseSingletons},
			phaseNames(timings))
		assert.ErrorIs(t, timings[2].Err, boom)

		// The partially built provider was cleaned up exactly once
		assert.Equal(t, int32(1), first.closed.Load())
	})
}

func TestOnBuildPhase_PanickingCallback(t *testing.T) {
	t.Run("after success the provider is closed and an error returned", func(t *testing.T) {
		logger := &btLogger{}
		c := NewCollection()
		require.NoError(t, c.AddSingleton(func() *btLogger { return logger }))

		var p Provider
		var err error
		require.NotPanics(t, func() {
			p, err = c.BuildWithOptions(&ProviderOptions{
				OnBuildPhase: func(BuildPhaseTiming) { panic("observer bug") },
			})
		})

		assert.Nil(t, p)
		var buildErr *BuildError
		require.ErrorAs(t, err, &buildErr)
		assert.Equal(t, "observer", buildErr.Phase)
		assert.Contains(t, err.Error(), "observer bug")
		assert.Equal(t, int32(1), logger.closed.Load())
	})

	t.Run("after a failed build the build error wins", func(t *testing.T) {
		c := NewCollection()
		require.NoError(t, c.AddSingleton(func(*btRepo) *btLogger { return &btLogger{} }))

		var err error
		require.NotPanics(t, func() {
			_, err = c.BuildWithOptions(&ProviderOptions{
				OnBuildPhase: func(BuildPhaseTiming) { panic("observer bug") },
			})
		})
		require.ErrorIs(t, err, ErrServiceNotFound)
	})
}

func TestOnBuildPhase_EveryBuildReportsItsOwnPhases(t *testing.T) {
	c := NewCollection()
	require.NoError(t, c.AddSingleton(func() *btLogger { return &btLogger{} }))

	calls := 0
	opts := &ProviderOptions{OnBuildPhase: func(BuildPhaseTiming) { calls++ }}

	p1, err := c.BuildWithOptions(opts)
	require.NoError(t, err)
	defer p1.Close()
	assert.Equal(t, 4, calls)

	p2, err := c.BuildWithOptions(opts)
	require.NoError(t, err)
	defer p2.Close()
	assert.Equal(t, 8, calls)

	// Builds without the option (or without options) are not observed
	p3, err := c.BuildWithOptions(nil)
	require.NoError(t, err)
	defer p3.Close()
	p4, err := c.Build()
	require.NoError(t, err)
	defer p4.Close()
	assert.Equal(t, 8, calls)

	l1, _ := Resolve[*btLogger](p1)
	l2, _ := Resolve[*btLogger](p2)
	assert.NotSame(t, l1, l2)
}
