package godi

import (
	"context"
	"errors"
	"runtime"
	"sync"
	"sync/atomic"
	"testing"
	"time"

	"github.com/stretchr/testify/assert"
	"github.com/stretchr/testify/require"
)

// doneGate is a disposable whose Close blocks until release is closed.
type doneGate struct {
	entered chan struct{}
	release chan struct{}
	closes  atomic.Int32
	err     error
}

func (g *doneGate) Close() error {
	g.closes.Add(1)
	close(g.entered)
	<-g.release
	return g.err
}

// donePanicker panics when it is closed.
type donePanicker struct{}

func (*donePanicker) Close() error { panic("close panicked") }

func completionOf(t *testing.T, s Scope) ScopeCompletion {
	t.Helper()
	c, ok := s.(ScopeCompletion)
	require.True(t, ok, "scopes created by the container implement ScopeCompletion")
	return c
}

func isDone(c ScopeCompletion) bool {
	select {
	case <-c.Done():
		return true
	default:
		return false
	}
}

func TestScopeDone_ClosedAfterDisposalHasFinished(t *testing.T) {
	t.Parallel()

	gate := &doneGate{entered: make(chan struct{}), release: make(chan struct{}), err: errors.New("boom")}
	p := BuildProvider(t, AddScoped(func() *doneGate { return gate }))

	s, err := p.CreateScope(context.Background())
	require.NoError(t, err)
	c := completionOf(t, s)

	_, err = s.Get(PtrTypeOf[doneGate]())
	require.NoError(t, err)

	assert.False(t, isDone(c))
	assert.Equal(t, c.Done(), c.Done(), "always the same channel")

	// Wait gives up when its context does, without closing the scope
	ctx, cancel := context.WithTimeout(context.Background(), 10*time.Millisecond)
	assert.ErrorIs(t, c.Wait(ctx), context.DeadlineExceeded)
	cancel()
	_, err = s.Get(PtrTypeOf[doneGate]())
	require.NoError(t, err)

	closeErr := make(chan error, 1)
	go func() { closeErr <- s.Close() }()
	<-gate.entered

	// Disposal is in progress: the scope's context is cancelled and the scope
	// refuses work, a second Close returns immediately - but Done is still open
	<-s.Context().Done()
	_, err = s.Get(PtrTypeOf[doneGate]())
	assert.ErrorIs(t, err, ErrScopeDisposed)
	assert.NoError(t, s.Close())
	assert.False(t, isDone(c))

	waitErr := make(chan error, 1)
	go func() { waitErr <- c.Wait(nil) }()
	select {
	case <-waitErr:
		t.Fatal("Wait returned before disposal finished")
	case <-time.After(20 * time.Millisecond):
	}

	close(gate.release)

	require.NoError(t, <-waitErr)
	assert.True(t, isDone(c))

	// The disposal error still goes to the call that disposed, once
	var disposalErr *DisposalError
	assert.ErrorAs(t, <-closeErr, &disposalErr)
	assert.Equal(t, int32(1), gate.closes.Load())

	// Later calls: nothing is closed twice, nothing blocks
	assert.NoError(t, s.Close())
	assert.NoError(t, c.Wait(context.Background()))
	assert.Equal(t, int32(1), gate.closes.Load())

	// Already disposed beats already cancelled
	cancelled, cancel2 := context.WithCancel(context.Background())
	cancel2()
	assert.NoError(t, c.Wait(cancelled))
}

func TestScopeDone_EveryWayOfClosing(t *testing.T) {
	t.Parallel()

	p := BuildProvider(t, AddScoped(NewTDisposable))

	// Context cancellation
	ctx, cancel := context.WithCancel(context.Background())
	byContext, err := p.CreateScope(ctx)
	require.NoError(t, err)
	d, err := byContext.Get(PtrTypeOf[TDisposable]())
	require.NoError(t, err)
	assert.False(t, isDone(completionOf(t, byContext)))
	cancel()
	require.NoError(t, completionOf(t, byContext).Wait(context.Background()))
	assert.True(t, d.(*TDisposable).IsClosed(), "Done implies the instances have been disposed")

	// Parent: descendants are done no later than the parent
	parent, err := p.CreateScope(context.Background())
	require.NoError(t, err)
	child, err := parent.CreateScope(nil)
	require.NoError(t, err)
	grandchild, err := child.CreateScope(context.Background())
	require.NoError(t, err)
	gd, err := grandchild.Get(PtrTypeOf[TDisposable]())
	require.NoError(t, err)

	require.NoError(t, child.Close())
	assert.True(t, isDone(completionOf(t, child)))
	assert.True(t, isDone(completionOf(t, grandchild)))
	assert.True(t, gd.(*TDisposable).IsClosed())
	assert.False(t, isDone(completionOf(t, parent)), "closing a child does not complete its parent")
	require.NoError(t, parent.Close())
	assert.True(t, isDone(completionOf(t, parent)))

	// Provider: every scope, and the provider's own root scope
	open1, err := p.CreateScope(context.Background())
	require.NoError(t, err)
	open2, err := open1.CreateScope(context.Background())
	require.NoError(t, err)
	root, err := p.Get(TypeOf[Scope]())
	require.NoError(t, err)
	assert.False(t, isDone(completionOf(t, root.(Scope))))

	require.NoError(t, p.Close())
	assert.True(t, isDone(completionOf(t, open1)))
	assert.True(t, isDone(completionOf(t, open2)))
	assert.True(t, isDone(completionOf(t, root.(Scope))))
}

func TestScopeDone_PanickingDisposable(t *testing.T) {
	t.Parallel()

	p := BuildProvider(t, AddScoped(func() *donePanicker { return &donePanicker{} }))
	s, err := p.CreateScope(context.Background())
	require.NoError(t, err)
	_, err = s.Get(PtrTypeOf[donePanicker]())
	require.NoError(t, err)

	// The panic of an instance's Close propagates as it always did ...
	assert.PanicsWithValue(t, "close panicked", func() { _ = s.Close() })

	// ... but waiters are not left hanging
	assert.True(t, isDone(completionOf(t, s)))
	assert.NoError(t, s.Close())
}

func TestScopeDone_ConcurrentCloseAndWait(t *testing.T) {
	// Not parallel: it counts goroutines

	p := BuildProvider(t, AddScoped(NewTDisposable), AddTransient(NewTTransient))
	before := runtime.NumGoroutine()

	for round := 0; round < 30; round++ {
		ctx, cancel := context.WithCancel(context.Background())
		parent, err := p.CreateScope(ctx)
		require.NoError(t, err)
		child, err := parent.CreateScope(nil)
		require.NoError(t, err)
		d, err := child.Get(PtrTypeOf[TDisposable]())
		require.NoError(t, err)

		var wg sync.WaitGroup
		for g := 0; g < 4; g++ {
			wg.Add(3)
			go func() {
				defer wg.Done()
				assert.NoError(t, completionOf(t, child).Wait(context.Background()))
				// "already closed" would be reported as an error by a second Close
				assert.True(t, d.(*TDisposable).IsClosed())
			}()
			go func() {
				defer wg.Done()
				assert.NoError(t, completionOf(t, parent).Wait(nil))
			}()
			go func(g int) {
				defer wg.Done()
				_, _ = child.Get(PtrTypeOf[TTransient]())
				switch g % 3 {
				case 0:
					assert.NoError(t, child.Close())
				case 1:
					assert.NoError(t, parent.Close())
				default:
					cancel()
				}
			}(g)
		}
		wg.Wait()
		cancel()

		assert.True(t, isDone(completionOf(t, parent)))
		assert.True(t, isDone(completionOf(t, child)))
	}

	// Done and Wait start no goroutines of their own
	assert.Eventually(t, func() bool {
		return runtime.NumGoroutine() <= before+2
	}, 2*time.Second, 10*time.Millisecond)
}

func TestScopeDone_FailedScopeCreationIsDone(t *testing.T) {
	t.Parallel()

	var fail atomic.Bool
	var captured atomic.Value
	p := BuildProvider(t, AddScoped(func(s Scope) error {
		if fail.Load() {
			captured.Store(s)
			return errors.New("initializer failed")
		}
		return nil
	}))

	fail.Store(true)
	_, err := p.CreateScope(context.Background())
	require.Error(t, err)

	// The half-made scope was closed by the failed creation
	s, ok := captured.Load().(Scope)
	require.True(t, ok)
	assert.True(t, isDone(completionOf(t, s)))
	_, err = s.Get(TypeOf[Scope]())
	assert.ErrorIs(t, err, ErrScopeDisposed)
}
