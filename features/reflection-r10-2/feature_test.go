package reflection_test

import (
	"errors"
	"reflect"
	"sync"
	"testing"

	"github.com/junioryono/godi/v4/internal/reflection"
	"github.com/stretchr/testify/assert"
	"github.com/stretchr/testify/require"
)

type manyDB struct{}
type manyCache struct{}
type manySvc struct{}

type manyRecv struct{}

func (manyRecv) NewDB() *manyDB               { return &manyDB{} }
func (manyRecv) NewCache() *manyCache         { return &manyCache{} }
func newManySvc(*manyDB, *manyCache) *manySvc { return &manySvc{} }

func TestAnalyzeMany_OrderAndIdentity(t *testing.T) {
	analyzer := reflection.New()

	newDB := func() *manyDB { return &manyDB{} }
	newCache := func(*manyDB) (*manyCache, error) { return &manyCache{}, nil }
	instance := &manySvc{}

	// One of them is cached beforehand, the others are not
	cached, err := analyzer.Analyze(newCache)
	require.NoError(t, err)

	infos, err := analyzer.AnalyzeMany(newDB, newCache, instance, newManySvc, newDB)
	require.NoError(t, err)
	require.Len(t, infos, 5)

	assert.Same(t, cached, infos[1], "cached analysis must be reused")
	assert.Same(t, infos[0], infos[4], "a constructor listed twice is analyzed once")
	assert.Equal(t, 4, analyzer.CacheSize())

	// Every element is exactly what Analyze returns for that argument
	for i, constructor := range []any{newDB, newCache, instance, newManySvc, newDB} {
		single, err := analyzer.Analyze(constructor)
		require.NoError(t, err)
		assert.Same(t, single, infos[i], "element %d", i)
	}

	assert.True(t, infos[0].IsFunc)
	assert.Empty(t, infos[0].Parameters)
	assert.True(t, infos[1].HasErrorReturn)
	assert.False(t, infos[2].IsFunc)
	assert.Same(t, instance, infos[2].InstanceValue)
	require.Len(t, infos[3].Parameters, 2)
	assert.Equal(t, reflect.TypeOf(&manyDB{}), infos[3].Parameters[0].Type)
	assert.Equal(t, reflect.TypeOf(&manyCache{}), infos[3].Parameters[1].Type)
}

func TestAnalyzeMany_Empty(t *testing.T) {
	analyzer := reflection.New()

	infos, err := analyzer.AnalyzeMany()
	require.NoError(t, err)
	assert.Empty(t, infos)
	assert.Equal(t, 0, analyzer.CacheSize())
}

// Method values of one receiver type can share a code pointer; the cache key
// includes the function type, so they must not be confused with each other.
func TestAnalyzeMany_MethodValuesKeepTheirOwnAnalysis(t *testing.T) {
	analyzer := reflection.New()
	recv := manyRecv{}

	infos, err := analyzer.AnalyzeMany(recv.NewDB, recv.NewCache)
	require.NoError(t, err)

	require.Len(t, infos[0].Returns, 1)
	require.Len(t, infos[1].Returns, 1)
	assert.Equal(t, reflect.TypeOf(&manyDB{}), infos[0].Returns[0].Type)
	assert.Equal(t, reflect.TypeOf(&manyCache{}), infos[1].Returns[0].Type)

	// and a second call is served from the cache with the same answers
	again, err := analyzer.AnalyzeMany(recv.NewCache, recv.NewDB)
	require.NoError(t, err)
	assert.Same(t, infos[0], again[1])
	assert.Same(t, infos[1], again[0])
}

func TestAnalyzeMany_FirstFailureStops(t *testing.T) {
	analyzer := reflection.New()

	newDB := func() *manyDB { return &manyDB{} }
	newCache := func() *manyCache { return &manyCache{} }
	var typedNil func() *manySvc

	_, singleErr := analyzer.Analyze(typedNil)
	require.Error(t, singleErr)

	infos, err := analyzer.AnalyzeMany(newDB, typedNil, nil, newCache)
	require.Error(t, err)
	assert.Nil(t, infos)
	assert.Contains(t, err.Error(), "constructor 1:")
	assert.Contains(t, err.Error(), singleErr.Error())
	assert.Equal(t, singleErr.Error(), errors.Unwrap(err).Error())

	// What came before the failure is cached, what came after was never analyzed
	assert.Equal(t, 1, analyzer.CacheSize())

	// untyped nil is reported at its own position
	_, err = analyzer.AnalyzeMany(nil, newDB)
	require.Error(t, err)
	assert.Contains(t, err.Error(), "constructor 0:")
	assert.Equal(t, 1, analyzer.CacheSize())

	// a retry without the offending entries succeeds
	infos, err = analyzer.AnalyzeMany(newDB, newCache)
	require.NoError(t, err)
	assert.Len(t, infos, 2)
	assert.Equal(t, 2, analyzer.CacheSize())
}

func TestAnalyzeMany_ConcurrentWithClear(t *testing.T) {
	analyzer := reflection.New()

	newDB := func() *manyDB { return &manyDB{} }
	newCache := func(*manyDB) *manyCache { return &manyCache{} }

	var wg sync.WaitGroup
	for i := 0; i < 8; i++ {
		wg.Add(1)
		go func(i int) {
			defer wg.Done()
			for j := 0; j < 100; j++ {
				if i == 0 && j%10 == 0 {
					analyzer.Clear()
				}

				infos, err := analyzer.AnalyzeMany(newDB, newCache, newManySvc)
				if err != nil {
					t.Errorf("unexpected error: %v", err)
					return
				}
				if len(infos[0].Parameters) != 0 || len(infos[1].Parameters) != 1 || len(infos[2].Parameters) != 2 {
					t.Errorf("results out of order")
					return
				}
			}
		}(i)
	}
	wg.Wait()

	assert.LessOrEqual(t, analyzer.CacheSize(), 3)
}

func TestIsConstructor(t *testing.T) {
	var typedNil func() *manyDB
	var nilPtr *manyDB

	assert.True(t, reflection.IsConstructor(func() {}))
	assert.True(t, reflection.IsConstructor(newManySvc))
	assert.True(t, reflection.IsConstructor(manyRecv{}.NewDB))
	assert.True(t, reflection.IsConstructor(reflect.MakeFunc(reflect.TypeOf(typedNil), func([]reflect.Value) []reflect.Value {
		return []reflect.Value{reflect.ValueOf(&manyDB{})}
	}).Interface()))

	assert.False(t, reflection.IsConstructor(nil))
	assert.False(t, reflection.IsConstructor(typedNil))
	assert.False(t, reflection.IsConstructor(nilPtr))
	assert.False(t, reflection.IsConstructor(&manyDB{}))
	assert.False(t, reflection.IsConstructor(42))

	// It agrees with what the analyzer decides
	analyzer := reflection.New()
	for _, v := range []any{newManySvc, &manyDB{}, "text", func() {}} {
		info, err := analyzer.Analyze(v)
		require.NoError(t, err)
		assert.Equal(t, info.IsFunc, reflection.IsConstructor(v))
	}
}
