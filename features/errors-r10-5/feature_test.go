package godi

import (
	"bytes"
	"context"
	"encoding/json"
	"errors"
	"log/slog"
	"strings"
	"sync"
	"testing"

	"github.com/stretchr/testify/assert"
	"github.com/stretchr/testify/require"
)

type elLeaf struct{}
type elMid struct{ leaf *elLeaf }
type elA struct{}
type elB struct{}

type elCloser struct{ err error }

func (c *elCloser) Close() error { return c.err }

var errELBoom = errors.New("el boom")

// elLog logs err with the JSON handler and returns the decoded "err" attribute.
func elLog(t *testing.T, err error) any {
	t.Helper()

	var buf bytes.Buffer
	logger := slog.New(slog.NewJSONHandler(&buf, nil))
	logger.Error("failed", slog.Any("err", err))

	var record map[string]any
	require.NoError(t, json.Unmarshal(buf.Bytes(), &record), buf.String())
	return record["err"]
}

// elGroup asserts that v is a group for the given error name.
func elGroup(t *testing.T, v any, name string) map[string]any {
	t.Helper()
	group, ok := v.(map[string]any)
	require.True(t, ok, "expected a group, got %T: %v", v, v)
	require.Equal(t, name, group["error"])
	return group
}

func TestLogValue_PlainErrorsUnchanged(t *testing.T) {
	assert.Equal(t, "el boom", elLog(t, errELBoom))
	assert.Equal(t, ErrScopeDisposed.Error(), elLog(t, ErrScopeDisposed))
}

func TestLogValue_BuildChain(t *testing.T) {
	c := NewCollection()
	require.NoError(t, c.AddSingleton(func() (*elLeaf, error) { return nil, errELBoom }, Name("main")))
	_, err := c.Build()
	require.Error(t, err)

	build := elGroup(t, elLog(t, err), "build")
	assert.Equal(t, "singleton-creation", build["phase"])

	resolution := elGroup(t, build["cause"], "resolution")
	assert.Equal(t, "*elLeaf", resolution["service"])
	assert.Equal(t, "main", resolution["key"])

	ctor := elGroup(t, resolution["cause"], "constructor")
	assert.Equal(t, []any{}, ctor["parameters"])
	assert.Equal(t, "constructor error: el boom", ctor["cause"])

	// the error itself is untouched
	assert.ErrorIs(t, err, errELBoom)
	assert.True(t, strings.HasPrefix(err.Error(), "build failed during singleton-creation phase"))
}

func TestLogValue_BuildValidation(t *testing.T) {
	t.Run("circular", func(t *testing.T) {
		c := NewCollection()
		require.NoError(t, c.AddSingleton(func(*elB) *elA { return &elA{} }))
		require.NoError(t, c.AddSingleton(func(*elA) *elB { return &elB{} }))
		_, err := c.Build()
		require.Error(t, err)

		build := elGroup(t, elLog(t, err), "build")
		cycle := elGroup(t, build["cause"], "circular-dependency")
		path, ok := cycle["path"].([]any)
		require.True(t, ok)

		// exactly the nodes of the reported cycle, in order
		var cde *CircularDependencyError
		require.True(t, errors.As(err, &cde))
		require.Len(t, path, len(cde.Path))
		for i, node := range cde.Path {
			assert.Equal(t, node.String(), path[i])
		}
	})

	t.Run("lifetime conflict", func(t *testing.T) {
		c := NewCollection()
		require.NoError(t, c.AddScoped(func() *elLeaf { return &elLeaf{} }))
		require.NoError(t, c.AddTransient(func(l *elLeaf) *elMid { return &elMid{l} }))
		_, err := c.Build()
		require.Error(t, err)

		build := elGroup(t, elLog(t, err), "build")
		conflict := elGroup(t, build["cause"], "lifetime-conflict")
		assert.Equal(t, "*elMid", conflict["service"])
		assert.Equal(t, "Transient", conflict["lifetime"])
		assert.Equal(t, "*elLeaf", conflict["dependency"])
		assert.Equal(t, "Scoped", conflict["dependency_lifetime"])
	})

	t.Run("missing dependency has no key attribute", func(t *testing.T) {
		c := NewCollection()
		require.NoError(t, c.AddScoped(func(l *elLeaf) *elMid { return &elMid{l} }))
		_, err := c.Build()
		require.Error(t, err)

		build := elGroup(t, elLog(t, err), "build")
		resolution := elGroup(t, build["cause"], "resolution")
		assert.Equal(t, "*elLeaf", resolution["service"])
		assert.NotContains(t, resolution, "key")
		assert.Equal(t, ErrServiceNotFound.Error(), resolution["cause"])
	})
}

func TestLogValue_ModulesAndRegistration(t *testing.T) {
	c := NewCollection()
	require.NoError(t, c.AddSingleton(func() *elLeaf { return &elLeaf{} }, Name("k")))

	err := c.AddModules(NewModule("outer", NewModule("inner", AddScoped(func() *elLeaf { return &elLeaf{} }, Name("k")))))
	require.Error(t, err)

	outer := elGroup(t, elLog(t, err), "module")
	assert.Equal(t, "outer", outer["module"])
	inner := elGroup(t, outer["cause"], "module")
	assert.Equal(t, "inner", inner["module"])

	// walk down to the root cause, whatever registration wrappers are in between
	cause := inner["cause"]
	for {
		group, ok := cause.(map[string]any)
		require.True(t, ok, "%v", cause)
		if group["error"] == "already-registered" {
			assert.Equal(t, "*elLeaf", group["service"])
			break
		}
		require.Equal(t, "registration", group["error"])
		cause = group["cause"]
	}

	assert.Equal(t, 1, c.Count())
}

func TestLogValue_PanicAndDisposal(t *testing.T) {
	c := NewCollection()
	require.NoError(t, c.AddScoped(func() *elCloser { return &elCloser{err: errELBoom} }))
	require.NoError(t, c.AddTransient(func() *elA { panic("el panic") }))
	p, err := c.Build()
	require.NoError(t, err)
	defer p.Close()

	s, err := p.CreateScope(context.Background())
	require.NoError(t, err)
	child, err := s.CreateScope(context.Background())
	require.NoError(t, err)

	_, err = Resolve[*elA](child)
	require.Error(t, err)
	panicGroup := elGroup(t, elLog(t, err), "constructor-panic")
	assert.Equal(t, "el panic", panicGroup["panic"])
	assert.Contains(t, panicGroup["stack"], "goroutine")

	_, err = Resolve[*elCloser](child)
	require.NoError(t, err)
	_, err = Resolve[*elCloser](s)
	require.NoError(t, err)

	closeErr := s.Close()
	require.Error(t, closeErr)
	disposal := elGroup(t, elLog(t, closeErr), "disposal")
	assert.Equal(t, "scope", disposal["context"])
	assert.EqualValues(t, 2, disposal["count"])
	errs, ok := disposal["errors"].(map[string]any)
	require.True(t, ok)
	assert.Len(t, errs, 2)
	assert.Contains(t, errs["0"], "failed to close child scope")
	assert.Equal(t, "failed to dispose scoped instance: el boom", errs["1"])

	// Close again: nothing to log
	assert.NoError(t, s.Close())
	assert.Nil(t, elLog(t, s.Close()))
}

func TestLogValue_ZeroValuesAndPointers(t *testing.T) {
	// No field set: only the name (and empty strings) remain, nothing panics
	for _, err := range []error{
		ResolutionError{}, &ResolutionError{}, BuildError{}, LifetimeConflictError{}, AlreadyRegisteredError{},
		RegistrationError{}, ModuleError{}, ConstructorInvocationError{}, ConstructorPanicError{}, &DisposalError{},
		&CircularDependencyError{},
	} {
		group, ok := elLog(t, err).(map[string]any)
		require.True(t, ok, "%T", err)
		assert.NotEmpty(t, group["error"], "%T", err)
		assert.NotContains(t, group, "cause", "%T", err)
		assert.NotContains(t, group, "service", "%T", err)
	}

	// ValidationError{}.Error() dereferences its nil Cause, LogValue must not
	assert.NotPanics(t, func() { _ = ValidationError{}.LogValue() })
}

func TestLogValue_Concurrent(t *testing.T) {
	err := &BuildError{Phase: "validation", Cause: &DisposalError{Context: "provider", Errors: []error{
		&ResolutionError{Cause: ErrServiceNotFound}, errELBoom,
	}}}

	var mu sync.Mutex
	var buf bytes.Buffer
	logger := slog.New(slog.NewJSONHandler(&lockedWriter{w: &buf, mu: &mu}, nil))

	var wg sync.WaitGroup
	for g := 0; g < 8; g++ {
		wg.Add(1)
		go func() {
			defer wg.Done()
			for i := 0; i < 50; i++ {
				logger.Error("failed", slog.Any("err", err))
			}
		}()
	}
	wg.Wait()

	assert.Equal(t, 400, strings.Count(buf.String(), `"error":"build"`))
}

type lockedWriter struct {
	w  *bytes.Buffer
	mu *sync.Mutex
}

func (l *lockedWriter) Write(p []byte) (int, error) {
	l.mu.Lock()
	defer l.mu.Unlock()
	return l.w.Write(p)
}
