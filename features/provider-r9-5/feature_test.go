package godi

import (
	"context"
	"reflect"
	"sort"
	"sync"
	"sync/atomic"
	"testing"

	"github.com/stretchr/testify/assert"
	"github.com/stretchr/testify/require"
)

// foreignProvider is a Provider that was not created by this package.
type foreignProvider struct{ Provider }

// registeredFixture registers services in every supported shape.
func registeredFixture(t *testing.T, constructed *atomic.Int32) Collection {
	t.Helper()

	c := NewCollection()
	require.NoError(t, c.AddSingleton(NewTService))
	require.NoError(t, c.AddSingleton(NewTServiceWithID("named"), Name("named")))
	require.NoError(t, c.AddSingleton(NewTServiceWithID("iface"), As[TInterface]()))
	require.NoError(t, c.AddScoped(func() *TScoped { constructed.Add(1); return NewTScoped() }))
	require.NoError(t, c.AddTransient(func() *TTransient { constructed.Add(1); return NewTTransient() }, Group("transients")))
	require.NoError(t, c.AddScoped(func() (*TDependency, *TDisposable) {
		constructed.Add(1)
		return NewTDependency(), NewTDisposable()
	}))
	// A scope initialization function: produces no service
	require.NoError(t, c.AddScoped(func(*TService) {}))

	return c
}

func TestIsRegistered_AgreesWithTheCollection(t *testing.T) {
	var constructed atomic.Int32
	c := registeredFixture(t, &constructed)

	p, err := c.Build()
	require.NoError(t, err)
	t.Cleanup(func() { _ = p.Close() })

	s, err := p.CreateScope(context.Background())
	require.NoError(t, err)
	child, err := s.CreateScope(context.Background())
	require.NoError(t, err)
	constructed.Store(0)

	check := func(from Provider) {
		is := func(ok bool, err error) bool {
			require.NoError(t, err)
			return ok
		}

		assert.Equal(t, c.Contains(TypeOf[*TService]()), is(IsRegistered[*TService](from)))
		assert.True(t, is(IsRegistered[*TService](from)))
		assert.True(t, is(IsRegistered[TInterface](from)))
		assert.True(t, is(IsRegistered[*TScoped](from)))
		assert.True(t, is(IsRegistered[*TDependency](from)), "first of several return values")
		assert.True(t, is(IsRegistered[*TDisposable](from)), "second of several return values")

		// Only a group member: not resolvable by type, exactly like Contains
		assert.Equal(t, c.Contains(TypeOf[*TTransient]()), is(IsRegistered[*TTransient](from)))
		assert.False(t, is(IsRegistered[*TTransient](from)))

		// Never registered; registered through an alias only under the alias
		assert.False(t, is(IsRegistered[*TServiceWithDeps](from)))
		assert.False(t, is(IsRegistered[TService](from)))
		assert.False(t, is(IsRegistered[struct{}](from)), "initialization functions are not services")

		// Built-ins are resolvable but not registered
		assert.False(t, is(IsRegistered[context.Context](from)))
		assert.False(t, is(IsRegistered[Scope](from)))
		assert.False(t, is(IsRegistered[Provider](from)))

		// Keys
		assert.Equal(t, c.ContainsKeyed(TypeOf[*TService](), "named"), is(IsRegisteredKeyed[*TService](from, "named")))
		assert.True(t, is(IsRegisteredKeyed[*TService](from, "named")))
		assert.False(t, is(IsRegisteredKeyed[*TService](from, "other")))
		assert.False(t, is(IsRegisteredKeyed[*TService](from, 7)))
		assert.False(t, is(IsRegisteredKeyed[TInterface](from, "named")))

		_, err := IsRegisteredKeyed[*TService](from, nil)
		assert.ErrorIs(t, err, ErrServiceKeyNil)
	}

	check(p)
	check(s)
	check(child)

	assert.Zero(t, constructed.Load(), "asking constructs nothing")

	// The answers predict resolution
	_, err = Resolve[*TTransient](s)
	assert.ErrorIs(t, err, ErrServiceNotFound)
	_, err = ResolveKeyed[*TService](s, "other")
	assert.ErrorIs(t, err, ErrServiceNotFound)
	_, err = ResolveKeyed[*TService](s, "named")
	assert.NoError(t, err)
}

func TestServiceTypes_SortedDistinctAndComplete(t *testing.T) {
	var constructed atomic.Int32
	c := registeredFixture(t, &constructed)

	p, err := c.Build()
	require.NoError(t, err)
	t.Cleanup(func() { _ = p.Close() })
	constructed.Store(0)

	// Reference: the collection's descriptors
	want := map[reflect.Type]struct{}{}
	for _, d := range c.ToSlice() {
		if !d.VoidReturn {
			want[d.Type] = struct{}{}
		}
	}

	types, err := ServiceTypes(p)
	require.NoError(t, err)

	got := map[reflect.Type]struct{}{}
	for _, typ := range types {
		_, dup := got[typ]
		assert.False(t, dup, "%v listed twice", typ)
		got[typ] = struct{}{}
	}
	assert.Equal(t, want, got)
	assert.Contains(t, types, TypeOf[*TTransient](), "group members count")
	assert.Contains(t, types, TypeOf[TInterface]())
	assert.NotContains(t, types, TypeOf[struct{}]())
	assert.NotContains(t, types, TypeOf[Scope]())
	assert.Len(t, types, 6, "*TService is listed once for its plain and keyed registrations")

	assert.True(t, sort.SliceIsSorted(types, func(i, j int) bool { return types[i].String() < types[j].String() }))

	// Same answer every time and from every scope, in a slice of the caller's own
	s, err := p.CreateScope(context.Background())
	require.NoError(t, err)
	types[0] = nil
	for i := 0; i < 20; i++ {
		again, err := ServiceTypes(s)
		require.NoError(t, err)
		require.Len(t, again, 6)
		assert.NotNil(t, again[0])
		assert.Equal(t, types[1:], again[1:])
	}

	assert.Zero(t, constructed.Load())
}

func TestIsRegistered_BuiltProviderIsASnapshot(t *testing.T) {
	c := NewCollection()
	require.NoError(t, c.AddSingleton(NewTService))
	require.NoError(t, c.AddScoped(NewTScoped))

	p1, err := c.Build()
	require.NoError(t, err)
	t.Cleanup(func() { _ = p1.Close() })

	// Change the collection and build again
	c.Remove(TypeOf[*TScoped]())
	require.NoError(t, c.AddTransient(NewTTransient))
	require.NoError(t, c.AddTransient(NewTDependency, Group("deps")))
	p2, err := c.Build()
	require.NoError(t, err)
	t.Cleanup(func() { _ = p2.Close() })

	types1, err := ServiceTypes(p1)
	require.NoError(t, err)
	assert.Equal(t, []reflect.Type{TypeOf[*TScoped](), TypeOf[*TService]()}, types1)

	types2, err := ServiceTypes(p2)
	require.NoError(t, err)
	assert.Equal(t, []reflect.Type{TypeOf[*TDependency](), TypeOf[*TService](), TypeOf[*TTransient]()}, types2)

	ok, err := IsRegistered[*TScoped](p1)
	require.NoError(t, err)
	assert.True(t, ok)
	ok, err = IsRegistered[*TTransient](p1)
	require.NoError(t, err)
	assert.False(t, ok)

	ok, err = IsRegistered[*TScoped](p2)
	require.NoError(t, err)
	assert.False(t, ok)
	ok, err = IsRegistered[*TTransient](p2)
	require.NoError(t, err)
	assert.True(t, ok)

	// An empty provider has no services
	empty, err := ServiceTypes(BuildProvider(t))
	require.NoError(t, err)
	assert.Empty(t, empty)
}

func TestIsRegistered_ClosedNilAndForeign(t *testing.T) {
	c := NewCollection()
	require.NoError(t, c.AddSingleton(NewTService))
	p, err := c.Build()
	require.NoError(t, err)

	s, err := p.CreateScope(context.Background())
	require.NoError(t, err)
	child, err := s.CreateScope(context.Background())
	require.NoError(t, err)
	other, err := p.CreateScope(context.Background())
	require.NoError(t, err)

	expect := func(from Provider, target error) {
		t.Helper()
		ok, err := IsRegistered[*TService](from)
		require.ErrorIs(t, err, target)
		assert.False(t, ok)
		ok, err = IsRegisteredKeyed[*TService](from, "k")
		require.ErrorIs(t, err, target)
		assert.False(t, ok)
		types, err := ServiceTypes(from)
		require.ErrorIs(t, err, target)
		assert.Nil(t, types)
	}

	require.NoError(t, s.Close())
	expect(s, ErrScopeDisposed)
	expect(child, ErrScopeDisposed)

	// A sibling scope and the provider still answer
	ok, err := IsRegistered[*TService](other)
	require.NoError(t, err)
	assert.True(t, ok)
	ok, err = IsRegistered[*TService](p)
	require.NoError(t, err)
	assert.True(t, ok)

	require.NoError(t, p.Close())
	expect(p, ErrProviderDisposed)
	expect(other, ErrScopeDisposed)

	expect(nil, ErrProviderNil)
	expect((*provider)(nil), ErrProviderNil)
	expect((*scope)(nil), ErrProviderNil)

	_, err = ServiceTypes(foreignProvider{})
	var validationErr *ValidationError
	require.ErrorAs(t, err, &validationErr)
}

func TestIsRegistered_Concurrent(t *testing.T) {
	var constructed atomic.Int32
	c := registeredFixture(t, &constructed)
	p, err := c.Build()
	require.NoError(t, err)

	want, err := ServiceTypes(p)
	require.NoError(t, err)

	var wg sync.WaitGroup
	for i := 0; i < 16; i++ {
		wg.Add(1)
		go func() {
			defer wg.Done()
			for j := 0; j < 50; j++ {
				s, err := p.CreateScope(context.Background())
				if err != nil {
					// The provider is being closed by the goroutine below
					return
				}

				// Races with the Close below: an answer or the disposed error
				if types, err := ServiceTypes(s); err == nil {
					assert.Equal(t, want, types)
				} else {
					assert.ErrorIs(t, err, ErrScopeDisposed)
				}
				if ok, err := IsRegistered[*TScoped](s); err == nil {
					assert.True(t, ok)
				} else {
					assert.ErrorIs(t, err, ErrScopeDisposed)
				}
				_, _ = Resolve[*TScoped](s)
				_ = s.Close()
			}
		}()
	}

	wg.Add(1)
	go func() {
		defer wg.Done()
		for j := 0; j < 200; j++ {
			_, _ = ServiceTypes(p)
		}
		_ = p.Close()
	}()
	wg.Wait()

	_, err = ServiceTypes(p)
	require.ErrorIs(t, err, ErrProviderDisposed)
}
