package graph_test

import (
	"bytes"
	"errors"
	"math/rand"
	"reflect"
	"regexp"
	"strings"
	"sync"
	"testing"

	"github.com/junioryono/godi/v4/internal/graph"
	"github.com/junioryono/godi/v4/internal/reflection"
	"github.com/stretchr/testify/assert"
	"github.com/stretchr/testify/require"
)

type (
	dotRepo    struct{}
	dotService struct{}
	dotLogger  struct{}
	dotPlugin  struct{}
)

var (
	dotRepoT    = reflect.TypeOf(dotRepo{})
	dotServiceT = reflect.TypeOf(dotService{})
	dotLoggerT  = reflect.TypeOf(dotLogger{})
	dotPluginT  = reflect.TypeOf(dotPlugin{})
)

// dotProvider is a minimal graph.Provider.
type dotProvider struct {
	typ   reflect.Type
	key   any
	group string
	deps  []*reflection.Dependency
}

func (p *dotProvider) GetType() reflect.Type                     { return p.typ }
func (p *dotProvider) GetKey() any                               { return p.key }
func (p *dotProvider) GetGroup() string                          { return p.group }
func (p *dotProvider) GetDependencies() []*reflection.Dependency { return p.deps }

func dotString(t *testing.T, g *graph.DependencyGraph) string {
	t.Helper()
	var sb strings.Builder
	require.NoError(t, g.WriteDOT(&sb))
	return sb.String()
}

func dotProviders() []*dotProvider {
	return []*dotProvider{
		{typ: dotServiceT, deps: []*reflection.Dependency{
			{Type: dotRepoT, Key: "primary"},
			{Type: dotLoggerT},
			{Type: dotPluginT, Group: "plugins"},
			{Type: dotLoggerT}, // asked for twice, drawn once
		}},
		{typ: dotRepoT, key: "primary", deps: []*reflection.Dependency{{Type: dotLoggerT}}},
		{typ: dotPluginT, key: 1, group: "plugins", deps: []*reflection.Dependency{{Type: dotLoggerT}}},
		{typ: dotPluginT, key: 2, group: "plugins"},
		// dotLogger is never registered
	}
}

const dotWant = `digraph dependencies {
	n0 [label="graph_test.dotLogger", style=dashed];
	n1 [label="graph_test.dotPlugin [plugins]", shape=box];
	n2 [label="graph_test.dotPlugin:1 [plugins]"];
	n3 [label="graph_test.dotPlugin:2 [plugins]"];
	n4 [label="graph_test.dotRepo:primary"];
	n5 [label="graph_test.dotService"];
	n1 -> n2;
	n1 -> n3;
	n2 -> n0;
	n4 -> n0;
	n5 -> n0;
	n5 -> n1;
	n5 -> n4;
}
`

func TestWriteDOT_Golden(t *testing.T) {
	rng := rand.New(rand.NewSource(3))
	providers := dotProviders()

	for round := 0; round < 20; round++ {
		rng.Shuffle(len(providers), func(i, j int) { providers[i], providers[j] = providers[j], providers[i] })

		g := graph.NewDependencyGraph()
		for _, p := range providers {
			if round%2 == 0 {
				require.NoError(t, g.AddProvider(p))
			} else {
				require.NoError(t, g.AddProviderDeferred(p))
			}
		}
		require.NoError(t, g.DetectCycles())

		got := dotString(t, g)
		require.Equal(t, dotWant, got, "round %d", round)
		assert.Equal(t, got, dotString(t, g), "rendering twice gives the same text")
	}
}

func TestWriteDOT_EmptyAndEscaping(t *testing.T) {
	g := graph.NewDependencyGraph()
	assert.Equal(t, "digraph dependencies {\n}\n", dotString(t, g))

	require.NoError(t, g.AddProvider(&dotProvider{typ: dotRepoT, key: "a \"quoted\"\\ key\nsecond line"}))
	require.NoError(t, g.AddProvider(&dotProvider{typ: nil, key: 7}))
	require.NoError(t, g.AddProvider(&dotProvider{typ: dotRepoT, key: "7"}))
	require.NoError(t, g.AddProvider(&dotProvider{typ: dotRepoT, key: 7})) // same label as the previous one

	got := dotString(t, g)
	assert.Contains(t, got, `[label="graph_test.dotRepo:a \"quoted\"\\ key\nsecond line"];`)
	assert.Contains(t, got, `[label="<nil>:7"];`)
	assert.Equal(t, 2, strings.Count(got, `[label="graph_test.dotRepo:7"];`), "equal labels are still two vertices")
	assert.Equal(t, 4+2, strings.Count(got, "\n"), "one line per vertex: a raw line break would add one")
}

// dotParse reads the vertices and arrows back from the DOT text.
func dotParse(t *testing.T, text string) (labels map[string]string, arrows map[[2]string]bool) {
	t.Helper()
	vertex := regexp.MustCompile(`^\t(n\d+) \[label="(.*?)"(, [a-z]+=[a-z]+)?\];$`)
	arrow := regexp.MustCompile(`^\t(n\d+) -> (n\d+);$`)
	labels, arrows = map[string]string{}, map[[2]string]bool{}

	lines := strings.Split(strings.TrimSuffix(text, "\n"), "\n")
	require.Equal(t, "digraph dependencies {", lines[0])
	require.Equal(t, "}", lines[len(lines)-1])
	for _, line := range lines[1 : len(lines)-1] {
		if m := vertex.FindStringSubmatch(line); m != nil {
			require.Empty(t, arrows, "vertices come first")
			labels[m[1]] = m[2]
		} else if m := arrow.FindStringSubmatch(line); m != nil {
			pair := [2]string{labels[m[1]], labels[m[2]]}
			require.NotEmpty(t, pair[0])
			require.NotEmpty(t, pair[1])
			require.False(t, arrows[pair], "arrow drawn twice: %v", pair)
			arrows[pair] = true
		} else {
			t.Fatalf("unexpected line %q", line)
		}
	}
	return labels, arrows
}

func TestWriteDOT_FollowsMutations(t *testing.T) {
	const n = 10
	typeOf := func(i int) reflect.Type { return reflect.ArrayOf(i+1, reflect.TypeOf(0)) }
	label := func(i int) string { return typeOf(i).String() }
	rng := rand.New(rand.NewSource(4))

	g := graph.NewDependencyGraph()
	nodes := map[int]bool{}
	edges := map[int][]int{}

	for op := 0; op < 300; op++ {
		i := rng.Intn(n)
		switch {
		case op%97 == 96:
			g.Clear()
			nodes, edges = map[int]bool{}, map[int][]int{}
		case rng.Intn(4) == 0:
			g.RemoveProvider(typeOf(i), nil, "")
			delete(nodes, i)
			delete(edges, i)
			for from, tos := range edges {
				var kept []int
				for _, to := range tos {
					if to != i {
						kept = append(kept, to)
					}
				}
				edges[from] = kept
			}
		default:
			p := &dotProvider{typ: typeOf(i)}
			var deps []int
			for k := rng.Intn(3); k > 0; k-- {
				d := rng.Intn(n)
				deps = append(deps, d)
				p.deps = append(p.deps, &reflection.Dependency{Type: typeOf(d)})
			}
			// adds that would close a cycle are rejected and must leave no trace
			if err := g.AddProvider(p); err == nil {
				nodes[i] = true
				edges[i] = deps
				for _, d := range deps {
					nodes[d] = true
				}
			}
		}

		labels, arrows := dotParse(t, dotString(t, g))
		require.Len(t, labels, len(nodes), "op %d", op)
		require.Equal(t, g.Size(), len(labels))

		want := map[[2]string]bool{}
		for from, tos := range edges {
			for _, to := range tos {
				want[[2]string{label(from), label(to)}] = true
			}
		}
		require.Equal(t, want, arrows, "op %d", op)
	}
}

// dotReentrantWriter uses the graph while it is being written to.
type dotReentrantWriter struct {
	g   *graph.DependencyGraph
	buf bytes.Buffer
}

func (w *dotReentrantWriter) Write(p []byte) (int, error) {
	if err := w.g.AddProvider(&dotProvider{typ: dotLoggerT}); err != nil {
		return 0, err
	}
	w.g.RemoveProvider(dotPluginT, 2, "plugins")
	return w.buf.Write(p)
}

type dotFailingWriter struct{ err error }

func (w dotFailingWriter) Write([]byte) (int, error) { return 0, w.err }

func TestWriteDOT_Writer(t *testing.T) {
	g := graph.NewDependencyGraph()
	for _, p := range dotProviders() {
		require.NoError(t, g.AddProvider(p))
	}

	// the writer's error is handed back as it is
	boom := errors.New("disk full")
	assert.Same(t, boom, g.WriteDOT(dotFailingWriter{err: boom}))

	// the graph is not locked while the writer runs, and what is written
	// is the state from before the writer changed it
	w := &dotReentrantWriter{g: g}
	done := make(chan error, 1)
	go func() { done <- g.WriteDOT(w) }()
	require.NoError(t, <-done)
	assert.Equal(t, dotWant, w.buf.String())

	after := dotString(t, g)
	assert.Contains(t, after, `n0 [label="graph_test.dotLogger"];`)
	assert.NotContains(t, after, "dotPlugin:2")
}

func TestWriteDOT_Concurrent(t *testing.T) {
	g := graph.NewDependencyGraph()
	for _, p := range dotProviders() {
		require.NoError(t, g.AddProvider(p))
	}

	var wg sync.WaitGroup
	for w := 0; w < 4; w++ {
		wg.Add(2)
		go func(w int) {
			defer wg.Done()
			extra := reflect.ArrayOf(w+1, reflect.TypeOf(""))
			for i := 0; i < 150; i++ {
				_ = g.AddProvider(&dotProvider{typ: extra, deps: []*reflection.Dependency{{Type: dotServiceT}}})
				_ = g.AddProviderDeferred(&dotProvider{typ: extra, key: i % 3, group: "plugins"})
				_ = g.DetectCycles()
				g.RemoveProvider(extra, i%3, "plugins")
				g.RemoveProvider(extra, nil, "")
			}
		}(w)
		go func() {
			defer wg.Done()
			for i := 0; i < 150; i++ {
				var buf bytes.Buffer
				assert.NoError(t, g.WriteDOT(&buf))
				// always a complete document with the stable part in it
				text := buf.String()
				assert.True(t, strings.HasPrefix(text, "digraph dependencies {\n"))
				assert.True(t, strings.HasSuffix(text, ";\n}\n"))
				assert.Contains(t, text, `[label="graph_test.dotService"];`)
				assert.Contains(t, text, `[label="graph_test.dotRepo:primary"];`)
			}
		}()
	}
	wg.Wait()
}
