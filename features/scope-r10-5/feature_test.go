package godi

import (
	"context"
	"errors"
	"sync"
	"sync/atomic"
	"testing"

	"github.com/stretchr/testify/assert"
	"github.com/stretchr/testify/require"
)

type (
	countSingleA   struct{}
	countSingleB   struct{}
	countSingleC   struct{ closed atomic.Int32 }
	countScoped    struct{}
	countScopedDis struct{ closed atomic.Int32 }
	countTransient struct{}
	countTransDis  struct{ closed atomic.Int32 }
	countConsumer  struct {
		scoped *countScoped
		trans  *countTransient
	}
	countHandler  struct{ name string }
	countFailing  struct{}
	countFailDeps struct{}
)

func (c *countSingleC) Close() error   { c.closed.Add(1); return nil }
func (c *countScopedDis) Close() error { c.closed.Add(1); return nil }
func (c *countTransDis) Close() error  { c.closed.Add(1); return nil }

func newCountCollection(t *testing.T) Collection {
	t.Helper()
	c := NewCollection()

	// Singletons: a multi-return constructor (2), a keyed one, two group
	// members and a disposable one = 6, plus an initialization function
	require.NoError(t, c.AddSingleton(func() (*countSingleA, *countSingleB) { return &countSingleA{}, &countSingleB{} }))
	require.NoError(t, c.AddSingleton(func() *countSingleA { return &countSingleA{} }, Name("keyed")))
	require.NoError(t, c.AddSingleton(func() *countHandler { return &countHandler{name: "s1"} }, Group("singles")))
	require.NoError(t, c.AddSingleton(func() *countHandler { return &countHandler{name: "s2"} }, Group("singles")))
	require.NoError(t, c.AddSingleton(func() *countSingleC { return &countSingleC{} }))
	require.NoError(t, c.AddSingleton(func(*countSingleA) error { return nil }))

	// Scoped services and a scoped initialization function
	require.NoError(t, c.AddScoped(func() *countScoped { return &countScoped{} }))
	require.NoError(t, c.AddScoped(func() *countScopedDis { return &countScopedDis{} }))
	require.NoError(t, c.AddScoped(func(s *countScoped, tr *countTransient) *countConsumer {
		return &countConsumer{scoped: s, trans: tr}
	}))
	require.NoError(t, c.AddScoped(func() *countHandler { return &countHandler{name: "a"} }, Group("handlers")))
	require.NoError(t, c.AddScoped(func() *countHandler { return &countHandler{name: "b"} }, Group("handlers")))
	require.NoError(t, c.AddScoped(func(Scope) {}))

	// Transients
	require.NoError(t, c.AddTransient(func() *countTransient { return &countTransient{} }))
	require.NoError(t, c.AddTransient(func() *countTransDis { return &countTransDis{} }))

	// A scoped service whose constructor fails after its dependency was built
	require.NoError(t, c.AddScoped(func() *countFailDeps { return &countFailDeps{} }))
	require.NoError(t, c.AddScoped(func(*countFailDeps) (*countFailing, error) {
		return nil, errors.New("constructor failed")
	}))

	return c
}

func instancesOf(t *testing.T, p Provider) InstanceCounts {
	t.Helper()
	counts, err := p.(InstanceCounter).Instances()
	require.NoError(t, err)
	return counts
}

func TestScopeInstances(t *testing.T) {
	t.Run("counts by lifetime", func(t *testing.T) {
		p, err := newCountCollection(t).Build()
		require.NoError(t, err)
		defer p.Close()

		s, err := p.CreateScope(context.Background())
		require.NoError(t, err)

		// Initialization functions ran (scoped one for this scope) but are no instances
		assert.Equal(t, InstanceCounts{Singleton: 6}, instancesOf(t, s))
		// The provider additionally answers for its one disposable singleton
		assert.Equal(t, InstanceCounts{Singleton: 6, Disposable: 1}, instancesOf(t, p))

		// A scoped service is counted once, however often it is resolved
		for i := 0; i < 3; i++ {
			_, err = Resolve[*countScoped](s)
			require.NoError(t, err)
		}
		assert.Equal(t, InstanceCounts{Singleton: 6, Scoped: 1}, instancesOf(t, s))

		// Dependencies: the consumer reuses the scoped one and gets a new transient
		_, err = Resolve[*countConsumer](s)
		require.NoError(t, err)
		assert.Equal(t, InstanceCounts{Singleton: 6, Scoped: 2, Transient: 1}, instancesOf(t, s))

		// Every transient resolution is a new instance; disposable ones are tracked
		for i := 0; i < 3; i++ {
			_, err = Resolve[*countTransient](s)
			require.NoError(t, err)
		}
		_, err = Resolve[*countTransDis](s)
		require.NoError(t, err)
		_, err = Resolve[*countTransDis](s)
		require.NoError(t, err)
		_, err = Resolve[*countScopedDis](s)
		require.NoError(t, err)
		assert.Equal(t, InstanceCounts{Singleton: 6, Scoped: 3, Transient: 6, Disposable: 3}, instancesOf(t, s))

		// Group members are instances of their own
		handlers, err := ResolveGroup[*countHandler](s, "handlers")
		require.NoError(t, err)
		require.Len(t, handlers, 2)
		_, err = ResolveGroup[*countHandler](s, "handlers")
		require.NoError(t, err)
		assert.Equal(t, InstanceCounts{Singleton: 6, Scoped: 5, Transient: 6, Disposable: 3}, instancesOf(t, s))

		// Resolving singletons through the scope changes nothing
		_, err = Resolve[*countSingleC](s)
		require.NoError(t, err)
		_, err = ResolveGroup[*countHandler](s, "singles")
		require.NoError(t, err)
		assert.Equal(t, InstanceCounts{Singleton: 6, Scoped: 5, Transient: 6, Disposable: 3}, instancesOf(t, s))

		// A failed construction is not counted, what was built on the way is
		_, err = Resolve[*countFailing](s)
		require.Error(t, err)
		assert.Equal(t, InstanceCounts{Singleton: 6, Scoped: 6, Transient: 6, Disposable: 3}, instancesOf(t, s))
		_, err = Resolve[*countFailing](s)
		require.Error(t, err)
		assert.Equal(t, InstanceCounts{Singleton: 6, Scoped: 6, Transient: 6, Disposable: 3}, instancesOf(t, s))

		// Nothing of this is visible in other scopes or in the provider
		child, err := s.CreateScope(nil)
		require.NoError(t, err)
		sibling, err := p.CreateScope(context.Background())
		require.NoError(t, err)
		assert.Equal(t, InstanceCounts{Singleton: 6}, instancesOf(t, child))
		assert.Equal(t, InstanceCounts{Singleton: 6}, instancesOf(t, sibling))
		assert.Equal(t, InstanceCounts{Singleton: 6, Disposable: 1}, instancesOf(t, p))

		_, err = Resolve[*countScopedDis](child)
		require.NoError(t, err)
		assert.Equal(t, InstanceCounts{Singleton: 6, Scoped: 1, Disposable: 1}, instancesOf(t, child))
		assert.Equal(t, InstanceCounts{Singleton: 6, Scoped: 6, Transient: 6, Disposable: 3}, instancesOf(t, s))

		// The provider's own resolutions land in its root scope
		_, err = Resolve[*countScopedDis](p)
		require.NoError(t, err)
		_, err = Resolve[*countTransient](p)
		require.NoError(t, err)
		assert.Equal(t, InstanceCounts{Singleton: 6, Scoped: 1, Transient: 1, Disposable: 2}, instancesOf(t, p))
	})

	t.Run("transients injected into singletons belong to the root scope", func(t *testing.T) {
		c := NewCollection()
		require.NoError(t, c.AddTransient(func() *countTransDis { return &countTransDis{} }))
		require.NoError(t, c.AddSingleton(func(*countTransDis) *countSingleA { return &countSingleA{} }))
		require.NoError(t, c.AddSingleton(func(*countTransDis) *countSingleB { return &countSingleB{} }))
		p, err := c.Build()
		require.NoError(t, err)
		defer p.Close()

		assert.Equal(t, InstanceCounts{Singleton: 2, Transient: 2, Disposable: 2}, instancesOf(t, p))

		s, err := p.CreateScope(context.Background())
		require.NoError(t, err)
		assert.Equal(t, InstanceCounts{Singleton: 2}, instancesOf(t, s))
	})

	t.Run("closed containers", func(t *testing.T) {
		p, err := newCountCollection(t).Build()
		require.NoError(t, err)

		s, err := p.CreateScope(context.Background())
		require.NoError(t, err)
		dis, err := Resolve[*countScopedDis](s)
		require.NoError(t, err)

		require.NoError(t, s.Close())
		counts, err := s.(InstanceCounter).Instances()
		assert.ErrorIs(t, err, ErrScopeDisposed)
		assert.Equal(t, InstanceCounts{}, counts)
		assert.EqualValues(t, 1, dis.closed.Load(), "counting does not interfere with disposal")

		single, err := Resolve[*countSingleC](p)
		require.NoError(t, err)
		require.NoError(t, p.Close())
		counts, err = p.(InstanceCounter).Instances()
		assert.ErrorIs(t, err, ErrProviderDisposed)
		assert.Equal(t, InstanceCounts{}, counts)
		assert.EqualValues(t, 1, single.closed.Load())
	})

	t.Run("providers built from one collection count separately", func(t *testing.T) {
		c := newCountCollection(t)
		p1, err := c.Build()
		require.NoError(t, err)
		defer p1.Close()
		p2, err := c.Build()
		require.NoError(t, err)
		defer p2.Close()

		_, err = Resolve[*countTransient](p1)
		require.NoError(t, err)
		assert.Equal(t, InstanceCounts{Singleton: 6, Transient: 1, Disposable: 1}, instancesOf(t, p1))
		assert.Equal(t, InstanceCounts{Singleton: 6, Disposable: 1}, instancesOf(t, p2))
	})
}

func TestScopeInstancesConcurrent(t *testing.T) {
	p, err := newCountCollection(t).Build()
	require.NoError(t, err)
	defer p.Close()

	s, err := p.CreateScope(context.Background())
	require.NoError(t, err)

	const workers, perWorker = 8, 50
	var wg sync.WaitGroup
	for i := 0; i < workers; i++ {
		wg.Add(1)
		go func() {
			defer wg.Done()
			for j := 0; j < perWorker; j++ {
				_, err := Resolve[*countTransDis](s)
				assert.NoError(t, err)

				counts, err := s.(InstanceCounter).Instances()
				assert.NoError(t, err)
				assert.LessOrEqual(t, counts.Transient, workers*perWorker)
				assert.Equal(t, 6, counts.Singleton)
			}
		}()
	}
	wg.Wait()

	assert.Equal(t, InstanceCounts{Singleton: 6, Transient: workers * perWorker, Disposable: workers * perWorker},
		instancesOf(t, s))

	// Counting while the scope is being closed: a result or the disposed error
	stop := make(chan struct{})
	for i := 0; i < 4; i++ {
		wg.Add(1)
		go func() {
			defer wg.Done()
			for {
				select {
				case <-stop:
					return
				default:
				}
				counts, err := s.(InstanceCounter).Instances()
				if err != nil {
					assert.ErrorIs(t, err, ErrScopeDisposed)
					assert.Equal(t, InstanceCounts{}, counts)
					return
				}
				assert.Equal(t, workers*perWorker, counts.Transient)
			}
		}()
	}
	require.NoError(t, s.Close())
	close(stop)
	wg.Wait()
}
