package godi

import (
	"context"
	"errors"
	"sync"
	"sync/atomic"
	"testing"

	"github.com/stretchr/testify/assert"
	"github.com/stretchr/testify/require"
)

func serviceIDs(services []*TService) []string {
	ids := make([]string, 0, len(services))
	for _, svc := range services {
		ids = append(ids, svc.ID)
	}
	return ids
}

func TestResolveAll(t *testing.T) {
	t.Parallel()

	t.Run("registration_order_and_identities", func(t *testing.T) {
		t.Parallel()
		c := NewCollection()
		require.NoError(t, c.AddSingleton(NewTServiceWithID("b"), Name("b")))
		require.NoError(t, c.AddSingleton(NewTServiceWithID("removed"), Name("removed")))
		require.NoError(t, c.AddSingleton(NewTServiceWithID("plain")))
		require.NoError(t, c.AddSingleton(NewTServiceWithID("a"), Name("a")))
		require.NoError(t, c.AddSingleton(NewTServiceWithID("member"), Group("services")))
		require.NoError(t, c.AddSingleton(NewTServiceWithID("alias"), As[TInterface]()))
		require.NoError(t, c.AddSingleton(NewTDependency))
		c.RemoveKeyed(PtrTypeOf[TService](), "removed")

		p, err := c.Build()
		require.NoError(t, err)
		defer p.Close()

		all, err := ResolveAll[*TService](p)
		require.NoError(t, err)
		assert.Equal(t, []string{"b", "plain", "a"}, serviceIDs(all))

		// Exactly the instances the other helpers hand out
		assert.Same(t, RequireResolveKeyed[*TService](t, p, "b"), all[0])
		assert.Same(t, RequireResolve[*TService](t, p), all[1])
		assert.Same(t, RequireResolveKeyed[*TService](t, p, "a"), all[2])

		// Also through a scope at any depth
		s, err := p.CreateScope(context.Background())
		require.NoError(t, err)
		child, err := s.CreateScope(context.Background())
		require.NoError(t, err)
		fromChild, err := ResolveAll[*TService](child)
		require.NoError(t, err)
		assert.Equal(t, all, fromChild)

		// The alias is an identity of the interface only
		ifaces, err := ResolveAll[TInterface](p)
		require.NoError(t, err)
		require.Len(t, ifaces, 1)
		assert.Equal(t, "alias", ifaces[0].GetID())

		// The group is untouched and not part of the result
		members, err := ResolveGroup[*TService](p, "services")
		require.NoError(t, err)
		require.Len(t, members, 1)
		assert.NotContains(t, all, members[0])

		// Later changes of the collection do not reach the built provider
		require.NoError(t, c.AddSingleton(NewTServiceWithID("late"), Name("late")))
		c.Remove(PtrTypeOf[TService]())
		again, err := ResolveAll[*TService](p)
		require.NoError(t, err)
		assert.Equal(t, all, again)

		p2, err := c.Build()
		require.NoError(t, err)
		defer p2.Close()
		all2, err := ResolveAll[*TService](p2)
		require.NoError(t, err)
		assert.Equal(t, []string{"b", "a", "late"}, serviceIDs(all2))
		assert.NotSame(t, all[0], all2[0])
	})

	t.Run("nothing_registered", func(t *testing.T) {
		t.Parallel()
		var initialized atomic.Int32
		s := BuildScope(t,
			AddSingleton(NewTService),
			AddScoped(func() { initialized.Add(1) }),
		)

		deps, err := ResolveAll[*TDependency](s)
		require.NoError(t, err)
		assert.NotNil(t, deps)
		assert.Empty(t, deps)

		// Built-in services are not registrations
		scopes, err := ResolveAll[Scope](s)
		require.NoError(t, err)
		assert.Empty(t, scopes)

		// Initialization functions are not services and do not run again
		before := initialized.Load()
		voids, err := ResolveAll[struct{}](s)
		require.NoError(t, err)
		assert.Empty(t, voids)
		assert.Equal(t, before, initialized.Load())
	})

	t.Run("lifetimes", func(t *testing.T) {
		t.Parallel()
		var scopedCalls, transientCalls atomic.Int32
		p := BuildProvider(t,
			AddScoped(func() *TService { scopedCalls.Add(1); return &TService{ID: "scoped"} }),
			AddScoped(func() *TService { scopedCalls.Add(1); return &TService{ID: "scoped-k"} }, Name("k")),
			AddTransient(func() *TService { transientCalls.Add(1); return &TService{ID: "transient"} }, Name("t")),
		)
		s1, err := p.CreateScope(context.Background())
		require.NoError(t, err)
		child, err := s1.CreateScope(context.Background())
		require.NoError(t, err)

		first, err := ResolveAll[*TService](s1)
		require.NoError(t, err)
		second, err := ResolveAll[*TService](s1)
		require.NoError(t, err)
		require.Equal(t, []string{"scoped", "scoped-k", "transient"}, serviceIDs(first))

		assert.Same(t, first[0], second[0])
		assert.Same(t, first[1], second[1])
		assert.NotSame(t, first[2], second[2])
		assert.Same(t, first[0], RequireResolveFrom[*TService](t, s1))
		assert.Same(t, first[1], RequireResolveKeyed[*TService](t, s1, "k"))
		assert.EqualValues(t, 2, scopedCalls.Load())
		assert.EqualValues(t, 2, transientCalls.Load())

		// A child scope, and the root scope, have instances of their own
		inChild, err := ResolveAll[*TService](child)
		require.NoError(t, err)
		inRoot, err := ResolveAll[*TService](p)
		require.NoError(t, err)
		for i := range first {
			assert.NotSame(t, first[i], inChild[i])
			assert.NotSame(t, first[i], inRoot[i])
			assert.NotSame(t, inChild[i], inRoot[i])
		}
		assert.Same(t, inChild[0], RequireResolveFrom[*TService](t, child))
		assert.EqualValues(t, 6, scopedCalls.Load())
	})

	t.Run("multi_output_constructor_runs_once", func(t *testing.T) {
		t.Parallel()
		var calls atomic.Int32
		type result struct {
			Out
			Primary   *TService
			Secondary *TService `name:"secondary"`
			Other     *TDependency
		}
		s := BuildScope(t, AddScoped(func() result {
			calls.Add(1)
			return result{Primary: &TService{ID: "primary"}, Secondary: &TService{ID: "secondary"}, Other: NewTDependency()}
		}))

		all, err := ResolveAll[*TService](s)
		require.NoError(t, err)
		require.Len(t, all, 2)
		assert.EqualValues(t, 1, calls.Load())
		assert.Same(t, all[0], RequireResolveFrom[*TService](t, s))
		assert.Same(t, all[1], RequireResolveKeyed[*TService](t, s, "secondary"))
		assert.EqualValues(t, 1, calls.Load())
	})

	t.Run("disposed", func(t *testing.T) {
		t.Parallel()
		c := NewCollection()
		require.NoError(t, c.AddScoped(NewTService))
		p, err := c.Build()
		require.NoError(t, err)
		s, err := p.CreateScope(context.Background())
		require.NoError(t, err)
		child, err := s.CreateScope(context.Background())
		require.NoError(t, err)

		require.NoError(t, s.Close())
		_, err = ResolveAll[*TService](s)
		assert.ErrorIs(t, err, ErrScopeDisposed)
		_, err = ResolveAll[*TDependency](child)
		assert.ErrorIs(t, err, ErrScopeDisposed)

		require.NoError(t, p.Close())
		_, err = ResolveAll[*TService](p)
		assert.ErrorIs(t, err, ErrProviderDisposed)
		_, err = ResolveAll[*TDependency](p)
		assert.ErrorIs(t, err, ErrProviderDisposed)

		_, err = ResolveAll[*TService](nil)
		assert.ErrorIs(t, err, ErrProviderNil)
	})

	t.Run("failure_keeps_what_was_built_and_is_not_cached", func(t *testing.T) {
		t.Parallel()
		boom := errors.New("boom")
		var fail atomic.Bool
		fail.Store(true)
		c := NewCollection()
		require.NoError(t, c.AddScoped(NewTDisposableWithName("first"), Name("first")))
		require.NoError(t, c.AddScoped(func() (*TDisposable, error) {
			if fail.Load() {
				return nil, boom
			}
			return &TDisposable{Name: "second"}, nil
		}, Name("second")))
		p, err := c.Build()
		require.NoError(t, err)
		defer p.Close()
		s, err := p.CreateScope(context.Background())
		require.NoError(t, err)

		all, err := ResolveAll[*TDisposable](s)
		require.ErrorIs(t, err, boom)
		assert.Nil(t, all)

		first := RequireResolveKeyed[*TDisposable](t, s, "first")

		fail.Store(false)
		all, err = ResolveAll[*TDisposable](s)
		require.NoError(t, err)
		require.Len(t, all, 2)
		assert.Same(t, first, all[0])
		assert.Equal(t, "second", all[1].Name)

		require.NoError(t, s.Close())
		assert.True(t, all[0].IsClosed())
		assert.True(t, all[1].IsClosed())
	})

	t.Run("foreign_provider", func(t *testing.T) {
		t.Parallel()
		s := BuildScope(t, AddSingleton(NewTService))
		_, err := ResolveAll[*TService](struct{ Provider }{s})
		var validationErr *ValidationError
		assert.ErrorAs(t, err, &validationErr)
	})

	t.Run("concurrent_with_close", func(t *testing.T) {
		t.Parallel()
		c := NewCollection()
		require.NoError(t, c.AddSingleton(NewTDisposableWithName("singleton")))
		require.NoError(t, c.AddTransient(NewTDisposableWithName("transient"), Name("t")))
		p, err := c.Build()
		require.NoError(t, err)
		singleton := RequireResolve[*TDisposable](t, p)
		s, err := p.CreateScope(context.Background())
		require.NoError(t, err)

		var mu sync.Mutex
		var transients []*TDisposable
		var wg sync.WaitGroup
		for i := 0; i < 8; i++ {
			wg.Add(1)
			go func(i int) {
				defer wg.Done()
				for j := 0; j < 50; j++ {
					if i == 0 && j == 25 {
						assert.NoError(t, s.Close())
					}

					all, err := ResolveAll[*TDisposable](s)
					if err != nil {
						assert.ErrorIs(t, err, ErrScopeDisposed)
						continue
					}

					if assert.Len(t, all, 2) {
						assert.Same(t, singleton, all[0])
						mu.Lock()
						transients = append(transients, all[1])
						mu.Unlock()
					}
				}
			}(i)
		}
		wg.Wait()

		require.NotEmpty(t, transients)
		seen := make(map[*TDisposable]struct{}, len(transients))
		for _, d := range transients {
			assert.True(t, d.IsClosed())
			seen[d] = struct{}{}
		}
		assert.Len(t, seen, len(transients))

		// The singleton is the provider's
		assert.False(t, singleton.IsClosed())
		require.NoError(t, p.Close())
		assert.True(t, singleton.IsClosed())
	})
}
