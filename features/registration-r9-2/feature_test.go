package godi

import (
	"context"
	"errors"
	"fmt"
	"sync"
	"sync/atomic"
	"testing"

	"github.com/stretchr/testify/assert"
	"github.com/stretchr/testify/require"
)

// rpClock is the service that gets replaced in these tests.
type rpClock struct{ Name string }

func (c *rpClock) Now() string { return c.Name }

type rpNower interface{ Now() string }

type rpNamer interface{ Now() string }

// rpUser depends on the replaced service.
type rpUser struct{ Clock *rpClock }

func newRPUser(c *rpClock) *rpUser { return &rpUser{Clock: c} }

// rpClockCtor returns a constructor that counts its calls.
func rpClockCtor(name string, calls *atomic.Int32) func() *rpClock {
	return func() *rpClock {
		calls.Add(1)
		return &rpClock{Name: name}
	}
}

func rpClockAndDep(calls *atomic.Int32) func() (*rpClock, *TDependency) {
	return func() (*rpClock, *TDependency) {
		calls.Add(1)
		return &rpClock{Name: "multi"}, &TDependency{Name: "multi"}
	}
}

func TestReplace(t *testing.T) {
	t.Parallel()

	clockType := PtrTypeOf[rpClock]()

	t.Run("replaces_the_unkeyed_registration_only", func(t *testing.T) {
		t.Parallel()
		var oldCalls, keyedCalls, newCalls atomic.Int32

		c := NewCollection()
		require.NoError(t, c.AddSingleton(rpClockCtor("old", &oldCalls)))
		require.NoError(t, c.AddSingleton(rpClockCtor("keyed", &keyedCalls), Name("utc")))
		require.NoError(t, c.AddSingleton(rpClockCtor("member", &keyedCalls), Group("clocks")))
		require.NoError(t, c.AddSingleton(newRPUser))

		require.NoError(t, c.Replace(rpClockCtor("new", &newCalls), Singleton))

		assert.Equal(t, 4, c.Count())
		assert.True(t, c.Contains(clockType))
		assert.True(t, c.ContainsKeyed(clockType, "utc"))

		// Like Remove followed by Add, the replacement is the newest registration
		descriptors := c.ToSlice()
		require.Len(t, descriptors, 4)
		assert.Equal(t, clockType, descriptors[3].Type)
		assert.Nil(t, descriptors[3].Key)
		assert.Equal(t, PtrTypeOf[rpUser](), descriptors[2].Type)

		p, err := c.Build()
		require.NoError(t, err)
		t.Cleanup(func() { _ = p.Close() })

		clock := RequireResolve[*rpClock](t, p)
		assert.Equal(t, "new", clock.Name)
		assert.Same(t, clock, RequireResolve[*rpUser](t, p).Clock, "dependents are wired to the replacement")
		assert.Equal(t, "keyed", RequireResolveKeyed[*rpClock](t, p, "utc").Name)

		members, err := ResolveGroup[*rpClock](p, "clocks")
		require.NoError(t, err)
		require.Len(t, members, 1)
		assert.Equal(t, "member", members[0].Name)

		assert.Equal(t, int32(0), oldCalls.Load(), "the replaced constructor must never run")
		assert.Equal(t, int32(1), newCalls.Load())
		assert.Equal(t, int32(2), keyedCalls.Load())
	})

	t.Run("replaces_a_keyed_registration_and_its_lifetime", func(t *testing.T) {
		t.Parallel()
		var oldCalls, plainCalls, newCalls atomic.Int32

		c := NewCollection()
		require.NoError(t, c.AddSingleton(rpClockCtor("plain", &plainCalls)))
		require.NoError(t, c.AddSingleton(rpClockCtor("old", &oldCalls), Name("utc")))

		require.NoError(t, c.Replace(rpClockCtor("new", &newCalls), Scoped, Name("utc")))
		assert.Equal(t, 2, c.Count())

		p, err := c.Build()
		require.NoError(t, err)
		t.Cleanup(func() { _ = p.Close() })

		s1, err := p.CreateScope(context.Background())
		require.NoError(t, err)
		t.Cleanup(func() { _ = s1.Close() })
		s2, err := p.CreateScope(context.Background())
		require.NoError(t, err)
		t.Cleanup(func() { _ = s2.Close() })

		a := RequireResolveKeyed[*rpClock](t, s1, "utc")
		b := RequireResolveKeyed[*rpClock](t, s1, "utc")
		other := RequireResolveKeyed[*rpClock](t, s2, "utc")
		assert.Equal(t, "new", a.Name)
		assert.Same(t, a, b)
		assert.NotSame(t, a, other)
		assert.Equal(t, "plain", RequireResolve[*rpClock](t, s1).Name)

		assert.Equal(t, int32(0), oldCalls.Load())
		assert.Equal(t, int32(1), plainCalls.Load())
		assert.Equal(t, int32(2), newCalls.Load())
	})

	t.Run("adds_when_nothing_is_registered", func(t *testing.T) {
		t.Parallel()
		var calls atomic.Int32

		c := NewCollection()
		require.NoError(t, c.Replace(rpClockCtor("only", &calls), Transient))
		require.NoError(t, c.Replace(rpClockCtor("g1", &calls), Transient, Group("clocks")))
		require.NoError(t, c.Replace(rpClockCtor("g2", &calls), Transient, Group("clocks")))
		assert.Equal(t, 3, c.Count())

		p := buildRP(t, c)
		assert.Equal(t, "only", RequireResolve[*rpClock](t, p).Name)
		members, err := ResolveGroup[*rpClock](p, "clocks")
		require.NoError(t, err)
		require.Len(t, members, 2, "group members are appended, never replaced")
		assert.Equal(t, "g1", members[0].Name)
		assert.Equal(t, "g2", members[1].Name)
	})

	t.Run("rejected_replacement_keeps_the_original", func(t *testing.T) {
		t.Parallel()
		var oldCalls, newCalls atomic.Int32

		c := NewCollection()
		require.NoError(t, c.AddSingleton(rpClockCtor("old", &oldCalls)))
		require.NoError(t, c.AddSingleton(rpClockCtor("old-utc", &oldCalls), Name("utc")))
		before := c.ToSlice()

		// nil constructor
		err := c.Replace(nil, Singleton)
		require.Error(t, err)
		assert.ErrorIs(t, err, ErrConstructorNil)

		// invalid lifetime
		require.Error(t, c.Replace(rpClockCtor("new", &newCalls), Lifetime(42)))

		// conflicting options
		require.Error(t, c.Replace(rpClockCtor("new", &newCalls), Singleton, Name("utc"), Group("clocks")))

		// As with an interface the type does not implement: the concrete
		// registration under the same key must survive
		var mismatch *TypeMismatchError
		err = c.Replace(rpClockCtor("new", &newCalls), Singleton, As[TInterface]())
		require.ErrorAs(t, err, &mismatch)

		// two outputs of the replacement collide with each other: nothing of
		// it is registered and nothing is removed
		err = c.Replace(func() (*rpClock, *rpClock) { return &rpClock{}, &rpClock{} }, Singleton)
		var already *AlreadyRegisteredError
		require.ErrorAs(t, err, &already)

		// reserved type among the outputs
		err = c.Replace(func() (*rpClock, context.Context) { return &rpClock{}, context.Background() }, Singleton)
		require.Error(t, err)

		assert.Equal(t, before, c.ToSlice(), "same descriptors in the same order")
		assert.Equal(t, 2, c.Count())

		p := buildRP(t, c)
		assert.Equal(t, "old", RequireResolve[*rpClock](t, p).Name)
		assert.Equal(t, "old-utc", RequireResolveKeyed[*rpClock](t, p, "utc").Name)
		assert.Equal(t, int32(2), oldCalls.Load())
		assert.Equal(t, int32(0), newCalls.Load())
	})

	t.Run("interface_aliases", func(t *testing.T) {
		t.Parallel()
		var oldCalls, newCalls atomic.Int32

		c := NewCollection()
		require.NoError(t, c.AddSingleton(rpClockCtor("old", &oldCalls), As[rpNower]()))
		require.NoError(t, c.AddSingleton(rpClockCtor("concrete", &oldCalls)))

		// rpNower is taken over, rpNamer is new, the concrete type is not touched
		require.NoError(t, c.Replace(rpClockCtor("new", &newCalls), Singleton, As[rpNower](), As[rpNamer]()))
		assert.Equal(t, 3, c.Count())

		p := buildRP(t, c)
		assert.Equal(t, "new", RequireResolve[rpNower](t, p).Now())
		assert.Equal(t, "new", RequireResolve[rpNamer](t, p).Now())
		assert.Equal(t, "concrete", RequireResolve[*rpClock](t, p).Name)
		assert.Equal(t, int32(1), oldCalls.Load())
	})

	t.Run("outputs_of_a_multi_output_constructor_are_not_replaced_piecemeal", func(t *testing.T) {
		t.Parallel()
		var multiCalls, newCalls atomic.Int32

		c := NewCollection()
		require.NoError(t, c.AddSingleton(rpClockAndDep(&multiCalls)))
		before := c.ToSlice()

		err := c.Replace(rpClockCtor("new", &newCalls), Singleton)
		var regErr *RegistrationError
		require.ErrorAs(t, err, &regErr)
		assert.Equal(t, clockType, regErr.ServiceType)
		assert.Equal(t, before, c.ToSlice())

		// Removing all outputs first works, and then the old constructor is gone
		c.Remove(clockType)
		c.Remove(PtrTypeOf[TDependency]())
		require.NoError(t, c.Replace(rpClockCtor("new", &newCalls), Singleton))

		p := buildRP(t, c)
		assert.Equal(t, "new", RequireResolve[*rpClock](t, p).Name)
		assert.Equal(t, int32(0), multiCalls.Load())
		assert.Equal(t, int32(1), newCalls.Load())
	})

	t.Run("a_multi_output_replacement_takes_over_every_identity", func(t *testing.T) {
		t.Parallel()
		var oldCalls, multiCalls atomic.Int32

		c := NewCollection()
		require.NoError(t, c.AddSingleton(rpClockCtor("old", &oldCalls)))
		require.NoError(t, c.AddSingleton(NewTDependencyWithName("old")))
		require.NoError(t, c.AddSingleton(newRPUser))

		require.NoError(t, c.Replace(rpClockAndDep(&multiCalls), Singleton))
		assert.Equal(t, 3, c.Count())

		p := buildRP(t, c)
		assert.Equal(t, "multi", RequireResolve[*rpClock](t, p).Name)
		assert.Equal(t, "multi", RequireResolve[*TDependency](t, p).Name)
		assert.Equal(t, "multi", RequireResolve[*rpUser](t, p).Clock.Name)
		assert.Equal(t, int32(0), oldCalls.Load())
		assert.Equal(t, int32(1), multiCalls.Load(), "the multi-output constructor runs once")
	})

	t.Run("lifetime_rules_apply_to_the_replacement", func(t *testing.T) {
		t.Parallel()
		var calls atomic.Int32

		c := NewCollection()
		require.NoError(t, c.AddSingleton(rpClockCtor("old", &calls)))
		require.NoError(t, c.AddSingleton(newRPUser))
		require.NoError(t, c.Replace(rpClockCtor("scoped", &calls), Scoped))

		_, err := c.Build()
		var conflict *LifetimeConflictError
		require.ErrorAs(t, err, &conflict)
		assert.Equal(t, int32(0), calls.Load())

		// and replacing it back makes the collection buildable again
		require.NoError(t, c.Replace(rpClockCtor("singleton", &calls), Singleton))
		p := buildRP(t, c)
		assert.Equal(t, "singleton", RequireResolve[*rpUser](t, p).Clock.Name)
	})

	t.Run("built_provider_keeps_the_old_registration", func(t *testing.T) {
		t.Parallel()
		var oldCalls, newCalls atomic.Int32

		c := NewCollection()
		require.NoError(t, c.AddScoped(rpClockCtor("old", &oldCalls)))
		require.NoError(t, c.AddScoped(newRPUser))

		before := buildRP(t, c)
		require.NoError(t, c.Replace(rpClockCtor("new", &newCalls), Scoped))

		s, err := before.CreateScope(context.Background())
		require.NoError(t, err)
		t.Cleanup(func() { _ = s.Close() })
		assert.Equal(t, "old", RequireResolve[*rpUser](t, s).Clock.Name)
		assert.Equal(t, int32(0), newCalls.Load())

		after := buildRP(t, c)
		assert.Equal(t, "new", RequireResolve[*rpUser](t, after).Clock.Name)
	})

	t.Run("module_option", func(t *testing.T) {
		t.Parallel()
		var oldCalls, newCalls atomic.Int32

		c := NewCollection()
		require.NoError(t, c.AddModules(
			NewModule("app",
				AddSingleton(rpClockCtor("old", &oldCalls)),
				AddSingleton(newRPUser),
			),
			NewModule("testing",
				nil,
				NewModule("mocks", Replace(rpClockCtor("mock", &newCalls), Singleton)),
			),
		))
		assert.Equal(t, 2, c.Count())

		// A failing Replace is wrapped once per enclosing module, outermost
		// first, and the cause stays reachable
		err := c.AddModules(NewModule("outer", NewModule("inner", Replace(nil, Singleton))))
		var outer ModuleError
		require.ErrorAs(t, err, &outer)
		assert.Equal(t, "outer", outer.Module)
		var inner ModuleError
		require.True(t, errors.As(outer.Cause, &inner))
		assert.Equal(t, "inner", inner.Module)
		assert.ErrorIs(t, err, ErrConstructorNil)
		assert.Equal(t, 2, c.Count())

		p := buildRP(t, c)
		assert.Equal(t, "mock", RequireResolve[*rpUser](t, p).Clock.Name)
		assert.Equal(t, int32(0), oldCalls.Load())
		assert.Equal(t, int32(1), newCalls.Load())
	})

	t.Run("concurrent_replacements_leave_one_registration", func(t *testing.T) {
		t.Parallel()
		var calls atomic.Int32

		c := NewCollection()
		require.NoError(t, c.AddSingleton(rpClockCtor("initial", &calls)))
		require.NoError(t, c.AddSingleton(newRPUser))

		var wg sync.WaitGroup
		for w := 0; w < 8; w++ {
			wg.Add(1)
			go func(w int) {
				defer wg.Done()
				for i := 0; i < 25; i++ {
					assert.NoError(t, c.Replace(rpClockCtor(fmt.Sprintf("w%d-%d", w, i), &calls), Singleton))
					assert.True(t, c.Contains(clockType), "the identity is never observed empty")
					assert.Equal(t, 2, c.Count())
				}
			}(w)
		}
		wg.Wait()

		descriptors := c.ToSlice()
		require.Len(t, descriptors, 2)

		p := buildRP(t, c)
		assert.Same(t, RequireResolve[*rpClock](t, p), RequireResolve[*rpUser](t, p).Clock)
		assert.Equal(t, int32(1), calls.Load(), "only the surviving constructor runs, once")
	})
}

func buildRP(t *testing.T, c Collection) Provider {
	t.Helper()
	p, err := c.Build()
	require.NoError(t, err)
	t.Cleanup(func() { _ = p.Close() })
	return p
}
