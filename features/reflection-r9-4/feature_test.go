package reflection_test

import (
	"errors"
	"fmt"
	"reflect"
	"sync"
	"testing"

	"github.com/junioryono/godi/v4/internal/reflection"
	"github.com/stretchr/testify/assert"
	"github.com/stretchr/testify/require"
)

type fastDep struct{ id int }
type fastOther struct{ id int }
type fastMissing struct{ id int }

// FastEmbedded is an embedded, exported, non-In field: a plain dependency.
type FastEmbedded struct{ id int }

type fastIn struct {
	reflection.In
	FastEmbedded

	Plain      *fastDep
	hidden     *fastDep     //nolint:unused
	Keyed      *fastDep     `name:"primary"`
	Members    []*fastOther `group:"others"`
	Empty      []*fastOther `group:"nobody"`
	Missing    *fastMissing `optional:"true"`
	MissingKey *fastMissing `optional:"true" name:"nope"`
	Ignored    *fastDep     `inject:"-"`
	NotTrue    *fastOther   `optional:"yes"`
	Last       *fastDep
}

type fastBadGroupIn struct {
	reflection.In

	Plain    *fastDep
	NotSlice *fastOther `group:"others"`
	After    *fastDep
}

type fastRequiredMissingIn struct {
	reflection.In

	Plain   *fastDep
	Missing *fastMissing `name:"nope"`
	After   *fastDep
}

var errFastNotFound = errors.New("not found")

// recordingResolver creates a new value for every request, like a container
// full of transient services would, and records the requests it gets.
type recordingResolver struct {
	mu    sync.Mutex
	calls []string
	next  int
}

func (r *recordingResolver) record(format string, args ...any) int {
	r.mu.Lock()
	defer r.mu.Unlock()
	r.calls = append(r.calls, fmt.Sprintf(format, args...))
	r.next++
	return r.next
}

func (r *recordingResolver) make(t reflect.Type, id int) (any, error) {
	switch t {
	case reflect.TypeOf((*fastDep)(nil)):
		return &fastDep{id: id}, nil
	case reflect.TypeOf((*fastOther)(nil)):
		return &fastOther{id: id}, nil
	case reflect.TypeOf(FastEmbedded{}):
		return FastEmbedded{id: id}, nil
	}
	return nil, errFastNotFound
}

func (r *recordingResolver) Get(t reflect.Type) (any, error) {
	return r.make(t, r.record("get %v", t))
}

func (r *recordingResolver) GetKeyed(t reflect.Type, key any) (any, error) {
	id := r.record("keyed %v %#v", t, key)
	if key != "primary" {
		return nil, errFastNotFound
	}
	return r.make(t, id)
}

func (r *recordingResolver) GetGroup(t reflect.Type, group string) ([]any, error) {
	id := r.record("group %v %q", t, group)
	if group == "nobody" {
		return []any{}, nil
	}
	return []any{&fastOther{id: id * 100}, &fastOther{id: id*100 + 1}, &fastOther{id: id*100 + 2}}, nil
}

// snapshot turns a built In struct into something comparable by content.
func snapshot(v reflect.Value) string {
	if v.Kind() == reflect.Pointer {
		v = v.Elem()
	}
	in := v.Interface()
	switch in := in.(type) {
	case fastIn:
		s := fmt.Sprintf("embedded=%d plain=%d keyed=%d last=%d nottrue=%d members=", in.FastEmbedded.id, in.Plain.id, in.Keyed.id, in.Last.id, in.NotTrue.id)
		for _, m := range in.Members {
			s += fmt.Sprintf("%d,", m.id)
		}
		s += fmt.Sprintf(" empty=%v/%d missing=%v missingkey=%v ignored=%v hidden=%v",
			in.Empty != nil, len(in.Empty), in.Missing, in.MissingKey, in.Ignored, in.hidden)
		return s
	}
	return fmt.Sprintf("%+v", in)
}

func TestBuildParamObjectFromInfo_EquivalentToBuildParamObject(t *testing.T) {
	analyzer := reflection.New()
	builder := reflection.NewParamObjectBuilder(analyzer)

	constructors := map[string]any{
		"value":                    func(fastIn) *fastDep { return nil },
		"pointer":                  func(*fastIn) *fastDep { return nil },
		"group field not a slice":  func(fastBadGroupIn) *fastDep { return nil },
		"required keyed not found": func(fastRequiredMissingIn) *fastDep { return nil },
	}

	for name, constructor := range constructors {
		t.Run(name, func(t *testing.T) {
			info, err := analyzer.Analyze(constructor)
			require.NoError(t, err)
			require.True(t, info.IsParamObject)

			slowResolver, fastResolver := &recordingResolver{}, &recordingResolver{}
			slow, slowErr := builder.BuildParamObject(info.Type.In(0), slowResolver)
			fast, fastErr := builder.BuildParamObjectFromInfo(info, fastResolver)

			// Same requests in the same order: every field asks exactly once
			assert.Equal(t, slowResolver.calls, fastResolver.calls)

			if slowErr != nil {
				require.Error(t, fastErr)
				assert.Equal(t, slowErr.Error(), fastErr.Error())
				assert.Equal(t, errors.Is(slowErr, errFastNotFound), errors.Is(fastErr, errFastNotFound))
				assert.False(t, fast.IsValid())
				return
			}

			require.NoError(t, fastErr)
			assert.Equal(t, slow.Type(), fast.Type())
			assert.Equal(t, snapshot(slow), snapshot(fast))
		})
	}
}

func TestBuildParamObjectFromInfo_FieldSemantics(t *testing.T) {
	analyzer := reflection.New()
	builder := reflection.NewParamObjectBuilder(analyzer)

	info, err := analyzer.Analyze(func(fastIn) *fastDep { return nil })
	require.NoError(t, err)

	resolver := &recordingResolver{}
	value, err := builder.BuildParamObjectFromInfo(info, resolver)
	require.NoError(t, err)
	in := value.Interface().(fastIn)

	assert.Equal(t, []string{
		"get reflection_test.FastEmbedded",
		"get *reflection_test.fastDep",
		`keyed *reflection_test.fastDep "primary"`,
		`group *reflection_test.fastOther "others"`,
		`group *reflection_test.fastOther "nobody"`,
		"get *reflection_test.fastMissing",
		`keyed *reflection_test.fastMissing "nope"`,
		"get *reflection_test.fastOther",
		"get *reflection_test.fastDep",
	}, resolver.calls)

	// One fresh instance per request site, group members in the resolver's order
	assert.Equal(t, 1, in.FastEmbedded.id)
	assert.Equal(t, 2, in.Plain.id)
	assert.Equal(t, 3, in.Keyed.id)
	require.Len(t, in.Members, 3)
	assert.Equal(t, []int{400, 401, 402}, []int{in.Members[0].id, in.Members[1].id, in.Members[2].id})
	assert.NotNil(t, in.Empty, "an empty group is an empty slice")
	assert.Empty(t, in.Empty)
	assert.Nil(t, in.Missing)
	assert.Nil(t, in.MissingKey)
	assert.Nil(t, in.Ignored)
	assert.Nil(t, in.hidden)
	assert.Equal(t, 9, in.Last.id)

	t.Run("guards", func(t *testing.T) {
		_, err := builder.BuildParamObjectFromInfo(info, nil)
		assert.EqualError(t, err, "resolver cannot be nil")

		_, err = builder.BuildParamObjectFromInfo(nil, resolver)
		assert.Error(t, err)

		plain, err := analyzer.Analyze(func(*fastDep) *fastOther { return nil })
		require.NoError(t, err)
		_, err = builder.BuildParamObjectFromInfo(plain, resolver)
		assert.Error(t, err)

		// A hand-made info carries no analyzed fields and is refused here ...
		fn := func(in fastIn) *fastDep { return in.Plain }
		handMade := &reflection.ConstructorInfo{
			Type:          reflect.TypeOf(fn),
			Value:         reflect.ValueOf(fn),
			IsFunc:        true,
			IsParamObject: true,
			Returns:       []reflection.ReturnInfo{{Type: reflect.TypeOf((*fastDep)(nil))}},
		}
		_, err = builder.BuildParamObjectFromInfo(handMade, resolver)
		assert.Error(t, err)

		// ... while the invoker keeps serving it through the tag-parsing path
		handResolver := &recordingResolver{}
		results, err := reflection.NewConstructorInvoker(analyzer).Invoke(handMade, handResolver)
		require.NoError(t, err)
		assert.Equal(t, 2, results[0].Interface().(*fastDep).id)
		assert.Equal(t, resolver.calls, handResolver.calls)
	})
}

// newFastConstructor returns closures that share one function literal. Inlining
// would give every call site its own copy of the literal.
//
//go:noinline
func newFastConstructor(tag string) func(*fastIn) (string, error) {
	return func(in *fastIn) (string, error) {
		return fmt.Sprintf("%s:%d:%d:%d", tag, in.Plain.id, len(in.Members), in.Last.id), nil
	}
}

func TestInvoke_ParamObjectFastPath(t *testing.T) {
	analyzer := reflection.New()
	invoker := analyzer.GetInvoker()

	// Closures of one literal share the cached analysis but not the captured state
	first, second := newFastConstructor("first"), newFastConstructor("second")

	info, err := analyzer.Analyze(first)
	require.NoError(t, err)
	secondInfo, err := analyzer.Analyze(second)
	require.NoError(t, err)
	require.Same(t, info, secondInfo)

	results, err := invoker.InvokeConstructor(info, reflect.ValueOf(second), &recordingResolver{})
	require.NoError(t, err)
	assert.Equal(t, "second:2:3:9", results[0].String())

	t.Run("errors are wrapped as before", func(t *testing.T) {
		failing, err := analyzer.Analyze(func(fastRequiredMissingIn) *fastDep { return nil })
		require.NoError(t, err)

		resolver := &recordingResolver{}
		_, err = invoker.Invoke(failing, resolver)
		require.Error(t, err)
		assert.EqualError(t, err, "failed to build arguments: failed to resolve field Missing: not found")
		assert.ErrorIs(t, err, errFastNotFound)
		assert.Len(t, resolver.calls, 2, "nothing is requested after the failing field")
	})

	t.Run("concurrent invocations share the analysis safely", func(t *testing.T) {
		var wg sync.WaitGroup
		for g := 0; g < 16; g++ {
			wg.Add(1)
			go func(g int) {
				defer wg.Done()
				for i := 0; i < 50; i++ {
					if g == 0 && i%10 == 0 {
						analyzer.Clear()
					}

					current, err := analyzer.Analyze(first)
					if err != nil {
						t.Error(err)
						return
					}

					results, err := invoker.InvokeConstructor(current, reflect.ValueOf(first), &recordingResolver{})
					if err != nil || results[0].String() != "first:2:3:9" {
						t.Errorf("got %v, %v", results, err)
						return
					}
				}
			}(g)
		}
		wg.Wait()
	})
}
