package godi

import (
	"context"
	"fmt"
	"runtime"
	"strings"
	"sync"
	"testing"

	"github.com/stretchr/testify/assert"
	"github.com/stretchr/testify/require"
)

// srcBelow returns "file:line" of the line following the caller's line.
func srcBelow() string {
	_, file, line, _ := runtime.Caller(1)
	return fmt.Sprintf("%s:%d", file, line+1)
}

// srcOf returns the Source of the registration with the given identity.
func srcOf(t *testing.T, c Collection, matches func(*Descriptor) bool) string {
	t.Helper()
	for _, d := range c.ToSlice() {
		if matches(d) {
			return d.Source
		}
	}
	require.Fail(t, "no such descriptor")
	return ""
}

// Declared at package level, like modules usually are.
var (
	srcModuleEntryLine = srcBelow()
	srcModuleEntry     = AddSingleton(NewTDependency)
)

// srcRegisterHelper is a user-side wrapper: the registration is attributed to
// the line in the wrapper that calls the collection.
func srcRegisterHelper(c Collection) (string, error) {
	want := srcBelow()
	err := c.AddTransient(NewTTransient)
	return want, err
}

func TestDescriptor_Source(t *testing.T) {
	t.Parallel()

	t.Run("direct_calls", func(t *testing.T) {
		t.Parallel()
		c := NewCollection()

		want1 := srcBelow()
		require.NoError(t, c.AddSingleton(NewTService))
		want2 := srcBelow()
		require.NoError(t, c.AddScoped(NewTScoped))
		want3, err := srcRegisterHelper(c)
		require.NoError(t, err)

		got := c.ToSlice()
		require.Len(t, got, 3)
		assert.Equal(t, want1, got[0].Source)
		assert.Equal(t, want2, got[1].Source)
		assert.Equal(t, want3, got[2].Source)
		_, thisFile, _, _ := runtime.Caller(0)
		assert.True(t, strings.HasPrefix(got[0].Source, thisFile+":"))
	})

	t.Run("every_descriptor_of_one_registration_has_the_same_source", func(t *testing.T) {
		t.Parallel()
		c := NewCollection()

		type identified interface{ GetID() string }

		wantAs := srcBelow()
		require.NoError(t, c.AddSingleton(NewTServiceWithID("as"), As[TInterface](), As[identified](), Name("as")))
		wantMulti := srcBelow()
		require.NoError(t, c.AddScoped(NewTTripleReturn))
		wantGroup := srcBelow()
		require.NoError(t, c.AddSingleton(NewTServiceWithID("g"), Group("g")))
		wantVoid := srcBelow()
		require.NoError(t, c.AddScoped(NewTVoid))

		type out struct {
			Out
			A *TScoped
			B *TScoped `name:"b"`
		}
		wantResult := srcBelow()
		require.NoError(t, c.AddTransient(func() out { return out{A: NewTScoped(), B: NewTScoped()} }))

		want := []string{wantAs, wantAs, wantMulti, wantMulti, wantMulti, wantGroup, wantVoid, wantResult, wantResult}
		got := make([]string, 0, len(want))
		for _, d := range c.ToSlice() {
			got = append(got, d.Source)
		}
		assert.Equal(t, want, got)
	})

	t.Run("module_entries_report_where_they_were_written", func(t *testing.T) {
		t.Parallel()

		wantScoped := srcBelow()
		scoped := AddScoped(NewTScoped)
		wantGrouped := srcBelow()
		grouped := AddTransient(NewTServiceWithID("g"), Group("g"))

		module := NewModule("outer", srcModuleEntry, NewModule("inner", scoped, nil, grouped))

		// Applied somewhere else entirely, twice
		c1 := BuildCollection(t, module)
		c2 := NewCollection()
		require.NoError(t, module(c2))

		for _, c := range []Collection{c1, c2} {
			assert.Equal(t, srcModuleEntryLine, srcOf(t, c, func(d *Descriptor) bool { return d.Type == PtrTypeOf[TDependency]() }))
			assert.Equal(t, wantScoped, srcOf(t, c, func(d *Descriptor) bool { return d.Type == PtrTypeOf[TScoped]() }))
			assert.Equal(t, wantGrouped, srcOf(t, c, func(d *Descriptor) bool { return d.Group == "g" }))
		}
	})

	t.Run("hand_written_module_option", func(t *testing.T) {
		t.Parallel()

		var want string
		custom := func(c Collection) error {
			want = srcBelow()
			return c.AddSingleton(NewTService)
		}

		c := BuildCollection(t, NewModule("m", custom))
		assert.Equal(t, want, c.ToSlice()[0].Source)
	})

	t.Run("the_callers_option_slice_is_left_alone", func(t *testing.T) {
		t.Parallel()

		backing := make([]AddOption, 1, 4)
		backing[0] = Name("first")
		spare := backing[:2]
		spare[1] = Name("sentinel")

		entry := AddSingleton(NewTService, backing...)
		assert.Equal(t, Name("sentinel"), spare[1], "AddSingleton wrote into the caller's slice")
		backing[0] = Name("changed-later")

		c := BuildCollection(t, entry)
		assert.True(t, c.ContainsKeyed(PtrTypeOf[TService](), "changed-later") || c.ContainsKeyed(PtrTypeOf[TService](), "first"))
		assert.False(t, c.ContainsKeyed(PtrTypeOf[TService](), "sentinel"))
	})

	t.Run("source_is_not_part_of_the_identity", func(t *testing.T) {
		t.Parallel()
		c := NewCollection()
		require.NoError(t, c.AddSingleton(NewTService))
		before := c.ToSlice()

		// Same identity from another line: still a duplicate, with the same
		// error as ever, and the collection is left as it was
		err := c.AddSingleton(NewTService)
		var already *AlreadyRegisteredError
		require.ErrorAs(t, err, &already)
		assert.Equal(t, "service *TService already registered (use keyed services or groups)", err.Error())

		err = c.AddModules(NewModule("m", AddScoped(NewTService)))
		require.ErrorAs(t, err, &already)
		var moduleErr ModuleError
		require.ErrorAs(t, err, &moduleErr)

		after := c.ToSlice()
		require.Len(t, after, 1)
		assert.Same(t, before[0], after[0])
		assert.Equal(t, before[0].Source, after[0].Source)
	})

	t.Run("failed_registrations_report_the_usual_errors", func(t *testing.T) {
		t.Parallel()
		c := NewCollection()
		assert.ErrorIs(t, c.AddSingleton(nil), ErrConstructorNil)
		assert.ErrorIs(t, c.AddModules(AddSingleton(nil)), ErrConstructorNil)
		assert.Error(t, c.AddModules(AddSingleton(NewTService, Name("n"), Group("g"))))
		assert.Equal(t, 0, c.Count())
	})

	t.Run("providers_behave_the_same_with_either_form", func(t *testing.T) {
		t.Parallel()

		direct := NewCollection()
		require.NoError(t, direct.AddSingleton(NewTService))
		require.NoError(t, direct.AddSingleton(NewTDependency))
		require.NoError(t, direct.AddScoped(NewTServiceWithDeps))

		viaModule := BuildCollection(t, NewModule("m",
			AddSingleton(NewTService),
			AddSingleton(NewTDependency),
			AddScoped(NewTServiceWithDeps),
		))

		for _, c := range []Collection{direct, viaModule} {
			for _, d := range c.ToSlice() {
				assert.NotEmpty(t, d.Source)
			}

			p, err := c.Build()
			require.NoError(t, err)
			t.Cleanup(func() { _ = p.Close() })

			s, err := p.CreateScope(context.Background())
			require.NoError(t, err)
			t.Cleanup(func() { _ = s.Close() })

			withDeps := RequireResolveFrom[*TServiceWithDeps](t, s)
			assert.Same(t, RequireResolve[*TService](t, p), withDeps.Svc)
			assert.Same(t, RequireResolve[*TDependency](t, p), withDeps.Dep)
			assert.Same(t, withDeps, RequireResolveFrom[*TServiceWithDeps](t, s))
		}
	})

	t.Run("one_module_value_applied_concurrently", func(t *testing.T) {
		t.Parallel()

		want := srcBelow()
		module := NewModule("shared", AddSingleton(NewTService), srcModuleEntry)

		var wg sync.WaitGroup
		for i := 0; i < 8; i++ {
			wg.Add(1)
			go func() {
				defer wg.Done()
				c := NewCollection()
				if !assert.NoError(t, c.AddModules(module)) {
					return
				}
				got := c.ToSlice()
				assert.Equal(t, want, got[0].Source)
				assert.Equal(t, srcModuleEntryLine, got[1].Source)
			}()
		}
		wg.Wait()
	})
}

func TestRegistrationSite(t *testing.T) {
	t.Parallel()

	// Called directly from a test file: that is already "user code"
	want := srcBelow()
	got := registrationSite()
	assert.Equal(t, want, got)

	// Frames of the package's own files are skipped, however many there are
	c := NewCollection().(*collection)
	want = srcBelow()
	require.NoError(t, c.AddModules(func(inner Collection) error { return inner.AddModules(AddSingleton(NewTService)) }))
	require.Len(t, c.allDescriptors, 1)
	assert.NotEqual(t, "", c.allDescriptors[0].Source)
	assert.Equal(t, want, c.allDescriptors[0].Source)
}
