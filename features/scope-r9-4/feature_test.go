package godi

import (
	"context"
	"errors"
	"runtime"
	"sync"
	"sync/atomic"
	"testing"
	"time"

	"github.com/stretchr/testify/assert"
	"github.com/stretchr/testify/require"
)

// batchRecorder collects the disposables created by scope initializers and
// makes the initializer fail on chosen calls.
type batchRecorder struct {
	mu      sync.Mutex
	calls   int
	failOn  int // 1-based call number that fails; 0 = never
	created []*TDisposable
}

var errBatchInit = errors.New("batch initializer failed")

func (r *batchRecorder) initializer(d *TDisposable) error {
	r.mu.Lock()
	defer r.mu.Unlock()
	r.calls++
	r.created = append(r.created, d)
	if r.calls == r.failOn {
		return errBatchInit
	}
	return nil
}

func (r *batchRecorder) reset(failOn int) {
	r.mu.Lock()
	defer r.mu.Unlock()
	r.calls, r.failOn, r.created = 0, failOn, nil
}

func liveScopes(p Provider) int {
	impl := p.(*provider)
	impl.scopesMu.Lock()
	defer impl.scopesMu.Unlock()
	return len(impl.scopes)
}

func TestCreateScopes_Success(t *testing.T) {
	t.Parallel()

	p := BuildProvider(t, AddScoped(NewTScoped), AddSingleton(NewTService))

	scopes, err := CreateScopes(context.Background(), p, 5)
	require.NoError(t, err)
	require.Len(t, scopes, 5)
	assert.Equal(t, 5, liveScopes(p))

	// Distinct scopes, each with its own scoped instance, sharing singletons
	seenIDs := map[string]bool{}
	seenScoped := map[any]bool{}
	singleton, err := p.Get(PtrTypeOf[TService]())
	require.NoError(t, err)
	for _, s := range scopes {
		assert.False(t, seenIDs[s.ID()])
		seenIDs[s.ID()] = true

		a, err := s.Get(PtrTypeOf[TScoped]())
		require.NoError(t, err)
		b, err := s.Get(PtrTypeOf[TScoped]())
		require.NoError(t, err)
		assert.Same(t, a, b)
		assert.False(t, seenScoped[a])
		seenScoped[a] = true

		svc, err := s.Get(PtrTypeOf[TService]())
		require.NoError(t, err)
		assert.Same(t, singleton, svc)

		// The scope knows itself and is found through its context
		self, err := s.Get(TypeOf[Scope]())
		require.NoError(t, err)
		assert.Same(t, s, self)
		fromCtx, err := FromContext(s.Context())
		require.NoError(t, err)
		assert.Same(t, s, fromCtx)
	}

	// From a scope: the batch become its children
	children, err := CreateScopes(nil, scopes[0], 3)
	require.NoError(t, err)
	require.Len(t, children, 3)
	assert.Equal(t, 8, liveScopes(p))
	for _, child := range children {
		assert.Same(t, scopes[0], child.(*scope).parentScope)
	}
	require.NoError(t, scopes[0].Close())
	for _, child := range children {
		_, err := child.Get(PtrTypeOf[TScoped]())
		assert.ErrorIs(t, err, ErrScopeDisposed)
	}
	assert.Equal(t, 4, liveScopes(p))

	// A shared context closes the whole batch
	ctx, cancel := context.WithCancel(context.WithValue(context.Background(), scopeValueCtxKey{}, "v"))
	shared, err := CreateScopes(ctx, p, 3)
	require.NoError(t, err)
	for _, s := range shared {
		assert.Equal(t, "v", s.Context().Value(scopeValueCtxKey{}))
	}
	cancel()
	assert.Eventually(t, func() bool { return liveScopes(p) == 4 }, 2*time.Second, 5*time.Millisecond)
	for _, s := range shared {
		_, err := s.CreateScope(context.Background())
		assert.ErrorIs(t, err, ErrScopeDisposed)
	}
}

type scopeValueCtxKey struct{}

func TestCreateScopes_InvalidArguments(t *testing.T) {
	t.Parallel()

	p := BuildProvider(t)

	_, err := CreateScopes(context.Background(), nil, 1)
	assert.ErrorIs(t, err, ErrProviderNil)

	for _, n := range []int{0, -1} {
		scopes, err := CreateScopes(context.Background(), p, n)
		var validationErr *ValidationError
		assert.ErrorAs(t, err, &validationErr)
		assert.Nil(t, scopes)
	}
	assert.Equal(t, 0, liveScopes(p))
}

func TestCreateScopes_ClosedParent(t *testing.T) {
	t.Parallel()

	p := BuildProvider(t)
	s, err := p.CreateScope(context.Background())
	require.NoError(t, err)
	require.NoError(t, s.Close())

	scopes, err := CreateScopes(context.Background(), s, 2)
	assert.ErrorIs(t, err, ErrScopeDisposed)
	assert.Nil(t, scopes)

	require.NoError(t, p.Close())
	scopes, err = CreateScopes(context.Background(), p, 2)
	assert.ErrorIs(t, err, ErrProviderDisposed)
	assert.Nil(t, scopes)
}

func TestCreateScopes_FailureCleansUp(t *testing.T) {
	// Not parallel: it counts goroutines

	rec := &batchRecorder{}
	// The root scope runs the initializer once during Build
	p := BuildProvider(t, AddScoped(NewTDisposable), AddScoped(rec.initializer))
	before := runtime.NumGoroutine()

	for _, parentIsScope := range []bool{false, true} {
		var parent Provider = p
		base := 0
		if parentIsScope {
			rec.reset(0)
			s, err := p.CreateScope(context.Background())
			require.NoError(t, err)
			defer s.Close()
			parent, base = s, 1
		}

		rec.reset(4)
		scopes, err := CreateScopes(context.Background(), parent, 6)

		require.Error(t, err)
		assert.Nil(t, scopes)
		assert.ErrorIs(t, err, errBatchInit, "the cause stays reachable")
		assert.Contains(t, err.Error(), "scope 4 of 6")
		var disposalErr *DisposalError
		assert.False(t, errors.As(err, &disposalErr), "cleanup succeeded")

		// It stopped at the failure: 4 creations attempted, none kept
		assert.Equal(t, 4, rec.calls)
		assert.Equal(t, base, liveScopes(p))
		if parentIsScope {
			parentImpl := parent.(*scope)
			parentImpl.childrenMu.Lock()
			assert.Empty(t, parentImpl.children)
			parentImpl.childrenMu.Unlock()
		}

		// Everything that was created has been closed, exactly once
		// (TDisposable.Close fails on a second call, which would have surfaced
		// as a DisposalError above)
		require.Len(t, rec.created, 4)
		for _, d := range rec.created {
			assert.True(t, d.IsClosed())
		}

		// A retry behaves like a first attempt
		rec.reset(0)
		scopes, err = CreateScopes(context.Background(), parent, 6)
		require.NoError(t, err)
		assert.Equal(t, base+6, liveScopes(p))
		for _, d := range rec.created {
			assert.False(t, d.IsClosed())
		}
		for _, s := range scopes {
			require.NoError(t, s.Close())
		}
		assert.Equal(t, base, liveScopes(p))
	}

	assert.Eventually(t, func() bool {
		return runtime.NumGoroutine() <= before+2
	}, 2*time.Second, 10*time.Millisecond)
}

func TestCreateScopes_CleanupErrorIsReported(t *testing.T) {
	t.Parallel()

	rec := &batchRecorder{}
	errClose := errors.New("close failed")
	p := BuildProvider(t,
		AddScoped(func() *TDisposable {
			d := NewTDisposable()
			d.SetCloseError(errClose)
			return d
		}),
		AddScoped(rec.initializer),
	)

	rec.reset(3)
	scopes, err := CreateScopes(context.Background(), p, 3)
	require.Error(t, err)
	assert.Nil(t, scopes)

	// Both the cause and the failed cleanup are reachable
	assert.ErrorIs(t, err, errBatchInit)
	var disposalErr *DisposalError
	require.ErrorAs(t, err, &disposalErr)
	assert.Contains(t, disposalErr.Error(), errClose.Error())
	assert.Len(t, disposalErr.Errors, 2, "one per successfully created scope")

	// Still everything was closed and nothing is tracked
	for _, d := range rec.created {
		assert.True(t, d.IsClosed())
	}
	assert.Equal(t, 0, liveScopes(p))
}

func TestCreateScopes_ReverseOrderCleanup(t *testing.T) {
	t.Parallel()

	var mu sync.Mutex
	var closed []int
	var calls atomic.Int32

	p := BuildProvider(t, AddScoped(func() (*orderedCloser, error) {
		n := int(calls.Add(1))
		if n == 5 { // call 1 is the root scope's
			return nil, errBatchInit
		}
		return &orderedCloser{n: n, mu: &mu, closed: &closed}, nil
	}), AddScoped(func(*orderedCloser) {}))

	_, err := CreateScopes(context.Background(), p, 10)
	require.ErrorIs(t, err, errBatchInit)

	mu.Lock()
	defer mu.Unlock()
	assert.Equal(t, []int{4, 3, 2}, closed)
}

type orderedCloser struct {
	n      int
	mu     *sync.Mutex
	closed *[]int
}

func (o *orderedCloser) Close() error {
	o.mu.Lock()
	defer o.mu.Unlock()
	*o.closed = append(*o.closed, o.n)
	return nil
}

func TestCreateScopes_ConcurrentWithClose(t *testing.T) {
	t.Parallel()

	p := BuildProvider(t, AddScoped(NewTDisposable), AddScoped(func(*TDisposable) {}))

	for round := 0; round < 20; round++ {
		parent, err := p.CreateScope(context.Background())
		require.NoError(t, err)

		var mu sync.Mutex
		var returned []Scope

		var wg sync.WaitGroup
		for g := 0; g < 4; g++ {
			wg.Add(1)
			go func() {
				defer wg.Done()
				scopes, err := CreateScopes(context.Background(), parent, 5)
				if err != nil {
					assert.ErrorIs(t, err, ErrScopeDisposed)
					assert.Nil(t, scopes)
					return
				}
				assert.Len(t, scopes, 5)
				mu.Lock()
				returned = append(returned, scopes...)
				mu.Unlock()
			}()
		}
		wg.Add(1)
		go func() {
			defer wg.Done()
			assert.NoError(t, parent.Close())
		}()
		wg.Wait()

		// Batches that completed were children of parent and went with it;
		// batches that failed cleaned up after themselves
		for _, s := range returned {
			_, err := s.Get(PtrTypeOf[TDisposable]())
			assert.ErrorIs(t, err, ErrScopeDisposed)
			assert.Same(t, parent, s.(*scope).parentScope)
		}
		parentImpl := parent.(*scope)
		parentImpl.childrenMu.Lock()
		assert.Empty(t, parentImpl.children)
		parentImpl.childrenMu.Unlock()
	}
}
