package godi

import (
	"context"
	"errors"
	"fmt"
	"testing"

	"github.com/stretchr/testify/assert"
	"github.com/stretchr/testify/require"

	"github.com/junioryono/godi/v4/internal/graph"
)

type f1Scoped struct{}
type f1Single struct{ s *f1Scoped }
type f1Panics struct{}

func newF1Scoped() *f1Scoped                { return &f1Scoped{} }
func newF1Single(s *f1Scoped) *f1Single     { return &f1Single{s: s} }
func newF1Panics() *f1Panics                { panic("f1 boom") }
func newF1NeedsMissing(*f1Panics) *TService { return &TService{} }

// Every classification below must hold through the wrappers a caller really
// sees (BuildError, ModuleError, RegistrationError, ResolutionError) and must
// not disturb the existing errors.As behaviour.
func TestF1_SentinelsThroughRealErrorPaths(t *testing.T) {
	t.Parallel()

	t.Run("circular dependency from Build", func(t *testing.T) {
		c := NewCollection()
		require.NoError(t, c.AddSingleton(NewTCircularA))
		require.NoError(t, c.AddSingleton(NewTCircularB))

		_, err := c.Build()
		require.Error(t, err)
		assert.True(t, errors.Is(err, ErrCircularDependency))
		assert.True(t, IsCircularDependency(err))
		assert.Same(t, graph.ErrCircularDependency, ErrCircularDependency)

		// Existing behaviour: the typed error is still reachable
		var circ *CircularDependencyError
		require.True(t, errors.As(err, &circ))
		assert.NotEmpty(t, circ.Path)

		assert.False(t, IsNotFound(err))
		assert.False(t, IsLifetimeConflict(err))
		assert.False(t, IsAlreadyRegistered(err))
		assert.False(t, IsDisposed(err))
	})

	t.Run("lifetime conflict from Build", func(t *testing.T) {
		c := NewCollection()
		require.NoError(t, c.AddScoped(newF1Scoped))
		require.NoError(t, c.AddSingleton(newF1Single))

		_, err := c.Build()
		require.Error(t, err)
		assert.True(t, errors.Is(err, ErrLifetimeConflict))
		assert.True(t, IsLifetimeConflict(err))

		var conflict *LifetimeConflictError
		require.True(t, errors.As(err, &conflict))
		assert.Equal(t, Scoped, conflict.DependencyLifetime)

		assert.False(t, IsCircularDependency(err))
		assert.False(t, IsNotFound(err))
	})

	t.Run("missing dependency from Build", func(t *testing.T) {
		c := NewCollection()
		require.NoError(t, c.AddTransient(newF1NeedsMissing))

		_, err := c.Build()
		require.Error(t, err)
		assert.True(t, IsNotFound(err))
		assert.False(t, IsLifetimeConflict(err))
		assert.False(t, IsConstructorPanic(err))
	})

	t.Run("already registered, plain and keyed, through nested modules", func(t *testing.T) {
		c := NewCollection()
		err := c.AddModules(NewModule("outer", NewModule("inner",
			AddSingleton(NewTService),
			AddSingleton(NewTService),
		)))
		require.Error(t, err)
		assert.True(t, errors.Is(err, ErrAlreadyRegistered))
		assert.True(t, IsAlreadyRegistered(err))

		var modErr ModuleError
		require.True(t, errors.As(err, &modErr))
		assert.Equal(t, "outer", modErr.Module)
		var dup *AlreadyRegisteredError
		require.True(t, errors.As(err, &dup))

		// The rejected registration left the first one in place
		assert.Equal(t, 1, c.Count())

		require.NoError(t, c.AddScoped(NewTDependency, Name("k")))
		err = c.AddScoped(NewTDependency, Name("k"))
		require.Error(t, err)
		assert.True(t, IsAlreadyRegistered(err))
		assert.False(t, IsNotFound(err))

		// Group members never collide
		require.NoError(t, c.AddTransient(NewTTransient, Group("g")))
		require.NoError(t, c.AddTransient(NewTTransient, Group("g")))
	})

	t.Run("constructor panic at Build and at resolution", func(t *testing.T) {
		c := NewCollection()
		require.NoError(t, c.AddSingleton(newF1Panics))
		_, err := c.Build()
		require.Error(t, err)
		assert.True(t, IsConstructorPanic(err))
		var panicErr *ConstructorPanicError
		require.True(t, errors.As(err, &panicErr))
		assert.Equal(t, "f1 boom", panicErr.Panic)

		c = NewCollection()
		require.NoError(t, c.AddScoped(newF1Panics))
		p, err := c.Build()
		require.NoError(t, err)
		defer p.Close()

		scope, err := p.CreateScope(context.Background())
		require.NoError(t, err)
		_, err = Resolve[*f1Panics](scope)
		require.Error(t, err)
		assert.True(t, errors.Is(err, ErrConstructorPanic))
		assert.False(t, IsDisposed(err))

		// A failed resolution is not cached: the retry fails the same way
		_, err = Resolve[*f1Panics](scope)
		assert.True(t, IsConstructorPanic(err))
	})

	t.Run("disposed scope, nested scope and provider", func(t *testing.T) {
		p := BuildProvider(t, AddScoped(NewTScoped))

		parent, err := p.CreateScope(context.Background())
		require.NoError(t, err)
		child, err := parent.CreateScope(context.Background())
		require.NoError(t, err)

		_, err = Resolve[*TService](child)
		assert.True(t, IsNotFound(err))
		assert.False(t, IsDisposed(err))

		require.NoError(t, parent.Close())

		_, err = Resolve[*TScoped](child)
		assert.True(t, IsDisposed(err))
		assert.True(t, errors.Is(err, ErrScopeDisposed))
		_, err = parent.CreateScope(context.Background())
		assert.True(t, IsDisposed(err))

		require.NoError(t, p.Close())
		_, err = Resolve[*TScoped](p)
		assert.True(t, IsDisposed(err))
		assert.True(t, errors.Is(err, ErrProviderDisposed))
		assert.False(t, IsNotFound(err))
	})
}

func TestF1_IsMethodsOnValuesAndPointers(t *testing.T) {
	t.Parallel()

	cases := []struct {
		name     string
		err      error
		sentinel error
	}{
		{"LifetimeConflictError value", LifetimeConflictError{}, ErrLifetimeConflict},
		{"LifetimeConflictError pointer", &LifetimeConflictError{}, ErrLifetimeConflict},
		{"AlreadyRegisteredError value", AlreadyRegisteredError{}, ErrAlreadyRegistered},
		{"AlreadyRegisteredError pointer", &AlreadyRegisteredError{}, ErrAlreadyRegistered},
		{"ConstructorPanicError value", ConstructorPanicError{Panic: "x"}, ErrConstructorPanic},
		{"ConstructorPanicError pointer", &ConstructorPanicError{Panic: "x"}, ErrConstructorPanic},
		{"CircularDependencyError value", CircularDependencyError{}, ErrCircularDependency},
		{"CircularDependencyError pointer", &CircularDependencyError{}, ErrCircularDependency},
	}

	sentinels := []error{
		ErrLifetimeConflict, ErrAlreadyRegistered, ErrConstructorPanic, ErrCircularDependency,
		ErrServiceNotFound, ErrScopeDisposed, ErrProviderDisposed,
	}

	for _, tc := range cases {
		t.Run(tc.name, func(t *testing.T) {
			wrapped := fmt.Errorf("outer: %w", BuildError{Phase: "validation", Cause: tc.err})
			for _, s := range sentinels {
				assert.Equal(t, s == tc.sentinel, errors.Is(wrapped, s), "sentinel %v", s)
			}

			// A typed error never claims to be another typed error
			assert.False(t, errors.Is(tc.err, errors.New(tc.sentinel.Error())))
		})
	}

	// The helpers are nil-safe
	assert.False(t, IsNotFound(nil))
	assert.False(t, IsDisposed(nil))
	assert.False(t, IsCircularDependency(nil))
	assert.False(t, IsLifetimeConflict(nil))
	assert.False(t, IsAlreadyRegistered(nil))
	assert.False(t, IsConstructorPanic(nil))

	// Sentinels are not matched by unrelated typed errors
	assert.False(t, IsNotFound(&ResolutionError{Cause: errors.New("no scope found in context")}))
	assert.True(t, IsNotFound(&ResolutionError{Cause: ErrServiceNotFound}))
}
