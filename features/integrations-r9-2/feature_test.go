package chi

import (
	"context"
	"errors"
	"net/http"
	"net/http/httptest"
	"sync"
	"sync/atomic"
	"testing"

	"github.com/junioryono/godi/v4"
	"github.com/stretchr/testify/assert"
	"github.com/stretchr/testify/require"
)

type reqSingleton struct{ n int32 }
type reqScoped struct{ n int32 }
type reqTransient struct{ n int32 }
type reqCache struct{ name string }
type reqValidator struct{ name string }

// reqDependent is scoped and shares the request's reqScoped instance.
type reqDependent struct {
	scoped *reqScoped
	scope  godi.Scope
}

type reqFailing struct{}
type reqCtxKey struct{}

var errReqCtor = errors.New("constructor failed")

func buildRequestProvider(t *testing.T) (godi.Provider, *[3]atomic.Int32) {
	t.Helper()
	var counts [3]atomic.Int32

	collection := godi.NewCollection()
	require.NoError(t, collection.AddSingleton(func() *reqSingleton { return &reqSingleton{n: counts[0].Add(1)} }))
	require.NoError(t, collection.AddScoped(func() *reqScoped { return &reqScoped{n: counts[1].Add(1)} }))
	require.NoError(t, collection.AddTransient(func() *reqTransient { return &reqTransient{n: counts[2].Add(1)} }))
	require.NoError(t, collection.AddScoped(func(s *reqScoped, scope godi.Scope) *reqDependent {
		return &reqDependent{scoped: s, scope: scope}
	}))
	require.NoError(t, collection.AddScoped(func() *reqCache { return &reqCache{name: "redis"} }, godi.Name("redis")))
	require.NoError(t, collection.AddScoped(func() *reqCache { return &reqCache{name: "memory"} }, godi.Name("memory")))
	for _, name := range []string{"first", "second", "third"} {
		require.NoError(t, collection.AddScoped(func() *reqValidator { return &reqValidator{name: name} }, godi.Group("validators")))
	}
	require.NoError(t, collection.AddScoped(func() (*reqFailing, error) { return nil, errReqCtor }))

	provider, err := collection.Build()
	require.NoError(t, err)
	t.Cleanup(func() { _ = provider.Close() })
	return provider, &counts
}

func serve(provider godi.Provider, h http.HandlerFunc) {
	ScopeMiddleware(provider)(h).ServeHTTP(httptest.NewRecorder(), httptest.NewRequest(http.MethodGet, "/", nil))
}

func TestFromRequest(t *testing.T) {
	t.Run("respects lifetimes within one request", func(t *testing.T) {
		provider, counts := buildRequestProvider(t)

		serve(provider, func(w http.ResponseWriter, r *http.Request) {
			scope, err := ScopeFromRequest(r)
			require.NoError(t, err)
			viaCtx, err := godi.FromContext(r.Context())
			require.NoError(t, err)
			assert.Same(t, viaCtx, scope)

			single, err := FromRequest[*reqSingleton](r)
			require.NoError(t, err)
			assert.Same(t, godi.MustResolve[*reqSingleton](provider), single)

			s1, err := FromRequest[*reqScoped](r)
			require.NoError(t, err)
			s2 := MustFromRequest[*reqScoped](r)
			assert.Same(t, s1, s2)
			assert.Same(t, s1, godi.MustResolve[*reqScoped](scope))

			dep, err := FromRequest[*reqDependent](r)
			require.NoError(t, err)
			assert.Same(t, s1, dep.scoped)
			assert.Same(t, scope, dep.scope)

			t1, err := FromRequest[*reqTransient](r)
			require.NoError(t, err)
			t2, err := FromRequest[*reqTransient](r)
			require.NoError(t, err)
			assert.NotSame(t, t1, t2)

			// A request derived from the original still finds the same scope.
			derived := r.WithContext(context.WithValue(r.Context(), reqCtxKey{}, 1))
			s3, err := FromRequest[*reqScoped](derived)
			require.NoError(t, err)
			assert.Same(t, s1, s3)
		})

		assert.EqualValues(t, 1, counts[0].Load())
		assert.EqualValues(t, 1, counts[1].Load())
		assert.EqualValues(t, 2, counts[2].Load())
	})

	t.Run("keyed and group services", func(t *testing.T) {
		provider, _ := buildRequestProvider(t)

		serve(provider, func(w http.ResponseWriter, r *http.Request) {
			redis, err := FromRequestKeyed[*reqCache](r, "redis")
			require.NoError(t, err)
			assert.Equal(t, "redis", redis.name)
			memory, err := FromRequestKeyed[*reqCache](r, "memory")
			require.NoError(t, err)
			assert.Equal(t, "memory", memory.name)
			again, err := FromRequestKeyed[*reqCache](r, "redis")
			require.NoError(t, err)
			assert.Same(t, redis, again)

			// Keyed registrations are not visible without their key and
			// unknown keys are not found.
			_, err = FromRequest[*reqCache](r)
			assert.ErrorIs(t, err, godi.ErrServiceNotFound)
			_, err = FromRequestKeyed[*reqCache](r, "disk")
			assert.ErrorIs(t, err, godi.ErrServiceNotFound)
			_, err = FromRequestKeyed[*reqCache](r, nil)
			assert.ErrorIs(t, err, godi.ErrServiceKeyNil)

			validators, err := FromRequestGroup[*reqValidator](r, "validators")
			require.NoError(t, err)
			require.Len(t, validators, 3)
			assert.Equal(t, "first", validators[0].name)
			assert.Equal(t, "second", validators[1].name)
			assert.Equal(t, "third", validators[2].name)
			second, err := FromRequestGroup[*reqValidator](r, "validators")
			require.NoError(t, err)
			for i := range validators {
				assert.Same(t, validators[i], second[i])
			}

			empty, err := FromRequestGroup[*reqValidator](r, "nobody")
			assert.NoError(t, err)
			assert.Empty(t, empty)
			_, err = FromRequestGroup[*reqValidator](r, "")
			assert.ErrorIs(t, err, godi.ErrGroupNameEmpty)
		})
	})

	t.Run("errors are reported, not panicked", func(t *testing.T) {
		provider, _ := buildRequestProvider(t)

		var validation *godi.ValidationError
		_, err := ScopeFromRequest(nil)
		assert.ErrorAs(t, err, &validation)
		_, err = FromRequest[*reqScoped](nil)
		assert.ErrorAs(t, err, &validation)
		_, err = FromRequestKeyed[*reqCache](nil, "redis")
		assert.ErrorAs(t, err, &validation)
		_, err = FromRequestGroup[*reqValidator](nil, "validators")
		assert.ErrorAs(t, err, &validation)

		// A request that never went through the middleware has no scope.
		bare := httptest.NewRequest(http.MethodGet, "/", nil)
		var resolution *godi.ResolutionError
		_, err = FromRequest[*reqScoped](bare)
		assert.ErrorAs(t, err, &resolution)
		_, err = FromRequestGroup[*reqValidator](bare, "validators")
		assert.ErrorAs(t, err, &resolution)
		assert.Panics(t, func() { MustFromRequest[*reqScoped](bare) })

		serve(provider, func(w http.ResponseWriter, r *http.Request) {
			_, err := FromRequest[*reqFailing](r)
			assert.ErrorIs(t, err, errReqCtor)
			// Not cached: a retry fails the same way, other services still work.
			_, err = FromRequest[*reqFailing](r)
			assert.ErrorIs(t, err, errReqCtor)
			_, err = FromRequest[*reqScoped](r)
			assert.NoError(t, err)
			_, err = FromRequest[*testService](r)
			assert.ErrorIs(t, err, godi.ErrServiceNotFound)
		})
	})

	t.Run("fails with scope disposed once the request is over", func(t *testing.T) {
		provider, counts := buildRequestProvider(t)

		var kept *http.Request
		serve(provider, func(w http.ResponseWriter, r *http.Request) {
			kept = r
			MustFromRequest[*reqScoped](r)
		})

		_, err := FromRequest[*reqScoped](kept)
		assert.ErrorIs(t, err, godi.ErrScopeDisposed)
		_, err = FromRequest[*reqTransient](kept)
		assert.ErrorIs(t, err, godi.ErrScopeDisposed)
		_, err = FromRequestKeyed[*reqCache](kept, "redis")
		assert.ErrorIs(t, err, godi.ErrScopeDisposed)
		_, err = FromRequestGroup[*reqValidator](kept, "validators")
		assert.ErrorIs(t, err, godi.ErrScopeDisposed)
		assert.Panics(t, func() { MustFromRequest[*reqScoped](kept) })
		assert.EqualValues(t, 1, counts[1].Load())
		assert.EqualValues(t, 0, counts[2].Load())
	})

	t.Run("concurrent use inside and across requests", func(t *testing.T) {
		provider, counts := buildRequestProvider(t)

		const requests, workers = 8, 8
		var perRequest sync.Map
		var outer sync.WaitGroup
		for i := 0; i < requests; i++ {
			outer.Add(1)
			go func(i int) {
				defer outer.Done()
				serve(provider, func(w http.ResponseWriter, r *http.Request) {
					// Resolve once up front so that the workers below all hit
					// the instance already cached in the request scope.
					first := MustFromRequest[*reqScoped](r)
					got := make([]*reqScoped, workers)
					var inner sync.WaitGroup
					for j := 0; j < workers; j++ {
						inner.Add(1)
						go func(j int) {
							defer inner.Done()
							got[j], _ = FromRequest[*reqScoped](r)
							_, _ = FromRequest[*reqTransient](r)
						}(j)
					}
					inner.Wait()
					for _, g := range got {
						assert.Same(t, first, g)
					}
					perRequest.Store(i, first)
				})
			}(i)
		}
		outer.Wait()

		distinct := map[*reqScoped]bool{}
		perRequest.Range(func(_, v any) bool { distinct[v.(*reqScoped)] = true; return true })
		assert.Len(t, distinct, requests)
		assert.EqualValues(t, 1, counts[0].Load())
		assert.EqualValues(t, requests, counts[1].Load())
		assert.EqualValues(t, requests*workers, counts[2].Load())
	})
}
