package godi

import (
	"context"
	"errors"
	"fmt"
	"sync"
	"testing"

	"github.com/stretchr/testify/assert"
	"github.com/stretchr/testify/require"
)

// ecCloser fails its Close with its own error and counts the calls.
type ecCloser struct {
	err    error
	mu     sync.Mutex
	closes int
}

func (c *ecCloser) Close() error {
	c.mu.Lock()
	defer c.mu.Unlock()
	c.closes++
	return c.err
}

type ecFirst struct{ *ecCloser }
type ecSecond struct {
	*ecCloser
	first *ecFirst
}
type ecQuiet struct{ *ecCloser }
type ecSingle struct{ *ecCloser }
type ecBroken struct{}

func ecCollect(err error) []error {
	var all []error
	for cause := range Causes(err) {
		all = append(all, cause)
	}
	return all
}

func TestCauses_Shapes(t *testing.T) {
	a, b, c := errors.New("a"), errors.New("b"), errors.New("c")

	assert.Empty(t, ecCollect(nil))
	assert.Nil(t, RootCauses(nil))
	assert.Equal(t, []error{a}, ecCollect(a))

	// single chain, outermost first
	w1 := fmt.Errorf("w1: %w", a)
	build := &BuildError{Phase: "p", Cause: w1}
	assert.Equal(t, []error{build, w1, a}, ecCollect(build))
	assert.Equal(t, []error{a}, RootCauses(build))

	// joined and multi-%w errors, nils skipped
	joined := errors.Join(a, nil, b)
	multi := fmt.Errorf("%w and %w", joined, c)
	assert.Equal(t, []error{multi, joined, a, b, c}, ecCollect(multi))
	assert.Equal(t, []error{a, b, c}, RootCauses(multi))

	// DisposalError by value and by pointer, nested
	inner := DisposalError{Context: "scope", Errors: []error{a, nil, b}}
	wrapped := fmt.Errorf("failed to close child scope: %w", inner)
	outer := &DisposalError{Context: "provider", Errors: []error{wrapped, c}}
	assert.Equal(t, []error{a, b, c}, RootCauses(outer))
	assert.False(t, errors.Is(outer, b), "errors.Is cannot see into a DisposalError")
	assert.Len(t, ecCollect(outer), 6)

	// The walk does not hand out or alter the error's own slice
	assert.Equal(t, []error{a, nil, b}, inner.Errors)

	// typed nil pointers are leaves, not panics
	var nilBuild *BuildError
	var nilDisposal *DisposalError
	assert.NotPanics(t, func() {
		assert.Len(t, ecCollect(fmt.Errorf("w: %w", error(nilBuild))), 2)
		assert.Len(t, ecCollect(nilDisposal), 1)
	})
}

func TestCauses_EarlyBreakAndReuse(t *testing.T) {
	a, b := errors.New("a"), errors.New("b")
	err := &DisposalError{Context: "scope", Errors: []error{fmt.Errorf("x: %w", a), b}}
	seq := Causes(err)

	visited := 0
	for cause := range seq {
		visited++
		if cause == a {
			break
		}
	}
	assert.Equal(t, 3, visited)

	// usable again, from the start
	assert.Len(t, ecCollect(err), 4)
	count := 0
	for range seq {
		count++
	}
	assert.Equal(t, 4, count)
}

func TestFindCause(t *testing.T) {
	panicErr := &ConstructorPanicError{Panic: "p"}
	err := &BuildError{Phase: "cleanup", Cause: &DisposalError{Context: "provider", Errors: []error{
		errors.New("plain"),
		fmt.Errorf("singleton disposable 0: %w", panicErr),
	}}}

	var viaAs *ConstructorPanicError
	assert.False(t, errors.As(err, &viaAs))

	found, ok := FindCause[*ConstructorPanicError](err)
	require.True(t, ok)
	assert.Same(t, panicErr, found)

	_, ok = FindCause[*ResolutionError](err)
	assert.False(t, ok)
	_, ok = FindCause[ModuleError](ModuleError{Module: "m", Cause: errors.New("x")})
	assert.True(t, ok)
	_, ok = FindCause[*BuildError](nil)
	assert.False(t, ok)
}

// The Close error of a provider contains the error of every failing instance
// exactly once, children before parents, scopes before singletons, and within
// a scope in reverse order of creation.
func TestCauses_RealClose(t *testing.T) {
	errFirst, errSecond := errors.New("first"), errors.New("second")
	errChild, errSingle := errors.New("child"), errors.New("single")

	var mu sync.Mutex
	scopedErrs := []error{errFirst, errChild} // first scope created gets errFirst
	var created []*ecCloser
	track := func(c *ecCloser) *ecCloser {
		mu.Lock()
		defer mu.Unlock()
		created = append(created, c)
		return c
	}

	c := NewCollection()
	require.NoError(t, c.AddSingleton(func() *ecSingle { return &ecSingle{track(&ecCloser{err: errSingle})} }))
	require.NoError(t, c.AddScoped(func() *ecFirst {
		mu.Lock()
		err := scopedErrs[0]
		scopedErrs = scopedErrs[1:]
		mu.Unlock()
		return &ecFirst{track(&ecCloser{err: err})}
	}))
	require.NoError(t, c.AddScoped(func(f *ecFirst) *ecSecond { return &ecSecond{track(&ecCloser{err: errSecond}), f} }))
	require.NoError(t, c.AddTransient(func() *ecQuiet { return &ecQuiet{track(&ecCloser{})} }))

	p, err := c.Build()
	require.NoError(t, err)

	s, err := p.CreateScope(context.Background())
	require.NoError(t, err)
	_, err = Resolve[*ecSecond](s) // creates first, then second
	require.NoError(t, err)
	_, err = Resolve[*ecQuiet](s)
	require.NoError(t, err)

	child, err := s.CreateScope(context.Background())
	require.NoError(t, err)
	_, err = Resolve[*ecFirst](child)
	require.NoError(t, err)

	closeErr := p.Close()
	require.Error(t, closeErr)

	assert.Equal(t, []error{errChild, errSecond, errFirst, errSingle}, RootCauses(closeErr))

	disposal, ok := FindCause[*DisposalError](closeErr)
	require.True(t, ok)
	assert.Equal(t, "provider", disposal.Context)

	// every instance closed exactly once, also the quiet one; a second Close is nil
	require.Len(t, created, 5)
	for _, cl := range created {
		assert.Equal(t, 1, cl.closes)
	}
	assert.NoError(t, p.Close())
	assert.NoError(t, s.Close())
	assert.Empty(t, ecCollect(child.Close()))
	for _, cl := range created {
		assert.Equal(t, 1, cl.closes)
	}

	_, err = Resolve[*ecFirst](s)
	assert.ErrorIs(t, err, ErrScopeDisposed)
}

// A Build whose cleanup fails reports the disposal of the singletons created so far.
func TestCauses_FailedBuildCleanup(t *testing.T) {
	errSingle := errors.New("single close")
	closer := &ecCloser{err: errSingle}

	c := NewCollection()
	require.NoError(t, c.AddSingleton(func() *ecSingle { return &ecSingle{closer} }))
	require.NoError(t, c.AddSingleton(func(*ecSingle) (*ecBroken, error) { return nil, errors.New("broken") }))

	_, err := c.Build()
	require.Error(t, err)
	assert.Equal(t, []error{errSingle}, RootCauses(err))
	assert.Equal(t, 1, closer.closes)
}

func TestCauses_ConcurrentIteration(t *testing.T) {
	a, b := errors.New("a"), errors.New("b")
	err := &DisposalError{Context: "scope", Errors: []error{fmt.Errorf("x: %w", a), errors.Join(a, b)}}

	var wg sync.WaitGroup
	for g := 0; g < 8; g++ {
		wg.Add(1)
		go func() {
			defer wg.Done()
			for i := 0; i < 100; i++ {
				if got := len(RootCauses(err)); got != 3 {
					t.Errorf("got %d leaves", got)
					return
				}
			}
		}()
	}
	wg.Wait()
}
