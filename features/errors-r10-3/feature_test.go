package godi

import (
	"context"
	"errors"
	"fmt"
	"reflect"
	"sync"
	"sync/atomic"
	"testing"

	"github.com/stretchr/testify/assert"
	"github.com/stretchr/testify/require"
)

type rpLeaf struct{ n int }
type rpMid struct{ leaf *rpLeaf }
type rpTop struct{ mid *rpMid }
type rpPlugin struct{ name string }
type rpHost struct{ plugins []*rpPlugin }
type rpStore struct{ inner *rpStore }

var errRPBoom = errors.New("rp boom")

func rpTypes(path []ServiceID) []reflect.Type {
	types := make([]reflect.Type, len(path))
	for i, id := range path {
		types[i] = id.Type
	}
	return types
}

func TestResolutionPath_NoInformation(t *testing.T) {
	assert.Nil(t, ResolutionPath(nil))
	assert.Nil(t, ResolutionPath(errRPBoom))
	assert.Nil(t, ResolutionPath(ErrScopeDisposed))
	assert.Nil(t, ResolutionPath(&ConstructorInvocationError{Cause: errRPBoom}), "hand-made error without identity")
}

func TestResolutionPath_ScopedChain(t *testing.T) {
	var fail atomic.Bool
	var leafCalls atomic.Int32
	fail.Store(true)

	c := NewCollection()
	require.NoError(t, c.AddScoped(func() (*rpLeaf, error) {
		leafCalls.Add(1)
		if fail.Load() {
			return nil, errRPBoom
		}
		return &rpLeaf{n: 1}, nil
	}))
	require.NoError(t, c.AddScoped(func(l *rpLeaf) *rpMid { return &rpMid{l} }))
	require.NoError(t, c.AddTransient(func() *rpPlugin { return &rpPlugin{} }))
	require.NoError(t, c.AddScoped(func(m *rpMid, _ *rpPlugin) *rpTop { return &rpTop{m} }))

	p, err := c.Build()
	require.NoError(t, err)
	defer p.Close()

	parent, err := p.CreateScope(context.Background())
	require.NoError(t, err)
	s, err := parent.CreateScope(context.Background())
	require.NoError(t, err)

	_, err = Resolve[*rpTop](s)
	require.Error(t, err)
	assert.ErrorIs(t, err, errRPBoom)

	path := ResolutionPath(err)
	assert.Equal(t, []reflect.Type{reflect.TypeOf(&rpTop{}), reflect.TypeOf(&rpMid{}), reflect.TypeOf(&rpLeaf{})}, rpTypes(path))
	assert.Equal(t, "*rpTop", path[0].String())

	// The outermost error is what it always was, with the identity attached
	var cie *ConstructorInvocationError
	require.True(t, errors.As(err, &cie))
	assert.Equal(t, reflect.TypeOf(&rpTop{}), cie.Service.Type)
	plain := &ConstructorInvocationError{Constructor: cie.Constructor, Parameters: cie.Parameters, Cause: cie.Cause}
	assert.Equal(t, plain.Error(), err.Error(), "the identity is not part of the message")

	// The path of a shorter request is shorter
	_, err = Resolve[*rpMid](s)
	assert.Equal(t, []reflect.Type{reflect.TypeOf(&rpMid{}), reflect.TypeOf(&rpLeaf{})}, rpTypes(ResolutionPath(err)))

	// Nothing was cached by the failures: a retry constructs everything once
	before := leafCalls.Load()
	fail.Store(false)
	top, err := Resolve[*rpTop](s)
	require.NoError(t, err)
	assert.Nil(t, ResolutionPath(err))
	assert.Equal(t, before+1, leafCalls.Load())
	leaf, err := Resolve[*rpLeaf](s)
	require.NoError(t, err)
	assert.Same(t, leaf, top.mid.leaf)

	// and the parent scope has its own instances
	parentLeaf, err := Resolve[*rpLeaf](parent)
	require.NoError(t, err)
	assert.NotSame(t, leaf, parentLeaf)
}

func TestResolutionPath_KeysAndGroups(t *testing.T) {
	type hostIn struct {
		In
		Plugins []*rpPlugin `group:"plugins"`
	}

	c := NewCollection()
	require.NoError(t, c.AddScoped(func() *rpPlugin { return &rpPlugin{name: "ok"} }, Group("plugins")))
	require.NoError(t, c.AddScoped(func(*rpStore) *rpPlugin { return &rpPlugin{name: "bad"} }, Group("plugins")))
	require.NoError(t, c.AddScoped(func(in hostIn) *rpHost { return &rpHost{in.Plugins} }))

	// decorator: same type, different keys
	type storeIn struct {
		In
		Inner *rpStore `name:"raw"`
	}
	require.NoError(t, c.AddScoped(func(in storeIn) *rpStore { return &rpStore{in.Inner} }))
	require.NoError(t, c.AddScoped(func() *rpStore { panic("rp panic") }, Name("raw")))

	p, err := c.Build()
	require.NoError(t, err)
	defer p.Close()
	s, err := p.CreateScope(context.Background())
	require.NoError(t, err)
	defer s.Close()

	_, err = Resolve[*rpHost](s)
	require.Error(t, err)
	path := ResolutionPath(err)
	require.Len(t, path, 4, "%v", path)
	assert.Equal(t, ServiceID{Type: reflect.TypeOf(&rpHost{})}, path[0])
	assert.Equal(t, reflect.TypeOf(&rpPlugin{}), path[1].Type)
	assert.Equal(t, "plugins", path[1].Group, "the group member, reported once")
	assert.Equal(t, ServiceID{Type: reflect.TypeOf(&rpStore{})}, path[2])
	assert.Equal(t, ServiceID{Type: reflect.TypeOf(&rpStore{}), Key: "raw"}, path[3])
	assert.Equal(t, "*rpStore[raw]", path[3].String())

	var cpe *ConstructorPanicError
	require.True(t, errors.As(err, &cpe))
	assert.Equal(t, "rp panic", cpe.Panic)
	assert.Equal(t, path[3], cpe.Service)

	// Direct group resolution: same tail
	_, err = ResolveGroup[*rpPlugin](s, "plugins")
	require.Error(t, err)
	path = ResolutionPath(err)
	require.Len(t, path, 3, "%v", path)
	assert.Equal(t, "plugins", path[0].Group)

	// Not found has a path of one, with the key
	_, err = ResolveKeyed[*rpLeaf](s, "k")
	assert.Equal(t, []ServiceID{{Type: reflect.TypeOf(&rpLeaf{}), Key: "k"}}, ResolutionPath(err))
}

func TestResolutionPath_BuildAndInitializers(t *testing.T) {
	t.Run("singleton chain at build", func(t *testing.T) {
		c := NewCollection()
		require.NoError(t, c.AddSingleton(func(m *rpMid) *rpTop { return &rpTop{m} }))
		require.NoError(t, c.AddSingleton(func(l *rpLeaf) *rpMid { return &rpMid{l} }))
		require.NoError(t, c.AddSingleton(func() (*rpLeaf, error) { return nil, errRPBoom }))
		_, err := c.Build()
		require.Error(t, err)
		// Singletons are created leaves first, so the failing one is reached directly
		assert.Equal(t, []reflect.Type{reflect.TypeOf(&rpLeaf{})}, rpTypes(ResolutionPath(err)))
	})

	t.Run("missing dependency at build", func(t *testing.T) {
		c := NewCollection()
		require.NoError(t, c.AddScoped(func(l *rpLeaf) *rpMid { return &rpMid{l} }))
		_, err := c.Build()
		require.Error(t, err)
		assert.Equal(t, []reflect.Type{reflect.TypeOf(&rpLeaf{})}, rpTypes(ResolutionPath(err)))
	})

	t.Run("scope initializer", func(t *testing.T) {
		var fail atomic.Bool
		c := NewCollection()
		require.NoError(t, c.AddScoped(func() (*rpLeaf, error) {
			if fail.Load() {
				return nil, errRPBoom
			}
			return &rpLeaf{}, nil
		}))
		require.NoError(t, c.AddScoped(func(*rpLeaf) {}))
		p, err := c.Build()
		require.NoError(t, err)
		defer p.Close()

		fail.Store(true)
		_, err = p.CreateScope(context.Background())
		require.Error(t, err)
		path := ResolutionPath(err)
		require.Len(t, path, 2, "%v", path)
		assert.Equal(t, reflect.TypeOf(&rpLeaf{}), path[1].Type)

		fail.Store(false)
		s, err := p.CreateScope(context.Background())
		require.NoError(t, err)
		require.NoError(t, s.Close())
	})
}

func TestResolutionPath_UnhashableKeyDoesNotPanic(t *testing.T) {
	key := []int{1}
	err := &ResolutionError{ServiceType: reflect.TypeOf(0), ServiceKey: key,
		Cause: &ConstructorInvocationError{Service: ServiceID{Type: reflect.TypeOf(0), Key: key}, Cause: errRPBoom}}
	assert.NotPanics(t, func() {
		assert.Len(t, ResolutionPath(err), 2)
	})
}

// Errors are per call: concurrent failing resolutions in several scopes get
// independent, complete paths.
func TestResolutionPath_Concurrent(t *testing.T) {
	c := NewCollection()
	require.NoError(t, c.AddTransient(func() (*rpLeaf, error) { return nil, errRPBoom }))
	require.NoError(t, c.AddScoped(func(l *rpLeaf) *rpMid { return &rpMid{l} }))
	p, err := c.Build()
	require.NoError(t, err)
	defer p.Close()

	want := []reflect.Type{reflect.TypeOf(&rpMid{}), reflect.TypeOf(&rpLeaf{})}

	var wg sync.WaitGroup
	for g := 0; g < 8; g++ {
		wg.Add(1)
		go func() {
			defer wg.Done()
			s, err := p.CreateScope(context.Background())
			if err != nil {
				t.Error(err)
				return
			}
			defer s.Close()
			for i := 0; i < 50; i++ {
				_, err := Resolve[*rpMid](s)
				if got := rpTypes(ResolutionPath(err)); !reflect.DeepEqual(want, got) {
					t.Errorf("got %v", fmt.Sprint(got))
					return
				}
			}
		}()
	}
	wg.Wait()
}
