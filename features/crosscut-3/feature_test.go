package godi

import (
	"context"
	"errors"
	"sync"
	"sync/atomic"
	"testing"
	"time"

	"github.com/stretchr/testify/assert"
	"github.com/stretchr/testify/require"
)

func requireStats(t *testing.T, p Provider) Stats {
	t.Helper()
	stats, err := GetStats(p)
	require.NoError(t, err)
	require.Equal(t, stats.ScopesCreated, stats.ScopesClosed+uint64(stats.ScopesOpen))
	return stats
}

func TestGetStats_CountsConstructionsPerLifetime(t *testing.T) {
	t.Parallel()

	var initialized atomic.Int32
	c := BuildCollection(t,
		AddSingleton(NewTTripleReturn), // one call, three services
		AddSingleton(NewTServiceWithID("named"), Name("named")),
		AddSingleton(&TServiceWithDeps{}), // an instance value
		AddScoped(NewTScoped),
		AddScoped(func(*TService) { initialized.Add(1) }),
		AddTransient(NewTTransient),
	)
	p, err := c.Build()
	require.NoError(t, err)
	defer p.Close()

	// Build ran every singleton constructor once and the root scope's initializer
	stats := requireStats(t, p)
	assert.Equal(t, Stats{SingletonsCreated: 3, ScopedCreated: 1}, stats)

	s, err := p.CreateScope(context.Background())
	require.NoError(t, err)
	for i := 0; i < 3; i++ {
		RequireResolveFrom[*TScoped](t, s)    // constructed once, then cached
		RequireResolveFrom[*TService](t, s)   // never constructed again
		RequireResolveFrom[*TTransient](t, s) // constructed every time
	}

	stats = requireStats(t, s)
	assert.Equal(t, Stats{
		ScopesCreated: 1, ScopesOpen: 1,
		SingletonsCreated: 3, ScopedCreated: 3, TransientsCreated: 3,
	}, stats)
	assert.EqualValues(t, 2, initialized.Load())

	// Another provider built from the same collection counts on its own
	p2, err := c.Build()
	require.NoError(t, err)
	defer p2.Close()
	assert.Equal(t, Stats{SingletonsCreated: 3, ScopedCreated: 1}, requireStats(t, p2))
	assert.Equal(t, stats, requireStats(t, p))
}

func TestGetStats_CountsScopesAtEveryDepth(t *testing.T) {
	t.Parallel()
	p := BuildProvider(t, AddScoped(NewTScoped))

	s1, err := p.CreateScope(context.Background())
	require.NoError(t, err)
	child, err := s1.CreateScope(context.Background())
	require.NoError(t, err)
	_, err = child.CreateScope(context.Background())
	require.NoError(t, err)
	ctx, cancel := context.WithCancel(context.Background())
	_, err = p.CreateScope(ctx)
	require.NoError(t, err)

	stats := requireStats(t, p)
	assert.EqualValues(t, 4, stats.ScopesCreated)
	assert.Equal(t, 4, stats.ScopesOpen)

	// Closing a scope closes its descendants; closing twice counts once
	require.NoError(t, child.Close())
	require.NoError(t, child.Close())
	stats = requireStats(t, p)
	assert.EqualValues(t, 2, stats.ScopesClosed)
	assert.Equal(t, 2, stats.ScopesOpen)

	// Cancelling the context closes the scope in the background
	cancel()
	require.Eventually(t, func() bool { return requireStats(t, p).ScopesOpen == 1 }, time.Second, time.Millisecond)

	_, err = GetStats(child)
	assert.ErrorIs(t, err, ErrScopeDisposed)

	require.NoError(t, p.Close())
	_, err = GetStats(p)
	assert.ErrorIs(t, err, ErrProviderDisposed)
	_, err = GetStats(s1)
	assert.ErrorIs(t, err, ErrScopeDisposed)
	_, err = GetStats(nil)
	assert.ErrorIs(t, err, ErrProviderNil)
}

func TestGetStats_CountsFailures(t *testing.T) {
	t.Parallel()

	boom := errors.New("boom")
	var fail atomic.Bool
	c := BuildCollection(t,
		AddScoped(func() (*TService, error) {
			if fail.Load() {
				return nil, boom
			}
			return NewTService(), nil
		}),
		AddScoped(func(*TService) *TServiceWithDeps { return &TServiceWithDeps{} }),
		AddScoped(func() error {
			if fail.Load() {
				return boom
			}
			return nil
		}),
	)
	p, err := c.Build()
	require.NoError(t, err)
	defer p.Close()
	s, err := p.CreateScope(context.Background())
	require.NoError(t, err)
	base := requireStats(t, p)
	assert.Equal(t, Stats{ScopesCreated: 1, ScopesOpen: 1, ScopedCreated: 2}, base)

	// The failing dependency and the service that needed it both count as
	// failed; nothing counts as created and a retry is counted afresh
	fail.Store(true)
	_, err = Resolve[*TServiceWithDeps](s)
	require.ErrorIs(t, err, boom)
	stats := requireStats(t, p)
	assert.EqualValues(t, 2, stats.ConstructionErrors)
	assert.Equal(t, base.ScopedCreated, stats.ScopedCreated)

	// A scope whose initialization fails was never handed out
	_, err = p.CreateScope(context.Background())
	require.ErrorIs(t, err, boom)
	_, err = s.CreateScope(context.Background())
	require.ErrorIs(t, err, boom)
	stats = requireStats(t, p)
	assert.EqualValues(t, 4, stats.ConstructionErrors)
	assert.EqualValues(t, 1, stats.ScopesCreated)
	assert.Equal(t, 1, stats.ScopesOpen)

	fail.Store(false)
	RequireResolveFrom[*TServiceWithDeps](t, s)
	stats = requireStats(t, p)
	assert.EqualValues(t, 4, stats.ConstructionErrors)
	assert.Equal(t, base.ScopedCreated+2, stats.ScopedCreated)
}

func TestGetStats_ConcurrentUse(t *testing.T) {
	t.Parallel()
	p := BuildProvider(t, AddSingleton(NewTService), AddTransient(NewTTransient), AddScoped(NewTDisposable))

	const workers, cycles = 8, 40
	var wg sync.WaitGroup
	for i := 0; i < workers; i++ {
		wg.Add(1)
		go func() {
			defer wg.Done()
			for j := 0; j < cycles; j++ {
				s, err := p.CreateScope(context.Background())
				if !assert.NoError(t, err) {
					return
				}
				child, err := s.CreateScope(context.Background())
				assert.NoError(t, err)
				_, err = Resolve[*TTransient](child)
				assert.NoError(t, err)
				_, err = Resolve[*TDisposable](s)
				assert.NoError(t, err)

				stats, err := GetStats(child)
				assert.NoError(t, err)
				assert.Equal(t, stats.ScopesCreated, stats.ScopesClosed+uint64(stats.ScopesOpen))
				assert.GreaterOrEqual(t, stats.ScopesOpen, 2)
				assert.NoError(t, s.Close())
			}
		}()
	}
	wg.Wait()

	assert.Equal(t, Stats{
		ScopesCreated: 2 * workers * cycles, ScopesClosed: 2 * workers * cycles,
		SingletonsCreated: 1, ScopedCreated: workers * cycles, TransientsCreated: workers * cycles,
	}, requireStats(t, p))
}
