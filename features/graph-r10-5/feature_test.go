package graph_test

import (
	"math/rand"
	"reflect"
	"sync"
	"testing"
	"time"

	"github.com/junioryono/godi/v4/internal/graph"
	"github.com/junioryono/godi/v4/internal/reflection"
	"github.com/stretchr/testify/assert"
	"github.com/stretchr/testify/require"
)

// eqProvider is a minimal graph.Provider for the Equal tests.
type eqProvider struct {
	typ   reflect.Type
	key   any
	group string
	deps  []*reflection.Dependency
}

func (p *eqProvider) GetType() reflect.Type                     { return p.typ }
func (p *eqProvider) GetKey() any                               { return p.key }
func (p *eqProvider) GetGroup() string                          { return p.group }
func (p *eqProvider) GetDependencies() []*reflection.Dependency { return p.deps }

type (
	eqA struct{}
	eqB struct{}
	eqC struct{}
	eqD struct{}
	eqH interface{ Handle() }
)

var (
	eqTypeA = reflect.TypeOf(eqA{})
	eqTypeB = reflect.TypeOf(eqB{})
	eqTypeC = reflect.TypeOf(eqC{})
	eqTypeD = reflect.TypeOf(eqD{})
	eqTypeH = reflect.TypeOf((*eqH)(nil)).Elem()
)

func eqNode(t reflect.Type, deps ...reflect.Type) *eqProvider {
	p := &eqProvider{typ: t}
	for _, d := range deps {
		p.deps = append(p.deps, &reflection.Dependency{Type: d})
	}
	return p
}

func eqGraph(t *testing.T, providers ...graph.Provider) *graph.DependencyGraph {
	t.Helper()
	g := graph.NewDependencyGraph()
	for _, p := range providers {
		require.NoError(t, g.AddProvider(p))
	}
	return g
}

// eqBoth asserts the verdict in both directions.
func eqBoth(t *testing.T, want bool, a, b *graph.DependencyGraph, msg string) {
	t.Helper()
	assert.Equal(t, want, a.Equal(b), msg)
	assert.Equal(t, want, b.Equal(a), msg+" (reversed)")
}

func TestEqual_Basics(t *testing.T) {
	empty := graph.NewDependencyGraph()
	var none *graph.DependencyGraph

	assert.True(t, empty.Equal(empty))
	eqBoth(t, true, empty, graph.NewDependencyGraphWithCapacity(8), "two empty graphs")
	assert.False(t, empty.Equal(nil))
	assert.False(t, none.Equal(empty))
	assert.False(t, none.Equal(none))

	g := eqGraph(t, eqNode(eqTypeA), eqNode(eqTypeB, eqTypeA))
	assert.True(t, g.Equal(g))
	eqBoth(t, false, g, empty, "filled against empty")

	// Other provider objects, other registration order: same structure
	h := eqGraph(t, eqNode(eqTypeB, eqTypeA), eqNode(eqTypeA))
	eqBoth(t, true, g, h, "order of registration")
}

func TestEqual_TellsStructuresApart(t *testing.T) {
	base := func() *graph.DependencyGraph {
		return eqGraph(t, eqNode(eqTypeA), eqNode(eqTypeB, eqTypeA), eqNode(eqTypeC, eqTypeA, eqTypeB))
	}
	eqBoth(t, true, base(), base(), "same construction")

	// One more node
	eqBoth(t, false, base(), eqGraph(t, eqNode(eqTypeA), eqNode(eqTypeB, eqTypeA), eqNode(eqTypeC, eqTypeA, eqTypeB), eqNode(eqTypeD)), "extra node")

	// Same nodes, one edge fewer
	eqBoth(t, false, base(), eqGraph(t, eqNode(eqTypeA), eqNode(eqTypeB, eqTypeA), eqNode(eqTypeC, eqTypeB)), "missing edge")

	// Same nodes, same number of edges, one edge turned elsewhere
	eqBoth(t, false,
		eqGraph(t, eqNode(eqTypeA), eqNode(eqTypeB), eqNode(eqTypeC, eqTypeA)),
		eqGraph(t, eqNode(eqTypeA), eqNode(eqTypeB), eqNode(eqTypeC, eqTypeB)), "edge target")

	// A placeholder is not a registration
	eqBoth(t, false,
		eqGraph(t, eqNode(eqTypeB, eqTypeA)),
		eqGraph(t, eqNode(eqTypeB, eqTypeA), eqNode(eqTypeA)), "placeholder against provider")

	// A repeated parameter counts (it shows in the degrees) ...
	eqBoth(t, false,
		eqGraph(t, eqNode(eqTypeA), eqNode(eqTypeB, eqTypeA)),
		eqGraph(t, eqNode(eqTypeA), eqNode(eqTypeB, eqTypeA, eqTypeA)), "repeated dependency")
	// ... and is not mistaken for two different dependencies
	eqBoth(t, false,
		eqGraph(t, eqNode(eqTypeA), eqNode(eqTypeC), eqNode(eqTypeB, eqTypeA, eqTypeA)),
		eqGraph(t, eqNode(eqTypeA), eqNode(eqTypeC), eqNode(eqTypeB, eqTypeA, eqTypeC)), "repeated against distinct")
	// ... while the order of the parameters does not matter
	eqBoth(t, true,
		eqGraph(t, eqNode(eqTypeA), eqNode(eqTypeB), eqNode(eqTypeC, eqTypeA, eqTypeB)),
		eqGraph(t, eqNode(eqTypeA), eqNode(eqTypeB), eqNode(eqTypeC, eqTypeB, eqTypeA)), "parameter order")

	// Key and group are part of the identity
	eqBoth(t, false,
		eqGraph(t, &eqProvider{typ: eqTypeA, key: "x"}),
		eqGraph(t, &eqProvider{typ: eqTypeA, key: "y"}), "key")
	eqBoth(t, false,
		eqGraph(t, &eqProvider{typ: eqTypeA, key: 1}),
		eqGraph(t, &eqProvider{typ: eqTypeA, key: "1"}), "key type")
	eqBoth(t, false,
		eqGraph(t, &eqProvider{typ: eqTypeH, key: "m", group: "g1"}),
		eqGraph(t, &eqProvider{typ: eqTypeH, key: "m", group: "g2"}), "group")
	eqBoth(t, false,
		eqGraph(t, eqNode(eqTypeA), &eqProvider{typ: eqTypeB, deps: []*reflection.Dependency{{Type: eqTypeA}}}),
		eqGraph(t, eqNode(eqTypeA), &eqProvider{typ: eqTypeB, deps: []*reflection.Dependency{{Type: eqTypeA, Key: "x"}}}), "keyed dependency")
}

func TestEqual_Groups(t *testing.T) {
	members := func(keys ...string) []graph.Provider {
		out := []graph.Provider{&eqProvider{typ: eqTypeA, deps: []*reflection.Dependency{{Type: eqTypeH, Group: "hs"}}}}
		for _, k := range keys {
			out = append(out, &eqProvider{typ: eqTypeH, key: k, group: "hs"})
		}
		return out
	}

	// The group reference lists its members in an arbitrary order: many tries, always equal
	for i := 0; i < 20; i++ {
		eqBoth(t, true, eqGraph(t, members("m1", "m2", "m3")...), eqGraph(t, members("m3", "m1", "m2")...), "member order")
	}
	eqBoth(t, false, eqGraph(t, members("m1", "m2", "m3")...), eqGraph(t, members("m1", "m2")...), "fewer members")

	// Deferred adds completed by the cycle check give the same structure as immediate adds
	deferred := graph.NewDependencyGraph()
	for _, p := range members("m2", "m1") {
		require.NoError(t, deferred.AddProviderDeferred(p))
	}
	require.NoError(t, deferred.DetectCycles())
	eqBoth(t, true, deferred, eqGraph(t, members("m1", "m2")...), "deferred against immediate")
}

func TestEqual_FollowsMutations(t *testing.T) {
	a := eqGraph(t, eqNode(eqTypeA), eqNode(eqTypeB, eqTypeA))
	b := eqGraph(t, eqNode(eqTypeA), eqNode(eqTypeB, eqTypeA))
	eqBoth(t, true, a, b, "start")

	// Warm caches and flags on one side only: they are not structure
	_, err := a.TopologicalSort()
	require.NoError(t, err)
	a.CalculateDepths()
	require.NoError(t, a.DetectCycles())
	eqBoth(t, true, a, b, "caches")

	// A rejected add changes nothing
	require.Error(t, a.AddProvider(eqNode(eqTypeA, eqTypeB)))
	eqBoth(t, true, a, b, "rejected add")

	// Replacement
	require.NoError(t, a.AddProvider(eqNode(eqTypeB)))
	eqBoth(t, false, a, b, "replaced on one side")
	require.NoError(t, b.AddProvider(eqNode(eqTypeB)))
	eqBoth(t, true, a, b, "replaced on both sides")

	// Removal also takes the edges pointing at the removed node
	require.NoError(t, a.AddProvider(eqNode(eqTypeC, eqTypeA)))
	require.NoError(t, b.AddProvider(eqNode(eqTypeC, eqTypeA)))
	a.RemoveProvider(eqTypeA, nil, "")
	eqBoth(t, false, a, b, "removed on one side")
	eqBoth(t, true, a, eqGraph(t, eqNode(eqTypeB), eqNode(eqTypeC)), "what is left")

	a.Clear()
	eqBoth(t, true, a, graph.NewDependencyGraph(), "cleared")

	// Equal itself changed nothing on either side
	sorted, err := b.TopologicalSort()
	require.NoError(t, err)
	assert.Len(t, sorted, 3)
	assert.Equal(t, 3, b.Size())
}

func TestEqual_AgreesWithQueries(t *testing.T) {
	// Equal must be true exactly when the edge relations are the same
	rng := rand.New(rand.NewSource(7))
	build := func(edges [4][4]int) *graph.DependencyGraph {
		g := graph.NewDependencyGraph()
		for from := 0; from < 4; from++ {
			p := &eqProvider{typ: eqTypeD, key: from}
			for to := 0; to < from; to++ { // acyclic by construction
				for n := 0; n < edges[from][to]; n++ {
					p.deps = append(p.deps, &reflection.Dependency{Type: eqTypeD, Key: to})
				}
			}
			require.NoError(t, g.AddProviderDeferred(p))
		}
		require.NoError(t, g.DetectCycles())
		return g
	}

	for round := 0; round < 200; round++ {
		var x, y [4][4]int
		for from := 0; from < 4; from++ {
			for to := 0; to < from; to++ {
				x[from][to] = rng.Intn(3)
				y[from][to] = x[from][to]
			}
		}
		if rng.Intn(2) == 0 {
			from := 1 + rng.Intn(3)
			y[from][rng.Intn(from)] = rng.Intn(3)
		}
		eqBoth(t, x == y, build(x), build(y), "random structures")
	}
}

func TestEqual_NoLockOrderDeadlock(t *testing.T) {
	a := eqGraph(t, eqNode(eqTypeA), eqNode(eqTypeB, eqTypeA))
	b := eqGraph(t, eqNode(eqTypeA), eqNode(eqTypeB, eqTypeA))

	done := make(chan struct{})
	go func() {
		defer close(done)

		var wg sync.WaitGroup
		for w := 0; w < 6; w++ {
			wg.Add(1)
			go func(w int) {
				defer wg.Done()
				for i := 0; i < 500; i++ {
					switch w {
					case 0, 1:
						_ = a.Equal(b)
					case 2, 3:
						_ = b.Equal(a)
					case 4:
						// Pending writers are what makes nested read locks deadlock
						_ = a.AddProvider(eqNode(eqTypeC, eqTypeB))
						a.RemoveProvider(eqTypeC, nil, "")
					default:
						_ = b.AddProvider(eqNode(eqTypeC, eqTypeB))
						b.RemoveProvider(eqTypeC, nil, "")
					}
				}
			}(w)
		}
		wg.Wait()
	}()

	select {
	case <-done:
	case <-time.After(30 * time.Second):
		t.Fatal("Equal deadlocked")
	}

	eqBoth(t, true, a, b, "after the writers are done")
}
