package godi

import (
	"context"
	"errors"
	"fmt"
	"sync"
	"testing"

	"github.com/stretchr/testify/assert"
	"github.com/stretchr/testify/require"
)

type ekLeaf struct{ n int }
type ekMid struct{ leaf *ekLeaf }
type ekTop struct{ mid *ekMid }
type ekA struct{}
type ekB struct{}

var errEKBoom = errors.New("ek boom")

// ekWrappers are the wrappers an error can travel through before it reaches
// the caller. The kind must survive all of them.
func ekWrappers(err error) []error {
	return []error{
		err,
		fmt.Errorf("ctx: %w", err),
		&BuildError{Phase: "validation", Details: "d", Cause: err},
		BuildError{Phase: "validation", Details: "d", Cause: err},
		ModuleError{Module: "outer", Cause: ModuleError{Module: "inner", Cause: err}},
		&RegistrationError{Operation: "register", Cause: err},
		&ResolutionError{Cause: fmt.Errorf("failed to resolve group member: %w", err)},
		&GraphOperationError{Operation: "add", Cause: err},
		errors.Join(errors.New("unrelated"), err),
	}
}

func TestKindOf_Nil(t *testing.T) {
	assert.Equal(t, KindNone, KindOf(nil))
	assert.True(t, IsKind(nil, KindNone))
	assert.False(t, IsKind(nil, KindNotFound))
	assert.Equal(t, "none", KindNone.String())
	assert.Equal(t, "unknown", ErrorKind(999).String())
}

func TestKindOf_Foreign(t *testing.T) {
	err := errors.New("something else")
	assert.Equal(t, KindUnknown, KindOf(err))
	assert.True(t, IsKind(err, KindUnknown))
	assert.Equal(t, KindUnknown, KindOf(fmt.Errorf("w: %w", err)))
	assert.False(t, IsKind(ErrServiceNotFound, KindUnknown))
}

func TestKindOf_SyntheticThroughEveryWrapper(t *testing.T) {
	cases := []struct {
		name string
		err  error
		kind ErrorKind
	}{
		{"scope disposed", ErrScopeDisposed, KindDisposed},
		{"provider disposed", ErrProviderDisposed, KindDisposed},
		{"circular ptr", &CircularDependencyError{}, KindCircularDependency},
		{"circular value", CircularDependencyError{}, KindCircularDependency},
		{"conflict ptr", &LifetimeConflictError{ServiceLifetime: Singleton, DependencyLifetime: Scoped}, KindLifetimeConflict},
		{"conflict value", LifetimeConflictError{}, KindLifetimeConflict},
		{"registered ptr", &AlreadyRegisteredError{}, KindAlreadyRegistered},
		{"registered value", AlreadyRegisteredError{}, KindAlreadyRegistered},
		{"not found", ErrServiceNotFound, KindNotFound},
		{"panic ptr", &ConstructorPanicError{Panic: "x"}, KindConstructorPanic},
		{"panic value", ConstructorPanicError{Panic: "x"}, KindConstructorPanic},
		{"cancelled", context.Canceled, KindCancelled},
		{"deadline", context.DeadlineExceeded, KindCancelled},
		{"timeout", TimeoutError{}, KindCancelled},
		{"disposal ptr", &DisposalError{Context: "scope", Errors: []error{errEKBoom}}, KindDisposal},
		{"disposal value", DisposalError{Context: "scope", Errors: []error{errEKBoom}}, KindDisposal},
		{"ctor failed", &ConstructorInvocationError{Cause: errEKBoom}, KindConstructorFailed},
		{"validation", &ValidationError{Cause: errEKBoom}, KindInvalid},
		{"lifetime value", LifetimeError{Value: 42}, KindInvalid},
		{"mismatch", &TypeMismatchError{Context: "c"}, KindInvalid},
		{"reflection", &ReflectionAnalysisError{Operation: "analyze", Cause: errEKBoom}, KindInvalid},
		{"key nil", ErrServiceKeyNil, KindInvalid},
		{"group empty", ErrGroupNameEmpty, KindInvalid},
	}

	for _, tc := range cases {
		t.Run(tc.name, func(t *testing.T) {
			for i, wrapped := range ekWrappers(tc.err) {
				assert.Equal(t, tc.kind, KindOf(wrapped), "wrapper %d", i)
				assert.True(t, IsKind(wrapped, tc.kind), "wrapper %d", i)
				assert.False(t, IsKind(wrapped, KindUnknown), "wrapper %d", i)
			}
		})
	}
}

// The root cause wins over the wrappers that merely transport it.
func TestKindOf_RootCauseWins(t *testing.T) {
	notFound := &ConstructorInvocationError{Cause: &ResolutionError{Cause: ErrServiceNotFound}}
	assert.Equal(t, KindNotFound, KindOf(notFound))
	assert.True(t, IsKind(notFound, KindConstructorFailed))

	disposed := &ConstructorInvocationError{Cause: fmt.Errorf("failed to build arguments: %w", ErrScopeDisposed)}
	assert.Equal(t, KindDisposed, KindOf(disposed))

	registered := &RegistrationError{Operation: "register", Cause: &AlreadyRegisteredError{}}
	assert.Equal(t, KindAlreadyRegistered, KindOf(registered))
	assert.True(t, IsKind(registered, KindInvalid))

	cancelled := &ConstructorInvocationError{Cause: fmt.Errorf("constructor error: %w", context.Canceled)}
	assert.Equal(t, KindCancelled, KindOf(cancelled))
}

// agreesWithErrorsIsAs checks the documented contract of every kind against
// errors.Is / errors.As on a real error.
func ekAssertAgrees(t *testing.T, err error) {
	t.Helper()

	var cde *CircularDependencyError
	var lce *LifetimeConflictError
	var are *AlreadyRegisteredError
	var cpe *ConstructorPanicError
	var cie *ConstructorInvocationError
	var de *DisposalError

	assert.Equal(t, errors.Is(err, ErrServiceNotFound), IsKind(err, KindNotFound))
	assert.Equal(t, errors.Is(err, ErrScopeDisposed) || errors.Is(err, ErrProviderDisposed), IsKind(err, KindDisposed))
	assert.Equal(t, errors.As(err, &cde), IsKind(err, KindCircularDependency))
	assert.Equal(t, errors.As(err, &lce), IsKind(err, KindLifetimeConflict))
	assert.Equal(t, errors.As(err, &are), IsKind(err, KindAlreadyRegistered))
	assert.Equal(t, errors.As(err, &cpe), IsKind(err, KindConstructorPanic))
	assert.Equal(t, errors.As(err, &cie), IsKind(err, KindConstructorFailed))
	assert.Equal(t, errors.As(err, &de), IsKind(err, KindDisposal))
	assert.True(t, IsKind(err, KindOf(err)))
}

func TestKindOf_RealBuildErrors(t *testing.T) {
	t.Run("circular", func(t *testing.T) {
		c := NewCollection()
		require.NoError(t, c.AddSingleton(func(*ekB) *ekA { return &ekA{} }))
		require.NoError(t, c.AddSingleton(func(*ekA) *ekB { return &ekB{} }))
		_, err := c.Build()
		require.Error(t, err)
		assert.Equal(t, KindCircularDependency, KindOf(err))
		ekAssertAgrees(t, err)
	})

	t.Run("lifetime conflict", func(t *testing.T) {
		c := NewCollection()
		require.NoError(t, c.AddScoped(func() *ekLeaf { return &ekLeaf{} }))
		require.NoError(t, c.AddSingleton(func(l *ekLeaf) *ekMid { return &ekMid{l} }))
		_, err := c.Build()
		require.Error(t, err)
		assert.Equal(t, KindLifetimeConflict, KindOf(err))
		ekAssertAgrees(t, err)
	})

	t.Run("missing dependency", func(t *testing.T) {
		c := NewCollection()
		require.NoError(t, c.AddScoped(func(l *ekLeaf) *ekMid { return &ekMid{l} }))
		_, err := c.Build()
		require.Error(t, err)
		assert.Equal(t, KindNotFound, KindOf(err))
		ekAssertAgrees(t, err)
	})

	t.Run("singleton constructor error", func(t *testing.T) {
		c := NewCollection()
		require.NoError(t, c.AddSingleton(func() (*ekLeaf, error) { return nil, errEKBoom }))
		_, err := c.Build()
		require.Error(t, err)
		assert.Equal(t, KindConstructorFailed, KindOf(err))
		assert.ErrorIs(t, err, errEKBoom)
		ekAssertAgrees(t, err)
	})

	t.Run("singleton constructor panic", func(t *testing.T) {
		c := NewCollection()
		require.NoError(t, c.AddSingleton(func() *ekLeaf { panic("ek panic") }))
		_, err := c.Build()
		require.Error(t, err)
		assert.Equal(t, KindConstructorPanic, KindOf(err))
		ekAssertAgrees(t, err)
	})

	t.Run("cancelled build", func(t *testing.T) {
		c := NewCollection()
		require.NoError(t, c.AddSingleton(func() *ekLeaf { return &ekLeaf{} }))
		ctx, cancel := context.WithCancel(context.Background())
		cancel()
		_, err := c.BuildWithContext(ctx)
		require.Error(t, err)
		assert.Equal(t, KindCancelled, KindOf(err))
		ekAssertAgrees(t, err)
	})
}

func TestKindOf_RegistrationAndModules(t *testing.T) {
	c := NewCollection()
	require.NoError(t, c.AddSingleton(func() *ekLeaf { return &ekLeaf{} }))

	err := c.AddSingleton(func() *ekLeaf { return &ekLeaf{} })
	require.Error(t, err)
	assert.Equal(t, KindAlreadyRegistered, KindOf(err))
	ekAssertAgrees(t, err)

	// Through two levels of named modules
	module := NewModule("outer", NewModule("inner", AddScoped(func() *ekLeaf { return &ekLeaf{} })))
	err = c.AddModules(module)
	require.Error(t, err)
	assert.Equal(t, KindAlreadyRegistered, KindOf(err))
	ekAssertAgrees(t, err)

	// The rejected registrations left the collection alone
	assert.Equal(t, 1, c.Count())

	err = c.AddSingleton(nil)
	require.Error(t, err)
	assert.Equal(t, KindInvalid, KindOf(err))
	ekAssertAgrees(t, err)
}

func TestKindOf_ResolutionErrors(t *testing.T) {
	var failScoped bool
	var mu sync.Mutex

	c := NewCollection()
	require.NoError(t, c.AddSingleton(func() *ekA { return &ekA{} }))
	require.NoError(t, c.AddScoped(func() (*ekLeaf, error) {
		mu.Lock()
		defer mu.Unlock()
		if failScoped {
			return nil, errEKBoom
		}
		return &ekLeaf{n: 1}, nil
	}))
	require.NoError(t, c.AddScoped(func(l *ekLeaf) *ekMid { return &ekMid{l} }))
	require.NoError(t, c.AddTransient(func() *ekB { panic(errEKBoom) }))

	p, err := c.Build()
	require.NoError(t, err)
	defer p.Close()

	s, err := p.CreateScope(context.Background())
	require.NoError(t, err)

	// not registered
	_, err = Resolve[*ekTop](s)
	assert.Equal(t, KindNotFound, KindOf(err))
	ekAssertAgrees(t, err)

	_, err = ResolveKeyed[*ekLeaf](s, "nope")
	assert.Equal(t, KindNotFound, KindOf(err))

	// nil key, empty group
	_, err = ResolveKeyed[*ekLeaf](s, nil)
	assert.Equal(t, KindInvalid, KindOf(err))
	_, err = ResolveGroup[*ekLeaf](s, "")
	assert.Equal(t, KindInvalid, KindOf(err))

	// nested constructor error; the failure is not cached and a retry succeeds
	mu.Lock()
	failScoped = true
	mu.Unlock()
	_, err = Resolve[*ekMid](s)
	require.Error(t, err)
	assert.Equal(t, KindConstructorFailed, KindOf(err))
	assert.ErrorIs(t, err, errEKBoom)
	ekAssertAgrees(t, err)

	mu.Lock()
	failScoped = false
	mu.Unlock()
	mid, err := Resolve[*ekMid](s)
	require.NoError(t, err)
	assert.Equal(t, KindNone, KindOf(err))
	leaf, err := Resolve[*ekLeaf](s)
	require.NoError(t, err)
	assert.Same(t, leaf, mid.leaf)

	// panic
	_, err = Resolve[*ekB](s)
	require.Error(t, err)
	assert.Equal(t, KindConstructorPanic, KindOf(err))
	ekAssertAgrees(t, err)

	// closed scope, nested scope closed through its parent, closed provider
	child, err := s.CreateScope(context.Background())
	require.NoError(t, err)
	require.NoError(t, s.Close())

	_, err = Resolve[*ekLeaf](s)
	assert.Equal(t, KindDisposed, KindOf(err))
	assert.ErrorIs(t, err, ErrScopeDisposed)
	_, err = Resolve[*ekLeaf](child)
	assert.Equal(t, KindDisposed, KindOf(err))
	_, err = s.CreateScope(context.Background())
	assert.Equal(t, KindDisposed, KindOf(err))

	require.NoError(t, p.Close())
	_, err = Resolve[*ekA](p)
	assert.Equal(t, KindDisposed, KindOf(err))
	assert.ErrorIs(t, err, ErrProviderDisposed)
	_, err = p.CreateScope(context.Background())
	assert.Equal(t, KindDisposed, KindOf(err))
}

type ekCloser struct{ err error }

func (c *ekCloser) Close() error { return c.err }

func TestKindOf_DisposalError(t *testing.T) {
	c := NewCollection()
	require.NoError(t, c.AddScoped(func() *ekCloser { return &ekCloser{err: errEKBoom} }))
	p, err := c.Build()
	require.NoError(t, err)

	s, err := p.CreateScope(context.Background())
	require.NoError(t, err)
	child, err := s.CreateScope(context.Background())
	require.NoError(t, err)
	_, err = Resolve[*ekCloser](child)
	require.NoError(t, err)

	err = s.Close()
	require.Error(t, err)
	assert.Equal(t, KindDisposal, KindOf(err))
	ekAssertAgrees(t, err)

	// Second close reports nothing
	assert.Equal(t, KindNone, KindOf(s.Close()))
	assert.Equal(t, KindNone, KindOf(p.Close()))
}

// Concurrent resolutions overlapping a Close yield a value or a disposed error.
func TestKindOf_ConcurrentClose(t *testing.T) {
	c := NewCollection()
	require.NoError(t, c.AddScoped(func() *ekLeaf { return &ekLeaf{} }))
	require.NoError(t, c.AddScoped(func(l *ekLeaf) *ekMid { return &ekMid{l} }))
	p, err := c.Build()
	require.NoError(t, err)
	defer p.Close()

	for round := 0; round < 20; round++ {
		s, err := p.CreateScope(context.Background())
		require.NoError(t, err)

		var wg sync.WaitGroup
		for g := 0; g < 8; g++ {
			wg.Add(1)
			go func() {
				defer wg.Done()
				for i := 0; i < 20; i++ {
					_, err := Resolve[*ekMid](s)
					if kind := KindOf(err); kind != KindNone && kind != KindDisposed {
						t.Errorf("unexpected kind %v: %v", kind, err)
					}
				}
			}()
		}
		require.NoError(t, s.Close())
		wg.Wait()
	}
}
