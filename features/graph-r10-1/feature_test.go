package graph_test

import (
	"errors"
	"reflect"
	"sync"
	"testing"

	"github.com/junioryono/godi/v4/internal/graph"
	"github.com/junioryono/godi/v4/internal/reflection"
	"github.com/stretchr/testify/assert"
	"github.com/stretchr/testify/require"
)

// lvProvider is a minimal graph.Provider for the Levels tests.
type lvProvider struct {
	typ   reflect.Type
	key   any
	group string
	deps  []*reflection.Dependency
}

func (p *lvProvider) GetType() reflect.Type                     { return p.typ }
func (p *lvProvider) GetKey() any                               { return p.key }
func (p *lvProvider) GetGroup() string                          { return p.group }
func (p *lvProvider) GetDependencies() []*reflection.Dependency { return p.deps }

type (
	lvA struct{}
	lvB struct{}
	lvC struct{}
	lvD struct{}
	lvE struct{}
	lvH interface{ Handle() }
)

var (
	lvTypeA = reflect.TypeOf(lvA{})
	lvTypeB = reflect.TypeOf(lvB{})
	lvTypeC = reflect.TypeOf(lvC{})
	lvTypeD = reflect.TypeOf(lvD{})
	lvTypeE = reflect.TypeOf(lvE{})
	lvTypeH = reflect.TypeOf((*lvH)(nil)).Elem()
)

func lvNode(t reflect.Type, deps ...reflect.Type) *lvProvider {
	p := &lvProvider{typ: t}
	for _, d := range deps {
		p.deps = append(p.deps, &reflection.Dependency{Type: d})
	}
	return p
}

func lvKey(t reflect.Type) graph.NodeKey { return graph.NodeKey{Type: t} }

// lvCheck verifies the defining property of a levelling against the graph's
// own direct-dependency query.
func lvCheck(t *testing.T, g *graph.DependencyGraph, levels [][]graph.NodeKey) {
	t.Helper()

	levelOf := make(map[graph.NodeKey]int)
	for i, level := range levels {
		require.NotEmpty(t, level, "level %d is empty", i)
		for _, key := range level {
			_, dup := levelOf[key]
			require.False(t, dup, "%v listed twice", key)
			levelOf[key] = i
		}
	}
	require.Equal(t, g.Size(), len(levelOf), "every node is listed exactly once")

	for key, level := range levelOf {
		deepest := -1
		for _, dep := range g.GetDependencies(key.Type, key.Key, key.Group) {
			depLevel, ok := levelOf[dep]
			require.True(t, ok)
			if depLevel > deepest {
				deepest = depLevel
			}
		}
		assert.Equal(t, deepest+1, level, "level of %v", key)
	}
}

func TestLevels_Empty(t *testing.T) {
	levels, err := graph.NewDependencyGraph().Levels()
	require.NoError(t, err)
	assert.Empty(t, levels)
}

func TestLevels_DiamondWithShortcut(t *testing.T) {
	g := graph.NewDependencyGraph()
	// E has a shortcut edge to A and a long path through D: it must end up
	// behind D, not next to B and C.
	require.NoError(t, g.AddProvider(lvNode(lvTypeE, lvTypeA, lvTypeD)))
	require.NoError(t, g.AddProvider(lvNode(lvTypeD, lvTypeB, lvTypeC)))
	require.NoError(t, g.AddProvider(lvNode(lvTypeC, lvTypeA)))
	require.NoError(t, g.AddProvider(lvNode(lvTypeB, lvTypeA)))
	require.NoError(t, g.AddProvider(lvNode(lvTypeA)))

	levels, err := g.Levels()
	require.NoError(t, err)
	assert.Equal(t, [][]graph.NodeKey{
		{lvKey(lvTypeA)},
		{lvKey(lvTypeB), lvKey(lvTypeC)},
		{lvKey(lvTypeD)},
		{lvKey(lvTypeE)},
	}, levels)
	lvCheck(t, g, levels)

	// Same answer as the mutating depth calculation
	g.CalculateDepths()
	for i, level := range levels {
		for _, key := range level {
			assert.Equal(t, i, g.GetNode(key.Type, key.Key, key.Group).Depth)
		}
	}
}

func TestLevels_IsPure(t *testing.T) {
	g := graph.NewDependencyGraph()
	require.NoError(t, g.AddProvider(lvNode(lvTypeA)))
	require.NoError(t, g.AddProvider(lvNode(lvTypeB, lvTypeA)))
	require.NoError(t, g.AddProvider(lvNode(lvTypeC, lvTypeB)))

	sortedBefore, err := g.TopologicalSort()
	require.NoError(t, err)

	_, err = g.Levels()
	require.NoError(t, err)

	// Depth is owned by CalculateDepths, which has not run
	node := g.GetNode(lvTypeC, nil, "")
	assert.Equal(t, 0, node.Depth)
	assert.False(t, node.Visited)
	assert.False(t, node.Visiting)

	sortedAfter, err := g.TopologicalSort()
	require.NoError(t, err)
	assert.Equal(t, sortedBefore, sortedAfter)

	// The result belongs to the caller
	levels, err := g.Levels()
	require.NoError(t, err)
	levels[0][0] = lvKey(lvTypeE)
	again, err := g.Levels()
	require.NoError(t, err)
	assert.Equal(t, lvKey(lvTypeA), again[0][0])
}

func TestLevels_FollowsMutations(t *testing.T) {
	g := graph.NewDependencyGraph()
	require.NoError(t, g.AddProvider(lvNode(lvTypeA)))
	require.NoError(t, g.AddProvider(lvNode(lvTypeB, lvTypeA)))
	require.NoError(t, g.AddProvider(lvNode(lvTypeC, lvTypeB)))

	// Replace C by a provider without dependencies
	require.NoError(t, g.AddProvider(lvNode(lvTypeC)))
	levels, err := g.Levels()
	require.NoError(t, err)
	assert.Equal(t, [][]graph.NodeKey{{lvKey(lvTypeA), lvKey(lvTypeC)}, {lvKey(lvTypeB)}}, levels)

	// A rejected add leaves the levelling as it was
	require.Error(t, g.AddProvider(lvNode(lvTypeA, lvTypeB)))
	after, err := g.Levels()
	require.NoError(t, err)
	assert.Equal(t, levels, after)

	g.RemoveProvider(lvTypeA, nil, "")
	levels, err = g.Levels()
	require.NoError(t, err)
	assert.Equal(t, [][]graph.NodeKey{{lvKey(lvTypeB), lvKey(lvTypeC)}}, levels)
	lvCheck(t, g, levels)

	g.Clear()
	levels, err = g.Levels()
	require.NoError(t, err)
	assert.Empty(t, levels)
}

func TestLevels_GroupsAndKeys(t *testing.T) {
	g := graph.NewDependencyGraph()

	// Two members of group "handlers", one of which needs the keyed A
	m1 := &lvProvider{typ: lvTypeH, key: "m1", group: "handlers"}
	m2 := &lvProvider{typ: lvTypeH, key: "m2", group: "handlers",
		deps: []*reflection.Dependency{{Type: lvTypeA, Key: "primary"}}}
	keyedA := &lvProvider{typ: lvTypeA, key: "primary"}
	consumer := &lvProvider{typ: lvTypeB,
		deps: []*reflection.Dependency{{Type: lvTypeH, Group: "handlers"}}}

	for _, p := range []graph.Provider{consumer, m2, keyedA, m1} {
		require.NoError(t, g.AddProviderDeferred(p))
	}
	require.NoError(t, g.DetectCycles())

	levels, err := g.Levels()
	require.NoError(t, err)
	lvCheck(t, g, levels)

	groupRef := graph.NodeKey{Type: lvTypeH, Group: "handlers"}
	assert.Equal(t, [][]graph.NodeKey{
		{{Type: lvTypeA, Key: "primary"}, {Type: lvTypeH, Key: "m1", Group: "handlers"}},
		{{Type: lvTypeH, Key: "m2", Group: "handlers"}},
		{groupRef},
		{lvKey(lvTypeB)},
	}, levels)
}

func TestLevels_Cycle(t *testing.T) {
	g := graph.NewDependencyGraph()
	// A is fine, B -> C -> D -> B is a cycle, E hangs off the cycle
	require.NoError(t, g.AddProviderDeferred(lvNode(lvTypeA)))
	require.NoError(t, g.AddProviderDeferred(lvNode(lvTypeB, lvTypeA, lvTypeC)))
	require.NoError(t, g.AddProviderDeferred(lvNode(lvTypeC, lvTypeD)))
	require.NoError(t, g.AddProviderDeferred(lvNode(lvTypeD, lvTypeB)))
	require.NoError(t, g.AddProviderDeferred(lvNode(lvTypeE, lvTypeD)))
	require.Error(t, g.DetectCycles())

	levels, err := g.Levels()
	assert.Nil(t, levels)

	var cErr *graph.CircularDependencyError
	require.True(t, errors.As(err, &cErr))

	// The reported path is a closed walk along real edges
	require.GreaterOrEqual(t, len(cErr.Path), 2)
	assert.Equal(t, cErr.Path[0], cErr.Path[len(cErr.Path)-1])
	assert.Equal(t, cErr.Node, cErr.Path[0])
	for i := 0; i+1 < len(cErr.Path); i++ {
		from, to := cErr.Path[i], cErr.Path[i+1]
		assert.Contains(t, g.GetDependencies(from.Type, from.Key, from.Group), to)
	}
	assert.NotContains(t, cErr.Path, lvKey(lvTypeA))
	assert.NotContains(t, cErr.Path, lvKey(lvTypeE))

	// The failed query changed nothing: the graph is still reported cyclic
	// and breaking the cycle makes both answers flip together
	assert.False(t, g.IsAcyclic())
	g.RemoveProvider(lvTypeD, nil, "")
	assert.True(t, g.IsAcyclic())
	levels, err = g.Levels()
	require.NoError(t, err)
	lvCheck(t, g, levels)

	// Self dependency
	self := graph.NewDependencyGraph()
	require.NoError(t, self.AddProviderDeferred(lvNode(lvTypeA, lvTypeA)))
	_, err = self.Levels()
	require.True(t, errors.As(err, &cErr))
	assert.Equal(t, []graph.NodeKey{lvKey(lvTypeA), lvKey(lvTypeA)}, cErr.Path)
}

func TestLevels_Concurrent(t *testing.T) {
	g := graph.NewDependencyGraph()
	require.NoError(t, g.AddProvider(lvNode(lvTypeA)))
	require.NoError(t, g.AddProvider(lvNode(lvTypeB, lvTypeA)))

	var wg sync.WaitGroup
	for w := 0; w < 4; w++ {
		wg.Add(1)
		go func(w int) {
			defer wg.Done()
			for i := 0; i < 200; i++ {
				switch w {
				case 0:
					_ = g.AddProvider(lvNode(lvTypeC, lvTypeB))
					g.RemoveProvider(lvTypeC, nil, "")
				case 1:
					_, _ = g.TopologicalSort()
					g.CalculateDepths()
				default:
					levels, err := g.Levels()
					if assert.NoError(t, err) {
						// A and B are always present, C comes and goes
						assert.Equal(t, []graph.NodeKey{lvKey(lvTypeA)}, levels[0])
						assert.Equal(t, []graph.NodeKey{lvKey(lvTypeB)}, levels[1])
						assert.LessOrEqual(t, len(levels), 3)
					}
				}
			}
		}(w)
	}
	wg.Wait()
}
