package godi

import (
	"context"
	"errors"
	"sync"
	"testing"
	"time"

	"github.com/stretchr/testify/require"
)

func requireScopeCount(t *testing.T, p Provider, want int) {
	t.Helper()
	got, err := ScopeCount(p)
	require.NoError(t, err)
	require.Equal(t, want, got)
}

func TestScopeCount_NestedScopes(t *testing.T) {
	p := BuildProvider(t, AddScoped(NewTScoped))
	requireScopeCount(t, p, 0)

	a, err := p.CreateScope(context.Background())
	require.NoError(t, err)
	b, err := p.CreateScope(context.Background())
	require.NoError(t, err)
	a1, err := a.CreateScope(context.Background())
	require.NoError(t, err)
	a2, err := a.CreateScope(context.Background())
	require.NoError(t, err)
	a11, err := a1.CreateScope(context.Background())
	require.NoError(t, err)

	requireScopeCount(t, p, 5)
	requireScopeCount(t, a, 3)
	requireScopeCount(t, a1, 1)
	requireScopeCount(t, a2, 0)
	requireScopeCount(t, a11, 0)
	requireScopeCount(t, b, 0)

	// The provider seen through a scope is the provider
	requireScopeCount(t, a11.Provider(), 5)

	// Resolving does not open scopes
	_, err = Resolve[*TScoped](a1)
	require.NoError(t, err)
	requireScopeCount(t, p, 5)

	// Closing a scope closes its subtree
	require.NoError(t, a1.Close())
	requireScopeCount(t, p, 3)
	requireScopeCount(t, a, 1)
	_, err = ScopeCount(a1)
	require.ErrorIs(t, err, ErrScopeDisposed)
	_, err = ScopeCount(a11)
	require.ErrorIs(t, err, ErrScopeDisposed)

	// Closing twice changes nothing
	require.NoError(t, a1.Close())
	requireScopeCount(t, p, 3)

	require.NoError(t, a.Close())
	require.NoError(t, b.Close())
	requireScopeCount(t, p, 0)
}

func TestScopeCount_ContextCancellation(t *testing.T) {
	p := BuildProvider(t)

	ctx, cancel := context.WithCancel(context.Background())
	s, err := p.CreateScope(ctx)
	require.NoError(t, err)
	_, err = s.CreateScope(nil)
	require.NoError(t, err)
	requireScopeCount(t, p, 2)

	cancel()
	require.Eventually(t, func() bool {
		n, err := ScopeCount(p)
		return err == nil && n == 0
	}, 2*time.Second, time.Millisecond)

	_, err = ScopeCount(s)
	require.ErrorIs(t, err, ErrScopeDisposed)
}

func TestScopeCount_FailedCreationLeavesNothing(t *testing.T) {
	boom := errors.New("boom")
	fail := false

	c := NewCollection()
	require.NoError(t, c.AddScoped(func() error {
		if fail {
			return boom
		}
		return nil
	}))
	p, err := c.Build()
	require.NoError(t, err)
	defer p.Close()

	s, err := p.CreateScope(context.Background())
	require.NoError(t, err)

	fail = true
	_, err = p.CreateScope(context.Background())
	require.ErrorIs(t, err, boom)
	_, err = s.CreateScope(context.Background())
	require.ErrorIs(t, err, boom)

	requireScopeCount(t, p, 1)
	requireScopeCount(t, s, 0)
}

func TestScopeCount_Disposed(t *testing.T) {
	c := NewCollection()
	p, err := c.Build()
	require.NoError(t, err)

	s, err := p.CreateScope(context.Background())
	require.NoError(t, err)
	child, err := s.CreateScope(context.Background())
	require.NoError(t, err)

	require.NoError(t, p.Close())

	_, err = ScopeCount(p)
	require.ErrorIs(t, err, ErrProviderDisposed)
	_, err = ScopeCount(s)
	require.ErrorIs(t, err, ErrScopeDisposed)
	_, err = ScopeCount(child)
	require.ErrorIs(t, err, ErrScopeDisposed)

	_, err = ScopeCount(nil)
	require.ErrorIs(t, err, ErrProviderNil)

	// Independent providers of one collection do not share their tables
	p1, err := c.Build()
	require.NoError(t, err)
	defer p1.Close()
	p2, err := c.Build()
	require.NoError(t, err)
	defer p2.Close()
	_, err = p1.CreateScope(context.Background())
	require.NoError(t, err)
	requireScopeCount(t, p1, 1)
	requireScopeCount(t, p2, 0)
}

func TestScopeCount_Concurrent(t *testing.T) {
	p := BuildProvider(t, AddScoped(NewTScoped))

	root, err := p.CreateScope(context.Background())
	require.NoError(t, err)

	stop := make(chan struct{})
	var readers sync.WaitGroup
	for i := 0; i < 4; i++ {
		readers.Add(1)
		go func() {
			defer readers.Done()
			for {
				select {
				case <-stop:
					return
				default:
				}

				all, err := ScopeCount(p)
				if err != nil {
					t.Errorf("provider count: %v", err)
					return
				}
				below, err := ScopeCount(root)
				if err != nil {
					t.Errorf("scope count: %v", err)
					return
				}
				if all < 1 || all > 1+8*2 || below < 0 || below > 8*2 {
					t.Errorf("implausible counts %d %d", all, below)
					return
				}
			}
		}()
	}

	var writers sync.WaitGroup
	for i := 0; i < 8; i++ {
		writers.Add(1)
		go func() {
			defer writers.Done()
			for j := 0; j < 50; j++ {
				s, err := root.CreateScope(context.Background())
				if err != nil {
					t.Error(err)
					return
				}
				if _, err := s.CreateScope(context.Background()); err != nil {
					t.Error(err)
					return
				}
				if err := s.Close(); err != nil {
					t.Error(err)
					return
				}
			}
		}()
	}
	writers.Wait()
	close(stop)
	readers.Wait()

	requireScopeCount(t, p, 1)
	requireScopeCount(t, root, 0)

	// A count that overlaps Close completes or reports the disposed error
	done := make(chan struct{})
	go func() {
		defer close(done)
		for {
			if _, err := ScopeCount(root); err != nil {
				if !errors.Is(err, ErrScopeDisposed) {
					t.Errorf("unexpected error: %v", err)
				}
				return
			}
		}
	}()
	require.NoError(t, root.Close())
	<-done
}
