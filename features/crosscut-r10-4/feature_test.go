package godi

import (
	"context"
	"errors"
	"runtime"
	"sync"
	"sync/atomic"
	"testing"
	"time"

	"github.com/stretchr/testify/assert"
	"github.com/stretchr/testify/require"
)

type (
	lsConfig  struct{}
	lsSession struct{ closed atomic.Int32 }
	lsTemp    struct{ closed atomic.Int32 }
	lsPlain   struct{}
)

func (s *lsSession) Close() error { s.closed.Add(1); return nil }
func (t *lsTemp) Close() error    { t.closed.Add(1); return nil }

func lsProvider(t *testing.T) Provider {
	t.Helper()
	c := NewCollection()
	require.NoError(t, c.AddSingleton(func() *lsConfig { return &lsConfig{} }))
	require.NoError(t, c.AddScoped(func(*lsConfig) *lsSession { return &lsSession{} }))
	require.NoError(t, c.AddScoped(func() *lsPlain { return &lsPlain{} }))
	require.NoError(t, c.AddTransient(func() *lsTemp { return &lsTemp{} }))
	require.NoError(t, c.AddScoped(func(*lsConfig) {})) // initialization function
	p, err := c.Build()
	require.NoError(t, err)
	t.Cleanup(func() { _ = p.Close() })
	return p
}

func scopeIDs(infos []ScopeInfo) []string {
	ids := make([]string, len(infos))
	for i, info := range infos {
		ids[i] = info.ID
	}
	return ids
}

func TestListScopes_NestedSnapshot(t *testing.T) {
	p := lsProvider(t)

	infos, err := ListScopes(p)
	require.NoError(t, err)
	assert.Empty(t, infos, "the root scope is not listed")

	a, err := p.CreateScope(context.Background())
	require.NoError(t, err)
	b, err := p.CreateScope(context.Background())
	require.NoError(t, err)
	a1, err := a.CreateScope(context.Background())
	require.NoError(t, err)
	a11, err := a1.CreateScope(context.Background())
	require.NoError(t, err)
	a2, err := a.CreateScope(context.Background())
	require.NoError(t, err)

	_, err = Resolve[*lsSession](a) // cached + disposable
	require.NoError(t, err)
	_, err = Resolve[*lsPlain](a) // cached only
	require.NoError(t, err)
	_, err = Resolve[*lsTemp](a) // disposable only
	require.NoError(t, err)
	_, err = Resolve[*lsTemp](a)
	require.NoError(t, err)
	_, err = Resolve[*lsConfig](a11) // singleton: nothing in the scope
	require.NoError(t, err)

	infos, err = ListScopes(p)
	require.NoError(t, err)
	assert.Equal(t, []ScopeInfo{
		{ID: a.ID(), Depth: 1, Instances: 3, Disposables: 3, Children: 2},
		{ID: b.ID(), Depth: 1, Instances: 1},
		{ID: a1.ID(), ParentID: a.ID(), Depth: 2, Instances: 1, Children: 1},
		{ID: a11.ID(), ParentID: a1.ID(), Depth: 3, Instances: 1},
		{ID: a2.ID(), ParentID: a.ID(), Depth: 2, Instances: 1},
	}, infos)

	// Below a scope: its descendants only, not itself, not its siblings
	infos, err = ListScopes(a)
	require.NoError(t, err)
	assert.Equal(t, []string{a1.ID(), a11.ID(), a2.ID()}, scopeIDs(infos))
	infos, err = ListScopes(a1)
	require.NoError(t, err)
	assert.Equal(t, []string{a11.ID()}, scopeIDs(infos))
	infos, err = ListScopes(b)
	require.NoError(t, err)
	assert.Empty(t, infos)

	// Closing a scope removes its whole subtree from the list
	require.NoError(t, a1.Close())
	infos, err = ListScopes(p)
	require.NoError(t, err)
	assert.Equal(t, []string{a.ID(), b.ID(), a2.ID()}, scopeIDs(infos))
	assert.Equal(t, 1, infos[0].Children)

	_, err = ListScopes(a1)
	assert.ErrorIs(t, err, ErrScopeDisposed)

	require.NoError(t, a.Close())
	require.NoError(t, b.Close())
	infos, err = ListScopes(p)
	require.NoError(t, err)
	assert.Empty(t, infos)
}

func TestListScopes_ContextCancellationAndFailedCreation(t *testing.T) {
	fail := errors.New("init failed")
	var shouldFail atomic.Bool
	c := NewCollection()
	require.NoError(t, c.AddScoped(func() error {
		if shouldFail.Load() {
			return fail
		}
		return nil
	}))
	p, err := c.Build()
	require.NoError(t, err)
	defer p.Close()

	ctx, cancel := context.WithCancel(context.Background())
	s, err := p.CreateScope(ctx)
	require.NoError(t, err)
	infos, err := ListScopes(p)
	require.NoError(t, err)
	require.Len(t, infos, 1)
	assert.Equal(t, s.ID(), infos[0].ID)

	// Automatic close on cancellation
	cancel()
	require.Eventually(t, func() bool {
		infos, err := ListScopes(p)
		return err == nil && len(infos) == 0
	}, time.Second, time.Millisecond)

	// A scope whose creation fails is never listed
	shouldFail.Store(true)
	_, err = p.CreateScope(context.Background())
	require.ErrorIs(t, err, fail)
	infos, err = ListScopes(p)
	require.NoError(t, err)
	assert.Empty(t, infos)
}

func TestListScopes_Errors(t *testing.T) {
	_, err := ListScopes(nil)
	assert.ErrorIs(t, err, ErrProviderNil)
	_, err = ListScopes((*scope)(nil))
	assert.ErrorIs(t, err, ErrProviderNil)

	p := lsProvider(t)
	s, err := p.CreateScope(context.Background())
	require.NoError(t, err)

	require.NoError(t, p.Close())
	_, err = ListScopes(p)
	assert.ErrorIs(t, err, ErrProviderDisposed)
	_, err = ListScopes(s)
	assert.ErrorIs(t, err, ErrScopeDisposed)
}

func TestListScopes_ConcurrentWithScopeChurn(t *testing.T) {
	p := lsProvider(t)

	keep, err := p.CreateScope(context.Background())
	require.NoError(t, err)
	_, err = Resolve[*lsSession](keep)
	require.NoError(t, err)

	stop := make(chan struct{})
	var wg sync.WaitGroup
	for i := 0; i < 4; i++ {
		wg.Add(1)
		go func() {
			defer wg.Done()
			for {
				select {
				case <-stop:
					return
				default:
				}
				s, err := p.CreateScope(context.Background())
				if !assert.NoError(t, err) {
					return
				}
				child, err := s.CreateScope(context.Background())
				assert.NoError(t, err)
				_, err = Resolve[*lsSession](child)
				assert.NoError(t, err)
				_, err = Resolve[*lsTemp](s)
				assert.NoError(t, err)
				assert.NoError(t, s.Close())
			}
		}()
	}

	for i := 0; i < 200; i++ {
		infos, err := ListScopes(p)
		require.NoError(t, err)

		seen := make(map[string]bool, len(infos))
		foundKeep := false
		for j, info := range infos {
			assert.False(t, seen[info.ID], "a scope is listed once")
			seen[info.ID] = true
			assert.GreaterOrEqual(t, info.Depth, 1)
			assert.LessOrEqual(t, info.Depth, 2)
			assert.Equal(t, info.Depth == 2, info.ParentID != "")
			if j > 0 {
				assert.NotEqual(t, infos[j-1].ID, info.ID)
			}
			if info.ID == keep.ID() {
				foundKeep = true
				assert.Equal(t, ScopeInfo{ID: keep.ID(), Depth: 1, Instances: 2, Disposables: 1}, info)
			}
		}
		assert.True(t, foundKeep, "a scope that stays open is always listed")
		runtime.Gosched()
	}

	close(stop)
	wg.Wait()

	infos, err := ListScopes(p)
	require.NoError(t, err)
	assert.Equal(t, []string{keep.ID()}, scopeIDs(infos))

	// Listing did not keep anything alive or close anything
	session, err := Resolve[*lsSession](keep)
	require.NoError(t, err)
	assert.Equal(t, int32(0), session.closed.Load())
	require.NoError(t, keep.Close())
	assert.Equal(t, int32(1), session.closed.Load())
}
