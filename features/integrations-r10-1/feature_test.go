package http

import (
	"context"
	"net/http"
	"net/http/httptest"
	"sync"
	"sync/atomic"
	"testing"
	"time"

	"github.com/junioryono/godi/v4"
	"github.com/stretchr/testify/assert"
	"github.com/stretchr/testify/require"
)

const (
	testTimeout = 2 * time.Second
	testTick    = time.Millisecond
)

type tenantKey struct{}

// ctxAware is a scoped service that records the context it was built with.
type ctxAware struct {
	ctx    context.Context
	closed *atomic.Int32
}

func (c *ctxAware) Close() error {
	c.closed.Add(1)
	return nil
}

func TestWithScopeContext(t *testing.T) {
	build := func(t *testing.T, closed *atomic.Int32) godi.Provider {
		t.Helper()
		collection := godi.NewCollection()
		require.NoError(t, collection.AddScoped(func(ctx context.Context) *ctxAware {
			return &ctxAware{ctx: ctx, closed: closed}
		}))
		provider, err := collection.Build()
		require.NoError(t, err)
		t.Cleanup(func() { _ = provider.Close() })
		return provider
	}

	t.Run("scope context carries the derived values", func(t *testing.T) {
		var closed atomic.Int32
		provider := build(t, &closed)

		var calls atomic.Int32
		var mwScope, handlerScope godi.Scope

		handler := ScopeMiddleware(provider,
			WithScopeContext(func(r *http.Request) context.Context {
				calls.Add(1)
				return context.WithValue(r.Context(), tenantKey{}, r.Header.Get("X-Tenant"))
			}),
			WithMiddleware(func(scope godi.Scope, r *http.Request) error {
				mwScope = scope
				assert.Equal(t, "acme", r.Context().Value(tenantKey{}))
				return nil
			}),
		)(http.HandlerFunc(func(w http.ResponseWriter, r *http.Request) {
			scope, err := godi.FromContext(r.Context())
			require.NoError(t, err)
			handlerScope = scope

			// Seen by the handler, by the scope and by injected services.
			assert.Equal(t, "acme", r.Context().Value(tenantKey{}))
			assert.Equal(t, "acme", scope.Context().Value(tenantKey{}))

			svc, err := godi.Resolve[*ctxAware](scope)
			require.NoError(t, err)
			assert.Equal(t, "acme", svc.ctx.Value(tenantKey{}))
			assert.Equal(t, scope.Context(), svc.ctx)

			again, err := godi.Resolve[*ctxAware](scope)
			require.NoError(t, err)
			assert.Same(t, svc, again)

			assert.Equal(t, int32(0), closed.Load())
			w.WriteHeader(http.StatusOK)
		}))

		req := httptest.NewRequest(http.MethodGet, "/", nil)
		req.Header.Set("X-Tenant", "acme")
		rec := httptest.NewRecorder()
		handler.ServeHTTP(rec, req)

		assert.Equal(t, http.StatusOK, rec.Code)
		assert.Equal(t, int32(1), calls.Load(), "derived once per request")
		assert.Same(t, mwScope, handlerScope)
		assert.Equal(t, int32(1), closed.Load(), "scoped instance closed exactly once")

		_, err := godi.Resolve[*ctxAware](handlerScope)
		assert.ErrorIs(t, err, godi.ErrScopeDisposed)
		assert.Error(t, handlerScope.Context().Err())
	})

	t.Run("nil function and nil result fall back to the request context", func(t *testing.T) {
		for name, opt := range map[string]Option{
			"nil function": WithScopeContext(nil),
			"nil result":   WithScopeContext(func(*http.Request) context.Context { return nil }),
		} {
			t.Run(name, func(t *testing.T) {
				var closed atomic.Int32
				provider := build(t, &closed)

				handler := ScopeMiddleware(provider, opt)(http.HandlerFunc(func(w http.ResponseWriter, r *http.Request) {
					scope, err := godi.FromContext(r.Context())
					require.NoError(t, err)
					assert.Equal(t, "from-request", scope.Context().Value(tenantKey{}))
					_, err = godi.Resolve[*ctxAware](scope)
					require.NoError(t, err)
				}))

				req := httptest.NewRequest(http.MethodGet, "/", nil)
				req = req.WithContext(context.WithValue(req.Context(), tenantKey{}, "from-request"))
				handler.ServeHTTP(httptest.NewRecorder(), req)

				assert.Equal(t, int32(1), closed.Load())
			})
		}
	})

	t.Run("cancelling the derived context closes the scope once", func(t *testing.T) {
		var closed atomic.Int32
		provider := build(t, &closed)

		var cancel context.CancelFunc
		var closeErrs atomic.Int32

		handler := ScopeMiddleware(provider,
			WithScopeContext(func(r *http.Request) context.Context {
				var ctx context.Context
				ctx, cancel = context.WithCancel(r.Context())
				return ctx
			}),
			WithCloseErrorHandler(func(error) { closeErrs.Add(1) }),
		)(http.HandlerFunc(func(w http.ResponseWriter, r *http.Request) {
			scope, err := godi.FromContext(r.Context())
			require.NoError(t, err)
			_, err = godi.Resolve[*ctxAware](scope)
			require.NoError(t, err)

			cancel()
			<-r.Context().Done()

			// The auto-close runs in its own goroutine: wait for it.
			assert.Eventually(t, func() bool {
				_, err := godi.Resolve[*ctxAware](scope)
				return err != nil && closed.Load() == 1
			}, testTimeout, testTick)

			_, err = godi.Resolve[*ctxAware](scope)
			assert.ErrorIs(t, err, godi.ErrScopeDisposed)
		}))

		handler.ServeHTTP(httptest.NewRecorder(), httptest.NewRequest(http.MethodGet, "/", nil))

		assert.Equal(t, int32(1), closed.Load(), "the deferred Close must not close it a second time")
		assert.Equal(t, int32(0), closeErrs.Load())
	})

	t.Run("scope creation failure is reported through the error handler", func(t *testing.T) {
		var closed atomic.Int32
		provider := build(t, &closed)

		var handlerRan atomic.Bool
		var errorHandled atomic.Int32

		// A closed provider cannot create the scope whatever context is derived.
		require.NoError(t, provider.Close())

		handler := ScopeMiddleware(provider,
			WithScopeContext(func(r *http.Request) context.Context {
				return context.WithValue(r.Context(), tenantKey{}, "x")
			}),
			WithErrorHandler(func(w http.ResponseWriter, r *http.Request, err error) {
				errorHandled.Add(1)
				assert.ErrorIs(t, err, godi.ErrProviderDisposed)
				w.WriteHeader(http.StatusServiceUnavailable)
			}),
		)(http.HandlerFunc(func(http.ResponseWriter, *http.Request) { handlerRan.Store(true) }))

		rec := httptest.NewRecorder()
		handler.ServeHTTP(rec, httptest.NewRequest(http.MethodGet, "/", nil))

		assert.Equal(t, http.StatusServiceUnavailable, rec.Code)
		assert.Equal(t, int32(1), errorHandled.Load())
		assert.False(t, handlerRan.Load())
	})

	t.Run("concurrent requests get their own context and scope", func(t *testing.T) {
		var closed atomic.Int32
		provider := build(t, &closed)

		var mu sync.Mutex
		seen := map[*ctxAware]string{}

		handler := ScopeMiddleware(provider,
			WithScopeContext(func(r *http.Request) context.Context {
				return context.WithValue(r.Context(), tenantKey{}, r.Header.Get("X-Tenant"))
			}),
		)(Handle(func(svc *ctxAware, w http.ResponseWriter, r *http.Request) {
			mu.Lock()
			seen[svc] = svc.ctx.Value(tenantKey{}).(string)
			mu.Unlock()
			assert.Equal(t, r.Header.Get("X-Tenant"), svc.ctx.Value(tenantKey{}))
		}))

		const n = 32
		var wg sync.WaitGroup
		for i := 0; i < n; i++ {
			wg.Add(1)
			go func(i int) {
				defer wg.Done()
				req := httptest.NewRequest(http.MethodGet, "/", nil)
				req.Header.Set("X-Tenant", string(rune('a'+i)))
				handler.ServeHTTP(httptest.NewRecorder(), req)
			}(i)
		}
		wg.Wait()

		assert.Len(t, seen, n, "no scoped instance shared between requests")
		assert.Equal(t, int32(n), closed.Load())
	})
}
