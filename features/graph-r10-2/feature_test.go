package graph_test

import (
	"fmt"
	"math/rand"
	"reflect"
	"sort"
	"strings"
	"sync"
	"testing"

	"github.com/junioryono/godi/v4/internal/graph"
	"github.com/junioryono/godi/v4/internal/reflection"
	"github.com/stretchr/testify/assert"
	"github.com/stretchr/testify/require"
)

// fcProvider is a minimal graph.Provider for the FindCycles tests.
type fcProvider struct {
	typ   reflect.Type
	key   any
	group string
	deps  []*reflection.Dependency
}

func (p *fcProvider) GetType() reflect.Type                     { return p.typ }
func (p *fcProvider) GetKey() any                               { return p.key }
func (p *fcProvider) GetGroup() string                          { return p.group }
func (p *fcProvider) GetDependencies() []*reflection.Dependency { return p.deps }

type (
	fcA struct{}
	fcB struct{}
	fcC struct{}
	fcD struct{}
	fcS struct{}
	fcH interface{ Handle() }
)

var (
	fcTypeA = reflect.TypeOf(fcA{})
	fcTypeB = reflect.TypeOf(fcB{})
	fcTypeC = reflect.TypeOf(fcC{})
	fcTypeD = reflect.TypeOf(fcD{})
	fcTypeS = reflect.TypeOf(fcS{})
	fcTypeH = reflect.TypeOf((*fcH)(nil)).Elem()
)

func fcNode(t reflect.Type, deps ...reflect.Type) *fcProvider {
	p := &fcProvider{typ: t}
	for _, d := range deps {
		p.deps = append(p.deps, &reflection.Dependency{Type: d})
	}
	return p
}

func fcKey(t reflect.Type) graph.NodeKey { return graph.NodeKey{Type: t} }

// fcDeferred builds a graph with deferred adds and completes them.
func fcDeferred(t *testing.T, providers ...graph.Provider) *graph.DependencyGraph {
	t.Helper()
	g := graph.NewDependencyGraph()
	for _, p := range providers {
		require.NoError(t, g.AddProviderDeferred(p))
	}
	_ = g.DetectCycles()
	return g
}

func TestFindCycles_Acyclic(t *testing.T) {
	assert.Nil(t, graph.NewDependencyGraph().FindCycles(0))

	g := graph.NewDependencyGraph()
	require.NoError(t, g.AddProvider(fcNode(fcTypeA)))
	require.NoError(t, g.AddProvider(fcNode(fcTypeB, fcTypeA)))
	require.NoError(t, g.AddProvider(fcNode(fcTypeC, fcTypeA, fcTypeB)))
	require.NoError(t, g.AddProvider(fcNode(fcTypeD, fcTypeB, fcTypeC)))
	assert.Nil(t, g.FindCycles(0))
	assert.Nil(t, g.FindCycles(1))

	// A rejected add leaves no cycle behind
	require.Error(t, g.AddProvider(fcNode(fcTypeA, fcTypeD)))
	assert.Nil(t, g.FindCycles(0))
}

func TestFindCycles_ListsEachCycleOnce(t *testing.T) {
	// Two cycles sharing B, a self dependency and an acyclic tail:
	//   A -> B -> A,   B -> C -> D -> B,   C -> C,   D -> S
	g := fcDeferred(t,
		fcNode(fcTypeA, fcTypeB),
		fcNode(fcTypeB, fcTypeA, fcTypeC),
		fcNode(fcTypeC, fcTypeC, fcTypeD),
		fcNode(fcTypeD, fcTypeB, fcTypeS),
		fcNode(fcTypeS),
	)

	want := [][]graph.NodeKey{
		{fcKey(fcTypeA), fcKey(fcTypeB)},
		{fcKey(fcTypeB), fcKey(fcTypeC), fcKey(fcTypeD)},
		{fcKey(fcTypeC)},
	}
	assert.Equal(t, want, g.FindCycles(0))
	assert.Equal(t, want, g.FindCycles(-1))
	assert.Equal(t, want, g.FindCycles(3))
	assert.Equal(t, want, g.FindCycles(10))

	// The limit cuts the same list short
	assert.Equal(t, want[:1], g.FindCycles(1))
	assert.Equal(t, want[:2], g.FindCycles(2))

	// The result belongs to the caller
	got := g.FindCycles(0)
	got[0][0] = fcKey(fcTypeS)
	assert.Equal(t, want, g.FindCycles(0))
}

func TestFindCycles_RepeatedParameter(t *testing.T) {
	// A takes B twice: still a single cycle
	g := fcDeferred(t, fcNode(fcTypeA, fcTypeB, fcTypeB), fcNode(fcTypeB, fcTypeA))
	assert.Equal(t, [][]graph.NodeKey{{fcKey(fcTypeA), fcKey(fcTypeB)}}, g.FindCycles(0))
}

func TestFindCycles_ThroughGroupAndKey(t *testing.T) {
	// The consumer takes the whole group, one member of which needs the
	// keyed service that in turn needs the consumer.
	consumer := &fcProvider{typ: fcTypeA,
		deps: []*reflection.Dependency{{Type: fcTypeH, Group: "handlers"}}}
	member := &fcProvider{typ: fcTypeH, key: "m", group: "handlers",
		deps: []*reflection.Dependency{{Type: fcTypeB, Key: "primary"}}}
	other := &fcProvider{typ: fcTypeH, key: "n", group: "handlers"}
	keyed := &fcProvider{typ: fcTypeB, key: "primary",
		deps: []*reflection.Dependency{{Type: fcTypeA}}}

	g := fcDeferred(t, consumer, member, other, keyed)
	require.False(t, g.IsAcyclic())

	assert.Equal(t, [][]graph.NodeKey{{
		{Type: fcTypeA},
		{Type: fcTypeH, Group: "handlers"},
		{Type: fcTypeH, Key: "m", Group: "handlers"},
		{Type: fcTypeB, Key: "primary"},
	}}, g.FindCycles(0))

	// An unkeyed B is a different identity: no cycle
	keyed.deps = nil
	h := fcDeferred(t, consumer, member, other, keyed, fcNode(fcTypeB, fcTypeA))
	assert.True(t, h.IsAcyclic())
	assert.Nil(t, h.FindCycles(0))
}

func TestFindCycles_IsPure(t *testing.T) {
	g := graph.NewDependencyGraph()
	require.NoError(t, g.AddProvider(fcNode(fcTypeS)))
	sortedBefore, err := g.TopologicalSort()
	require.NoError(t, err)
	assert.Nil(t, g.FindCycles(0))
	sortedAfter, err := g.TopologicalSort()
	require.NoError(t, err)
	assert.Equal(t, sortedBefore, sortedAfter)

	g = fcDeferred(t, fcNode(fcTypeA, fcTypeB), fcNode(fcTypeB, fcTypeA), fcNode(fcTypeC, fcTypeA))
	require.Len(t, g.FindCycles(0), 1)

	for _, typ := range []reflect.Type{fcTypeA, fcTypeB, fcTypeC} {
		node := g.GetNode(typ, nil, "")
		assert.False(t, node.Visited)
		assert.False(t, node.Visiting)
	}
	assert.Equal(t, 3, g.Size())

	// The cycle verdict of the graph itself is unaffected in both directions
	assert.Error(t, g.DetectCycles())
	g.RemoveProvider(fcTypeB, nil, "")
	assert.NoError(t, g.DetectCycles())
	assert.Nil(t, g.FindCycles(0))
}

// fcCanonical rotates a cycle of int keys so that the smallest comes first.
func fcCanonical(cycle []int) string {
	min := 0
	for i, n := range cycle {
		if n < cycle[min] {
			min = i
		}
	}
	parts := make([]string, 0, len(cycle))
	for i := range cycle {
		parts = append(parts, fmt.Sprint(cycle[(min+i)%len(cycle)]))
	}
	return strings.Join(parts, ">")
}

// fcReference enumerates elementary cycles the slow and obvious way: every
// simple path from every node, closed when an edge leads back to its origin.
func fcReference(adj map[int][]int, n int) []string {
	found := make(map[string]bool)
	var walk func(origin int, path []int, on map[int]bool)
	walk = func(origin int, path []int, on map[int]bool) {
		for _, next := range adj[path[len(path)-1]] {
			if next == origin {
				found[fcCanonical(path)] = true
			} else if !on[next] {
				on[next] = true
				walk(origin, append(path, next), on)
				delete(on, next)
			}
		}
	}
	for origin := 0; origin < n; origin++ {
		walk(origin, []int{origin}, map[int]bool{origin: true})
	}

	result := make([]string, 0, len(found))
	for c := range found {
		result = append(result, c)
	}
	sort.Strings(result)
	return result
}

func TestFindCycles_AgreesWithReference(t *testing.T) {
	rng := rand.New(rand.NewSource(42))

	for round := 0; round < 150; round++ {
		n := 2 + rng.Intn(6)
		adj := make(map[int][]int)
		providers := make([]graph.Provider, 0, n)
		for from := 0; from < n; from++ {
			p := &fcProvider{typ: fcTypeS, key: from}
			for to := 0; to < n; to++ {
				if rng.Intn(100) < 30 {
					adj[from] = append(adj[from], to)
					p.deps = append(p.deps, &reflection.Dependency{Type: fcTypeS, Key: to})
				}
			}
			providers = append(providers, p)
		}

		g := fcDeferred(t, providers...)
		cycles := g.FindCycles(0)

		got := make([]string, 0, len(cycles))
		for _, cycle := range cycles {
			ints := make([]int, len(cycle))
			for i, key := range cycle {
				ints[i] = key.Key.(int)
			}
			// Reported from the smallest node, along real edges
			for _, n := range ints[1:] {
				assert.Less(t, ints[0], n)
			}
			for i, key := range cycle {
				next := cycle[(i+1)%len(cycle)]
				assert.Contains(t, g.GetDependencies(key.Type, key.Key, key.Group), next)
			}
			got = append(got, fcCanonical(ints))
		}
		sort.Strings(got)

		want := fcReference(adj, n)
		require.Equal(t, want, got, "round %d, edges %v", round, adj)
		assert.Equal(t, len(want) == 0, g.IsAcyclic())

		if len(want) > 1 {
			assert.Equal(t, cycles[:len(want)-1], g.FindCycles(len(want)-1))
		}
	}
}

func TestFindCycles_Concurrent(t *testing.T) {
	g := fcDeferred(t, fcNode(fcTypeA, fcTypeB), fcNode(fcTypeB, fcTypeA))

	var wg sync.WaitGroup
	for w := 0; w < 4; w++ {
		wg.Add(1)
		go func(w int) {
			defer wg.Done()
			for i := 0; i < 200; i++ {
				switch w {
				case 0:
					_ = g.AddProviderDeferred(fcNode(fcTypeC, fcTypeD))
					_ = g.AddProviderDeferred(fcNode(fcTypeD, fcTypeC))
					_ = g.DetectCycles()
					g.RemoveProvider(fcTypeD, nil, "")
				case 1:
					_ = g.IsAcyclic()
					_, _ = g.TopologicalSort()
				default:
					cycles := g.FindCycles(0)
					// A <-> B is permanent, C <-> D comes and goes
					if assert.NotEmpty(t, cycles) {
						assert.Equal(t, []graph.NodeKey{fcKey(fcTypeA), fcKey(fcTypeB)}, cycles[0])
					}
					assert.LessOrEqual(t, len(cycles), 2)
				}
			}
		}(w)
	}
	wg.Wait()
}
