package godi

import (
	"context"
	"errors"
	"fmt"
	"sync"
	"sync/atomic"
	"testing"

	"github.com/stretchr/testify/assert"
	"github.com/stretchr/testify/require"
)

// lookupFailure is built by a constructor that looks a service up by itself.
type lookupFailure struct{}

func TestResolveOr_RegisteredServiceWins(t *testing.T) {
	p := BuildProvider(t,
		AddSingleton(NewTService),
		AddScoped(NewTScoped),
		AddTransient(NewTTransient),
	)
	s, err := p.CreateScope(context.Background())
	require.NoError(t, err)
	t.Cleanup(func() { _ = s.Close() })

	fallback := &TService{ID: "fallback"}
	got, err := ResolveOr(s, fallback)
	require.NoError(t, err)
	assert.NotSame(t, fallback, got)
	assert.Same(t, RequireResolve[*TService](t, p), got, "the singleton, not a copy")

	// Lifetimes are those of Resolve
	sc1, err := ResolveOr(s, &TScoped{ScopeID: "fallback"})
	require.NoError(t, err)
	sc2, err := ResolveOr(s, &TScoped{ScopeID: "fallback"})
	require.NoError(t, err)
	assert.Same(t, sc1, sc2)
	assert.Same(t, RequireResolveFrom[*TScoped](t, s), sc1)

	tr1, err := ResolveOr(s, &TTransient{})
	require.NoError(t, err)
	tr2, err := ResolveOr(s, &TTransient{})
	require.NoError(t, err)
	assert.NotSame(t, tr1, tr2)
}

func TestResolveOr_FallsBackOnlyWhenNotRegistered(t *testing.T) {
	p := BuildProvider(t, AddSingleton(NewTService, Name("primary")))

	fallback := &TService{ID: "fallback"}

	// *TService is only registered under a key
	got, err := ResolveOr(p, fallback)
	require.NoError(t, err)
	assert.Same(t, fallback, got)

	// The fallback is not remembered by the container
	_, err = Resolve[*TService](p)
	require.ErrorIs(t, err, ErrServiceNotFound)

	// Keyed: exact key hits, any other key falls back
	keyed, err := ResolveKeyedOr(p, "primary", fallback)
	require.NoError(t, err)
	assert.NotSame(t, fallback, keyed)

	keyed, err = ResolveKeyedOr(p, "secondary", fallback)
	require.NoError(t, err)
	assert.Same(t, fallback, keyed)

	// Interfaces work like any other type
	var iface TInterface = fallback
	gotIface, err := ResolveOr(p, iface)
	require.NoError(t, err)
	assert.Same(t, fallback, gotIface)
}

func TestResolveOr_OtherErrorsAreNotSwallowed(t *testing.T) {
	var calls atomic.Int32

	p := BuildProvider(t,
		// A constructor error that wraps ErrServiceNotFound
		AddTransient(func() (*TService, error) {
			calls.Add(1)
			return nil, fmt.Errorf("remote registry: %w", ErrServiceNotFound)
		}),
		// A constructor that hands the container's own not-found error through
		AddScoped(func(s Scope) (*lookupFailure, error) {
			_, err := s.Get(TypeOf[*TDependency]())
			return nil, err
		}),
		// A constructor that panics
		AddTransient(func() *TTransient { panic("boom") }),
	)

	s, err := p.CreateScope(context.Background())
	require.NoError(t, err)
	t.Cleanup(func() { _ = s.Close() })

	fallback := &TService{ID: "fallback"}

	got, err := ResolveOr(s, fallback)
	require.Error(t, err)
	assert.Nil(t, got)
	assert.ErrorIs(t, err, ErrServiceNotFound, "the cause stays reachable")
	var invocationErr *ConstructorInvocationError
	assert.ErrorAs(t, err, &invocationErr)

	// Not cached: a retry runs the constructor again
	_, err = ResolveOr(s, fallback)
	require.Error(t, err)
	assert.Equal(t, int32(2), calls.Load())

	lf, err := ResolveOr(s, &lookupFailure{})
	require.Error(t, err)
	assert.Nil(t, lf)
	assert.ErrorIs(t, err, ErrServiceNotFound)

	tr, err := ResolveOr(s, &TTransient{})
	require.Error(t, err)
	assert.Nil(t, tr)
	var panicErr *ConstructorPanicError
	require.ErrorAs(t, err, &panicErr)
	assert.Equal(t, "boom", panicErr.Panic)
}

func TestResolveOr_DisposedAndNil(t *testing.T) {
	c := NewCollection()
	require.NoError(t, c.AddScoped(NewTScoped))
	p, err := c.Build()
	require.NoError(t, err)

	s, err := p.CreateScope(context.Background())
	require.NoError(t, err)
	child, err := s.CreateScope(context.Background())
	require.NoError(t, err)

	fallback := &TService{ID: "fallback"}

	_, err = ResolveOr[*TService](nil, fallback)
	require.ErrorIs(t, err, ErrProviderNil)
	_, err = ResolveKeyedOr(p, nil, fallback)
	require.ErrorIs(t, err, ErrServiceKeyNil)

	require.NoError(t, s.Close())
	for _, closed := range []Scope{s, child} {
		got, err := ResolveOr(closed, fallback)
		require.ErrorIs(t, err, ErrScopeDisposed)
		assert.Nil(t, got)
		got, err = ResolveKeyedOr(closed, "k", fallback)
		require.ErrorIs(t, err, ErrScopeDisposed)
		assert.Nil(t, got)
	}

	require.NoError(t, p.Close())
	got, err := ResolveOr(p, fallback)
	require.ErrorIs(t, err, ErrProviderDisposed)
	assert.Nil(t, got)
}

func TestIsNotRegistered_ExactShape(t *testing.T) {
	typ := TypeOf[*TService]()
	other := TypeOf[*TDependency]()

	assert.True(t, isNotRegistered(&ResolutionError{ServiceType: typ, Cause: ErrServiceNotFound}, typ, nil))
	assert.True(t, isNotRegistered(ResolutionError{ServiceType: typ, ServiceKey: "k", Cause: ErrServiceNotFound}, typ, "k"))

	assert.False(t, isNotRegistered(nil, typ, nil))
	assert.False(t, isNotRegistered(ErrServiceNotFound, typ, nil))
	assert.False(t, isNotRegistered(&ResolutionError{ServiceType: other, Cause: ErrServiceNotFound}, typ, nil))
	assert.False(t, isNotRegistered(&ResolutionError{ServiceType: typ, ServiceKey: "k", Cause: ErrServiceNotFound}, typ, nil))
	assert.False(t, isNotRegistered(&ResolutionError{ServiceType: typ, Cause: ErrSingletonNotInitialized}, typ, nil))
	assert.False(t, isNotRegistered(&ResolutionError{ServiceType: typ, Cause: fmt.Errorf("x: %w", ErrServiceNotFound)}, typ, nil))
	assert.False(t, isNotRegistered(fmt.Errorf("x: %w", &ResolutionError{ServiceType: typ, Cause: ErrServiceNotFound}), typ, nil))
	assert.False(t, isNotRegistered(errors.Join(&ResolutionError{ServiceType: typ, Cause: ErrServiceNotFound}), typ, nil))
}

func TestResolveOr_Concurrent(t *testing.T) {
	p := BuildProvider(t, AddSingleton(NewTService), AddTransient(NewTTransient))
	singleton := RequireResolve[*TService](t, p)
	fallback := &TDependency{Name: "fallback"}

	var wg sync.WaitGroup
	for i := 0; i < 16; i++ {
		wg.Add(1)
		go func() {
			defer wg.Done()

			s, err := p.CreateScope(context.Background())
			if !assert.NoError(t, err) {
				return
			}
			defer s.Close()

			svc, err := ResolveOr(s, &TService{ID: "fallback"})
			assert.NoError(t, err)
			assert.Same(t, singleton, svc)

			dep, err := ResolveOr(s, fallback)
			assert.NoError(t, err)
			assert.Same(t, fallback, dep)

			_, err = ResolveOr(s, &TTransient{})
			assert.NoError(t, err)
		}()
	}
	wg.Wait()
}
