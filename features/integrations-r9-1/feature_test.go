package http

import (
	"errors"
	"net/http"
	"net/http/httptest"
	"sync"
	"sync/atomic"
	"testing"

	"github.com/junioryono/godi/v4"
	"github.com/stretchr/testify/assert"
	"github.com/stretchr/testify/require"
)

// afterResource is a scoped, closable service that records its life cycle.
type afterResource struct {
	log    *[]string
	mu     *sync.Mutex
	closed atomic.Int32
}

func (r *afterResource) Close() error {
	r.closed.Add(1)
	r.mu.Lock()
	*r.log = append(*r.log, "close")
	r.mu.Unlock()
	return nil
}

func buildAfterProvider(t *testing.T, log *[]string, mu *sync.Mutex) godi.Provider {
	t.Helper()
	collection := godi.NewCollection()
	require.NoError(t, collection.AddScoped(func() *afterResource {
		return &afterResource{log: log, mu: mu}
	}))
	provider, err := collection.Build()
	require.NoError(t, err)
	t.Cleanup(func() { _ = provider.Close() })
	return provider
}

func TestWithAfter(t *testing.T) {
	t.Run("runs in order after the handler and before close", func(t *testing.T) {
		var log []string
		var mu sync.Mutex
		record := func(s string) {
			mu.Lock()
			log = append(log, s)
			mu.Unlock()
		}
		provider := buildAfterProvider(t, &log, &mu)

		var handlerScope, hookScope godi.Scope
		var handlerRes, hookRes *afterResource

		handler := ScopeMiddleware(provider,
			WithMiddleware(func(godi.Scope, *http.Request) error { record("mw"); return nil }),
			WithAfter(func(scope godi.Scope, r *http.Request) {
				record("after1")
				hookScope = scope
				fromCtx, err := godi.FromContext(r.Context())
				assert.NoError(t, err)
				assert.Same(t, scope, fromCtx)
				// The scope is still open: resolution works and yields the
				// instance the handler saw.
				hookRes, err = godi.Resolve[*afterResource](scope)
				assert.NoError(t, err)
				assert.EqualValues(t, 0, hookRes.closed.Load())
			}),
			WithAfter(nil), // ignored
			WithAfter(func(godi.Scope, *http.Request) { record("after2") }),
		)(http.HandlerFunc(func(w http.ResponseWriter, r *http.Request) {
			record("handler")
			var err error
			handlerScope, err = godi.FromContext(r.Context())
			assert.NoError(t, err)
			handlerRes, err = godi.Resolve[*afterResource](handlerScope)
			assert.NoError(t, err)
		}))

		handler.ServeHTTP(httptest.NewRecorder(), httptest.NewRequest(http.MethodGet, "/", nil))

		assert.Equal(t, []string{"mw", "handler", "after1", "after2", "close"}, log)
		assert.Same(t, handlerScope, hookScope)
		assert.Same(t, handlerRes, hookRes)
		assert.EqualValues(t, 1, handlerRes.closed.Load())

		_, err := godi.Resolve[*afterResource](handlerScope)
		assert.ErrorIs(t, err, godi.ErrScopeDisposed)
	})

	t.Run("a hook closing the scope does not cause a second close", func(t *testing.T) {
		var log []string
		var mu sync.Mutex
		provider := buildAfterProvider(t, &log, &mu)

		var res *afterResource
		closeErrs := 0
		handler := ScopeMiddleware(provider,
			WithCloseErrorHandler(func(error) { closeErrs++ }),
			WithAfter(func(scope godi.Scope, _ *http.Request) { assert.NoError(t, scope.Close()) }),
		)(http.HandlerFunc(func(w http.ResponseWriter, r *http.Request) {
			scope, _ := godi.FromContext(r.Context())
			res = godi.MustResolve[*afterResource](scope)
		}))

		handler.ServeHTTP(httptest.NewRecorder(), httptest.NewRequest(http.MethodGet, "/", nil))

		assert.EqualValues(t, 1, res.closed.Load())
		assert.Zero(t, closeErrs)
	})

	t.Run("runs when the handler panics and the scope is still closed", func(t *testing.T) {
		var log []string
		var mu sync.Mutex
		provider := buildAfterProvider(t, &log, &mu)

		var res *afterResource
		hookRan := false
		handler := ScopeMiddleware(provider,
			WithAfter(func(godi.Scope, *http.Request) { hookRan = true }),
		)(http.HandlerFunc(func(w http.ResponseWriter, r *http.Request) {
			scope, _ := godi.FromContext(r.Context())
			res = godi.MustResolve[*afterResource](scope)
			panic("handler panic")
		}))

		assert.PanicsWithValue(t, "handler panic", func() {
			handler.ServeHTTP(httptest.NewRecorder(), httptest.NewRequest(http.MethodGet, "/", nil))
		})
		assert.True(t, hookRan)
		assert.EqualValues(t, 1, res.closed.Load())
	})

	t.Run("a panicking hook cannot prevent close", func(t *testing.T) {
		var log []string
		var mu sync.Mutex
		provider := buildAfterProvider(t, &log, &mu)

		var res *afterResource
		var captured godi.Scope
		secondRan := false
		handler := ScopeMiddleware(provider,
			WithAfter(func(godi.Scope, *http.Request) { panic("hook panic") }),
			WithAfter(func(godi.Scope, *http.Request) { secondRan = true }),
		)(http.HandlerFunc(func(w http.ResponseWriter, r *http.Request) {
			captured, _ = godi.FromContext(r.Context())
			res = godi.MustResolve[*afterResource](captured)
		}))

		assert.PanicsWithValue(t, "hook panic", func() {
			handler.ServeHTTP(httptest.NewRecorder(), httptest.NewRequest(http.MethodGet, "/", nil))
		})
		assert.False(t, secondRan)
		assert.EqualValues(t, 1, res.closed.Load())
		_, err := captured.CreateScope(nil) //nolint:staticcheck // nil means "inherit"
		assert.ErrorIs(t, err, godi.ErrScopeDisposed)
	})

	t.Run("not run when a middleware fails or the scope cannot be created", func(t *testing.T) {
		var log []string
		var mu sync.Mutex
		provider := buildAfterProvider(t, &log, &mu)

		hookRan, handlerRan, errHandled := false, false, 0
		var res *afterResource
		opts := []Option{
			WithErrorHandler(func(w http.ResponseWriter, _ *http.Request, _ error) {
				errHandled++
				w.WriteHeader(http.StatusTeapot)
			}),
			WithMiddleware(func(scope godi.Scope, _ *http.Request) error {
				res = godi.MustResolve[*afterResource](scope)
				return errors.New("denied")
			}),
			WithAfter(func(godi.Scope, *http.Request) { hookRan = true }),
		}
		next := http.HandlerFunc(func(http.ResponseWriter, *http.Request) { handlerRan = true })

		rec := httptest.NewRecorder()
		ScopeMiddleware(provider, opts...)(next).ServeHTTP(rec, httptest.NewRequest(http.MethodGet, "/", nil))
		assert.Equal(t, http.StatusTeapot, rec.Code)
		assert.False(t, hookRan)
		assert.False(t, handlerRan)
		assert.Equal(t, 1, errHandled)
		assert.EqualValues(t, 1, res.closed.Load())

		require.NoError(t, provider.Close())
		rec = httptest.NewRecorder()
		ScopeMiddleware(provider, opts...)(next).ServeHTTP(rec, httptest.NewRequest(http.MethodGet, "/", nil))
		assert.Equal(t, http.StatusTeapot, rec.Code)
		assert.False(t, hookRan)
		assert.False(t, handlerRan)
		assert.Equal(t, 2, errHandled)
	})

	t.Run("concurrent requests each see their own scope", func(t *testing.T) {
		var log []string
		var mu sync.Mutex
		provider := buildAfterProvider(t, &log, &mu)

		var seen sync.Map
		var mismatches, hooks atomic.Int32
		handler := ScopeMiddleware(provider,
			WithAfter(func(scope godi.Scope, r *http.Request) {
				hooks.Add(1)
				res := godi.MustResolve[*afterResource](scope)
				if want, _ := seen.Load(r.Header.Get("X-N")); want != res || res.closed.Load() != 0 {
					mismatches.Add(1)
				}
			}),
		)(http.HandlerFunc(func(w http.ResponseWriter, r *http.Request) {
			scope, _ := godi.FromContext(r.Context())
			seen.Store(r.Header.Get("X-N"), godi.MustResolve[*afterResource](scope))
		}))

		const n = 32
		var wg sync.WaitGroup
		for i := 0; i < n; i++ {
			wg.Add(1)
			go func(i int) {
				defer wg.Done()
				req := httptest.NewRequest(http.MethodGet, "/", nil)
				req.Header.Set("X-N", string(rune('A'+i)))
				handler.ServeHTTP(httptest.NewRecorder(), req)
			}(i)
		}
		wg.Wait()

		assert.EqualValues(t, n, hooks.Load())
		assert.Zero(t, mismatches.Load())
		distinct := map[*afterResource]bool{}
		seen.Range(func(_, v any) bool {
			res := v.(*afterResource)
			distinct[res] = true
			assert.EqualValues(t, 1, res.closed.Load())
			return true
		})
		assert.Len(t, distinct, n)
	})
}
