package godi

import (
	"context"
	"errors"
	"math/rand"
	"reflect"
	"sync"
	"sync/atomic"
	"testing"

	"github.com/stretchr/testify/assert"
	"github.com/stretchr/testify/require"
)

type (
	f3A struct{}
	f3B struct{}
	f3C struct{}
	f3D struct{}
	f3E struct{}
	f3F struct{}
)

var f3Types = []reflect.Type{
	reflect.TypeOf(&f3A{}), reflect.TypeOf(&f3B{}), reflect.TypeOf(&f3C{}),
	reflect.TypeOf(&f3D{}), reflect.TypeOf(&f3E{}), reflect.TypeOf(&f3F{}),
}

// f3Constructor makes func(deps...) out, counting its invocations.
func f3Constructor(out reflect.Type, calls *int32, deps ...reflect.Type) any {
	fn := reflect.MakeFunc(reflect.FuncOf(deps, []reflect.Type{out}, false), func([]reflect.Value) []reflect.Value {
		atomic.AddInt32(calls, 1)
		return []reflect.Value{reflect.New(out.Elem())}
	})
	return fn.Interface()
}

func f3Classes(err error) (cycle, conflict, missing bool) {
	var circ *CircularDependencyError
	var lc *LifetimeConflictError
	return errors.As(err, &circ), errors.As(err, &lc), errors.Is(err, ErrServiceNotFound)
}

func TestF3_ValidateFindsEverything(t *testing.T) {
	t.Parallel()

	type in struct {
		In
		Missing  *f3F
		Keyed    *f3E   `name:"nope"`
		Optional *f3D   `optional:"true"`
		Members  []*f3C `group:"members"`
		Scope    Scope
		Ctx      context.Context
	}

	c := NewCollection()
	v, ok := c.(Validator)
	require.True(t, ok)
	require.NoError(t, v.Validate(), "an empty collection is valid")

	require.NoError(t, c.AddSingleton(NewTCircularA))
	require.NoError(t, c.AddSingleton(NewTCircularB))
	require.NoError(t, c.AddSingleton(func(in) *f3A { return &f3A{} }))
	require.NoError(t, c.AddTransient(func() *f3C { return &f3C{} }, Group("members")))
	require.NoError(t, c.AddScoped(func() *f3C { return &f3C{} }, Group("members")))
	require.NoError(t, c.AddScoped(func() *f3B { return &f3B{} }))
	require.NoError(t, c.AddTransient(func(*f3B, *f3A) *f3D { return &f3D{} }, Name("d")))
	require.NoError(t, c.AddScoped(func(*f3B, *f3A) *f3E { return &f3E{} }))
	before := c.ToSlice()

	err := v.Validate()
	require.Error(t, err)

	var multi *MultiError
	require.True(t, errors.As(err, &multi))

	// One cycle; then, in registration order and per registration in the order
	// the dependencies are declared: the two missing dependencies of f3A, its
	// conflict through the group, and the conflict of the transient f3D.
	// The scoped f3E may depend on scoped f3B; optional, group and built-in
	// dependencies are never missing.
	require.Len(t, multi.Errors, 5, "%v", err)

	var circ *CircularDependencyError
	require.True(t, errors.As(multi.Errors[0], &circ))
	assert.NotEmpty(t, circ.Path)

	var missing *ResolutionError
	require.True(t, errors.As(multi.Errors[1], &missing))
	assert.Equal(t, f3Types[5], missing.ServiceType)
	assert.Nil(t, missing.ServiceKey)
	require.True(t, errors.As(multi.Errors[2], &missing))
	assert.Equal(t, f3Types[4], missing.ServiceType)
	assert.Equal(t, "nope", missing.ServiceKey)

	var conflict *LifetimeConflictError
	require.True(t, errors.As(multi.Errors[3], &conflict))
	assert.Equal(t, f3Types[0], conflict.ServiceType)
	assert.Equal(t, f3Types[2], conflict.DependencyType)
	assert.Equal(t, Singleton, conflict.ServiceLifetime)

	require.True(t, errors.As(multi.Errors[4], &conflict))
	assert.Equal(t, f3Types[3], conflict.ServiceType)
	assert.Equal(t, f3Types[1], conflict.DependencyType)
	assert.Equal(t, Transient, conflict.ServiceLifetime)

	// All of them are reachable from the aggregate
	assert.True(t, errors.Is(err, ErrServiceNotFound))
	assert.Contains(t, err.Error(), "5 errors occurred:")
	assert.Equal(t, multi.Errors[0].Error(), (&MultiError{Errors: multi.Errors[:1]}).Error())

	// Validate changed nothing, and is repeatable
	assert.Equal(t, before, c.ToSlice())
	assert.Equal(t, 8, c.Count())
	again := v.Validate()
	require.True(t, errors.As(again, &multi))
	assert.Len(t, multi.Errors, 5)

	// Build agrees there is a problem
	_, err = c.Build()
	require.Error(t, err)
	var buildErr *BuildError
	require.True(t, errors.As(err, &buildErr))
	assert.Equal(t, "validation", buildErr.Phase)
}

// Validate == nil exactly when the validation phases of Build pass, for random
// registration sets (plain registrations and group members of all lifetimes,
// random dependency edges); it never runs a constructor and never changes what
// a later Build does.
func TestF3_ValidateAgreesWithBuild(t *testing.T) {
	t.Parallel()

	rng := rand.New(rand.NewSource(20240607))
	lifetimes := []Lifetime{Singleton, Scoped, Transient}
	valid, invalid := 0, 0

	for iter := 0; iter < 400; iter++ {
		var calls int32
		c := NewCollection()
		mode := rng.Intn(3) // 0: singletons only, 1: scoped only, 2: mixed

		for i, typ := range f3Types {
			if rng.Intn(12) == 0 {
				continue // not registered
			}

			var deps []reflect.Type
			for n := rng.Intn(3); n > 0; n-- {
				j := rng.Intn(len(f3Types)) // mostly backwards, so that some sets are acyclic
				if i > 0 && rng.Intn(4) != 0 {
					j = rng.Intn(i)
				} else if rng.Intn(3) != 0 {
					continue
				}
				deps = append(deps, f3Types[j])
			}

			ctor := f3Constructor(typ, &calls, deps...)
			lifetime := lifetimes[mode]
			if mode == 2 {
				lifetime = lifetimes[rng.Intn(len(lifetimes))]
			}

			var err error
			switch rng.Intn(10) {
			case 0:
				err = c.AddModules(AddTransient(ctor, Group("g")), func(c Collection) error {
					return c.(*collection).addService(ctor, lifetime, Group("g"))
				})
			default:
				err = c.(*collection).addService(ctor, lifetime)
			}
			require.NoError(t, err)
		}

		count := c.Count()
		verr := c.(Validator).Validate()
		assert.Zero(t, atomic.LoadInt32(&calls), "Validate must not run constructors")
		assert.Equal(t, count, c.Count())

		p, berr := c.Build()
		if berr == nil {
			valid++
			assert.NoError(t, verr, "iteration %d: Build succeeded", iter)
			require.NoError(t, p.Close())
			continue
		}

		invalid++
		require.Error(t, verr, "iteration %d: Build failed with %v", iter, berr)

		// Whatever Build stopped at is among the problems Validate lists
		bc, bl, bm := f3Classes(berr)
		vc, vl, vm := f3Classes(verr)
		assert.True(t, bc || bl || bm, "iteration %d: unexpected build error %v", iter, berr)
		assert.True(t, (!bc || vc) && (!bl || vl) && (!bm || vm), "iteration %d:\nbuild: %v\nvalidate: %v", iter, berr, verr)
		assert.Zero(t, atomic.LoadInt32(&calls), "validation failures happen before any constructor runs")
	}

	assert.Greater(t, valid, 20)
	assert.Greater(t, invalid, 20)
}

// A group dependency is only expressible with a parameter object, which
// reflect.MakeFunc constructors cannot declare: cover groups, Remove and a
// previously built provider explicitly.
func TestF3_ValidateFollowsCollectionChanges(t *testing.T) {
	t.Parallel()

	type groupIn struct {
		In
		Members []*f3C `group:"members"`
	}

	c := NewCollection()
	v := c.(Validator)

	require.NoError(t, c.AddSingleton(func(groupIn) *f3A { return &f3A{} }))
	require.NoError(t, v.Validate(), "an empty group is fine")

	require.NoError(t, c.AddSingleton(func() *f3C { return &f3C{} }, Group("members")))
	require.NoError(t, v.Validate())

	require.NoError(t, c.AddScoped(func(*f3B) *f3C { return &f3C{} }, Group("members")))
	err := v.Validate()
	var conflict *LifetimeConflictError
	require.True(t, errors.As(err, &conflict), "scoped member reached through the group")
	assert.True(t, errors.Is(err, ErrServiceNotFound), "and the member's own dependency is missing")

	// A provider built earlier is unaffected and Validate follows Remove
	c2 := NewCollection()
	var ran int32
	require.NoError(t, c2.AddScoped(func() *f3B { return &f3B{} }))
	require.NoError(t, c2.AddSingleton(func(*f3B) *f3D { atomic.AddInt32(&ran, 1); return &f3D{} }))
	require.Error(t, c2.(Validator).Validate())
	c2.Remove(reflect.TypeOf(&f3D{}))
	require.NoError(t, c2.(Validator).Validate())
	p, err := c2.Build()
	require.NoError(t, err)
	defer p.Close()
	assert.Zero(t, atomic.LoadInt32(&ran), "a removed registration never runs")

	require.NoError(t, c2.AddTransient(func(*f3B) *f3D { return &f3D{} }))
	require.Error(t, c2.(Validator).Validate(), "the collection changed ...")
	_, err = Resolve[*f3D](p)
	assert.True(t, errors.Is(err, ErrServiceNotFound), "... the provider did not")

	// Concurrent Validate calls alongside Build
	c3 := NewCollection()
	require.NoError(t, c3.AddSingleton(NewTService))
	require.NoError(t, c3.AddScoped(NewTServiceWithDeps))
	require.NoError(t, c3.AddTransient(NewTDependency))
	var wg sync.WaitGroup
	for i := 0; i < 8; i++ {
		wg.Add(2)
		go func() {
			defer wg.Done()
			assert.NoError(t, c3.(Validator).Validate())
		}()
		go func() {
			defer wg.Done()
			p, err := c3.Build()
			if assert.NoError(t, err) {
				assert.NoError(t, p.Close())
			}
		}()
	}
	wg.Wait()
}
