package chi

import (
	"context"
	"errors"
	"net/http"
	"net/http/httptest"
	"runtime"
	"sync"
	"sync/atomic"
	"testing"
	"time"

	"github.com/junioryono/godi/v4"
	"github.com/stretchr/testify/assert"
	"github.com/stretchr/testify/require"
)

// timedResource is a scoped, disposable service counting its Close calls.
type timedResource struct {
	closed *atomic.Int32
}

func (r *timedResource) Close() error {
	r.closed.Add(1)
	return nil
}

func newTimeoutProvider(t *testing.T, closed *atomic.Int32) godi.Provider {
	t.Helper()
	collection := godi.NewCollection()
	require.NoError(t, collection.AddScoped(func() *timedResource {
		return &timedResource{closed: closed}
	}))
	provider, err := collection.Build()
	require.NoError(t, err)
	t.Cleanup(func() { _ = provider.Close() })
	return provider
}

func TestWithTimeout(t *testing.T) {
	t.Run("fast request: deadline visible, scope closed once at the end", func(t *testing.T) {
		var closed atomic.Int32
		provider := newTimeoutProvider(t, &closed)

		var reqCtx context.Context
		handler := ScopeMiddleware(provider, WithTimeout(time.Minute))(
			http.HandlerFunc(func(w http.ResponseWriter, r *http.Request) {
				reqCtx = r.Context()
				deadline, ok := r.Context().Deadline()
				assert.True(t, ok)
				assert.WithinDuration(t, time.Now().Add(time.Minute), deadline, 5*time.Second)

				scope, err := godi.FromContext(r.Context())
				require.NoError(t, err)
				assert.Equal(t, r.Context(), scope.Context())

				_, err = godi.Resolve[*timedResource](scope)
				require.NoError(t, err)
				assert.Equal(t, int32(0), closed.Load())
			}))

		handler.ServeHTTP(httptest.NewRecorder(), httptest.NewRequest(http.MethodGet, "/", nil))

		assert.Equal(t, int32(1), closed.Load())
		// Closed by the middleware, not by the timer.
		assert.ErrorIs(t, reqCtx.Err(), context.Canceled)
	})

	t.Run("slow request: timeout cancels the context and closes the scope once", func(t *testing.T) {
		var closed atomic.Int32
		provider := newTimeoutProvider(t, &closed)

		var closeErrs atomic.Int32
		var heldScope godi.Scope

		handler := ScopeMiddleware(provider,
			WithTimeout(20*time.Millisecond),
			WithCloseErrorHandler(func(error) { closeErrs.Add(1) }),
		)(http.HandlerFunc(func(w http.ResponseWriter, r *http.Request) {
			scope, err := godi.FromContext(r.Context())
			require.NoError(t, err)
			heldScope = scope

			_, err = godi.Resolve[*timedResource](scope)
			require.NoError(t, err)

			select {
			case <-r.Context().Done():
			case <-time.After(5 * time.Second):
				t.Error("request context was not cancelled by the timeout")
				return
			}
			assert.ErrorIs(t, r.Context().Err(), context.DeadlineExceeded)

			// The scope is closed by the core's auto-close goroutine.
			assert.Eventually(t, func() bool { return closed.Load() == 1 }, 5*time.Second, time.Millisecond)

			_, err = godi.Resolve[*timedResource](scope)
			assert.ErrorIs(t, err, godi.ErrScopeDisposed)
			_, err = scope.CreateScope(context.Background())
			assert.ErrorIs(t, err, godi.ErrScopeDisposed)

			w.WriteHeader(http.StatusGatewayTimeout)
		}))

		rec := httptest.NewRecorder()
		handler.ServeHTTP(rec, httptest.NewRequest(http.MethodGet, "/", nil))

		assert.Equal(t, http.StatusGatewayTimeout, rec.Code)
		assert.Equal(t, int32(1), closed.Load(), "the deferred Close must not dispose a second time")
		assert.Equal(t, int32(0), closeErrs.Load())
		assert.NoError(t, heldScope.Close(), "closing again is a no-op")
		assert.Equal(t, int32(1), closed.Load())
	})

	t.Run("zero and negative durations disable the timeout", func(t *testing.T) {
		for _, d := range []time.Duration{0, -time.Second} {
			var closed atomic.Int32
			provider := newTimeoutProvider(t, &closed)

			handler := ScopeMiddleware(provider, WithTimeout(d))(
				http.HandlerFunc(func(w http.ResponseWriter, r *http.Request) {
					_, ok := r.Context().Deadline()
					assert.False(t, ok)
					assert.NoError(t, r.Context().Err())

					scope, err := godi.FromContext(r.Context())
					require.NoError(t, err)
					_, err = godi.Resolve[*timedResource](scope)
					require.NoError(t, err)
				}))

			handler.ServeHTTP(httptest.NewRecorder(), httptest.NewRequest(http.MethodGet, "/", nil))
			assert.Equal(t, int32(1), closed.Load())
		}
	})

	t.Run("exit paths: middleware error, creation failure, handler panic", func(t *testing.T) {
		var closed atomic.Int32
		provider := newTimeoutProvider(t, &closed)

		// Middleware error: error handler runs, handler does not, scope closed once.
		var handlerRan atomic.Bool
		var errorsHandled atomic.Int32
		boom := errors.New("boom")
		handler := ScopeMiddleware(provider,
			WithTimeout(time.Minute),
			WithMiddleware(func(scope godi.Scope, r *http.Request) error {
				_, err := godi.Resolve[*timedResource](scope)
				require.NoError(t, err)
				return boom
			}),
			WithErrorHandler(func(w http.ResponseWriter, r *http.Request, err error) {
				errorsHandled.Add(1)
				assert.ErrorIs(t, err, boom)
			}),
		)(http.HandlerFunc(func(http.ResponseWriter, *http.Request) { handlerRan.Store(true) }))
		handler.ServeHTTP(httptest.NewRecorder(), httptest.NewRequest(http.MethodGet, "/", nil))
		assert.False(t, handlerRan.Load())
		assert.Equal(t, int32(1), errorsHandled.Load())
		assert.Equal(t, int32(1), closed.Load())

		// Handler panic: the scope is still closed exactly once.
		closed.Store(0)
		handler = ScopeMiddleware(provider, WithTimeout(time.Minute))(
			http.HandlerFunc(func(w http.ResponseWriter, r *http.Request) {
				scope, _ := godi.FromContext(r.Context())
				_, err := godi.Resolve[*timedResource](scope)
				require.NoError(t, err)
				panic("handler panic")
			}))
		assert.PanicsWithValue(t, "handler panic", func() {
			handler.ServeHTTP(httptest.NewRecorder(), httptest.NewRequest(http.MethodGet, "/", nil))
		})
		assert.Equal(t, int32(1), closed.Load())

		// Scope creation failure: error handler instead of handler.
		require.NoError(t, provider.Close())
		errorsHandled.Store(0)
		handler = ScopeMiddleware(provider,
			WithTimeout(time.Minute),
			WithErrorHandler(func(w http.ResponseWriter, r *http.Request, err error) {
				errorsHandled.Add(1)
				assert.ErrorIs(t, err, godi.ErrProviderDisposed)
			}),
		)(http.HandlerFunc(func(http.ResponseWriter, *http.Request) { handlerRan.Store(true) }))
		handler.ServeHTTP(httptest.NewRecorder(), httptest.NewRequest(http.MethodGet, "/", nil))
		assert.False(t, handlerRan.Load())
		assert.Equal(t, int32(1), errorsHandled.Load())
	})

	t.Run("many concurrent requests leave no goroutines or timers behind", func(t *testing.T) {
		var closed atomic.Int32
		provider := newTimeoutProvider(t, &closed)

		var mu sync.Mutex
		instances := map[*timedResource]struct{}{}

		handler := ScopeMiddleware(provider, WithTimeout(time.Hour))(
			Handle(func(res *timedResource, w http.ResponseWriter, r *http.Request) {
				mu.Lock()
				instances[res] = struct{}{}
				mu.Unlock()
			}))

		before := runtime.NumGoroutine()

		const workers, perWorker = 8, 50
		var wg sync.WaitGroup
		for i := 0; i < workers; i++ {
			wg.Add(1)
			go func() {
				defer wg.Done()
				for j := 0; j < perWorker; j++ {
					handler.ServeHTTP(httptest.NewRecorder(), httptest.NewRequest(http.MethodGet, "/", nil))
				}
			}()
		}
		wg.Wait()

		assert.Len(t, instances, workers*perWorker)
		assert.Equal(t, int32(workers*perWorker), closed.Load())
		assert.Eventually(t, func() bool {
			return runtime.NumGoroutine() <= before+2
		}, 5*time.Second, 5*time.Millisecond, "auto-close goroutines must end with the request")
	})
}
