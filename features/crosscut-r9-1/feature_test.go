package godi

import (
	"errors"
	"reflect"
	"sync"
	"sync/atomic"
	"testing"

	"github.com/stretchr/testify/assert"
	"github.com/stretchr/testify/require"
)

type beService struct{ closed atomic.Int32 }

func (s *beService) Close() error {
	s.closed.Add(1)
	return nil
}

type beDependent struct{ svc *beService }

type beMissing struct{}

func beObserver(t *testing.T, c Collection) BuildObserver {
	t.Helper()
	observer, ok := c.(BuildObserver)
	require.True(t, ok, "collections implement BuildObserver")
	return observer
}

func TestBuildEvents_OrderAndArguments(t *testing.T) {
	c := NewCollection()
	observer := beObserver(t, c)

	var (
		events       []string
		constructed  int
		doneProvider Provider
		doneErr      error
	)

	require.NoError(t, c.AddSingleton(func() *beService {
		constructed++
		events = append(events, "constructor")
		return &beService{}
	}))

	observer.OnBuildStart(nil)
	observer.OnBuildDone(nil)
	observer.OnBuildStart(func() {
		assert.Empty(t, events, "start callbacks run before any constructor")
		events = append(events, "start1")
	})
	observer.OnBuildStart(func() { events = append(events, "start2") })
	observer.OnBuildDone(func(p Provider, err error) {
		events = append(events, "done1")
		doneProvider, doneErr = p, err
	})
	observer.OnBuildDone(func(Provider, error) { events = append(events, "done2") })

	p1, err := c.Build()
	require.NoError(t, err)
	defer p1.Close()

	assert.Equal(t, []string{"start1", "start2", "constructor", "done1", "done2"}, events)
	assert.Same(t, p1, doneProvider, "done callbacks see the provider that Build returns")
	assert.NoError(t, doneErr)

	// The callbacks stay registered: a second build reports its own provider
	events = nil
	p2, err := c.BuildWithOptions(&ProviderOptions{})
	require.NoError(t, err)
	defer p2.Close()

	assert.Equal(t, []string{"start1", "start2", "constructor", "done1", "done2"}, events)
	assert.Same(t, p2, doneProvider)
	assert.NotEqual(t, p1.ID(), p2.ID())
	assert.Equal(t, 2, constructed, "one construction per build")
}

func TestBuildEvents_FailedBuild(t *testing.T) {
	c := NewCollection()
	observer := beObserver(t, c)

	require.NoError(t, c.AddSingleton(func(*beMissing) *beDependent { return &beDependent{} }))

	var (
		calls        int
		doneProvider Provider
		doneErr      error
	)
	observer.OnBuildDone(func(p Provider, err error) {
		calls++
		doneProvider, doneErr = p, err
	})

	p, err := c.Build()
	require.Error(t, err)
	assert.Nil(t, p)
	assert.ErrorIs(t, err, ErrServiceNotFound)
	assert.Equal(t, 1, calls)
	assert.True(t, doneProvider == nil, "a failed build has no provider, not a typed nil")
	assert.Same(t, err, doneErr)

	// Completing the registrations makes the next build succeed
	require.NoError(t, c.AddSingleton(func() *beMissing { return &beMissing{} }))

	p, err = c.Build()
	require.NoError(t, err)
	assert.Equal(t, 2, calls)
	assert.Same(t, p, doneProvider)
	assert.NoError(t, doneErr)
	require.NoError(t, p.Close())
}

func TestBuildEvents_CallbacksRunOutsideTheLock(t *testing.T) {
	c := NewCollection()
	observer := beObserver(t, c)
	require.NoError(t, c.AddSingleton(func() *beService { return &beService{} }))

	serviceType := reflect.TypeOf((*beService)(nil))
	lateCalls := 0

	observer.OnBuildStart(func() {
		// Reading and even changing the collection must not deadlock
		assert.Equal(t, 1, c.Count())
		assert.True(t, c.Contains(serviceType))
		observer.OnBuildDone(func(Provider, error) { lateCalls++ })
	})
	observer.OnBuildDone(func(p Provider, err error) {
		require.NoError(t, err)
		assert.Len(t, c.ToSlice(), 1)

		// A registration made now does not reach the provider already built
		require.NoError(t, c.AddSingleton(func() *beMissing { return &beMissing{} }))
		_, getErr := p.Get(reflect.TypeOf((*beMissing)(nil)))
		assert.ErrorIs(t, getErr, ErrServiceNotFound)
	})

	p, err := c.Build()
	require.NoError(t, err)
	require.NoError(t, p.Close())
	assert.Zero(t, lateCalls, "a callback added during a build starts with the next build")
	assert.Equal(t, 2, c.Count())
}

func TestBuildEvents_StartPanicAbandonsBuild(t *testing.T) {
	c := NewCollection()
	observer := beObserver(t, c)

	constructed := 0
	require.NoError(t, c.AddSingleton(func() *beService {
		constructed++
		return &beService{}
	}))

	var doneErr error
	second := false
	observer.OnBuildStart(func() { panic("boom") })
	observer.OnBuildStart(func() { second = true })
	observer.OnBuildDone(func(p Provider, err error) {
		assert.True(t, p == nil)
		doneErr = err
	})

	p, err := c.Build()
	assert.Nil(t, p)
	require.Error(t, err)
	assert.Same(t, err, doneErr, "done callbacks see the returned error")
	assert.Zero(t, constructed, "nothing is constructed after a failed start callback")
	assert.False(t, second)

	var buildErr *BuildError
	require.ErrorAs(t, err, &buildErr)
	var panicErr *BuildHookPanicError
	require.ErrorAs(t, err, &panicErr)
	assert.Equal(t, "start", panicErr.Event)
	assert.Equal(t, "boom", panicErr.Panic)
}

func TestBuildEvents_DonePanicReleasesProvider(t *testing.T) {
	c := NewCollection()
	observer := beObserver(t, c)

	svc := &beService{}
	require.NoError(t, c.AddSingleton(func() *beService { return svc }))

	var seen Provider
	observer.OnBuildDone(func(Provider, error) { panic(errors.New("bad callback")) })
	observer.OnBuildDone(func(p Provider, err error) {
		require.NoError(t, err)
		seen = p
	})

	p, err := c.Build()
	assert.Nil(t, p)
	require.Error(t, err)
	require.NotNil(t, seen, "later callbacks still run")

	var panicErr *BuildHookPanicError
	require.ErrorAs(t, err, &panicErr)
	assert.Equal(t, "done", panicErr.Event)

	// The provider nobody received is closed, and its singleton exactly once
	assert.EqualValues(t, 1, svc.closed.Load())
	_, getErr := seen.Get(reflect.TypeOf(svc))
	assert.ErrorIs(t, getErr, ErrProviderDisposed)
	require.NoError(t, seen.Close())
	assert.EqualValues(t, 1, svc.closed.Load())
}

func TestBuildEvents_DonePanicKeepsBuildCause(t *testing.T) {
	c := NewCollection()
	observer := beObserver(t, c)
	require.NoError(t, c.AddSingleton(func(*beMissing) *beDependent { return &beDependent{} }))
	observer.OnBuildDone(func(Provider, error) { panic("boom") })

	_, err := c.Build()
	require.Error(t, err)
	assert.ErrorIs(t, err, ErrServiceNotFound)

	var panicErr *BuildHookPanicError
	assert.ErrorAs(t, err, &panicErr)
}

func TestBuildEvents_ConcurrentBuilds(t *testing.T) {
	c := NewCollection()
	observer := beObserver(t, c)
	require.NoError(t, c.AddSingleton(func() *beService { return &beService{} }))
	require.NoError(t, c.AddScoped(func(s *beService) *beDependent { return &beDependent{svc: s} }))

	var starts, dones atomic.Int32
	observer.OnBuildStart(func() { starts.Add(1) })
	observer.OnBuildDone(func(p Provider, err error) {
		if err == nil && p != nil {
			dones.Add(1)
		}
	})

	const builders = 8
	var wg sync.WaitGroup
	ids := make([]string, builders)
	for i := 0; i < builders; i++ {
		wg.Add(1)
		go func(i int) {
			defer wg.Done()
			// Registering more callbacks races with nothing
			observer.OnBuildStart(func() {})

			p, err := c.Build()
			if !assert.NoError(t, err) {
				return
			}
			ids[i] = p.ID()
			assert.NoError(t, p.Close())
		}(i)
	}
	wg.Wait()

	assert.EqualValues(t, builders, starts.Load())
	assert.EqualValues(t, builders, dones.Load())

	unique := map[string]struct{}{}
	for _, id := range ids {
		unique[id] = struct{}{}
	}
	assert.Len(t, unique, builders)
}
