package godi

import (
	"errors"
	"reflect"
	"sync"
	"sync/atomic"
	"testing"
	"time"

	"github.com/stretchr/testify/assert"
	"github.com/stretchr/testify/require"
)

type (
	mgLogger struct{ n int32 }
	mgDB     struct{ log *mgLogger }
	mgCache  struct{ name string }
	mgPlugin struct{ name string }
	mgA      struct{}
	mgB      struct{}
)

type mgCloser struct{ closed atomic.Int32 }

func (c *mgCloser) Close() error { c.closed.Add(1); return nil }

type mgHostIn struct {
	In
	Plugins []*mgPlugin `group:"plugins"`
}

type mgHost struct{ plugins []*mgPlugin }

type mgOut struct {
	Out
	Cache *mgCache `name:"out"`
	DB    *mgDB
}

func mgPluginNames(t *testing.T, p Provider) []string {
	t.Helper()
	host, err := Resolve[*mgHost](p)
	require.NoError(t, err)
	names := make([]string, 0, len(host.plugins))
	for _, plugin := range host.plugins {
		names = append(names, plugin.name)
	}
	return names
}

func TestCollectionMerge(t *testing.T) {
	loggerType := reflect.TypeOf((*mgLogger)(nil))
	dbType := reflect.TypeOf((*mgDB)(nil))
	cacheType := reflect.TypeOf((*mgCache)(nil))
	pluginType := reflect.TypeOf((*mgPlugin)(nil))

	t.Run("behaves_like_the_same_add_calls", func(t *testing.T) {
		var loggers atomic.Int32

		shared := NewCollection()
		require.NoError(t, shared.AddSingleton(func() *mgLogger { return &mgLogger{n: loggers.Add(1)} }))
		require.NoError(t, shared.AddSingleton(func() *mgCache { return &mgCache{name: "redis"} }, Name("redis")))
		require.NoError(t, shared.AddTransient(func() *mgPlugin { return &mgPlugin{name: "s1"} }, Group("plugins")))
		require.NoError(t, shared.AddTransient(func() *mgPlugin { return &mgPlugin{name: "s2"} }, Group("plugins")))

		app := NewCollection()
		require.NoError(t, app.AddTransient(func() *mgPlugin { return &mgPlugin{name: "a1"} }, Group("plugins")))
		require.NoError(t, app.AddScoped(func(l *mgLogger) *mgDB { return &mgDB{log: l} }))
		require.NoError(t, app.AddTransient(func(in mgHostIn) *mgHost { return &mgHost{plugins: in.Plugins} }))

		sharedBefore := shared.ToSlice()
		sharedKeys := []any{sharedBefore[2].Key, sharedBefore[3].Key}

		require.NoError(t, app.Merge(shared))

		assert.Equal(t, 7, app.Count())
		assert.True(t, app.Contains(loggerType))
		assert.True(t, app.ContainsKeyed(cacheType, "redis"))
		assert.False(t, app.Contains(cacheType))

		// The source is untouched: same descriptors, same group positions
		assert.Equal(t, sharedBefore, shared.ToSlice())
		assert.Equal(t, sharedKeys, []any{shared.ToSlice()[2].Key, shared.ToSlice()[3].Key})
		assert.Equal(t, 4, shared.Count())

		// The receiver got descriptors of its own, appended in the source's order
		merged := app.ToSlice()
		for i, d := range sharedBefore {
			assert.NotSame(t, d, merged[3+i])
			assert.Equal(t, d.Type, merged[3+i].Type)
			assert.Equal(t, d.Lifetime, merged[3+i].Lifetime)
		}

		p, err := app.Build()
		require.NoError(t, err)
		defer p.Close()
		assert.EqualValues(t, 1, loggers.Load())

		// Group members: existing ones first, then the merged ones in their order
		assert.Equal(t, []string{"a1", "s1", "s2"}, mgPluginNames(t, p))

		s1, err := p.CreateScope(nil)
		require.NoError(t, err)
		s2, err := p.CreateScope(nil)
		require.NoError(t, err)
		db1, err := Resolve[*mgDB](s1)
		require.NoError(t, err)
		db2, err := Resolve[*mgDB](s2)
		require.NoError(t, err)
		assert.NotSame(t, db1, db2)
		assert.Same(t, db1.log, db2.log)
		cache, err := ResolveKeyed[*mgCache](s1, "redis")
		require.NoError(t, err)
		assert.Equal(t, "redis", cache.name)

		// The source still builds on its own, with its own singleton and its own group
		sp, err := shared.Build()
		require.NoError(t, err)
		defer sp.Close()
		assert.EqualValues(t, 2, loggers.Load(), "one construction per provider")
		own, err := Resolve[*mgLogger](sp)
		require.NoError(t, err)
		assert.NotSame(t, db1.log, own)
		plugins, err := ResolveGroup[*mgPlugin](sp, "plugins")
		require.NoError(t, err)
		require.Len(t, plugins, 2)
		assert.Equal(t, "s1", plugins[0].name)
		assert.Equal(t, "s2", plugins[1].name)
	})

	t.Run("conflict_leaves_the_receiver_as_it_was", func(t *testing.T) {
		source := NewCollection()
		require.NoError(t, source.AddSingleton(func() *mgA { return &mgA{} }))
		require.NoError(t, source.AddTransient(func() *mgPlugin { return &mgPlugin{name: "s"} }, Group("plugins")))
		require.NoError(t, source.AddSingleton(func() *mgCache { return &mgCache{name: "theirs"} }, Name("main")))
		require.NoError(t, source.AddSingleton(func() *mgB { return &mgB{} }))

		dest := NewCollection()
		require.NoError(t, dest.AddSingleton(func() *mgCache { return &mgCache{name: "mine"} }, Name("main")))
		before := dest.ToSlice()

		err := dest.Merge(source)
		require.Error(t, err)
		var already *AlreadyRegisteredError
		require.ErrorAs(t, err, &already)
		assert.Equal(t, cacheType, already.ServiceType)

		assert.Equal(t, before, dest.ToSlice())
		assert.Equal(t, 1, dest.Count())
		assert.False(t, dest.Contains(reflect.TypeOf((*mgA)(nil))), "nothing of a rejected merge is kept")
		assert.False(t, dest.(*collection).HasGroup(pluginType, "plugins"))

		p, err := dest.Build()
		require.NoError(t, err)
		defer p.Close()
		cache, err := ResolveKeyed[*mgCache](p, "main")
		require.NoError(t, err)
		assert.Equal(t, "mine", cache.name)

		// Merging the same source twice is registering everything twice
		fresh := NewCollection()
		require.NoError(t, fresh.Merge(source))
		err = fresh.Merge(source)
		require.ErrorAs(t, err, &already)
		assert.Equal(t, 4, fresh.Count())
	})

	t.Run("collections_stay_independent", func(t *testing.T) {
		source := NewCollection()
		require.NoError(t, source.AddSingleton(func() *mgLogger { return &mgLogger{} }))
		require.NoError(t, source.AddSingleton(func(l *mgLogger) *mgDB { return &mgDB{log: l} }))

		dest := NewCollection()
		require.NoError(t, dest.Merge(source))

		source.Remove(loggerType)
		assert.True(t, dest.Contains(loggerType))
		_, err := source.Build()
		require.ErrorIs(t, err, ErrServiceNotFound)

		p, err := dest.Build()
		require.NoError(t, err)
		defer p.Close()

		dest.Remove(dbType)
		assert.True(t, source.Contains(dbType))
		_, err = Resolve[*mgDB](p)
		require.NoError(t, err, "a built provider does not follow the collection")

		// A removed registration can be merged in again
		require.NoError(t, source.AddSingleton(func() *mgLogger { return &mgLogger{} }))
		require.Error(t, dest.Merge(source), "logger is still registered in dest")
		dest.Remove(loggerType)
		require.NoError(t, dest.Merge(source))
		assert.Equal(t, 2, dest.Count())
	})

	t.Run("multi_output_initializer_and_disposal", func(t *testing.T) {
		var calls, inits atomic.Int32
		closer := &mgCloser{}

		source := NewCollection()
		require.NoError(t, source.AddSingleton(func() (*mgA, *mgB) { calls.Add(1); return &mgA{}, &mgB{} }))
		require.NoError(t, source.AddSingleton(func() mgOut {
			calls.Add(1)
			return mgOut{Cache: &mgCache{name: "out"}, DB: &mgDB{}}
		}))
		require.NoError(t, source.AddSingleton(func() *mgPlugin { return &mgPlugin{name: "second"} }, Group("plugins")))
		require.NoError(t, source.AddScoped(func(*mgA) { inits.Add(1) }))
		require.NoError(t, source.AddSingleton(func() *mgCloser { return closer }))

		dest := NewCollection()
		require.NoError(t, dest.AddSingleton(func() *mgPlugin { return &mgPlugin{name: "first"} }, Group("plugins")))
		require.NoError(t, dest.AddTransient(func(in mgHostIn) *mgHost { return &mgHost{plugins: in.Plugins} }))
		require.NoError(t, dest.Merge(source))

		p, err := dest.Build()
		require.NoError(t, err)
		assert.EqualValues(t, 2, calls.Load(), "each multi-output constructor ran once")
		assert.EqualValues(t, 1, inits.Load(), "initializer ran for the root scope")

		a, err := Resolve[*mgA](p)
		require.NoError(t, err)
		b, err := Resolve[*mgB](p)
		require.NoError(t, err)
		require.NotNil(t, a)
		require.NotNil(t, b)
		cache, err := ResolveKeyed[*mgCache](p, "out")
		require.NoError(t, err)
		assert.Equal(t, "out", cache.name)
		db, err := Resolve[*mgDB](p)
		require.NoError(t, err)
		require.NotNil(t, db)
		assert.Equal(t, []string{"first", "second"}, mgPluginNames(t, p))
		assert.EqualValues(t, 2, calls.Load())

		s, err := p.CreateScope(nil)
		require.NoError(t, err)
		assert.EqualValues(t, 2, inits.Load(), "initializer runs once per scope")
		require.NoError(t, s.Close())

		require.NoError(t, p.Close())
		assert.EqualValues(t, 1, closer.closed.Load())
		require.NoError(t, p.Close())
		assert.EqualValues(t, 1, closer.closed.Load())
	})

	t.Run("lifetimes_survive_the_merge", func(t *testing.T) {
		source := NewCollection()
		require.NoError(t, source.AddScoped(func() *mgLogger { return &mgLogger{} }))

		dest := NewCollection()
		require.NoError(t, dest.AddSingleton(func(l *mgLogger) *mgDB { return &mgDB{log: l} }))
		require.NoError(t, dest.Merge(source))

		_, err := dest.Build()
		var conflict *LifetimeConflictError
		require.ErrorAs(t, err, &conflict)

		cyclic := NewCollection()
		require.NoError(t, cyclic.AddSingleton(func(*mgB) *mgA { return &mgA{} }))
		other := NewCollection()
		require.NoError(t, other.AddSingleton(func(*mgA) *mgB { return &mgB{} }))
		require.NoError(t, cyclic.Merge(other))
		_, err = cyclic.Build()
		var cycle *CircularDependencyError
		require.ErrorAs(t, err, &cycle)
	})

	t.Run("invalid_arguments", func(t *testing.T) {
		c := NewCollection()
		require.NoError(t, c.AddTransient(func() *mgPlugin { return &mgPlugin{} }, Group("plugins")))

		err := c.Merge(nil)
		require.ErrorIs(t, err, ErrCollectionNil)
		var validation *ValidationError
		require.ErrorAs(t, err, &validation)

		require.ErrorAs(t, c.Merge(c), &validation)
		assert.Equal(t, 1, c.Count())

		require.NoError(t, c.Merge(NewCollection()))
		assert.Equal(t, 1, c.Count())
	})

	t.Run("include_in_nested_modules", func(t *testing.T) {
		shared := NewCollection()
		require.NoError(t, shared.AddSingleton(func() *mgLogger { return &mgLogger{} }))

		viaModule := NewCollection()
		require.NoError(t, viaModule.AddModules(NewModule("outer",
			AddSingleton(func() *mgA { return &mgA{} }),
			NewModule("inner", Include(shared), nil),
			AddScoped(func(l *mgLogger) *mgDB { return &mgDB{log: l} }),
		)))

		direct := NewCollection()
		require.NoError(t, direct.AddSingleton(func() *mgA { return &mgA{} }))
		require.NoError(t, direct.Merge(shared))
		require.NoError(t, direct.AddScoped(func(l *mgLogger) *mgDB { return &mgDB{log: l} }))

		require.Equal(t, direct.Count(), viaModule.Count())
		for i, d := range direct.ToSlice() {
			assert.Equal(t, d.Type, viaModule.ToSlice()[i].Type)
			assert.Equal(t, d.Lifetime, viaModule.ToSlice()[i].Lifetime)
		}

		// A failing Include stops the module; what came before stays
		again := NewCollection()
		err := again.AddModules(NewModule("outer",
			AddSingleton(func() *mgLogger { return &mgLogger{} }),
			NewModule("inner", Include(shared)),
			AddSingleton(func() *mgA { return &mgA{} }),
		))
		require.Error(t, err)

		var outer ModuleError
		require.ErrorAs(t, err, &outer)
		assert.Equal(t, "outer", outer.Module)
		var inner ModuleError
		require.True(t, errors.As(outer.Cause, &inner))
		assert.Equal(t, "inner", inner.Module)
		var already *AlreadyRegisteredError
		require.ErrorAs(t, err, &already)

		assert.Equal(t, 1, again.Count())
		assert.False(t, again.Contains(reflect.TypeOf((*mgA)(nil))))
	})

	t.Run("concurrent_merges", func(t *testing.T) {
		// Two collections merged into each other must not deadlock
		left, right := NewCollection(), NewCollection()
		require.NoError(t, left.AddTransient(func() *mgPlugin { return &mgPlugin{name: "l"} }, Group("plugins")))
		require.NoError(t, right.AddTransient(func() *mgPlugin { return &mgPlugin{name: "r"} }, Group("plugins")))

		done := make(chan struct{})
		go func() {
			defer close(done)
			var wg sync.WaitGroup
			for i := 0; i < 4; i++ {
				wg.Add(2)
				go func() { defer wg.Done(); assert.NoError(t, left.Merge(right)) }()
				go func() { defer wg.Done(); assert.NoError(t, right.Merge(left)) }()
			}
			wg.Wait()
		}()

		select {
		case <-done:
		case <-time.After(10 * time.Second):
			t.Fatal("concurrent merges deadlocked")
		}

		for _, c := range []Collection{left, right} {
			// Positions inside the group stay dense and ordered
			for i, d := range c.ToSlice() {
				assert.Equal(t, i+1, d.Key)
			}
			p, err := c.Build()
			require.NoError(t, err)
			plugins, err := ResolveGroup[*mgPlugin](p, "plugins")
			require.NoError(t, err)
			assert.Len(t, plugins, c.Count())
			require.NoError(t, p.Close())
		}

		// Many sources into one receiver, while it is being read
		dest := NewCollection()
		var wg sync.WaitGroup
		for i := 0; i < 8; i++ {
			source := NewCollection()
			require.NoError(t, source.AddSingleton(func() *mgCache { return &mgCache{} }, Name("cache"+string(rune('a'+i)))))
			wg.Add(1)
			go func() {
				defer wg.Done()
				assert.NoError(t, dest.Merge(source))
				_ = dest.Count()
				_ = dest.ToSlice()
			}()
		}
		wg.Wait()
		assert.Equal(t, 8, dest.Count())
	})
}
