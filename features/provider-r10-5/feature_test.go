package godi

import (
	"context"
	"errors"
	"sync"
	"sync/atomic"
	"testing"
	"time"

	"github.com/stretchr/testify/require"
)

// pingRecorder collects what the test services observe.
type pingRecorder struct {
	mu         sync.Mutex
	order      []string
	hooks      map[string]func(ctx context.Context) error
	violations atomic.Int32
}

func (r *pingRecorder) add(name string) {
	r.mu.Lock()
	defer r.mu.Unlock()
	r.order = append(r.order, name)
}

func (r *pingRecorder) take() []string {
	r.mu.Lock()
	defer r.mu.Unlock()
	order := r.order
	r.order = nil
	return order
}

type pingBase struct {
	name     string
	rec      *pingRecorder
	closed   atomic.Bool
	inflight atomic.Int32
}

func (b *pingBase) Ping(ctx context.Context) error {
	b.inflight.Add(1)
	defer b.inflight.Add(-1)

	if b.closed.Load() {
		b.rec.violations.Add(1)
	}

	b.rec.add(b.name)
	if hook := b.rec.hooks[b.name]; hook != nil {
		return hook(ctx)
	}
	return nil
}

func (b *pingBase) Close() error {
	if b.inflight.Load() != 0 {
		b.rec.violations.Add(1)
	}
	b.closed.Store(true)
	return nil
}

type pingA struct{ pingBase }

type pingB struct {
	pingBase
	a *pingA
}

type pingC struct {
	pingBase
	b *pingB
}

type pingPlain struct{ c *pingC }

type pingScoped struct{ pingBase }

type pingTransient struct{ pingBase }

type pingOut struct {
	Out
	Main  *pingC
	Alias *pingC `name:"alias"`
}

// buildPingProvider registers the services in an order that differs from the
// creation order (which follows the dependencies: a, b, c).
func buildPingProvider(t *testing.T, rec *pingRecorder) Provider {
	t.Helper()
	c := NewCollection()
	require.NoError(t, c.AddSingleton(func(c *pingC) *pingPlain { return &pingPlain{c: c} }))
	require.NoError(t, c.AddSingleton(func(b *pingB) pingOut {
		shared := &pingC{pingBase: pingBase{name: "c", rec: rec}, b: b}
		return pingOut{Main: shared, Alias: shared}
	}))
	require.NoError(t, c.AddSingleton(func(a *pingA) *pingB { return &pingB{pingBase: pingBase{name: "b", rec: rec}, a: a} }))
	require.NoError(t, c.AddSingleton(func() *pingA { return &pingA{pingBase: pingBase{name: "a", rec: rec}} }))
	require.NoError(t, c.AddScoped(func() *pingScoped { return &pingScoped{pingBase: pingBase{name: "scoped", rec: rec}} }))
	require.NoError(t, c.AddTransient(func() *pingTransient { return &pingTransient{pingBase: pingBase{name: "transient", rec: rec}} }))

	p, err := c.Build()
	require.NoError(t, err)
	t.Cleanup(func() { _ = p.Close() })
	return p
}

func TestPingSingletons_CreationOrderSingletonsOnly(t *testing.T) {
	rec := &pingRecorder{}
	p := buildPingProvider(t, rec)

	s, err := p.CreateScope(context.Background())
	require.NoError(t, err)
	_, err = Resolve[*pingScoped](s)
	require.NoError(t, err)
	_, err = Resolve[*pingTransient](s)
	require.NoError(t, err)

	// The instance behind two identities is pinged once; scoped and transient
	// instances are left alone
	require.NoError(t, PingSingletons(context.Background(), p))
	require.Equal(t, []string{"a", "b", "c"}, rec.take())

	// Through a scope, and with a nil context
	require.NoError(t, PingSingletons(nil, s))
	require.Equal(t, []string{"a", "b", "c"}, rec.take())

	// Pinging constructs nothing and changes no instance
	main, err := Resolve[*pingC](p)
	require.NoError(t, err)
	alias, err := ResolveKeyed[*pingC](p, "alias")
	require.NoError(t, err)
	require.Same(t, main, alias)

	require.NoError(t, s.Close())
	require.ErrorIs(t, PingSingletons(context.Background(), s), ErrScopeDisposed)
	require.NoError(t, PingSingletons(context.Background(), p))
	require.Equal(t, []string{"a", "b", "c"}, rec.take())

	require.NoError(t, p.Close())
	require.ErrorIs(t, PingSingletons(context.Background(), p), ErrProviderDisposed)
	require.ErrorIs(t, PingSingletons(context.Background(), nil), ErrProviderNil)
	require.Empty(t, rec.take())
	require.Zero(t, rec.violations.Load())
}

func TestPingSingletons_FailuresAreCollected(t *testing.T) {
	down := errors.New("connection refused")
	rec := &pingRecorder{hooks: map[string]func(context.Context) error{
		"a": func(context.Context) error { panic("kaboom") },
		"b": func(context.Context) error { return down },
	}}
	p := buildPingProvider(t, rec)

	err := PingSingletons(context.Background(), p)
	require.Error(t, err)
	require.Equal(t, []string{"a", "b", "c"}, rec.take(), "a failure does not stop the checks")
	require.ErrorIs(t, err, down)

	joined, ok := err.(interface{ Unwrap() []error })
	require.True(t, ok)
	failures := joined.Unwrap()
	require.Len(t, failures, 2)

	var first, second *PingError
	require.ErrorAs(t, failures[0], &first)
	require.Equal(t, PtrTypeOf[pingA](), first.ServiceType)
	require.Contains(t, first.Error(), "kaboom")
	require.ErrorAs(t, failures[1], &second)
	require.Equal(t, PtrTypeOf[pingB](), second.ServiceType)
	require.Same(t, down, second.Cause)

	// The provider is unharmed and a later check starts afresh
	rec.hooks = nil
	require.NoError(t, PingSingletons(context.Background(), p))
	require.Equal(t, []string{"a", "b", "c"}, rec.take())
}

func TestPingSingletons_ContextCancellation(t *testing.T) {
	ctx, cancel := context.WithCancel(context.Background())
	rec := &pingRecorder{hooks: map[string]func(context.Context) error{
		"b": func(context.Context) error { cancel(); return nil },
	}}
	p := buildPingProvider(t, rec)

	err := PingSingletons(ctx, p)
	require.ErrorIs(t, err, context.Canceled)
	require.Equal(t, []string{"a", "b"}, rec.take())

	err = PingSingletons(ctx, p)
	require.ErrorIs(t, err, context.Canceled)
	require.Empty(t, rec.take())
}

func TestPingSingletons_CloseWaitsForRunningPing(t *testing.T) {
	entered := make(chan struct{})
	release := make(chan struct{})
	nested := make(chan error, 1)

	var p Provider
	rec := &pingRecorder{}
	rec.hooks = map[string]func(context.Context) error{
		"a": func(ctx context.Context) error {
			close(entered)
			<-release

			// Close is waiting for this very Ping: a nested check must not
			// block behind it, it reports the provider as closed
			nested <- PingSingletons(ctx, p)
			return nil
		},
	}
	p = buildPingProvider(t, rec)
	a, err := Resolve[*pingA](p)
	require.NoError(t, err)

	pingDone := make(chan error, 1)
	go func() { pingDone <- PingSingletons(context.Background(), p) }()
	<-entered

	closeDone := make(chan error, 1)
	go func() { closeDone <- p.Close() }()

	// The provider refuses new work, but the singleton stays open while pinged
	require.Eventually(t, func() bool {
		_, err := Resolve[*pingA](p)
		return errors.Is(err, ErrProviderDisposed)
	}, 2*time.Second, time.Millisecond)
	select {
	case <-closeDone:
		t.Fatal("Close returned while a Ping was running")
	case <-time.After(20 * time.Millisecond):
	}
	require.False(t, a.closed.Load())

	// A second Close does not wait and closes nothing
	require.NoError(t, p.Close())
	require.False(t, a.closed.Load())

	close(release)
	require.ErrorIs(t, <-nested, ErrProviderDisposed)
	require.NoError(t, <-closeDone)
	require.True(t, a.closed.Load())

	// The interrupted check reports the closed provider and pinged nothing else
	require.ErrorIs(t, <-pingDone, ErrProviderDisposed)
	require.Equal(t, []string{"a"}, rec.take())
	require.Zero(t, rec.violations.Load())
}

func TestPingSingletons_NeverAfterClose(t *testing.T) {
	for round := 0; round < 30; round++ {
		rec := &pingRecorder{}
		p := buildPingProvider(t, rec)

		s, err := p.CreateScope(context.Background())
		require.NoError(t, err)

		var wg sync.WaitGroup
		start := make(chan struct{})
		for i := 0; i < 6; i++ {
			target := p
			if i%2 == 1 {
				target = s
			}

			wg.Add(1)
			go func() {
				defer wg.Done()
				<-start
				for {
					err := PingSingletons(context.Background(), target)
					if err == nil {
						continue
					}
					if !errors.Is(err, ErrProviderDisposed) && !errors.Is(err, ErrScopeDisposed) {
						t.Errorf("unexpected error: %v", err)
					}
					return
				}
			}()
		}

		close(start)
		time.Sleep(time.Duration(round%5) * 100 * time.Microsecond)
		require.NoError(t, p.Close())
		wg.Wait()

		require.Zero(t, rec.violations.Load(), "a singleton was pinged while or after being closed")
	}
}

func TestPingSingletons_FailedBuildStillCleansUp(t *testing.T) {
	rec := &pingRecorder{}
	boom := errors.New("boom")
	var a *pingA

	c := NewCollection()
	require.NoError(t, c.AddSingleton(func() *pingA {
		a = &pingA{pingBase: pingBase{name: "a", rec: rec}}
		return a
	}))
	require.NoError(t, c.AddSingleton(func(a *pingA, p Provider) (*pingB, error) {
		// A constructor may already check the singletons built before it
		if err := PingSingletons(context.Background(), p); err != nil {
			return nil, err
		}
		return nil, boom
	}))

	_, err := c.Build()
	require.ErrorIs(t, err, boom)
	require.Equal(t, []string{"a"}, rec.take())
	require.True(t, a.closed.Load())
	require.Zero(t, rec.violations.Load())
}
