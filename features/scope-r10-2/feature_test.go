package godi

import (
	"context"
	"errors"
	"sync"
	"sync/atomic"
	"testing"
	"time"

	"github.com/stretchr/testify/assert"
	"github.com/stretchr/testify/require"
)

func scopeIDs(scopes []Scope) []string {
	ids := make([]string, len(scopes))
	for i, s := range scopes {
		ids[i] = s.(*scope).ID()
	}
	return ids
}

func TestScopeTreeChildren(t *testing.T) {
	t.Run("provider and scope report direct children in creation order", func(t *testing.T) {
		p, err := NewCollection().Build()
		require.NoError(t, err)
		defer p.Close()

		tree := p.(ScopeTree)
		children, err := tree.Children()
		require.NoError(t, err)
		assert.Empty(t, children, "the root scope is not a child")

		var top []Scope
		for i := 0; i < 12; i++ {
			s, err := p.CreateScope(context.Background())
			require.NoError(t, err)
			top = append(top, s)
		}
		var nested []Scope
		for i := 0; i < 12; i++ {
			s, err := top[3].CreateScope(nil)
			require.NoError(t, err)
			nested = append(nested, s)
		}
		grandchild, err := nested[0].CreateScope(nil)
		require.NoError(t, err)

		children, err = tree.Children()
		require.NoError(t, err)
		assert.Equal(t, scopeIDs(top), scopeIDs(children), "only top-level scopes, oldest first")

		children, err = top[3].(ScopeTree).Children()
		require.NoError(t, err)
		assert.Equal(t, scopeIDs(nested), scopeIDs(children))
		for i := range children {
			assert.Same(t, nested[i], children[i])
		}

		children, err = nested[0].(ScopeTree).Children()
		require.NoError(t, err)
		require.Len(t, children, 1)
		assert.Same(t, grandchild, children[0])

		children, err = top[0].(ScopeTree).Children()
		require.NoError(t, err)
		assert.Empty(t, children)
	})

	t.Run("snapshot is detached from the live table", func(t *testing.T) {
		p, err := NewCollection().Build()
		require.NoError(t, err)
		defer p.Close()

		parent, err := p.CreateScope(context.Background())
		require.NoError(t, err)
		a, err := parent.CreateScope(nil)
		require.NoError(t, err)
		b, err := parent.CreateScope(nil)
		require.NoError(t, err)

		snapshot, err := parent.(ScopeTree).Children()
		require.NoError(t, err)
		require.Len(t, snapshot, 2)

		// Mutating the snapshot must not affect the scope
		snapshot[0] = nil
		snapshot = append(snapshot[:0], snapshot[1:]...)
		_ = snapshot

		again, err := parent.(ScopeTree).Children()
		require.NoError(t, err)
		assert.Equal(t, scopeIDs([]Scope{a, b}), scopeIDs(again))

		// Closing a child removes it from later snapshots, not from old ones
		require.NoError(t, a.Close())
		assert.Len(t, again, 2)
		assert.True(t, again[0].(ScopeTree).IsClosed())
		_, err = again[0].Get(TypeOf[context.Context]())
		assert.ErrorIs(t, err, ErrScopeDisposed)

		after, err := parent.(ScopeTree).Children()
		require.NoError(t, err)
		assert.Equal(t, scopeIDs([]Scope{b}), scopeIDs(after))

		// Closing the parent still closes every child exactly as before
		require.NoError(t, parent.Close())
		assert.True(t, b.(ScopeTree).IsClosed())
	})

	t.Run("closed containers", func(t *testing.T) {
		p, err := NewCollection().Build()
		require.NoError(t, err)

		ctx, cancel := context.WithCancel(context.Background())
		cancelled, err := p.CreateScope(ctx)
		require.NoError(t, err)
		parent, err := p.CreateScope(context.Background())
		require.NoError(t, err)
		child, err := parent.CreateScope(nil)
		require.NoError(t, err)

		assert.False(t, p.(ScopeTree).IsClosed())
		assert.False(t, parent.(ScopeTree).IsClosed())
		assert.False(t, child.(ScopeTree).IsClosed())

		// Cancellation closes the scope and removes it from the provider's children
		cancel()
		require.Eventually(t, cancelled.(ScopeTree).IsClosed, 5*time.Second, time.Millisecond)
		_, err = cancelled.(ScopeTree).Children()
		assert.ErrorIs(t, err, ErrScopeDisposed)
		children, err := p.(ScopeTree).Children()
		require.NoError(t, err)
		assert.Equal(t, scopeIDs([]Scope{parent}), scopeIDs(children))

		require.NoError(t, p.Close())
		assert.True(t, p.(ScopeTree).IsClosed())
		assert.True(t, parent.(ScopeTree).IsClosed())
		assert.True(t, child.(ScopeTree).IsClosed())

		_, err = p.(ScopeTree).Children()
		assert.ErrorIs(t, err, ErrProviderDisposed)
		_, err = parent.(ScopeTree).Children()
		assert.ErrorIs(t, err, ErrScopeDisposed)
		_, err = child.(ScopeTree).Children()
		assert.ErrorIs(t, err, ErrScopeDisposed)
	})

	t.Run("failed scope creation leaves no child", func(t *testing.T) {
		var fail atomic.Bool
		c := NewCollection()
		require.NoError(t, c.AddScoped(func() error {
			if fail.Load() {
				return errors.New("initialization failed")
			}
			return nil
		}))
		p, err := c.Build()
		require.NoError(t, err)
		defer p.Close()

		parent, err := p.CreateScope(context.Background())
		require.NoError(t, err)

		fail.Store(true)
		_, err = p.CreateScope(context.Background())
		require.Error(t, err)
		_, err = parent.CreateScope(nil)
		require.Error(t, err)

		children, err := p.(ScopeTree).Children()
		require.NoError(t, err)
		assert.Equal(t, scopeIDs([]Scope{parent}), scopeIDs(children))
		children, err = parent.(ScopeTree).Children()
		require.NoError(t, err)
		assert.Empty(t, children)
	})

	t.Run("separate providers do not see each other's scopes", func(t *testing.T) {
		c := NewCollection()
		p1, err := c.Build()
		require.NoError(t, err)
		defer p1.Close()
		p2, err := c.Build()
		require.NoError(t, err)
		defer p2.Close()

		s1, err := p1.CreateScope(context.Background())
		require.NoError(t, err)

		children, err := p2.(ScopeTree).Children()
		require.NoError(t, err)
		assert.Empty(t, children)
		children, err = p1.(ScopeTree).Children()
		require.NoError(t, err)
		assert.Equal(t, scopeIDs([]Scope{s1}), scopeIDs(children))
	})
}

func TestScopeTreeConcurrent(t *testing.T) {
	p, err := NewCollection().Build()
	require.NoError(t, err)

	parent, err := p.CreateScope(context.Background())
	require.NoError(t, err)

	var wg sync.WaitGroup
	stop := make(chan struct{})

	// Readers: every snapshot must be sorted and contain only usable handles
	for i := 0; i < 4; i++ {
		wg.Add(1)
		go func(tree ScopeTree, disposed error) {
			defer wg.Done()
			for {
				select {
				case <-stop:
					return
				default:
				}

				children, err := tree.Children()
				if err != nil {
					assert.ErrorIs(t, err, disposed)
					return
				}
				for j := 1; j < len(children); j++ {
					assert.Less(t, children[j-1].(*scope).seq, children[j].(*scope).seq)
				}
				for _, child := range children {
					_ = child.(ScopeTree).IsClosed()
				}
			}
		}(map[bool]ScopeTree{true: p.(ScopeTree), false: parent.(ScopeTree)}[i%2 == 0],
			map[bool]error{true: ErrProviderDisposed, false: ErrScopeDisposed}[i%2 == 0])
	}

	// Writers: create and close scopes at both levels
	for i := 0; i < 4; i++ {
		wg.Add(1)
		go func(from Provider) {
			defer wg.Done()
			for j := 0; j < 200; j++ {
				s, err := from.CreateScope(context.Background())
				if err != nil {
					return
				}
				_ = s.Close()
			}
		}(map[bool]Provider{true: p, false: parent}[i%2 == 0])
	}

	time.Sleep(20 * time.Millisecond)
	require.NoError(t, p.Close())
	close(stop)
	wg.Wait()

	_, err = parent.(ScopeTree).Children()
	assert.ErrorIs(t, err, ErrScopeDisposed)
}
