package reflection_test

import (
	"reflect"
	"sync"
	"testing"

	"github.com/junioryono/godi/v4/internal/reflection"
	"github.com/stretchr/testify/assert"
	"github.com/stretchr/testify/require"
)

type limitDep struct{ id int }

type limitSvc struct{ dep *limitDep }

func newLimitSvc(d *limitDep) (*limitSvc, error) { return &limitSvc{dep: d}, nil }

// limitConstructors returns n constructors with pairwise different types (and
// therefore pairwise different cache keys): func(*limitDep) [i+1]int.
func limitConstructors(n int) []any {
	in := []reflect.Type{reflect.TypeOf((*limitDep)(nil))}
	out := make([]any, n)
	for i := range out {
		ret := reflect.ArrayOf(i+1, reflect.TypeOf(0))
		ft := reflect.FuncOf(in, []reflect.Type{ret}, false)
		out[i] = reflect.MakeFunc(ft, func([]reflect.Value) []reflect.Value {
			return []reflect.Value{reflect.Zero(ret)}
		}).Interface()
	}
	return out
}

func mustAnalyze(t *testing.T, a *reflection.Analyzer, c any) *reflection.ConstructorInfo {
	t.Helper()
	info, err := a.Analyze(c)
	require.NoError(t, err)
	require.NotNil(t, info)
	return info
}

func TestCacheLimit_DefaultIsUnlimited(t *testing.T) {
	a := reflection.New()
	assert.Equal(t, 0, a.CacheLimit())
	for _, c := range limitConstructors(50) {
		mustAnalyze(t, a, c)
	}
	assert.Equal(t, 50, a.CacheSize())

	assert.Equal(t, 0, reflection.NewWithCacheLimit(0).CacheLimit())
	assert.Equal(t, 0, reflection.NewWithCacheLimit(-3).CacheLimit(), "negative means unlimited")
}

func TestCacheLimit_EvictsOldestFirst(t *testing.T) {
	a := reflection.NewWithCacheLimit(3)
	require.Equal(t, 3, a.CacheLimit())

	cs := limitConstructors(5)
	infos := make([]*reflection.ConstructorInfo, len(cs))
	for i, c := range cs {
		infos[i] = mustAnalyze(t, a, c)
		assert.LessOrEqual(t, a.CacheSize(), 3)
	}
	assert.Equal(t, 3, a.CacheSize())

	// The three newest are still served from the cache. Hits do not refresh
	// an entry's position (FIFO, not LRU), so the order of these calls is
	// irrelevant.
	assert.Same(t, infos[2], mustAnalyze(t, a, cs[2]))
	assert.Same(t, infos[4], mustAnalyze(t, a, cs[4]))
	assert.Same(t, infos[3], mustAnalyze(t, a, cs[3]))
	assert.Equal(t, 3, a.CacheSize())

	// cs[0] was evicted: it is analyzed afresh, with an equivalent result ...
	again := mustAnalyze(t, a, cs[0])
	assert.NotSame(t, infos[0], again)
	assert.Equal(t, infos[0].Type, again.Type)
	assert.Equal(t, infos[0].Parameters, again.Parameters)
	assert.Equal(t, infos[0].Returns, again.Returns)
	assert.Equal(t, 3, a.CacheSize())

	// ... and its insertion pushed out cs[2], the oldest survivor - although
	// cs[2] was hit a moment ago.
	assert.Same(t, infos[3], mustAnalyze(t, a, cs[3]))
	assert.Same(t, infos[4], mustAnalyze(t, a, cs[4]))
	assert.Same(t, again, mustAnalyze(t, a, cs[0]))
	assert.NotSame(t, infos[2], mustAnalyze(t, a, cs[2]))
}

func TestCacheLimit_NewestEntryIsNeverTheVictim(t *testing.T) {
	a := reflection.NewWithCacheLimit(1)
	for _, c := range limitConstructors(10) {
		info := mustAnalyze(t, a, c)
		assert.Equal(t, 1, a.CacheSize())
		assert.Same(t, info, mustAnalyze(t, a, c), "the entry just stored must be the one that is kept")
	}
}

func TestCacheLimit_SetCacheLimitEvictsImmediately(t *testing.T) {
	a := reflection.New()
	cs := limitConstructors(10)
	infos := make([]*reflection.ConstructorInfo, len(cs))
	for i, c := range cs {
		infos[i] = mustAnalyze(t, a, c)
	}
	require.Equal(t, 10, a.CacheSize())

	a.SetCacheLimit(4)
	assert.Equal(t, 4, a.CacheLimit())
	assert.Equal(t, 4, a.CacheSize(), "insertion order was tracked while the cache was unlimited")
	for i := 6; i < 10; i++ {
		assert.Same(t, infos[i], mustAnalyze(t, a, cs[i]), "entry %d is among the 4 newest", i)
	}

	// Raising or removing the limit evicts nothing and lets the cache grow again.
	a.SetCacheLimit(0)
	assert.Equal(t, 4, a.CacheSize())
	for _, c := range cs {
		mustAnalyze(t, a, c)
	}
	assert.Equal(t, 10, a.CacheSize())

	a.SetCacheLimit(-1)
	assert.Equal(t, 0, a.CacheLimit())
	assert.Equal(t, 10, a.CacheSize())
}

func TestCacheLimit_ClearKeepsLimitAndResetsOrder(t *testing.T) {
	a := reflection.NewWithCacheLimit(3)
	cs := limitConstructors(8)
	for _, c := range cs[:3] {
		mustAnalyze(t, a, c)
	}

	a.Clear()
	assert.Equal(t, 0, a.CacheSize())
	assert.Equal(t, 3, a.CacheLimit())

	// If Clear left stale keys in the eviction queue the cache would now be
	// trimmed below its limit, or old keys would be "evicted" instead of live ones.
	infos := make([]*reflection.ConstructorInfo, len(cs))
	for i, c := range cs {
		infos[i] = mustAnalyze(t, a, c)
		want := i + 1
		if want > 3 {
			want = 3
		}
		assert.Equal(t, want, a.CacheSize())
	}
	for i := 5; i < 8; i++ {
		assert.Same(t, infos[i], mustAnalyze(t, a, cs[i]))
	}
}

// limitResolver hands out one fixed *limitDep.
type limitResolver struct{ dep *limitDep }

func (r limitResolver) Get(t reflect.Type) (any, error)                  { return r.dep, nil }
func (r limitResolver) GetKeyed(t reflect.Type, key any) (any, error)    { return r.dep, nil }
func (r limitResolver) GetGroup(t reflect.Type, g string) ([]any, error) { return nil, nil }

// limitClosure is kept out of line so that all closures share one code pointer
// and therefore one cache entry.
//
//go:noinline
func limitClosure(id int) func(*limitDep) *limitDep {
	return func(*limitDep) *limitDep { return &limitDep{id: id} }
}

func TestCacheLimit_InvocationAfterEvictionUsesTheRegisteredConstructor(t *testing.T) {
	a := reflection.NewWithCacheLimit(1)
	invoker := a.GetInvoker()
	resolver := limitResolver{dep: &limitDep{id: 7}}

	first, second := limitClosure(1), limitClosure(2)
	info := mustAnalyze(t, a, first)

	// Evict the analysis, then analyze the sibling closure: the fresh info
	// must still invoke exactly the constructor value that is passed in.
	mustAnalyze(t, a, newLimitSvc)
	require.Equal(t, 1, a.CacheSize())
	info2 := mustAnalyze(t, a, second)
	assert.NotSame(t, info, info2)

	for want, c := range map[int]any{1: first, 2: second} {
		ci := mustAnalyze(t, a, c)
		res, err := invoker.InvokeConstructor(ci, reflect.ValueOf(c), resolver)
		require.NoError(t, err)
		require.Len(t, res, 1)
		assert.Equal(t, want, res[0].Interface().(*limitDep).id)
	}

	// A stale info of an evicted constructor stays fully usable, too.
	mustAnalyze(t, a, newLimitSvc)
	res, err := invoker.InvokeConstructor(info, reflect.ValueOf(first), resolver)
	require.NoError(t, err)
	assert.Equal(t, 1, res[0].Interface().(*limitDep).id)

	svcInfo := mustAnalyze(t, a, newLimitSvc)
	res, err = invoker.Invoke(svcInfo, resolver)
	require.NoError(t, err)
	assert.Same(t, resolver.dep, res[0].Interface().(*limitSvc).dep)
}

func TestCacheLimit_Concurrent(t *testing.T) {
	const limit = 8
	a := reflection.NewWithCacheLimit(limit)
	cs := limitConstructors(40)

	var wg sync.WaitGroup
	for g := 0; g < 12; g++ {
		wg.Add(1)
		go func(g int) {
			defer wg.Done()
			for i := 0; i < 300; i++ {
				c := cs[(g*7+i)%len(cs)]
				info, err := a.Analyze(c)
				if assert.NoError(t, err) {
					assert.Equal(t, reflect.TypeOf(c), info.Type, "a result always describes the constructor asked for")
					assert.Len(t, info.Parameters, 1)
				}
				deps, err := a.GetDependencies(c)
				if assert.NoError(t, err) {
					assert.Len(t, deps, 1)
				}
				switch {
				case g == 0 && i%50 == 0:
					a.SetCacheLimit(limit / 2)
				case g == 0 && i%50 == 25:
					a.SetCacheLimit(limit)
				case g == 1 && i%100 == 99:
					a.Clear()
				}
				assert.LessOrEqual(t, a.CacheSize(), limit)
			}
		}(g)
	}
	wg.Wait()

	// After the storm the queue and the table must still agree: with the
	// limit lifted, 40 inserts leave exactly 40 entries, and cutting down to
	// 5 keeps precisely the 5 newest.
	a.SetCacheLimit(0)
	a.Clear()
	infos := make([]*reflection.ConstructorInfo, len(cs))
	for i, c := range cs {
		infos[i] = mustAnalyze(t, a, c)
	}
	require.Equal(t, len(cs), a.CacheSize())
	a.SetCacheLimit(5)
	require.Equal(t, 5, a.CacheSize())
	for i := len(cs) - 5; i < len(cs); i++ {
		assert.Same(t, infos[i], mustAnalyze(t, a, cs[i]))
	}
}

func TestCacheLimit_QueueSurvivesStormWithoutClear(t *testing.T) {
	// Same as above but the state left behind by concurrent, overlapping
	// inserts of the *same* keys is inspected directly: duplicates in the
	// queue would make the cache shrink below its limit.
	const limit = 6
	a := reflection.NewWithCacheLimit(limit)
	cs := limitConstructors(limit)

	var wg sync.WaitGroup
	for g := 0; g < 16; g++ {
		wg.Add(1)
		go func() {
			defer wg.Done()
			for _, c := range cs {
				_, err := a.Analyze(c)
				assert.NoError(t, err)
			}
		}()
	}
	wg.Wait()

	assert.Equal(t, limit, a.CacheSize(), "every key is queued once, so nothing was evicted")
	extra := limitConstructors(limit + 1)[limit]
	mustAnalyze(t, a, extra)
	assert.Equal(t, limit, a.CacheSize(), "one in, exactly one out")
}
