package godi

import (
	"context"
	"sync"
	"testing"
	"time"

	"github.com/stretchr/testify/assert"
	"github.com/stretchr/testify/require"
)

type scopeNameTestKey struct{}

func namedOf(t *testing.T, s Scope) NamedScope {
	t.Helper()
	n, ok := s.(NamedScope)
	require.True(t, ok, "scopes created by the container implement NamedScope")
	return n
}

func TestScopeName_GivenThroughContext(t *testing.T) {
	t.Parallel()

	p := BuildProvider(t, AddScoped(NewTScoped))

	base := context.WithValue(context.Background(), scopeNameTestKey{}, "carried")
	ctx, cancel := context.WithCancel(WithScopeName(base, "checkout"))
	defer cancel()

	s, err := p.CreateScope(ctx)
	require.NoError(t, err)
	assert.Equal(t, "checkout", namedOf(t, s).Name())
	assert.Equal(t, "checkout", namedOf(t, s).Path())

	// The context keeps doing everything else it did
	assert.Equal(t, "carried", s.Context().Value(scopeNameTestKey{}))
	fromCtx, err := FromContext(s.Context())
	require.NoError(t, err)
	assert.Same(t, s, fromCtx)
	injectedCtx, err := s.Get(TypeOf[context.Context]())
	require.NoError(t, err)
	assert.Equal(t, s.Context(), injectedCtx)
	injectedScope, err := s.Get(TypeOf[Scope]())
	require.NoError(t, err)
	assert.Equal(t, "checkout", namedOf(t, injectedScope.(Scope)).Name())

	// Unnamed scopes: no name, the ID stands in
	plain, err := p.CreateScope(context.Background())
	require.NoError(t, err)
	assert.Equal(t, "", namedOf(t, plain).Name())
	assert.Equal(t, plain.ID(), namedOf(t, plain).Path())

	nilCtx, err := p.CreateScope(nil)
	require.NoError(t, err)
	assert.Equal(t, "", namedOf(t, nilCtx).Name())

	root, err := p.Get(TypeOf[Scope]())
	require.NoError(t, err)
	assert.Equal(t, "", namedOf(t, root.(Scope)).Name())

	// Empty name and nil context
	assert.Equal(t, base, WithScopeName(base, ""))
	assert.NotPanics(t, func() {
		s, err := p.CreateScope(WithScopeName(nil, "from-nil"))
		require.NoError(t, err)
		assert.Equal(t, "from-nil", namedOf(t, s).Name())
		assert.Equal(t, context.Background(), WithScopeName(nil, ""))
	})

	// The innermost name wins
	twice, err := p.CreateScope(WithScopeName(WithScopeName(base, "outer"), "inner"))
	require.NoError(t, err)
	assert.Equal(t, "inner", namedOf(t, twice).Name())

	// Cancelling the named context closes the scope as always, the name stays
	cancel()
	assert.Eventually(t, func() bool {
		_, err := s.Get(PtrTypeOf[TScoped]())
		return err != nil
	}, 2*time.Second, 5*time.Millisecond)
	assert.Equal(t, "checkout", namedOf(t, s).Name())
}

func TestScopeName_AppliesToOneLevel(t *testing.T) {
	t.Parallel()

	p := BuildProvider(t)

	parent, err := p.CreateScope(WithScopeName(context.Background(), "request"))
	require.NoError(t, err)

	// Children whose context derives from the named scope's are not named after it
	inherited, err := parent.CreateScope(nil)
	require.NoError(t, err)
	assert.Equal(t, "", namedOf(t, inherited).Name())
	assert.Equal(t, "request/"+inherited.ID(), namedOf(t, inherited).Path())

	derivedCtx, cancel := context.WithCancel(parent.Context())
	defer cancel()
	derived, err := parent.CreateScope(derivedCtx)
	require.NoError(t, err)
	assert.Equal(t, "", namedOf(t, derived).Name())

	// ... nor grandchildren, through an unnamed child
	grandchild, err := inherited.CreateScope(nil)
	require.NoError(t, err)
	assert.Equal(t, "", namedOf(t, grandchild).Name())
	assert.Equal(t, "request/"+inherited.ID()+"/"+grandchild.ID(), namedOf(t, grandchild).Path())

	// ... nor a top-level scope created from a scope's context
	detached, err := p.CreateScope(parent.Context())
	require.NoError(t, err)
	assert.Equal(t, "", namedOf(t, detached).Name())
	assert.Equal(t, detached.ID(), namedOf(t, detached).Path())

	// A child can be given its own name - even the same one again
	audit, err := inherited.CreateScope(WithScopeName(inherited.Context(), "audit"))
	require.NoError(t, err)
	assert.Equal(t, "audit", namedOf(t, audit).Name())
	assert.Equal(t, "request/"+inherited.ID()+"/audit", namedOf(t, audit).Path())

	same, err := parent.CreateScope(WithScopeName(parent.Context(), "request"))
	require.NoError(t, err)
	assert.Equal(t, "request", namedOf(t, same).Name())
	assert.Equal(t, "request/request", namedOf(t, same).Path())

	belowSame, err := same.CreateScope(nil)
	require.NoError(t, err)
	assert.Equal(t, "", namedOf(t, belowSame).Name())

	// And below a renamed child the outer name does not come back
	belowAudit, err := audit.CreateScope(nil)
	require.NoError(t, err)
	assert.Equal(t, "", namedOf(t, belowAudit).Name())

	// One named context used for several scopes names each of them
	shared := WithScopeName(context.Background(), "worker")
	w1, err := p.CreateScope(shared)
	require.NoError(t, err)
	w2, err := p.CreateScope(shared)
	require.NoError(t, err)
	assert.Equal(t, "worker", namedOf(t, w1).Name())
	assert.Equal(t, "worker", namedOf(t, w2).Name())
	assert.NotEqual(t, w1.ID(), w2.ID())
}

func TestScopesByName(t *testing.T) {
	t.Parallel()

	p := BuildProvider(t)
	other := BuildProvider(t)

	worker := WithScopeName(context.Background(), "worker")
	w1, err := p.CreateScope(worker)
	require.NoError(t, err)
	w2, err := p.CreateScope(worker)
	require.NoError(t, err)
	unnamed, err := p.CreateScope(context.Background())
	require.NoError(t, err)
	w3, err := unnamed.CreateScope(WithScopeName(nil, "worker"))
	require.NoError(t, err)
	w1child, err := w1.CreateScope(nil)
	require.NoError(t, err)
	_, err = other.CreateScope(worker)
	require.NoError(t, err)

	// At any depth, in creation order, of this provider only
	found, err := ScopesByName(p, "worker")
	require.NoError(t, err)
	require.Len(t, found, 3)
	assert.Same(t, w1, found[0])
	assert.Same(t, w2, found[1])
	assert.Same(t, w3, found[2])

	// Asking through a scope is the same as asking the provider
	found, err = ScopesByName(w1child, "worker")
	require.NoError(t, err)
	assert.Len(t, found, 3)

	found, err = ScopesByName(p, "nobody")
	require.NoError(t, err)
	assert.Empty(t, found)

	// The empty name selects the unnamed scopes (the root scope is not a tracked scope)
	found, err = ScopesByName(p, "")
	require.NoError(t, err)
	require.Len(t, found, 2)
	assert.Same(t, unnamed, found[0])
	assert.Same(t, w1child, found[1])

	// Closed scopes disappear, with their subtree
	require.NoError(t, unnamed.Close())
	found, err = ScopesByName(p, "worker")
	require.NoError(t, err)
	require.Len(t, found, 2)
	assert.Same(t, w1, found[0])
	assert.Same(t, w2, found[1])

	// The result is a copy
	found[0] = nil
	again, err := ScopesByName(p, "worker")
	require.NoError(t, err)
	assert.Same(t, w1, again[0])

	// Argument checking and the closed provider
	_, err = ScopesByName(nil, "worker")
	assert.ErrorIs(t, err, ErrProviderNil)

	require.NoError(t, p.Close())
	_, err = ScopesByName(p, "worker")
	assert.ErrorIs(t, err, ErrProviderDisposed)
	_, err = ScopesByName(w2, "worker")
	assert.ErrorIs(t, err, ErrProviderDisposed)

	// The other provider is not affected
	found, err = ScopesByName(other, "worker")
	require.NoError(t, err)
	assert.Len(t, found, 1)
}

func TestScopesByName_DoesNotRetainClosedScopes(t *testing.T) {
	t.Parallel()

	p := BuildProvider(t, AddScoped(NewTDisposable))

	for i := 0; i < 100; i++ {
		s, err := p.CreateScope(WithScopeName(context.Background(), "cycle"))
		require.NoError(t, err)
		_, err = s.Get(PtrTypeOf[TDisposable]())
		require.NoError(t, err)
		found, err := ScopesByName(p, "cycle")
		require.NoError(t, err)
		assert.Len(t, found, 1)
		require.NoError(t, s.Close())
	}

	found, err := ScopesByName(p, "cycle")
	require.NoError(t, err)
	assert.Empty(t, found)

	impl := p.(*provider)
	impl.scopesMu.Lock()
	assert.Empty(t, impl.scopes)
	impl.scopesMu.Unlock()
}

func TestScopesByName_Concurrent(t *testing.T) {
	t.Parallel()

	p := BuildProvider(t, AddScoped(NewTScoped))
	named := WithScopeName(context.Background(), "busy")

	var wg sync.WaitGroup
	for g := 0; g < 6; g++ {
		wg.Add(2)
		go func() {
			defer wg.Done()
			for i := 0; i < 50; i++ {
				s, err := p.CreateScope(named)
				if err != nil {
					assert.ErrorIs(t, err, ErrProviderDisposed)
					return
				}
				child, err := s.CreateScope(WithScopeName(s.Context(), "busy"))
				if err == nil {
					assert.Equal(t, "busy/busy", namedOf(t, child).Path())
				}
				_ = s.Close()
			}
		}()
		go func() {
			defer wg.Done()
			for i := 0; i < 50; i++ {
				found, err := ScopesByName(p, "busy")
				if err != nil {
					assert.ErrorIs(t, err, ErrProviderDisposed)
					return
				}
				var last uint64
				for _, s := range found {
					assert.Equal(t, "busy", namedOf(t, s).Name())
					assert.Greater(t, s.(*scope).seq, last)
					last = s.(*scope).seq
					// A listed scope may be closed by now, but never half-made
					if v, err := s.Get(PtrTypeOf[TScoped]()); err != nil {
						assert.ErrorIs(t, err, ErrScopeDisposed)
					} else {
						assert.NotNil(t, v)
					}
				}
			}
		}()
	}

	wg.Add(1)
	go func() {
		defer wg.Done()
		time.Sleep(5 * time.Millisecond)
		assert.NoError(t, p.Close())
	}()
	wg.Wait()

	_, err := ScopesByName(p, "busy")
	assert.ErrorIs(t, err, ErrProviderDisposed)
}
