package godi

import (
	"reflect"
	"sync"
	"testing"

	"github.com/stretchr/testify/assert"
	"github.com/stretchr/testify/require"
)

type (
	snLogger  struct{ name string }
	snDB      struct{ log *snLogger }
	snCache   struct{}
	snHandler struct{ name string }
	snNamer   interface{ SnName() string }
)

func (l *snLogger) SnName() string { return l.name }

type snRepoIn struct {
	In
	DB       *snDB
	Audit    *snLogger    `name:"audit"`
	Cache    *snCache     `optional:"true"`
	Handlers []*snHandler `group:"handlers"`
}

type snRepo struct{ in snRepoIn }

type snOut struct {
	Out
	Cache   *snCache
	Handler *snHandler `group:"handlers"`
}

func TestCollectionSnapshot(t *testing.T) {
	loggerType := reflect.TypeOf((*snLogger)(nil))
	dbType := reflect.TypeOf((*snDB)(nil))
	handlerType := reflect.TypeOf((*snHandler)(nil))
	namerType := reflect.TypeOf((*snNamer)(nil)).Elem()

	newFilled := func(t *testing.T) Collection {
		c := NewCollection()
		require.NoError(t, c.AddSingleton(func() *snLogger { return &snLogger{name: "default"} }))
		require.NoError(t, c.AddSingleton(func() *snLogger { return &snLogger{name: "audit"} }, Name("audit")))
		require.NoError(t, c.AddSingleton(func(l *snLogger) *snDB { return &snDB{log: l} }))
		require.NoError(t, c.AddTransient(func() *snHandler { return &snHandler{name: "h1"} }, Group("handlers")))
		require.NoError(t, c.AddTransient(func() *snHandler { return &snHandler{name: "h2"} }, Group("handlers")))
		require.NoError(t, c.AddScoped(func(in snRepoIn) *snRepo { return &snRepo{in: in} }))
		require.NoError(t, c.AddScoped(func(*snDB) {}))
		require.NoError(t, c.AddSingleton(&snLogger{name: "alias"}, As[snNamer]()))
		return c
	}

	t.Run("describes_identities_in_registration_order", func(t *testing.T) {
		c := newFilled(t)

		snap := c.Snapshot()
		require.Len(t, snap, c.Count())

		descriptors := c.ToSlice()
		for i, info := range snap {
			assert.Equal(t, descriptors[i].Type, info.Type, "entry %d", i)
			assert.Equal(t, descriptors[i].Lifetime, info.Lifetime, "entry %d", i)
			assert.Equal(t, descriptors[i].Group, info.Group, "entry %d", i)
		}

		assert.Equal(t, ServiceInfo{
			Type: loggerType, Lifetime: Singleton,
			ConstructorType: reflect.TypeOf(func() *snLogger { return nil }),
			Dependencies:    []DependencyInfo{},
		}, snap[0])

		assert.Equal(t, "audit", snap[1].Key)
		assert.Equal(t, []DependencyInfo{{Type: loggerType}}, snap[2].Dependencies)

		// Group members: no name, position inside the group instead
		assert.Equal(t, handlerType, snap[3].Type)
		assert.Nil(t, snap[3].Key)
		assert.Equal(t, "handlers", snap[3].Group)
		assert.Equal(t, 1, snap[3].GroupIndex)
		assert.Equal(t, 2, snap[4].GroupIndex)
		assert.Equal(t, Transient, snap[4].Lifetime)

		// Parameter object: keys, groups (element type) and optional flags
		assert.Equal(t, []DependencyInfo{
			{Type: dbType},
			{Type: loggerType, Key: "audit"},
			{Type: reflect.TypeOf((*snCache)(nil)), Optional: true},
			{Type: handlerType, Group: "handlers"},
		}, snap[5].Dependencies)

		// Scope initializer
		assert.True(t, snap[6].Initializer)
		assert.Equal(t, Scoped, snap[6].Lifetime)
		assert.False(t, snap[5].Initializer)

		// Instance registered under an alias only
		assert.Equal(t, namerType, snap[7].Type)
		assert.True(t, snap[7].IsInstance)
		assert.Equal(t, loggerType, snap[7].ConstructorType)
	})

	t.Run("multi_output_registrations", func(t *testing.T) {
		c := NewCollection()
		require.NoError(t, c.AddSingleton(func() (*snLogger, *snDB) { return &snLogger{}, &snDB{} }))
		require.NoError(t, c.AddSingleton(func() snOut { return snOut{Cache: &snCache{}, Handler: &snHandler{}} }))

		snap := c.Snapshot()
		require.Len(t, snap, 4)
		assert.Equal(t, loggerType, snap[0].Type)
		assert.Equal(t, dbType, snap[1].Type)
		assert.Equal(t, snap[0].ConstructorType, snap[1].ConstructorType)
		assert.Equal(t, reflect.TypeOf((*snCache)(nil)), snap[2].Type)
		assert.Equal(t, handlerType, snap[3].Type)
		assert.Equal(t, 1, snap[3].GroupIndex)
		assert.Nil(t, snap[3].Key)
	})

	t.Run("describe_by_type", func(t *testing.T) {
		c := newFilled(t)

		loggers := c.Describe(loggerType)
		require.Len(t, loggers, 2)
		assert.Nil(t, loggers[0].Key)
		assert.Equal(t, "audit", loggers[1].Key)

		handlers := c.Describe(handlerType)
		require.Len(t, handlers, 2)
		assert.Equal(t, []int{1, 2}, []int{handlers[0].GroupIndex, handlers[1].GroupIndex})

		assert.Len(t, c.Describe(namerType), 1)
		assert.Empty(t, c.Describe(reflect.TypeOf((*snCache)(nil))))
		assert.NotNil(t, c.Describe(nil))
		assert.Empty(t, c.Describe(nil))

		// Removal is reflected, and only for the removed identity
		c.RemoveKeyed(loggerType, "audit")
		loggers = c.Describe(loggerType)
		require.Len(t, loggers, 1)
		assert.Nil(t, loggers[0].Key)
	})

	t.Run("snapshot_is_detached_from_the_collection", func(t *testing.T) {
		c := newFilled(t)
		snap := c.Snapshot()

		// Changing the snapshot changes neither the collection nor a later snapshot...
		snap[2].Dependencies[0] = DependencyInfo{Type: reflect.TypeOf((*snCache)(nil)), Key: "nope"}
		snap[2].Lifetime = Scoped
		snap[3].Group = "other"
		snap[5].Dependencies = append(snap[5].Dependencies[:1], snap[5].Dependencies[2:]...)

		fresh := c.Snapshot()
		assert.Equal(t, []DependencyInfo{{Type: loggerType}}, fresh[2].Dependencies)
		assert.Equal(t, Singleton, fresh[2].Lifetime)
		assert.Equal(t, "handlers", fresh[3].Group)
		assert.Len(t, fresh[5].Dependencies, 4)

		// ...nor what a Build wires
		p, err := c.Build()
		require.NoError(t, err)
		defer p.Close()

		db, err := Resolve[*snDB](p)
		require.NoError(t, err)
		assert.Equal(t, "default", db.log.name)

		s, err := p.CreateScope(nil)
		require.NoError(t, err)
		repo, err := Resolve[*snRepo](s)
		require.NoError(t, err)
		assert.Same(t, db, repo.in.DB)
		assert.Equal(t, "audit", repo.in.Audit.name)
		assert.Nil(t, repo.in.Cache)
		require.Len(t, repo.in.Handlers, 2)
		assert.Equal(t, "h1", repo.in.Handlers[0].name)
		assert.Equal(t, "h2", repo.in.Handlers[1].name)

		// A snapshot taken earlier does not follow the collection
		c.Remove(dbType)
		require.NoError(t, c.AddTransient(func() *snHandler { return &snHandler{name: "h3"} }, Group("handlers")))
		assert.Len(t, fresh, 8)
		assert.Equal(t, dbType, fresh[2].Type)

		latest := c.Snapshot()
		require.Len(t, latest, 8)
		assert.Empty(t, c.Describe(dbType))
		assert.Equal(t, 3, latest[7].GroupIndex)
	})

	t.Run("every_described_identity_is_resolvable", func(t *testing.T) {
		c := newFilled(t)
		p, err := c.Build()
		require.NoError(t, err)
		defer p.Close()

		s, err := p.CreateScope(nil)
		require.NoError(t, err)
		defer s.Close()

		for _, info := range c.Snapshot() {
			switch {
			case info.Initializer:
				continue
			case info.GroupIndex > 0:
				members, err := s.GetGroup(info.Type, info.Group)
				require.NoError(t, err)
				assert.GreaterOrEqual(t, len(members), info.GroupIndex)
			case info.Key != nil:
				_, err := s.GetKeyed(info.Type, info.Key)
				assert.NoError(t, err)
			default:
				_, err := s.Get(info.Type)
				assert.NoError(t, err)
			}
		}
	})

	t.Run("concurrent_snapshots_and_build", func(t *testing.T) {
		c := newFilled(t)

		var wg sync.WaitGroup
		for i := 0; i < 8; i++ {
			wg.Add(1)
			go func(i int) {
				defer wg.Done()
				for j := 0; j < 20; j++ {
					assert.Len(t, c.Snapshot(), 8)
					assert.Len(t, c.Describe(loggerType), 2)
				}
				if i == 0 {
					p, err := c.Build()
					if assert.NoError(t, err) {
						assert.NoError(t, p.Close())
					}
				}
			}(i)
		}
		wg.Wait()
	})

	t.Run("empty_collection", func(t *testing.T) {
		c := NewCollection()
		assert.NotNil(t, c.Snapshot())
		assert.Empty(t, c.Snapshot())
	})
}
