package reflection_test

import (
	"context"
	"errors"
	"fmt"
	"reflect"
	"sync"
	"sync/atomic"
	"testing"

	godi "github.com/junioryono/godi/v4"
	"github.com/junioryono/godi/v4/internal/reflection"
	"github.com/stretchr/testify/assert"
	"github.com/stretchr/testify/require"
)

type fiDep struct{ id int }

type fiLogger interface{ Log(string) }

type fiLog struct{ id int }

func (*fiLog) Log(string) {}

type fiParams struct {
	reflection.In

	Dep      *fiDep
	Log      fiLogger `optional:"true"`
	Hot      *fiDep   `name:"hot"`
	Cold     *fiDep   `name:"cold" optional:"true"`
	Plugins  []*fiDep `group:"plugins"`
	Nothing  []*fiDep `group:"nothing"`
	Skipped  *fiDep   `inject:"-"`
	EmptyKey *fiDep   `name:""`
	hidden   *fiDep   //nolint:unused
}

type fiBadGroup struct {
	reflection.In

	Dep *fiDep
	Bad int `group:"numbers"`
}

type fiOptionalBadGroup struct {
	reflection.In

	Bad int `group:"numbers" optional:"true"`
	Dep *fiDep
}

// fiResolver is a scripted resolver that records the calls it receives.
type fiResolver struct {
	mu     sync.Mutex
	calls  []string
	values map[reflect.Type]any
	keyed  map[any]any
	groups map[string][]any
}

func newFiResolver() *fiResolver {
	return &fiResolver{
		values: map[reflect.Type]any{reflect.TypeOf((*fiDep)(nil)): &fiDep{id: 1}},
		keyed:  map[any]any{"hot": &fiDep{id: 2}},
		groups: map[string][]any{"plugins": {&fiDep{id: 10}, &fiDep{id: 11}, &fiDep{id: 12}}},
	}
}

func (r *fiResolver) record(format string, args ...any) {
	r.mu.Lock()
	r.calls = append(r.calls, fmt.Sprintf(format, args...))
	r.mu.Unlock()
}

func (r *fiResolver) Get(t reflect.Type) (any, error) {
	r.record("Get(%v)", t)
	if v, ok := r.values[t]; ok {
		return v, nil
	}
	return nil, fmt.Errorf("no %v", t)
}

func (r *fiResolver) GetKeyed(t reflect.Type, key any) (any, error) {
	r.record("GetKeyed(%v,%v)", t, key)
	if v, ok := r.keyed[key]; ok {
		return v, nil
	}
	return nil, fmt.Errorf("no %v[%v]", t, key)
}

func (r *fiResolver) GetGroup(t reflect.Type, group string) ([]any, error) {
	r.record("GetGroup(%v,%s)", t, group)
	return r.groups[group], nil
}

// both runs the tag-walking builder and the analysis-driven one against fresh
// but identical resolvers and returns everything observable about each run.
func fiBoth(t *testing.T, constructor any) (legacy, fromInfo reflect.Value, legacyErr, fromInfoErr error, legacyCalls, fromInfoCalls []string) {
	t.Helper()
	a := reflection.New()
	info, err := a.Analyze(constructor)
	require.NoError(t, err)
	require.True(t, info.IsParamObject)
	b := reflection.NewParamObjectBuilder(a)

	r1, r2 := newFiResolver(), newFiResolver()
	// Same instances on both sides, so results can be compared by identity.
	r2.values, r2.keyed, r2.groups = r1.values, r1.keyed, r1.groups

	legacy, legacyErr = b.BuildParamObject(info.Type.In(0), r1)
	fromInfo, fromInfoErr = b.BuildParamObjectFromInfo(info, r2)
	return legacy, fromInfo, legacyErr, fromInfoErr, r1.calls, r2.calls
}

func TestBuildParamObjectFromInfo_MatchesTagWalkingBuilder(t *testing.T) {
	legacy, fromInfo, err1, err2, calls1, calls2 := fiBoth(t, func(p fiParams) *fiDep { return p.Dep })
	require.NoError(t, err1)
	require.NoError(t, err2)
	assert.Equal(t, calls1, calls2, "same lookups, same identities, same order")
	assert.Equal(t, []string{
		"Get(*reflection_test.fiDep)",
		"Get(reflection_test.fiLogger)",
		"GetKeyed(*reflection_test.fiDep,hot)",
		"GetKeyed(*reflection_test.fiDep,cold)",
		"GetGroup(*reflection_test.fiDep,plugins)",
		"GetGroup(*reflection_test.fiDep,nothing)",
		"Get(*reflection_test.fiDep)", // EmptyKey: name:"" is no key
	}, calls2)

	want := legacy.Interface().(fiParams)
	got := fromInfo.Interface().(fiParams)
	assert.Equal(t, want, got)

	assert.Equal(t, 1, got.Dep.id)
	assert.Nil(t, got.Log, "missing optional stays zero")
	assert.Equal(t, 2, got.Hot.id)
	assert.Nil(t, got.Cold, "missing optional keyed stays zero")
	require.Len(t, got.Plugins, 3)
	assert.Equal(t, []int{10, 11, 12}, []int{got.Plugins[0].id, got.Plugins[1].id, got.Plugins[2].id}, "group order is the resolver's order")
	assert.NotNil(t, got.Nothing, "an empty group is an empty slice, not nil")
	assert.Empty(t, got.Nothing)
	assert.Nil(t, got.Skipped, "ignored field untouched")
	assert.Nil(t, got.hidden, "unexported field untouched")
	assert.Same(t, got.Dep, got.EmptyKey)
}

func TestBuildParamObjectFromInfo_PointerParamObject(t *testing.T) {
	legacy, fromInfo, err1, err2, calls1, calls2 := fiBoth(t, func(p *fiParams) *fiDep { return p.Dep })
	require.NoError(t, err1)
	require.NoError(t, err2)
	assert.Equal(t, calls1, calls2)
	require.Equal(t, reflect.Pointer, fromInfo.Kind())
	assert.Equal(t, legacy.Interface().(*fiParams), fromInfo.Interface().(*fiParams))
	assert.NotSame(t, legacy.Interface().(*fiParams), fromInfo.Interface().(*fiParams))
}

func TestBuildParamObjectFromInfo_SameErrors(t *testing.T) {
	t.Run("required group field that is not a slice", func(t *testing.T) {
		_, _, err1, err2, calls1, calls2 := fiBoth(t, func(p fiBadGroup) int { return 0 })
		require.Error(t, err1)
		require.Error(t, err2)
		assert.Equal(t, err1.Error(), err2.Error())
		assert.Equal(t, "failed to resolve field Bad: group field must be slice, got int", err2.Error())
		assert.Equal(t, calls1, calls2, "fields before the failure were resolved, nothing after")
	})

	t.Run("optional one is skipped", func(t *testing.T) {
		legacy, fromInfo, err1, err2, _, _ := fiBoth(t, func(p fiOptionalBadGroup) int { return 0 })
		require.NoError(t, err1)
		require.NoError(t, err2)
		assert.Equal(t, legacy.Interface(), fromInfo.Interface())
		assert.Equal(t, 1, fromInfo.Interface().(fiOptionalBadGroup).Dep.id)
	})

	t.Run("resolver error is wrapped, not replaced", func(t *testing.T) {
		a := reflection.New()
		info, err := a.Analyze(func(p fiParams) *fiDep { return nil })
		require.NoError(t, err)
		sentinel := errors.New("boom")
		_, err = reflection.NewParamObjectBuilder(a).BuildParamObjectFromInfo(info, failingFiResolver{sentinel})
		require.Error(t, err)
		assert.ErrorIs(t, err, sentinel)
		assert.Contains(t, err.Error(), "failed to resolve field Dep")
	})
}

type failingFiResolver struct{ err error }

func (f failingFiResolver) Get(reflect.Type) (any, error)                { return nil, f.err }
func (f failingFiResolver) GetKeyed(reflect.Type, any) (any, error)      { return nil, f.err }
func (f failingFiResolver) GetGroup(reflect.Type, string) ([]any, error) { return nil, f.err }

func TestBuildParamObjectFromInfo_Misuse(t *testing.T) {
	a := reflection.New()
	b := reflection.NewParamObjectBuilder(a)
	paramInfo, err := a.Analyze(func(p fiParams) *fiDep { return nil })
	require.NoError(t, err)
	plainInfo, err := a.Analyze(func(d *fiDep) *fiDep { return d })
	require.NoError(t, err)
	instInfo, err := a.Analyze(&fiDep{})
	require.NoError(t, err)

	_, err = b.BuildParamObjectFromInfo(paramInfo, nil)
	assert.EqualError(t, err, "resolver cannot be nil")
	for _, info := range []*reflection.ConstructorInfo{nil, plainInfo, instInfo} {
		_, err = b.BuildParamObjectFromInfo(info, newFiResolver())
		assert.EqualError(t, err, "constructor does not take a parameter object")
	}

	// A hand-assembled info with a field index that does not exist must be
	// rejected, not panic inside reflect.
	fn := func(p fiParams) *fiDep { return nil }
	bogus := &reflection.ConstructorInfo{
		Type: reflect.TypeOf(fn), Value: reflect.ValueOf(fn), IsFunc: true, IsParamObject: true,
		Parameters: []reflection.ParameterInfo{{Name: "Ghost", Type: reflect.TypeOf((*fiDep)(nil)), Index: 99}},
	}
	assert.NotPanics(t, func() { _, err = b.BuildParamObjectFromInfo(bogus, newFiResolver()) })
	assert.Error(t, err)
}

func TestInvoke_HandAssembledInfoStillWalksTheStruct(t *testing.T) {
	// Such an info has no parameter list; the invoker must not take the
	// analysis-driven path and hand the constructor an empty object.
	fn := func(p fiParams) *fiDep { return p.Hot }
	info := &reflection.ConstructorInfo{
		Type: reflect.TypeOf(fn), Value: reflect.ValueOf(fn), IsFunc: true, IsParamObject: true,
		Returns: []reflection.ReturnInfo{{Type: reflect.TypeOf((*fiDep)(nil))}},
	}
	res, err := reflection.NewConstructorInvoker(reflection.New()).Invoke(info, newFiResolver())
	require.NoError(t, err)
	require.Len(t, res, 1)
	require.NotNil(t, res[0].Interface().(*fiDep))
	assert.Equal(t, 2, res[0].Interface().(*fiDep).id)
}

// fiClosure is kept out of line so its closures share one cached analysis.
//
//go:noinline
func fiClosure(tag int, seen *[]fiParams) func(fiParams) *fiDep {
	return func(p fiParams) *fiDep {
		*seen = append(*seen, p)
		return &fiDep{id: tag}
	}
}

func TestInvoke_ParamObjectsAreFreshPerInvocation(t *testing.T) {
	a := reflection.New()
	invoker := a.GetInvoker()
	var seen []fiParams
	first, second := fiClosure(1, &seen), fiClosure(2, &seen)

	info, err := a.Analyze(first)
	require.NoError(t, err)
	info2, err := a.Analyze(second)
	require.NoError(t, err)
	require.Same(t, info, info2, "closures of one literal share the analysis")

	r := newFiResolver()
	res, err := invoker.InvokeConstructor(info, reflect.ValueOf(first), r)
	require.NoError(t, err)
	assert.Equal(t, 1, res[0].Interface().(*fiDep).id)
	res, err = invoker.InvokeConstructor(info, reflect.ValueOf(second), r)
	require.NoError(t, err)
	assert.Equal(t, 2, res[0].Interface().(*fiDep).id, "the constructor passed in runs, not the cached one")

	require.Len(t, seen, 2)
	// Same members, but every invocation owns its slice: a constructor that
	// appends to or reorders its group must not affect the next one.
	assert.Equal(t, seen[0].Plugins, seen[1].Plugins)
	seen[0].Plugins[0] = nil
	assert.NotNil(t, seen[1].Plugins[0])
	assert.NotNil(t, r.groups["plugins"][0], "nor the resolver's own slice")
}

func TestInvoke_ParamObjectConcurrent(t *testing.T) {
	a := reflection.New()
	invoker := a.GetInvoker()
	var calls atomic.Int64
	ctor := func(p fiParams) *fiParams {
		calls.Add(1)
		p.Plugins[0] = p.Dep // scribble on our own copy
		return &p
	}
	info, err := a.Analyze(ctor)
	require.NoError(t, err)

	r := newFiResolver()
	var wg sync.WaitGroup
	for g := 0; g < 16; g++ {
		wg.Add(1)
		go func() {
			defer wg.Done()
			for i := 0; i < 100; i++ {
				res, err := invoker.Invoke(info, r)
				if !assert.NoError(t, err) {
					return
				}
				p := res[0].Interface().(*fiParams)
				assert.Equal(t, 2, p.Hot.id)
				assert.Len(t, p.Plugins, 3)
				assert.Equal(t, 12, p.Plugins[2].id)
			}
		}()
	}
	wg.Wait()
	assert.Equal(t, int64(1600), calls.Load())
	assert.Equal(t, 10, r.groups["plugins"][0].(*fiDep).id)
}

// ---- end to end through the container -------------------------------------

type fiScopedParams struct {
	godi.In

	Ctx      context.Context
	Scope    godi.Scope
	Provider godi.Provider
	Single   *fiDep
	Hot      *fiDep   `name:"hot"`
	Missing  fiLogger `optional:"true"`
	Logs     []*fiLog `group:"logs"`
	None     []*fiLog `group:"none"`
	Ignored  *fiDep   `inject:"-"`
	Fresh    *fiTransient
}

type fiTransient struct{ n int64 }

type fiScoped struct{ p fiScopedParams }

func TestParamObject_EndToEnd(t *testing.T) {
	var transients, scopedRuns atomic.Int64

	c := godi.NewCollection()
	single := &fiDep{id: 1}
	require.NoError(t, c.AddSingleton(single))
	require.NoError(t, c.AddSingleton(func() *fiDep { return &fiDep{id: 2} }, godi.Name("hot")))
	for i := 0; i < 3; i++ {
		id := i
		require.NoError(t, c.AddSingleton(func() *fiLog { return &fiLog{id: id} }, godi.Group("logs")))
	}
	require.NoError(t, c.AddTransient(func() *fiTransient { return &fiTransient{n: transients.Add(1)} }))
	require.NoError(t, c.AddScoped(func(p fiScopedParams) *fiScoped {
		scopedRuns.Add(1)
		return &fiScoped{p: p}
	}))

	p, err := c.Build()
	require.NoError(t, err)
	defer p.Close()

	type ctxKey struct{}
	s1, err := p.CreateScope(context.WithValue(context.Background(), ctxKey{}, "one"))
	require.NoError(t, err)
	s2, err := p.CreateScope(context.Background())
	require.NoError(t, err)
	defer s2.Close()

	// Direct and repeated resolution in one scope: one instance, one run.
	got := make([]*fiScoped, 3)
	for i := range got {
		got[i], err = godi.Resolve[*fiScoped](s1)
		require.NoError(t, err)
		require.Same(t, got[0], got[i])
	}
	assert.Equal(t, int64(1), scopedRuns.Load())

	a := got[0].p
	assert.Equal(t, "one", a.Ctx.Value(ctxKey{}), "the scope's own context")
	fromCtx, err := godi.FromContext(a.Ctx)
	require.NoError(t, err)
	assert.Same(t, s1, fromCtx)
	assert.Same(t, s1, a.Scope)
	assert.Same(t, p, a.Provider)
	assert.Same(t, single, a.Single)
	assert.Equal(t, 2, a.Hot.id)
	assert.Nil(t, a.Missing)
	require.Len(t, a.Logs, 3)
	assert.Equal(t, []int{0, 1, 2}, []int{a.Logs[0].id, a.Logs[1].id, a.Logs[2].id}, "registration order")
	assert.NotNil(t, a.None)
	assert.Empty(t, a.None)
	assert.Nil(t, a.Ignored)
	require.NotNil(t, a.Fresh)

	// Another scope: its own scoped instance and its own transient, the same singletons.
	other, err := godi.Resolve[*fiScoped](s2)
	require.NoError(t, err)
	assert.NotSame(t, got[0], other)
	assert.Same(t, s2, other.p.Scope)
	assert.Same(t, a.Hot, other.p.Hot)
	assert.Same(t, a.Logs[1], other.p.Logs[1])
	assert.NotSame(t, a.Fresh, other.p.Fresh)
	assert.Equal(t, int64(2), transients.Load(), "one transient per injection site")
	assert.Equal(t, int64(2), scopedRuns.Load())

	// A closed scope refuses, with the documented error, also on this path.
	require.NoError(t, s1.Close())
	_, err = godi.Resolve[*fiScoped](s1)
	assert.ErrorIs(t, err, godi.ErrScopeDisposed)
	assert.Equal(t, int64(2), scopedRuns.Load())
}

func TestParamObject_EndToEnd_FailingMemberIsReported(t *testing.T) {
	sentinel := errors.New("log backend down")
	c := godi.NewCollection()
	require.NoError(t, c.AddScoped(func() (*fiLog, error) { return nil, sentinel }, godi.Group("logs")))
	require.NoError(t, c.AddScoped(func(p struct {
		godi.In
		Logs []*fiLog `group:"logs"`
	}) *fiScoped {
		t.Error("constructor must not run when a field cannot be resolved")
		return &fiScoped{}
	}))

	p, err := c.Build()
	require.NoError(t, err)
	defer p.Close()
	s, err := p.CreateScope(context.Background())
	require.NoError(t, err)
	defer s.Close()

	for i := 0; i < 2; i++ { // a retry behaves like a first attempt
		_, err = godi.Resolve[*fiScoped](s)
		require.Error(t, err)
		assert.ErrorIs(t, err, sentinel)
	}
}
