package godi

import (
	"context"
	"errors"
	"reflect"
	"sync"
	"testing"

	"github.com/stretchr/testify/assert"
	"github.com/stretchr/testify/require"
)

type (
	snConfig  struct{}
	snDB      struct{ cfg *snConfig }
	snRepo    struct{ db *snDB }
	snCache   struct{}
	snPlugin  struct{ name string }
	snReader  interface{ Read() string }
	snFile    struct{}
	snLeft    struct{}
	snRight   struct{}
	snRequest struct{}
	snTemp    struct{}
	snValue   struct{ n int }
	snOut     struct {
		Out

		Primary   *snValue
		Secondary *snValue `name:"secondary"`
	}
)

func (*snDB) Close() error      { return nil }
func (*snFile) Read() string    { return "file" }
func (*snFile) Close() error    { return nil }
func (*snRequest) Close() error { return nil }

func snType[T any]() reflect.Type { return reflect.TypeOf((*T)(nil)).Elem() }

func TestSingletons_CreationOrderAndIdentities(t *testing.T) {
	c := NewCollection()

	// Registered against the dependency order on purpose
	require.NoError(t, c.AddSingleton(func(db *snDB) *snRepo { return &snRepo{db: db} }))
	require.NoError(t, c.AddSingleton(func(cfg *snConfig) *snDB { return &snDB{cfg: cfg} }))
	require.NoError(t, c.AddSingleton(func() *snConfig { return &snConfig{} }))
	require.NoError(t, c.AddSingleton(func() *snCache { return &snCache{} }, Name("redis")))
	require.NoError(t, c.AddSingleton(func() *snPlugin { return &snPlugin{"a"} }, Group("plugins")))
	require.NoError(t, c.AddSingleton(func() *snPlugin { return &snPlugin{"b"} }, Group("plugins")))
	require.NoError(t, c.AddSingleton(func() *snFile { return &snFile{} }, As[snReader]()))
	require.NoError(t, c.AddSingleton(func() (*snLeft, *snRight) { return &snLeft{}, &snRight{} }))
	require.NoError(t, c.AddSingleton(func() snOut { return snOut{Primary: &snValue{1}, Secondary: &snValue{2}} }))
	require.NoError(t, c.AddSingleton(&snTemp{}))
	require.NoError(t, c.AddScoped(func() *snRequest { return &snRequest{} }))
	require.NoError(t, c.AddTransient(func() *snValue { return &snValue{3} }, Name("transient")))

	p, err := c.Build()
	require.NoError(t, err)
	defer p.Close()

	infos, err := Singletons(p)
	require.NoError(t, err)

	position := map[SingletonInfo]int{}
	for i, info := range infos {
		_, dup := position[info]
		require.False(t, dup, "one entry per identity: %+v", info)
		position[info] = i
	}

	config := SingletonInfo{Type: snType[*snConfig]()}
	db := SingletonInfo{Type: snType[*snDB](), Disposable: true}
	repo := SingletonInfo{Type: snType[*snRepo]()}
	expected := []SingletonInfo{
		config, db, repo,
		{Type: snType[*snCache](), Key: "redis"},
		{Type: snType[*snPlugin](), Key: 1, Group: "plugins"},
		{Type: snType[*snPlugin](), Key: 2, Group: "plugins"},
		{Type: snType[snReader](), Disposable: true},
		{Type: snType[*snLeft]()},
		{Type: snType[*snRight]()},
		{Type: snType[*snValue]()},
		{Type: snType[*snValue](), Key: "secondary"},
		{Type: snType[*snTemp]()},
	}
	assert.ElementsMatch(t, expected, infos, "exactly the singleton identities, no scoped or transient ones")
	assert.Less(t, position[config], position[db], "dependencies are created first")
	assert.Less(t, position[db], position[repo])

	// Every listed identity resolves, to the one instance
	for _, info := range infos {
		var first, second any
		switch {
		case info.Group != "":
			members, err := p.GetGroup(info.Type, info.Group)
			require.NoError(t, err)
			first, second = members[info.Key.(int)-1], members[info.Key.(int)-1]
		case info.Key != nil:
			first, err = p.GetKeyed(info.Type, info.Key)
			require.NoError(t, err)
			second, err = p.GetKeyed(info.Type, info.Key)
			require.NoError(t, err)
		default:
			first, err = p.Get(info.Type)
			require.NoError(t, err)
			second, err = p.Get(info.Type)
			require.NoError(t, err)
		}
		assert.Same(t, first, second)
		_, disposable := first.(Disposable)
		assert.Equal(t, disposable, info.Disposable, "%+v", info)
	}

	// Using scopes does not add anything, and a scope gives the same answer
	s, err := p.CreateScope(context.Background())
	require.NoError(t, err)
	_, err = Resolve[*snRequest](s)
	require.NoError(t, err)
	_, err = ResolveKeyed[*snValue](s, "transient")
	require.NoError(t, err)

	fromScope, err := Singletons(s)
	require.NoError(t, err)
	assert.Equal(t, infos, fromScope)

	// The result is the caller's own copy
	fromScope[0] = SingletonInfo{}
	again, err := Singletons(p)
	require.NoError(t, err)
	assert.Equal(t, infos, again)

	require.NoError(t, s.Close())
	_, err = Singletons(s)
	assert.ErrorIs(t, err, ErrScopeDisposed)
	_, err = Singletons(p)
	assert.NoError(t, err, "closing a scope does not touch the singletons")
}

func TestSingletons_DuringBuildAndAcrossBuilds(t *testing.T) {
	c := NewCollection()

	var during []SingletonInfo
	require.NoError(t, c.AddSingleton(func() *snConfig { return &snConfig{} }))
	require.NoError(t, c.AddSingleton(func(cfg *snConfig, root Provider) (*snDB, error) {
		infos, err := Singletons(root)
		during = infos
		return &snDB{cfg: cfg}, err
	}))

	p1, err := c.Build()
	require.NoError(t, err)
	assert.Equal(t, []SingletonInfo{{Type: snType[*snConfig]()}}, during, "a constructor sees what was created before it")

	// A later registration is seen by the next provider only
	require.NoError(t, c.AddSingleton(func(db *snDB) *snRepo { return &snRepo{db: db} }))
	p2, err := c.Build()
	require.NoError(t, err)

	infos1, err := Singletons(p1)
	require.NoError(t, err)
	infos2, err := Singletons(p2)
	require.NoError(t, err)
	assert.Len(t, infos1, 2)
	assert.Len(t, infos2, 3)

	require.NoError(t, p1.Close())
	_, err = Singletons(p1)
	assert.ErrorIs(t, err, ErrProviderDisposed)
	infos2Again, err := Singletons(p2)
	require.NoError(t, err)
	assert.Equal(t, infos2, infos2Again)
	require.NoError(t, p2.Close())
}

func TestSingletons_InvalidArguments(t *testing.T) {
	_, err := Singletons(nil)
	assert.ErrorIs(t, err, ErrProviderNil)

	p, err := NewCollection().Build()
	require.NoError(t, err)
	defer p.Close()

	infos, err := Singletons(p)
	require.NoError(t, err)
	assert.Empty(t, infos)

	var validationErr *ValidationError
	_, err = Singletons(struct{ Provider }{p})
	assert.ErrorAs(t, err, &validationErr)
}

func TestSingletons_FailedBuildLeavesNothing(t *testing.T) {
	c := NewCollection()
	var root Provider
	require.NoError(t, c.AddSingleton(func(p Provider) *snConfig {
		root = p
		return &snConfig{}
	}))
	require.NoError(t, c.AddSingleton(func(*snConfig) (*snDB, error) { return nil, errors.New("no database") }))

	_, err := c.Build()
	require.Error(t, err)
	require.NotNil(t, root)

	_, err = Singletons(root)
	assert.ErrorIs(t, err, ErrProviderDisposed, "the provider of a failed build is closed")
}

func TestSingletons_ConcurrentWithClose(t *testing.T) {
	for round := 0; round < 50; round++ {
		c := NewCollection()
		require.NoError(t, c.AddSingleton(func() *snConfig { return &snConfig{} }))
		require.NoError(t, c.AddSingleton(func(cfg *snConfig) *snDB { return &snDB{cfg: cfg} }))
		require.NoError(t, c.AddSingleton(func(db *snDB) *snRepo { return &snRepo{db: db} }))

		p, err := c.Build()
		require.NoError(t, err)
		s, err := p.CreateScope(context.Background())
		require.NoError(t, err)

		var wg sync.WaitGroup
		for i := 0; i < 4; i++ {
			wg.Add(1)
			go func(target Provider) {
				defer wg.Done()
				for {
					infos, err := Singletons(target)
					if err != nil {
						// Only the documented errors, and never a partial list
						assert.True(t, errors.Is(err, ErrProviderDisposed) || errors.Is(err, ErrScopeDisposed), "%v", err)
						assert.Nil(t, infos)
						return
					}
					assert.Len(t, infos, 3)
				}
			}([]Provider{p, s}[i%2])
		}

		assert.NoError(t, p.Close())
		wg.Wait()
	}
}
