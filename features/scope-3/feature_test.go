package godi

import (
	"context"
	"errors"
	"sync"
	"sync/atomic"
	"testing"
	"time"

	"github.com/stretchr/testify/assert"
	"github.com/stretchr/testify/require"
)

// hookLog records events in order.
type hookLog struct {
	mu     sync.Mutex
	events []string
}

func (l *hookLog) add(e string) {
	l.mu.Lock()
	l.events = append(l.events, e)
	l.mu.Unlock()
}

func (l *hookLog) snapshot() []string {
	l.mu.Lock()
	defer l.mu.Unlock()
	return append([]string(nil), l.events...)
}

// hookCloser logs its own disposal.
type hookCloser struct {
	name string
	log  *hookLog
	err  error
}

func (c *hookCloser) Close() error {
	c.log.add("close:" + c.name)
	return c.err
}

func onClose(t *testing.T, s Scope, fn func()) {
	t.Helper()
	require.NoError(t, s.(CloseNotifier).OnClose(fn))
}

func TestScopeOnClose(t *testing.T) {
	t.Parallel()

	t.Run("runs_once_after_disposal_in_reverse_order", func(t *testing.T) {
		t.Parallel()
		log := &hookLog{}
		p := BuildProvider(t, AddScoped(func() *hookCloser { return &hookCloser{name: "svc", log: log} }))
		s, _ := p.CreateScope(context.Background())
		_, err := s.Get(PtrTypeOf[hookCloser]())
		require.NoError(t, err)

		onClose(t, s, func() {
			log.add("hook:1")
			// The scope is completely closed by now
			_, err := s.Get(PtrTypeOf[hookCloser]())
			assert.ErrorIs(t, err, ErrScopeDisposed)
			_, err = s.CreateScope(context.Background())
			assert.ErrorIs(t, err, ErrScopeDisposed)
			assert.Error(t, s.Context().Err())
			assert.ErrorIs(t, s.(CloseNotifier).OnClose(func() { log.add("late") }), ErrScopeDisposed)
			assert.NoError(t, s.Close()) // re-entrant Close is a no-op
		})
		onClose(t, s, func() { log.add("hook:2") })

		require.NoError(t, s.Close())
		require.NoError(t, s.Close())
		assert.Equal(t, []string{"close:svc", "hook:2", "hook:1"}, log.snapshot())

		// Nothing is kept
		impl := s.(*scope)
		impl.closeHooksMu.Lock()
		assert.Nil(t, impl.closeHooks)
		impl.closeHooksMu.Unlock()
	})

	t.Run("closed_scope_refuses_and_never_calls", func(t *testing.T) {
		t.Parallel()
		p := BuildProvider(t)
		parent, _ := p.CreateScope(context.Background())
		child, _ := parent.CreateScope(context.Background())
		require.NoError(t, parent.Close())

		var called atomic.Bool
		for _, s := range []Scope{parent, child} {
			err := s.(CloseNotifier).OnClose(func() { called.Store(true) })
			assert.ErrorIs(t, err, ErrScopeDisposed)
		}
		assert.False(t, called.Load())

		open, _ := p.CreateScope(context.Background())
		defer open.Close()
		var validation *ValidationError
		assert.ErrorAs(t, open.(CloseNotifier).OnClose(nil), &validation)
	})

	t.Run("children_first_then_parent", func(t *testing.T) {
		t.Parallel()
		log := &hookLog{}
		var n atomic.Int32
		p := BuildProvider(t, AddScoped(func(s Scope) *hookCloser {
			return &hookCloser{name: s.(*scope).ID(), log: log}
		}))
		parent, _ := p.CreateScope(context.Background())
		child, _ := parent.CreateScope(context.Background())
		_, _ = parent.Get(PtrTypeOf[hookCloser]())
		_, _ = child.Get(PtrTypeOf[hookCloser]())
		pid, cid := parent.(*scope).ID(), child.(*scope).ID()

		onClose(t, parent, func() { n.Add(1); log.add("hook:" + pid) })
		onClose(t, child, func() { n.Add(1); log.add("hook:" + cid) })

		require.NoError(t, parent.Close())
		assert.Equal(t, []string{"close:" + cid, "hook:" + cid, "close:" + pid, "hook:" + pid}, log.snapshot())
		require.NoError(t, child.Close())
		assert.EqualValues(t, 2, n.Load())
	})

	t.Run("provider_close_and_root_scope", func(t *testing.T) {
		t.Parallel()
		log := &hookLog{}
		c := NewCollection()
		require.NoError(t, c.AddSingleton(func() *hookCloser { return &hookCloser{name: "singleton", log: log} }))
		p, err := c.Build()
		require.NoError(t, err)

		root, err := Resolve[Scope](p)
		require.NoError(t, err)
		s, _ := p.CreateScope(context.Background())
		onClose(t, root, func() { log.add("hook:root") })
		onClose(t, s, func() { log.add("hook:scope") })

		require.NoError(t, p.Close())
		require.NoError(t, p.Close())
		// Every scope before any singleton
		assert.Equal(t, []string{"hook:scope", "hook:root", "close:singleton"}, log.snapshot())
	})

	t.Run("context_cancellation", func(t *testing.T) {
		t.Parallel()
		p := BuildProvider(t)
		ctx, cancel := context.WithCancel(context.Background())
		s, _ := p.CreateScope(ctx)

		done := make(chan struct{})
		var runs atomic.Int32
		onClose(t, s, func() { runs.Add(1); close(done) })
		cancel()

		select {
		case <-done:
		case <-time.After(5 * time.Second):
			t.Fatal("hook did not run after context cancellation")
		}
		require.NoError(t, s.Close())
		assert.EqualValues(t, 1, runs.Load())
	})

	t.Run("hooks_cannot_break_close", func(t *testing.T) {
		t.Parallel()
		log := &hookLog{}
		boom := errors.New("boom")
		p := BuildProvider(t,
			AddScoped(func() *hookCloser { return &hookCloser{name: "bad", log: log, err: boom} }),
			AddScoped(NewTDisposable),
		)
		s, _ := p.CreateScope(context.Background())
		_, _ = s.Get(PtrTypeOf[hookCloser]())
		d, _ := Resolve[*TDisposable](s)

		onClose(t, s, func() { log.add("hook:first") })
		onClose(t, s, func() { panic("hook panic") })
		onClose(t, s, func() { log.add("hook:last") })

		var err error
		require.NotPanics(t, func() { err = s.Close() })

		// The disposal error is reported as usual, everything was attempted
		var disposal *DisposalError
		require.ErrorAs(t, err, &disposal)
		assert.Len(t, disposal.Errors, 1)
		assert.True(t, d.IsClosed())
		assert.Equal(t, []string{"close:bad", "hook:last", "hook:first"}, log.snapshot())

		// Without failing instances, a panicking hook leaves Close at nil
		s2, _ := p.CreateScope(context.Background())
		onClose(t, s2, func() { panic("again") })
		assert.NoError(t, s2.Close())
	})

	t.Run("failed_scope_creation_runs_hooks", func(t *testing.T) {
		t.Parallel()
		var runs, fail atomic.Int32
		p := BuildProvider(t,
			AddScoped(func(s Scope) {
				_ = s.(CloseNotifier).OnClose(func() { runs.Add(1) })
			}),
			AddScoped(func(ctx context.Context) error {
				if fail.Load() != 0 {
					return errors.New("init failed")
				}
				return nil
			}),
		)
		fail.Store(1)
		before := runs.Load()
		s, err := p.CreateScope(context.Background())
		require.Error(t, err)
		assert.Nil(t, s)
		assert.EqualValues(t, before+1, runs.Load())
	})

	t.Run("concurrent_register_and_close", func(t *testing.T) {
		t.Parallel()
		p := BuildProvider(t)
		for round := 0; round < 50; round++ {
			s, _ := p.CreateScope(context.Background())
			n := s.(CloseNotifier)

			var accepted, ran atomic.Int32
			var wg sync.WaitGroup
			for i := 0; i < 8; i++ {
				wg.Add(1)
				go func(i int) {
					defer wg.Done()
					if i%4 == 3 {
						assert.NoError(t, s.Close())
						return
					}
					for j := 0; j < 20; j++ {
						err := n.OnClose(func() { ran.Add(1) })
						if err == nil {
							accepted.Add(1)
						} else {
							assert.ErrorIs(t, err, ErrScopeDisposed)
						}
					}
				}(i)
			}
			wg.Wait()

			// Both closers have returned, so the Close that won has run its
			// hooks: every accepted hook ran exactly once, no refused one did
			assert.Equal(t, accepted.Load(), ran.Load())
		}
	})
}
