package godi

import (
	"context"
	"errors"
	"runtime"
	"sync"
	"testing"
	"time"

	"github.com/stretchr/testify/assert"
	"github.com/stretchr/testify/require"
)

type runInScopeCtxKey struct{}

func trackedScopes(p Provider) int {
	impl := p.(*provider)
	impl.scopesMu.Lock()
	defer impl.scopesMu.Unlock()
	return len(impl.scopes)
}

func TestRunInScope_ClosesTheScopeOnEveryPath(t *testing.T) {
	p := BuildProvider(t,
		AddSingleton(NewTDisposableWithName("singleton"), Name("singleton")),
		AddScoped(NewTDisposable),
		AddTransient(NewTDisposableWithName("transient"), Name("transient")),
	)
	singleton := RequireResolveKeyed[*TDisposable](t, p, "singleton")
	sentinel := errors.New("sentinel")

	cases := map[string]struct {
		ret   error
		panic any
	}{
		"success": {},
		"error":   {ret: sentinel},
		"panic":   {panic: "boom"},
	}

	for name, tc := range cases {
		t.Run(name, func(t *testing.T) {
			var (
				seen   Scope
				scoped *TDisposable
				trans  *TDisposable
			)

			err := RunInScope(p, context.Background(), func(s Scope) error {
				seen = s
				scoped = RequireResolveFrom[*TDisposable](t, s)
				assert.Same(t, scoped, RequireResolveFrom[*TDisposable](t, s))
				trans = RequireResolveKeyed[*TDisposable](t, s, "transient")
				assert.Same(t, singleton, RequireResolveKeyed[*TDisposable](t, s, "singleton"))
				assert.False(t, scoped.IsClosed())
				assert.Equal(t, 1, trackedScopes(p))

				if tc.panic != nil {
					panic(tc.panic)
				}
				return tc.ret
			})

			switch {
			case tc.panic != nil:
				var panicErr *ScopeFuncPanicError
				require.ErrorAs(t, err, &panicErr)
				assert.Equal(t, tc.panic, panicErr.Panic)
				assert.NotEmpty(t, panicErr.Stack)
			case tc.ret != nil:
				assert.Equal(t, sentinel, err, "fn's error is returned as is")
			default:
				require.NoError(t, err)
			}

			require.NotNil(t, seen)
			_, err = seen.Get(TypeOf[*TDisposable]())
			require.ErrorIs(t, err, ErrScopeDisposed)
			_, err = seen.CreateScope(context.Background())
			require.ErrorIs(t, err, ErrScopeDisposed)
			assert.Error(t, seen.Context().Err())

			assert.True(t, scoped.IsClosed())
			assert.True(t, trans.IsClosed())
			assert.False(t, singleton.IsClosed(), "singletons are not touched")
			assert.Equal(t, 0, trackedScopes(p))
		})
	}
}

func TestRunInScope_FreshScopePerCall(t *testing.T) {
	p := BuildProvider(t, AddScoped(NewTScoped))

	var scopes []Scope
	var instances []*TScoped
	for i := 0; i < 3; i++ {
		require.NoError(t, RunInScope(p, nil, func(s Scope) error {
			scopes = append(scopes, s)
			instances = append(instances, RequireResolveFrom[*TScoped](t, s))
			return nil
		}))
	}

	assert.NotSame(t, scopes[0], scopes[1])
	assert.NotSame(t, instances[0], instances[1])
	assert.NotSame(t, instances[1], instances[2])
	assert.NotSame(t, instances[0], RequireResolve[*TScoped](t, p), "not the root scope's instance")
}

func TestRunInScope_CloseErrors(t *testing.T) {
	closeErr := errors.New("close failed")
	p := BuildProvider(t,
		AddScoped(func() *TDisposable {
			d := NewTDisposable()
			d.SetCloseError(closeErr)
			return d
		}),
		AddScoped(NewTDisposableWithName("healthy"), Name("healthy")),
	)
	sentinel := errors.New("sentinel")

	resolveBoth := func(s Scope) *TDisposable {
		RequireResolveFrom[*TDisposable](t, s)
		return RequireResolveKeyed[*TDisposable](t, s, "healthy")
	}

	// Only closing fails: the disposal error itself is returned
	var healthy *TDisposable
	err := RunInScope(p, nil, func(s Scope) error { healthy = resolveBoth(s); return nil })
	var disposalErr *DisposalError
	require.ErrorAs(t, err, &disposalErr)
	assert.ErrorIs(t, disposalErr.Errors[0], closeErr)
	assert.True(t, healthy.IsClosed(), "the other instances are still closed")

	// Both fail: both are reachable
	err = RunInScope(p, nil, func(s Scope) error { resolveBoth(s); return sentinel })
	require.ErrorIs(t, err, sentinel)
	require.ErrorAs(t, err, &disposalErr)

	// Panic and failing close
	err = RunInScope(p, nil, func(s Scope) error { resolveBoth(s); panic(sentinel) })
	var panicErr *ScopeFuncPanicError
	require.ErrorAs(t, err, &panicErr)
	assert.Equal(t, sentinel, panicErr.Panic)
	require.ErrorAs(t, err, &disposalErr)

	assert.Equal(t, 0, trackedScopes(p))
}

func TestRunInScope_ScopeCannotBeCreated(t *testing.T) {
	called := false
	fn := func(Scope) error { called = true; return nil }

	require.ErrorIs(t, RunInScope(nil, nil, fn), ErrProviderNil)
	var validationErr *ValidationError
	require.ErrorAs(t, RunInScope(BuildProvider(t), nil, nil), &validationErr)

	// A failing scope initializer (it does not fail for the root scope)
	initErr := errors.New("init failed")
	runs := 0
	var created []*TDisposable
	p := BuildProvider(t,
		AddScoped(func() *TDisposable {
			d := NewTDisposable()
			created = append(created, d)
			return d
		}),
		AddScoped(func(*TDisposable) error {
			runs++
			if runs > 1 {
				return initErr
			}
			return nil
		}),
	)
	err := RunInScope(p, nil, fn)
	require.ErrorIs(t, err, initErr)
	require.Len(t, created, 2)
	assert.True(t, created[1].IsClosed(), "what the failed creation built is released")
	assert.Equal(t, 0, trackedScopes(p))

	// Closed parent scope, closed provider
	c := NewCollection()
	require.NoError(t, c.AddScoped(NewTScoped))
	p2, err := c.Build()
	require.NoError(t, err)
	s, err := p2.CreateScope(context.Background())
	require.NoError(t, err)
	require.NoError(t, s.Close())
	require.ErrorIs(t, RunInScope(s, nil, fn), ErrScopeDisposed)
	require.NoError(t, p2.Close())
	require.ErrorIs(t, RunInScope(p2, nil, fn), ErrProviderDisposed)

	assert.False(t, called)
}

func TestRunInScope_NestedAndContext(t *testing.T) {
	p := BuildProvider(t, AddScoped(NewTDisposable))

	ctx, cancel := context.WithCancel(context.WithValue(context.Background(), runInScopeCtxKey{}, "outer"))
	defer cancel()

	var order []string
	var outerInst, innerInst *TDisposable

	err := RunInScope(p, ctx, func(outer Scope) error {
		assert.Equal(t, "outer", outer.Context().Value(runInScopeCtxKey{}))
		fromCtx, err := FromContext(outer.Context())
		require.NoError(t, err)
		assert.Same(t, outer, fromCtx)
		outerInst = RequireResolveFrom[*TDisposable](t, outer)

		// nil context: the child inherits the parent scope's context
		err = RunInScope(outer, nil, func(inner Scope) error {
			assert.NotSame(t, outer, inner)
			assert.Same(t, p, inner.Provider())
			assert.Equal(t, "outer", inner.Context().Value(runInScopeCtxKey{}))
			fromCtx, err := FromContext(inner.Context())
			require.NoError(t, err)
			assert.Same(t, inner, fromCtx)

			innerInst = RequireResolveFrom[*TDisposable](t, inner)
			assert.NotSame(t, outerInst, innerInst)
			assert.Equal(t, 2, trackedScopes(p))
			return nil
		})
		if innerInst.IsClosed() && !outerInst.IsClosed() {
			order = append(order, "inner closed first")
		}
		outer.(*scope).childrenMu.Lock()
		assert.Empty(t, outer.(*scope).children, "the parent forgets the child")
		outer.(*scope).childrenMu.Unlock()
		return err
	})
	require.NoError(t, err)
	assert.Equal(t, []string{"inner closed first"}, order)
	assert.True(t, outerInst.IsClosed())
	assert.Equal(t, 0, trackedScopes(p))
}

func TestRunInScope_CancelledOrClosedInsideFn(t *testing.T) {
	p := BuildProvider(t, AddScoped(NewTDisposable))

	// fn closes the scope itself: the final Close is a no-op. TDisposable.Close
	// fails when called twice, which would surface as a disposal error.
	var inst *TDisposable
	require.NoError(t, RunInScope(p, nil, func(s Scope) error {
		inst = RequireResolveFrom[*TDisposable](t, s)
		return s.Close()
	}))
	assert.True(t, inst.IsClosed())

	// The context is cancelled while fn runs: the scope closes itself
	ctx, cancel := context.WithCancel(context.Background())
	err := RunInScope(p, ctx, func(s Scope) error {
		inst = RequireResolveFrom[*TDisposable](t, s)
		cancel()
		<-inst.closeChan
		_, err := s.Get(TypeOf[*TDisposable]())
		return err
	})
	require.ErrorIs(t, err, ErrScopeDisposed)
	var disposalErr *DisposalError
	assert.False(t, errors.As(err, &disposalErr), "nothing was closed twice")
	assert.Eventually(t, func() bool { return trackedScopes(p) == 0 }, time.Second, time.Millisecond)
}

func TestRunInScope_BoundedGoroutinesAndConcurrency(t *testing.T) {
	p := BuildProvider(t, AddSingleton(NewTService), AddScoped(NewTScoped), AddTransient(NewTDisposable))
	before := runtime.NumGoroutine()

	var mu sync.Mutex
	seen := make(map[*TScoped]struct{})

	var wg sync.WaitGroup
	for i := 0; i < 8; i++ {
		wg.Add(1)
		go func() {
			defer wg.Done()
			for j := 0; j < 50; j++ {
				var d *TDisposable
				err := RunInScope(p, context.Background(), func(s Scope) error {
					sc, err := Resolve[*TScoped](s)
					if err != nil {
						return err
					}
					mu.Lock()
					_, dup := seen[sc]
					seen[sc] = struct{}{}
					mu.Unlock()
					assert.False(t, dup, "scoped instance shared between scopes")

					d, err = Resolve[*TDisposable](s)
					return err
				})
				assert.NoError(t, err)
				assert.True(t, d.IsClosed())
			}
		}()
	}
	wg.Wait()

	assert.Equal(t, 0, trackedScopes(p))
	assert.Eventually(t, func() bool { return runtime.NumGoroutine() <= before+2 }, 2*time.Second, 5*time.Millisecond)
}
