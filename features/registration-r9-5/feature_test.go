package godi

import (
	"context"
	"fmt"
	"sync"
	"sync/atomic"
	"testing"

	"github.com/stretchr/testify/assert"
	"github.com/stretchr/testify/require"
)

// iaLogger is the service that has an application choice and a default.
type iaLogger struct{ Name string }

func (l *iaLogger) Log() string { return l.Name }

type iaLog interface{ Log() string }

type iaSink interface{ Log() string }

type iaApp struct{ Logger *iaLogger }

func newIAApp(l *iaLogger) *iaApp { return &iaApp{Logger: l} }

func iaLoggerCtor(name string, calls *atomic.Int32) func() *iaLogger {
	return func() *iaLogger {
		calls.Add(1)
		return &iaLogger{Name: name}
	}
}

type iaResult struct {
	Out
	Logger *iaLogger
	Backup *iaLogger `name:"backup"`
	Member *iaLogger `group:"loggers"`
}

func iaResultCtor(calls *atomic.Int32) func() iaResult {
	return func() iaResult {
		calls.Add(1)
		return iaResult{
			Logger: &iaLogger{Name: "result"},
			Backup: &iaLogger{Name: "result-backup"},
			Member: &iaLogger{Name: "result-member"},
		}
	}
}

// iaPair is a result object without group members.
type iaPair struct {
	Out
	Logger *iaLogger
	Backup *iaLogger `name:"backup"`
}

func iaPairCtor(calls *atomic.Int32) func() iaPair {
	return func() iaPair {
		calls.Add(1)
		return iaPair{Logger: &iaLogger{Name: "result"}, Backup: &iaLogger{Name: "result-backup"}}
	}
}

func TestIfAbsent(t *testing.T) {
	t.Parallel()

	loggerType := PtrTypeOf[iaLogger]()

	t.Run("registers_when_the_identity_is_free", func(t *testing.T) {
		t.Parallel()
		var calls atomic.Int32

		c := NewCollection()
		require.NoError(t, c.AddSingleton(iaLoggerCtor("default", &calls), IfAbsent()))
		require.NoError(t, c.AddScoped(iaLoggerCtor("default-keyed", &calls), IfAbsent(), Name("audit")))
		require.NoError(t, c.AddSingleton(newIAApp, IfAbsent()))
		assert.Equal(t, 3, c.Count())

		p := buildIA(t, c)
		assert.Equal(t, "default", RequireResolve[*iaApp](t, p).Logger.Name)
		assert.Equal(t, "default-keyed", RequireResolveKeyed[*iaLogger](t, p, "audit").Name)
	})

	t.Run("is_a_no_op_when_the_identity_is_taken", func(t *testing.T) {
		t.Parallel()
		var appCalls, defaultCalls atomic.Int32

		c := NewCollection()
		require.NoError(t, c.AddSingleton(iaLoggerCtor("app", &appCalls)))
		require.NoError(t, c.AddSingleton(iaLoggerCtor("app-audit", &appCalls), Name("audit")))
		require.NoError(t, c.AddSingleton(newIAApp))
		before := c.ToSlice()

		// whatever the lifetime of the default
		require.NoError(t, c.AddSingleton(iaLoggerCtor("default", &defaultCalls), IfAbsent()))
		require.NoError(t, c.AddScoped(iaLoggerCtor("default", &defaultCalls), IfAbsent()))
		require.NoError(t, c.AddTransient(iaLoggerCtor("default", &defaultCalls), Name("audit"), IfAbsent()))

		assert.Equal(t, before, c.ToSlice(), "same descriptors in the same order")
		assert.Equal(t, 3, c.Count())

		// without the option the very same call is still rejected
		err := c.AddSingleton(iaLoggerCtor("default", &defaultCalls))
		var already *AlreadyRegisteredError
		require.ErrorAs(t, err, &already)

		// a free key of the same type is registered
		require.NoError(t, c.AddSingleton(iaLoggerCtor("default-metrics", &defaultCalls), Name("metrics"), IfAbsent()))
		assert.Equal(t, 4, c.Count())

		p := buildIA(t, c)
		assert.Equal(t, "app", RequireResolve[*iaApp](t, p).Logger.Name)
		assert.Equal(t, "app-audit", RequireResolveKeyed[*iaLogger](t, p, "audit").Name)
		assert.Equal(t, "default-metrics", RequireResolveKeyed[*iaLogger](t, p, "metrics").Name)
		assert.Equal(t, int32(2), appCalls.Load())
		assert.Equal(t, int32(1), defaultCalls.Load(), "dropped constructors never run")
	})

	t.Run("does_not_turn_a_scoped_dependency_into_a_conflict", func(t *testing.T) {
		t.Parallel()
		var calls atomic.Int32

		// The singleton default must not sneak in next to the scoped choice,
		// and the scoped choice keeps its lifetime
		c := NewCollection()
		require.NoError(t, c.AddScoped(iaLoggerCtor("scoped", &calls)))
		require.NoError(t, c.AddSingleton(iaLoggerCtor("default", &calls), IfAbsent()))
		require.NoError(t, c.AddScoped(newIAApp))
		assert.Equal(t, 2, c.Count())

		p := buildIA(t, c)
		s1, err := p.CreateScope(context.Background())
		require.NoError(t, err)
		t.Cleanup(func() { _ = s1.Close() })
		s2, err := p.CreateScope(context.Background())
		require.NoError(t, err)
		t.Cleanup(func() { _ = s2.Close() })

		a := RequireResolve[*iaApp](t, s1)
		assert.Equal(t, "scoped", a.Logger.Name)
		assert.Same(t, a.Logger, RequireResolve[*iaLogger](t, s1))
		assert.NotSame(t, a.Logger, RequireResolve[*iaLogger](t, s2))
	})

	t.Run("group_members_are_always_added", func(t *testing.T) {
		t.Parallel()
		var calls atomic.Int32

		c := NewCollection()
		require.NoError(t, c.AddSingleton(iaLoggerCtor("plain", &calls)))
		require.NoError(t, c.AddSingleton(iaLoggerCtor("m1", &calls), Group("loggers"), IfAbsent()))
		require.NoError(t, c.AddSingleton(iaLoggerCtor("m2", &calls), Group("loggers"), IfAbsent()))
		assert.Equal(t, 3, c.Count())

		p := buildIA(t, c)
		members, err := ResolveGroup[*iaLogger](p, "loggers")
		require.NoError(t, err)
		require.Len(t, members, 2)
		assert.Equal(t, "m1", members[0].Name)
		assert.Equal(t, "m2", members[1].Name)
	})

	t.Run("multi_output_registrations_are_all_or_nothing", func(t *testing.T) {
		t.Parallel()
		var appCalls, defaultCalls atomic.Int32

		// As: one alias taken, one free
		c := NewCollection()
		require.NoError(t, c.AddSingleton(iaLoggerCtor("app", &appCalls), As[iaLog]()))
		require.NoError(t, c.AddSingleton(iaLoggerCtor("default", &defaultCalls), As[iaLog](), As[iaSink](), IfAbsent()))
		assert.Equal(t, 1, c.Count())
		assert.False(t, c.Contains(TypeOf[iaSink]()))

		// multiple returns: second output taken
		require.NoError(t, c.AddSingleton(NewTDependencyWithName("app")))
		require.NoError(t, c.AddSingleton(NewTMultiReturn, IfAbsent()))
		assert.Equal(t, 2, c.Count())
		assert.False(t, c.Contains(PtrTypeOf[TService]()))

		// result object: only the keyed field is taken; the group member
		// must not be left behind on its own
		require.NoError(t, c.AddSingleton(iaLoggerCtor("app-backup", &appCalls), Name("backup")))
		require.NoError(t, c.AddSingleton(iaResultCtor(&defaultCalls), IfAbsent()))
		assert.Equal(t, 3, c.Count())
		assert.False(t, c.Contains(loggerType))
		assert.False(t, c.(*collection).HasGroup(loggerType, "loggers"))

		p := buildIA(t, c)
		assert.Equal(t, "app", RequireResolve[iaLog](t, p).Log())
		assert.Equal(t, "app", RequireResolve[*TDependency](t, p).Name)
		assert.Equal(t, int32(0), defaultCalls.Load())

		// with everything free the whole registration goes in and the
		// constructor still runs once for all its outputs
		var resultCalls atomic.Int32
		free := NewCollection()
		require.NoError(t, free.AddSingleton(iaPairCtor(&resultCalls), IfAbsent()))
		assert.Equal(t, 2, free.Count())
		fp := buildIA(t, free)
		assert.Equal(t, "result", RequireResolve[*iaLogger](t, fp).Name)
		assert.Equal(t, "result-backup", RequireResolveKeyed[*iaLogger](t, fp, "backup").Name)
		assert.Equal(t, int32(1), resultCalls.Load())
	})

	t.Run("invalid_registrations_are_still_rejected", func(t *testing.T) {
		t.Parallel()
		var calls atomic.Int32

		c := NewCollection()
		require.NoError(t, c.AddSingleton(iaLoggerCtor("app", &calls)))
		before := c.ToSlice()

		err := c.AddSingleton(nil, IfAbsent())
		assert.ErrorIs(t, err, ErrConstructorNil)

		require.Error(t, c.AddSingleton(iaLoggerCtor("x", &calls), IfAbsent(), Name("a"), Group("b")))

		var mismatch *TypeMismatchError
		require.ErrorAs(t, c.AddSingleton(iaLoggerCtor("x", &calls), IfAbsent(), As[TInterface]()), &mismatch)

		// reserved type next to a taken identity
		err = c.AddSingleton(func() (*iaLogger, context.Context) { return &iaLogger{}, context.Background() }, IfAbsent())
		var validation *ValidationError
		require.ErrorAs(t, err, &validation)

		// two outputs of one call collide with each other, taken or not
		var already *AlreadyRegisteredError
		err = c.AddSingleton(func() (*iaLogger, *iaLogger) { return &iaLogger{}, &iaLogger{} }, IfAbsent())
		require.ErrorAs(t, err, &already)
		err = c.AddSingleton(func() (*TService, *TService) { return &TService{}, &TService{} }, IfAbsent())
		require.ErrorAs(t, err, &already)

		assert.Equal(t, before, c.ToSlice())
	})

	t.Run("modules_can_be_listed_in_any_order", func(t *testing.T) {
		t.Parallel()

		for _, appFirst := range []bool{true, false} {
			var appCalls, defaultCalls atomic.Int32

			defaults := NewModule("defaults",
				AddSingleton(iaLoggerCtor("default", &defaultCalls), IfAbsent()),
				AddSingleton(newIAApp, IfAbsent()),
			)
			app := NewModule("app", AddSingleton(iaLoggerCtor("app", &appCalls), IfAbsent()))

			c := NewCollection()
			if appFirst {
				require.NoError(t, c.AddModules(app, defaults))
			} else {
				require.NoError(t, c.AddModules(defaults, app))
			}
			assert.Equal(t, 2, c.Count())

			want := "default"
			if appFirst {
				want = "app"
			}
			p := buildIA(t, c)
			assert.Equal(t, want, RequireResolve[*iaApp](t, p).Logger.Name)
			assert.Equal(t, int32(1), appCalls.Load()+defaultCalls.Load(), "exactly one logger constructor runs")
		}
	})

	t.Run("built_provider_and_removal", func(t *testing.T) {
		t.Parallel()
		var calls atomic.Int32

		c := NewCollection()
		require.NoError(t, c.AddSingleton(iaLoggerCtor("first", &calls)))
		first := buildIA(t, c)

		// after a removal the identity is free again
		c.Remove(loggerType)
		require.NoError(t, c.AddSingleton(iaLoggerCtor("second", &calls), IfAbsent()))
		require.NoError(t, c.AddSingleton(iaLoggerCtor("third", &calls), IfAbsent()))
		assert.Equal(t, 1, c.Count())

		second := buildIA(t, c)
		assert.Equal(t, "first", RequireResolve[*iaLogger](t, first).Name)
		assert.Equal(t, "second", RequireResolve[*iaLogger](t, second).Name)
		assert.Equal(t, int32(2), calls.Load())
	})

	t.Run("concurrent_registration_has_one_winner", func(t *testing.T) {
		t.Parallel()
		var calls atomic.Int32

		c := NewCollection()
		var wg sync.WaitGroup
		for w := 0; w < 16; w++ {
			wg.Add(1)
			go func(w int) {
				defer wg.Done()
				assert.NoError(t, c.AddSingleton(iaLoggerCtor(fmt.Sprintf("w%d", w), &calls), IfAbsent()))
				assert.NoError(t, c.AddSingleton(iaLoggerCtor(fmt.Sprintf("k%d", w), &calls), IfAbsent(), Name("shared")))
				assert.True(t, c.Contains(loggerType))
			}(w)
		}
		wg.Wait()

		assert.Equal(t, 2, c.Count())
		p := buildIA(t, c)
		assert.Same(t, RequireResolve[*iaLogger](t, p), RequireResolve[*iaLogger](t, p))
		assert.Equal(t, int32(2), calls.Load())
	})

	t.Run("option_string", func(t *testing.T) {
		t.Parallel()
		assert.Equal(t, "IfAbsent()", fmt.Sprint(IfAbsent()))
	})
}

func buildIA(t *testing.T, c Collection) Provider {
	t.Helper()
	p, err := c.Build()
	require.NoError(t, err)
	t.Cleanup(func() { _ = p.Close() })
	return p
}
