package godi

import (
	"context"
	"fmt"
	"math"
	"sync"
	"testing"

	"github.com/stretchr/testify/assert"
	"github.com/stretchr/testify/require"
)

// rsvSnapshot captures everything the public views say about a collection,
// holding on to the descriptor pointers.
type rsvSnapshot struct {
	descriptors []*Descriptor
	count       int
}

func rsvTake(c Collection) rsvSnapshot {
	return rsvSnapshot{descriptors: c.ToSlice(), count: c.Count()}
}

func rsvRequireSame(t *testing.T, before, after rsvSnapshot) {
	t.Helper()
	require.Equal(t, before.count, after.count)
	require.Len(t, after.descriptors, len(before.descriptors))
	for i := range before.descriptors {
		require.Same(t, before.descriptors[i], after.descriptors[i], "descriptor %d", i)
	}
}

func rsvFill(t *testing.T) Collection {
	t.Helper()
	return BuildCollection(t,
		AddSingleton(NewTService),
		AddSingleton(NewTServiceWithID("named"), Name("named")),
		AddSingleton(NewTDependency),
		AddSingleton(NewTServiceWithID("g1"), Group("services")),
		AddSingleton(NewTServiceWithID("g2"), Group("services")),
		AddScoped(NewTFromParams),
		AddScoped(NewTVoid),
		AddTransient(NewTTransient),
	)
}

func TestCollection_Reserve(t *testing.T) {
	t.Parallel()

	t.Run("keeps_every_registration_and_its_order", func(t *testing.T) {
		t.Parallel()
		c := rsvFill(t)
		before := rsvTake(c)

		c.Reserve(1000)

		rsvRequireSame(t, before, rsvTake(c))
		assert.True(t, c.Contains(PtrTypeOf[TService]()))
		assert.True(t, c.ContainsKeyed(PtrTypeOf[TService](), "named"))
		assert.True(t, c.Contains(PtrTypeOf[TDependency]()))
		assert.True(t, c.(*collection).HasGroup(PtrTypeOf[TService](), "services"))
		assert.False(t, c.Contains(PtrTypeOf[TScoped]()))

		// The index holds exactly the same entries as before
		r := c.(*collection)
		assert.Len(t, r.services, 6)
		for key, d := range r.services {
			assert.Equal(t, key, TypeKey{Type: d.Type, Key: d.Key})
			assert.Contains(t, before.descriptors, d)
		}

		// Duplicates are still detected by the moved index
		var already *AlreadyRegisteredError
		assert.ErrorAs(t, c.AddSingleton(NewTService), &already)
		assert.ErrorAs(t, c.AddScoped(NewTService, Name("named")), &already)
		rsvRequireSame(t, before, rsvTake(c))
	})

	t.Run("makes_the_promised_room", func(t *testing.T) {
		t.Parallel()
		c := rsvFill(t)
		r := c.(*collection)

		c.Reserve(500)
		reserved := cap(r.allDescriptors)
		require.GreaterOrEqual(t, reserved, c.Count()+500)
		require.GreaterOrEqual(t, r.servicesCapacity, len(r.services)+500)

		for i := 0; i < 500; i++ {
			require.NoError(t, c.AddTransient(NewTServiceWithID("x"), Name(fmt.Sprintf("n%d", i))))
		}
		assert.Equal(t, reserved, cap(r.allDescriptors), "the ordered list had to grow although room was reserved")
		assert.Equal(t, 508, c.Count())

		// A smaller or repeated hint neither shrinks nor reallocates
		servicesCapacity := r.servicesCapacity
		first := &r.allDescriptors[0]
		c.Reserve(0)
		c.Reserve(-5)
		c.Reserve(math.MinInt)
		assert.Equal(t, reserved, cap(r.allDescriptors))
		assert.Equal(t, servicesCapacity, r.servicesCapacity)
		assert.Same(t, first, &r.allDescriptors[0])
	})

	t.Run("absurd_hints_are_cut_down", func(t *testing.T) {
		t.Parallel()
		c := rsvFill(t)
		before := rsvTake(c)

		assert.NotPanics(t, func() {
			c.Reserve(math.MaxInt)
			c.Reserve(math.MaxInt)
		})

		rsvRequireSame(t, before, rsvTake(c))
		assert.LessOrEqual(t, cap(c.(*collection).allDescriptors), c.Count()+maxReserve)
	})

	t.Run("build_result_is_the_same_with_and_without", func(t *testing.T) {
		t.Parallel()

		plain := rsvFill(t)
		reserved := NewCollection()
		reserved.Reserve(64)
		require.NoError(t, reserved.AddModules(
			AddSingleton(NewTService),
			AddSingleton(NewTServiceWithID("named"), Name("named")),
			Reserve(100), // in the middle of a module
			AddSingleton(NewTDependency),
			AddSingleton(NewTServiceWithID("g1"), Group("services")),
			AddSingleton(NewTServiceWithID("g2"), Group("services")),
			AddScoped(NewTFromParams),
			AddScoped(NewTVoid),
			AddTransient(NewTTransient),
		))
		reserved.Reserve(10)

		require.Equal(t, plain.Count(), reserved.Count())
		for i, d := range plain.ToSlice() {
			other := reserved.ToSlice()[i]
			assert.Equal(t, d.Type, other.Type)
			assert.Equal(t, d.Group, other.Group)
			assert.Equal(t, d.Lifetime, other.Lifetime)
		}

		for _, c := range []Collection{plain, reserved} {
			p, err := c.Build()
			require.NoError(t, err)
			t.Cleanup(func() { _ = p.Close() })

			s, err := p.CreateScope(context.Background())
			require.NoError(t, err)
			t.Cleanup(func() { _ = s.Close() })

			svc := RequireResolve[*TService](t, p)
			assert.Same(t, svc, RequireResolveFrom[*TService](t, s))
			assert.Same(t, svc, RequireResolveFrom[*TServiceWithDeps](t, s).Svc)
			assert.Equal(t, "named", RequireResolveKeyed[*TService](t, p, "named").ID)

			members, err := ResolveGroup[*TService](s, "services")
			require.NoError(t, err)
			require.Len(t, members, 2)
			assert.Equal(t, "g1", members[0].ID)
			assert.Equal(t, "g2", members[1].ID)

			assert.NotSame(t, RequireResolveFrom[*TTransient](t, s), RequireResolveFrom[*TTransient](t, s))
		}
	})

	t.Run("remove_after_reserve", func(t *testing.T) {
		t.Parallel()
		c := rsvFill(t)
		c.Reserve(100)

		c.Remove(PtrTypeOf[TDependency]())
		c.RemoveKeyed(PtrTypeOf[TService](), "named")
		assert.False(t, c.Contains(PtrTypeOf[TDependency]()))
		assert.False(t, c.ContainsKeyed(PtrTypeOf[TService](), "named"))
		assert.Equal(t, 6, c.Count())

		c.Reserve(100)
		assert.False(t, c.Contains(PtrTypeOf[TDependency]()), "a removed registration came back")
		assert.Equal(t, 6, c.Count())

		// NewTFromParams needs the named service: Build must notice it is gone
		_, err := c.Build()
		assert.ErrorIs(t, err, ErrServiceNotFound)
	})

	t.Run("a_built_provider_is_not_affected", func(t *testing.T) {
		t.Parallel()
		c := rsvFill(t)
		p, err := c.Build()
		require.NoError(t, err)
		t.Cleanup(func() { _ = p.Close() })
		svc := RequireResolve[*TService](t, p)

		c.Reserve(2000)
		for i := 0; i < 100; i++ {
			require.NoError(t, c.AddSingleton(NewTDependencyWithName("late"), Name(fmt.Sprintf("late%d", i))))
		}

		assert.Same(t, svc, RequireResolve[*TService](t, p))
		_, err = ResolveKeyed[*TDependency](p, "late1")
		assert.ErrorIs(t, err, ErrServiceNotFound)
	})

	t.Run("concurrent_with_readers_adders_and_builds", func(t *testing.T) {
		t.Parallel()
		c := rsvFill(t)

		var wg sync.WaitGroup
		run := func(f func(i int)) {
			wg.Add(1)
			go func() {
				defer wg.Done()
				for i := 0; i < 50; i++ {
					f(i)
				}
			}()
		}

		run(func(i int) { c.Reserve(i * 7) })
		run(func(i int) { c.Reserve(300) })
		run(func(i int) {
			assert.NoError(t, c.AddSingleton(NewTDependencyWithName("d"), Name(fmt.Sprintf("d%d", i))))
		})
		run(func(i int) {
			assert.True(t, c.Contains(PtrTypeOf[TService]()))
			assert.True(t, c.ContainsKeyed(PtrTypeOf[TService](), "named"))
			assert.GreaterOrEqual(t, len(c.ToSlice()), 8)
		})
		run(func(i int) {
			if i%5 != 0 {
				return
			}
			p, err := c.Build()
			if assert.NoError(t, err) {
				assert.NoError(t, p.Close())
			}
		})
		wg.Wait()

		assert.Equal(t, 58, c.Count())
		for i := 0; i < 50; i++ {
			assert.True(t, c.ContainsKeyed(PtrTypeOf[TDependency](), fmt.Sprintf("d%d", i)))
		}
	})
}
