package godi

import (
	"context"
	"errors"
	"reflect"
	"sync"
	"sync/atomic"
	"testing"

	"github.com/stretchr/testify/assert"
	"github.com/stretchr/testify/require"
)

type getAllMissing struct{}

type getAllUser struct {
	Scoped *TScoped
	Svc    *TService
}

// plainProvider hides every optional interface of the wrapped provider.
type plainProvider struct{ Provider }

func TestGetAll(t *testing.T) {
	t.Parallel()

	t.Run("order_and_lifetimes", func(t *testing.T) {
		t.Parallel()
		p := BuildProvider(t,
			AddSingleton(NewTService),
			AddScoped(NewTScoped),
			AddTransient(NewTTransient),
			AddScoped(func(sc *TScoped, svc *TService) *getAllUser { return &getAllUser{Scoped: sc, Svc: svc} }),
		)
		s1, _ := p.CreateScope(context.Background())
		defer s1.Close()
		s2, _ := p.CreateScope(context.Background())
		defer s2.Close()

		got, err := s1.(MultiGetter).GetAll(
			PtrTypeOf[TService](), PtrTypeOf[TScoped](), PtrTypeOf[TTransient](),
			PtrTypeOf[getAllUser](), PtrTypeOf[TScoped](), PtrTypeOf[TTransient](),
		)
		require.NoError(t, err)
		require.Len(t, got, 6)

		single, _ := p.Get(PtrTypeOf[TService]())
		scoped, _ := s1.Get(PtrTypeOf[TScoped]())
		assert.Same(t, single, got[0])
		assert.Same(t, scoped, got[1])
		assert.Same(t, scoped, got[4])
		assert.IsType(t, &TTransient{}, got[2])
		assert.NotSame(t, got[2], got[5])
		user := got[3].(*getAllUser)
		assert.Same(t, scoped, user.Scoped)
		assert.Same(t, single, user.Svc)

		// Another scope shares the singleton only
		other, err := ResolveAll(s2, PtrTypeOf[TService](), PtrTypeOf[TScoped]())
		require.NoError(t, err)
		assert.Same(t, single, other[0])
		assert.NotSame(t, scoped, other[1])

		// From the provider: the root scope's instances
		root, err := ResolveAll(p, PtrTypeOf[TScoped](), PtrTypeOf[TService]())
		require.NoError(t, err)
		rootScoped, _ := p.Get(PtrTypeOf[TScoped]())
		assert.Same(t, rootScoped, root[0])
		assert.Same(t, single, root[1])
	})

	t.Run("built_ins_and_empty_request", func(t *testing.T) {
		t.Parallel()
		p := BuildProvider(t)
		s, _ := p.CreateScope(context.Background())
		defer s.Close()

		got, err := ResolveAll(s, TypeOf[Scope](), TypeOf[Provider](), TypeOf[context.Context]())
		require.NoError(t, err)
		assert.Same(t, s, got[0])
		assert.Same(t, p, got[1])
		assert.Equal(t, s.Context(), got[2])

		got, err = ResolveAll(s)
		require.NoError(t, err)
		assert.NotNil(t, got)
		assert.Empty(t, got)
	})

	t.Run("nothing_is_constructed_for_an_invalid_request", func(t *testing.T) {
		t.Parallel()
		var scopedCalls, transientCalls atomic.Int32
		p := BuildProvider(t,
			AddScoped(func() *TScoped { scopedCalls.Add(1); return &TScoped{} }),
			AddTransient(func() *TTransient { transientCalls.Add(1); return &TTransient{} }),
			AddSingleton(NewTServiceWithID("keyed"), Name("k")),
		)
		s, _ := p.CreateScope(context.Background())
		defer s.Close()

		// Unregistered type at the end
		got, err := ResolveAll(s, PtrTypeOf[TScoped](), PtrTypeOf[TTransient](), PtrTypeOf[getAllMissing]())
		assert.Nil(t, got)
		require.ErrorIs(t, err, ErrServiceNotFound)
		var resolution *ResolutionError
		require.ErrorAs(t, err, &resolution)
		assert.Equal(t, PtrTypeOf[getAllMissing](), resolution.ServiceType)

		// A keyed registration is not a registration of the plain type
		_, err = ResolveAll(s, PtrTypeOf[TScoped](), PtrTypeOf[TService]())
		require.ErrorIs(t, err, ErrServiceNotFound)

		// nil type
		_, err = ResolveAll(s, PtrTypeOf[TTransient](), nil)
		require.ErrorIs(t, err, ErrServiceTypeNil)

		assert.Zero(t, scopedCalls.Load())
		assert.Zero(t, transientCalls.Load())

		_, err = ResolveAll(nil, PtrTypeOf[TScoped]())
		assert.ErrorIs(t, err, ErrProviderNil)
	})

	t.Run("disposed_containers_refuse", func(t *testing.T) {
		t.Parallel()
		var calls atomic.Int32
		c := NewCollection()
		require.NoError(t, c.AddTransient(func() *TTransient { calls.Add(1); return &TTransient{} }))
		p, err := c.Build()
		require.NoError(t, err)
		parent, _ := p.CreateScope(context.Background())
		child, _ := parent.CreateScope(context.Background())
		require.NoError(t, parent.Close())

		for _, s := range []Scope{parent, child} {
			got, err := ResolveAll(s, PtrTypeOf[TTransient]())
			assert.Nil(t, got)
			assert.ErrorIs(t, err, ErrScopeDisposed)
			// Also for an empty or an invalid request
			_, err = ResolveAll(s)
			assert.ErrorIs(t, err, ErrScopeDisposed)
			_, err = ResolveAll(s, PtrTypeOf[getAllMissing]())
			assert.ErrorIs(t, err, ErrScopeDisposed)
		}

		require.NoError(t, p.Close())
		_, err = ResolveAll(p, PtrTypeOf[TTransient]())
		assert.ErrorIs(t, err, ErrProviderDisposed)
		assert.Zero(t, calls.Load())
	})

	t.Run("failure_in_the_middle", func(t *testing.T) {
		t.Parallel()
		var attempts atomic.Int32
		boom := errors.New("boom")
		p := BuildProvider(t,
			AddScoped(NewTDisposable),
			AddScoped(func() (*TService, error) {
				if attempts.Add(1) == 1 {
					return nil, boom
				}
				return &TService{ID: "second-attempt"}, nil
			}),
			AddTransient(NewTTransient),
		)
		s, _ := p.CreateScope(context.Background())
		types := []reflect.Type{PtrTypeOf[TDisposable](), PtrTypeOf[TService](), PtrTypeOf[TTransient]()}

		got, err := ResolveAll(s, types...)
		assert.Nil(t, got)
		require.ErrorIs(t, err, boom)
		var invocation *ConstructorInvocationError
		assert.ErrorAs(t, err, &invocation)

		// What was built before the failure is kept by the scope and reused
		kept, err := s.Get(PtrTypeOf[TDisposable]())
		require.NoError(t, err)

		got, err = ResolveAll(s, types...)
		require.NoError(t, err)
		assert.Same(t, kept, got[0])
		assert.Equal(t, "second-attempt", got[1].(*TService).ID)
		assert.EqualValues(t, 2, attempts.Load())

		// ... and is closed exactly once with it (a second Close call would fail)
		require.NoError(t, s.Close())
		assert.True(t, kept.(*TDisposable).IsClosed())
	})

	t.Run("fallback_for_foreign_providers", func(t *testing.T) {
		t.Parallel()
		p := BuildProvider(t, AddSingleton(NewTService), AddTransient(NewTTransient))
		wrapped := plainProvider{p}
		_, isMulti := any(wrapped).(MultiGetter)
		require.False(t, isMulti)

		got, err := ResolveAll(wrapped, PtrTypeOf[TService](), PtrTypeOf[TTransient]())
		require.NoError(t, err)
		single, _ := p.Get(PtrTypeOf[TService]())
		assert.Same(t, single, got[0])
		assert.IsType(t, &TTransient{}, got[1])

		_, err = ResolveAll(wrapped, PtrTypeOf[TService](), PtrTypeOf[getAllMissing]())
		assert.ErrorIs(t, err, ErrServiceNotFound)
	})

	t.Run("concurrent_use_and_close", func(t *testing.T) {
		t.Parallel()
		p := BuildProvider(t,
			AddSingleton(NewTService),
			AddScoped(NewTScoped),
			AddTransient(NewTDisposable),
		)
		s, _ := p.CreateScope(context.Background())
		single, _ := p.Get(PtrTypeOf[TService]())
		scoped, _ := s.Get(PtrTypeOf[TScoped]())

		var mu sync.Mutex
		var handedOut []*TDisposable

		var wg sync.WaitGroup
		for i := 0; i < 16; i++ {
			wg.Add(1)
			go func(i int) {
				defer wg.Done()
				if i == 5 {
					assert.NoError(t, s.Close())
					return
				}
				for j := 0; j < 50; j++ {
					got, err := ResolveAll(s, PtrTypeOf[TService](), PtrTypeOf[TDisposable](), PtrTypeOf[TScoped](), PtrTypeOf[TDisposable]())
					if err != nil {
						assert.ErrorIs(t, err, ErrScopeDisposed)
						assert.Nil(t, got)
						return
					}
					assert.Same(t, single, got[0])
					assert.Same(t, scoped, got[2])
					assert.NotSame(t, got[1], got[3])
					mu.Lock()
					handedOut = append(handedOut, got[1].(*TDisposable), got[3].(*TDisposable))
					mu.Unlock()
				}
			}(i)
		}
		wg.Wait()

		seen := make(map[*TDisposable]struct{}, len(handedOut))
		for _, d := range handedOut {
			_, dup := seen[d]
			assert.False(t, dup, "transient handed out twice")
			seen[d] = struct{}{}
			assert.True(t, d.IsClosed())
		}
	})
}
