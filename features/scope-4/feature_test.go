package godi

import (
	"context"
	"sync"
	"testing"
	"time"

	"github.com/stretchr/testify/assert"
	"github.com/stretchr/testify/require"
)

type statsMissing struct{}

func statsOf(t *testing.T, s Scope) ScopeStats {
	t.Helper()
	r, ok := s.(StatsReporter)
	require.True(t, ok)
	return r.Stats()
}

func TestScopeStats(t *testing.T) {
	t.Parallel()

	t.Run("counts_follow_the_tables", func(t *testing.T) {
		t.Parallel()
		p := BuildProvider(t,
			AddSingleton(NewTService),
			AddScoped(NewTDependency),
			AddScoped(NewTServiceWithDeps), // needs *TService (singleton) and *TDependency (scoped)
			AddScoped(NewTDisposable),
			AddTransient(NewTDisposableWithName("t"), Name("transient")),
			AddScoped(NewTServiceWithID("g1"), Group("g")),
			AddScoped(NewTServiceWithID("g2"), Group("g")),
		)
		s, err := p.CreateScope(context.Background())
		require.NoError(t, err)

		fresh := statsOf(t, s)
		assert.Equal(t, s.(*scope).ID(), fresh.ID)
		assert.Equal(t, ScopeStats{ID: fresh.ID}, fresh)
		assert.False(t, s.(StatsReporter).IsDisposed())

		// One request plus two injected dependencies; two scoped instances
		_, err = s.Get(PtrTypeOf[TServiceWithDeps]())
		require.NoError(t, err)
		st := statsOf(t, s)
		assert.EqualValues(t, 3, st.Resolutions)
		assert.Equal(t, 2, st.Instances)
		assert.Equal(t, 0, st.Disposables)

		// A cache hit is a request, but creates nothing
		_, _ = s.Get(PtrTypeOf[TServiceWithDeps]())
		// A singleton seen through the scope is not owned by it
		_, _ = s.Get(PtrTypeOf[TService]())
		st = statsOf(t, s)
		assert.EqualValues(t, 5, st.Resolutions)
		assert.Equal(t, 2, st.Instances)

		// Scoped disposable: cached and tracked; transient: tracked only
		_, _ = s.Get(PtrTypeOf[TDisposable]())
		_, _ = s.GetKeyed(PtrTypeOf[TDisposable](), "transient")
		_, _ = s.GetKeyed(PtrTypeOf[TDisposable](), "transient")
		st = statsOf(t, s)
		assert.EqualValues(t, 8, st.Resolutions)
		assert.Equal(t, 3, st.Instances)
		assert.Equal(t, 3, st.Disposables)

		// Each group member is a request
		members, err := s.GetGroup(PtrTypeOf[TService](), "g")
		require.NoError(t, err)
		require.Len(t, members, 2)
		st = statsOf(t, s)
		assert.EqualValues(t, 10, st.Resolutions)
		assert.Equal(t, 5, st.Instances)

		// A request that fails was still accepted; refused ones are not
		_, err = s.Get(PtrTypeOf[statsMissing]())
		require.ErrorIs(t, err, ErrServiceNotFound)
		_, err = s.Get(nil)
		require.ErrorIs(t, err, ErrServiceTypeNil)
		_, err = s.GetKeyed(PtrTypeOf[TService](), nil)
		require.ErrorIs(t, err, ErrServiceKeyNil)
		st = statsOf(t, s)
		assert.EqualValues(t, 11, st.Resolutions)
		assert.Equal(t, 5, st.Instances)

		// Closing empties the scope; the counter stays and no longer moves
		require.NoError(t, s.Close())
		_, err = s.Get(PtrTypeOf[TService]())
		require.ErrorIs(t, err, ErrScopeDisposed)
		assert.True(t, s.(StatsReporter).IsDisposed())
		assert.Equal(t, ScopeStats{ID: fresh.ID, Disposed: true, Resolutions: 11}, statsOf(t, s))
	})

	t.Run("scopes_are_counted_separately", func(t *testing.T) {
		t.Parallel()
		p := BuildProvider(t, AddScoped(NewTScoped))
		parent, _ := p.CreateScope(context.Background())
		defer parent.Close()
		sibling, _ := p.CreateScope(context.Background())
		defer sibling.Close()
		child1, _ := parent.CreateScope(context.Background())
		child2, _ := parent.CreateScope(context.Background())
		grandchild, _ := child1.CreateScope(context.Background())

		_, _ = child1.Get(PtrTypeOf[TScoped]())
		_, _ = child1.Get(PtrTypeOf[TScoped]())
		_, _ = p.Get(PtrTypeOf[TScoped]())

		assert.Equal(t, 2, statsOf(t, parent).Children)
		assert.Equal(t, 1, statsOf(t, child1).Children)
		assert.Equal(t, 0, statsOf(t, sibling).Children)
		assert.EqualValues(t, 2, statsOf(t, child1).Resolutions)
		assert.Equal(t, 1, statsOf(t, child1).Instances)
		for _, s := range []Scope{parent, sibling, child2, grandchild} {
			assert.Zero(t, statsOf(t, s).Resolutions)
			assert.Zero(t, statsOf(t, s).Instances)
		}

		// The provider resolves in its root scope
		root, err := Resolve[Scope](p)
		require.NoError(t, err)
		assert.Equal(t, 1, statsOf(t, root).Instances)
		assert.Equal(t, 0, statsOf(t, root).Children)

		// Closing a child closes its subtree and detaches it from the parent
		require.NoError(t, child1.Close())
		assert.True(t, grandchild.(StatsReporter).IsDisposed())
		assert.Equal(t, 1, statsOf(t, parent).Children)
		assert.False(t, parent.(StatsReporter).IsDisposed())
		assert.False(t, child2.(StatsReporter).IsDisposed())

		require.NoError(t, p.Close())
		for _, s := range []Scope{parent, sibling, child2, root} {
			st := statsOf(t, s)
			assert.True(t, st.Disposed)
			assert.Zero(t, st.Instances+st.Disposables+st.Children)
		}
	})

	t.Run("context_cancellation_is_visible", func(t *testing.T) {
		t.Parallel()
		p := BuildProvider(t)
		ctx, cancel := context.WithCancel(context.Background())
		s, _ := p.CreateScope(ctx)
		cancel()
		assert.Eventually(t, s.(StatsReporter).IsDisposed, 5*time.Second, time.Millisecond)
	})

	t.Run("concurrent_counting_is_exact", func(t *testing.T) {
		t.Parallel()
		p := BuildProvider(t, AddSingleton(NewTService), AddTransient(NewTDisposable))
		s, _ := p.CreateScope(context.Background())
		other, _ := p.CreateScope(context.Background())
		defer other.Close()

		const workers, rounds = 8, 200
		var wg sync.WaitGroup
		for i := 0; i < workers; i++ {
			wg.Add(1)
			go func() {
				defer wg.Done()
				for j := 0; j < rounds; j++ {
					_, err := s.Get(PtrTypeOf[TService]())
					assert.NoError(t, err)
					_, err = s.Get(PtrTypeOf[TDisposable]())
					assert.NoError(t, err)
					st := statsOf(t, s)
					assert.False(t, st.Disposed)
					assert.LessOrEqual(t, st.Disposables, workers*rounds)
				}
			}()
		}
		wg.Wait()

		st := statsOf(t, s)
		assert.EqualValues(t, 2*workers*rounds, st.Resolutions)
		assert.Equal(t, workers*rounds, st.Disposables)
		assert.Equal(t, 0, st.Instances)
		assert.Zero(t, statsOf(t, other).Resolutions)

		// Stats while the scope is being closed
		wg.Add(2)
		go func() { defer wg.Done(); assert.NoError(t, s.Close()) }()
		go func() {
			defer wg.Done()
			for j := 0; j < rounds; j++ {
				_ = statsOf(t, s)
			}
		}()
		wg.Wait()
		assert.Equal(t, ScopeStats{ID: st.ID, Disposed: true, Resolutions: st.Resolutions}, statsOf(t, s))
	})
}
