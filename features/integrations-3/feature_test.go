package gin

import (
	"context"
	"fmt"
	"net/http"
	"net/http/httptest"
	"sync"
	"sync/atomic"
	"testing"

	"github.com/gin-gonic/gin"
	"github.com/junioryono/godi/v4"
	"github.com/stretchr/testify/assert"
	"github.com/stretchr/testify/require"
)

// ridAudit is a scoped disposable that captures the request ID from the
// context injected by the container.
type ridAudit struct {
	RequestID string
	closes    atomic.Int32
}

func (a *ridAudit) Close() error {
	a.closes.Add(1)
	return nil
}

// ridStamp is a transient that reads the ID the same way.
type ridStamp struct{ RequestID string }

// ridBoot is a singleton: built at Build time, it never sees a request ID.
type ridBoot struct{ RequestID string }

// ridController depends on the scoped audit and a transient stamp.
type ridController struct {
	Audit *ridAudit
	Stamp *ridStamp
	Boot  *ridBoot
}

func (ctl *ridController) Show(c *gin.Context) {
	c.String(http.StatusOK, "%s|%s|%s|%s",
		ctl.Audit.RequestID, ctl.Stamp.RequestID, ctl.Boot.RequestID, RequestID(c.Request.Context()))
}

func buildRequestIDProvider(t *testing.T, audits *sync.Map) godi.Provider {
	t.Helper()

	collection := godi.NewCollection()
	require.NoError(t, collection.AddSingleton(func(ctx context.Context) *ridBoot {
		return &ridBoot{RequestID: RequestID(ctx)}
	}))
	require.NoError(t, collection.AddScoped(func(ctx context.Context) *ridAudit {
		a := &ridAudit{RequestID: RequestID(ctx)}
		if audits != nil {
			audits.Store(a, struct{}{})
		}
		return a
	}))
	require.NoError(t, collection.AddTransient(func(ctx context.Context) *ridStamp {
		return &ridStamp{RequestID: RequestID(ctx)}
	}))
	require.NoError(t, collection.AddScoped(func(a *ridAudit, s *ridStamp, b *ridBoot) *ridController {
		return &ridController{Audit: a, Stamp: s, Boot: b}
	}))

	provider, err := collection.Build()
	require.NoError(t, err)
	t.Cleanup(func() { provider.Close() })
	return provider
}

func TestWithRequestID(t *testing.T) {
	const header = "X-Request-ID"

	t.Run("incoming header is propagated to scope, services, handler and response", func(t *testing.T) {
		var audits sync.Map
		provider := buildRequestIDProvider(t, &audits)

		var fromScopeCtx, fromMiddleware string
		var audit *ridAudit

		g := gin.New()
		g.Use(ScopeMiddleware(provider,
			WithRequestID(header, func() string { t.Error("generator must not run"); return "" }),
			WithMiddleware(func(scope godi.Scope, c *gin.Context) error {
				fromMiddleware = RequestID(c.Request.Context())
				fromScopeCtx = RequestID(scope.Context())

				// FromContext on the request context is this very scope.
				same, err := godi.FromContext(c.Request.Context())
				require.NoError(t, err)
				assert.Same(t, scope, same)

				audit = godi.MustResolve[*ridAudit](scope)
				return nil
			}),
		))
		g.GET("/", Handle((*ridController).Show))

		req := httptest.NewRequest(http.MethodGet, "/", nil)
		req.Header.Set(header, "abc-123")
		rec := httptest.NewRecorder()
		g.ServeHTTP(rec, req)

		assert.Equal(t, http.StatusOK, rec.Code)
		assert.Equal(t, "abc-123|abc-123||abc-123", rec.Body.String(), "singleton sees no request ID")
		assert.Equal(t, "abc-123", rec.Header().Get(header))
		assert.Equal(t, "abc-123", fromMiddleware)
		assert.Equal(t, "abc-123", fromScopeCtx)
		require.NotNil(t, audit)
		assert.Equal(t, int32(1), audit.closes.Load(), "scope closed exactly once")
	})

	t.Run("missing header uses the generator, default generator yields unique ids", func(t *testing.T) {
		provider := buildRequestIDProvider(t, nil)

		var n atomic.Int32
		custom := gin.New()
		custom.Use(ScopeMiddleware(provider, WithRequestID(header, func() string {
			return fmt.Sprintf("gen-%d", n.Add(1))
		})))
		custom.GET("/", Handle((*ridController).Show))

		for i := 1; i <= 2; i++ {
			rec := httptest.NewRecorder()
			custom.ServeHTTP(rec, httptest.NewRequest(http.MethodGet, "/", nil))
			id := fmt.Sprintf("gen-%d", i)
			assert.Equal(t, id+"|"+id+"||"+id, rec.Body.String())
			assert.Equal(t, id, rec.Header().Get(header))
		}

		random := gin.New()
		random.Use(ScopeMiddleware(provider, WithRequestID(header, nil)))
		random.GET("/", func(c *gin.Context) { c.String(http.StatusOK, RequestID(c.Request.Context())) })

		seen := map[string]bool{}
		for i := 0; i < 50; i++ {
			rec := httptest.NewRecorder()
			random.ServeHTTP(rec, httptest.NewRequest(http.MethodGet, "/", nil))
			id := rec.Body.String()
			assert.Len(t, id, 32)
			assert.Equal(t, id, rec.Header().Get(header))
			assert.False(t, seen[id], "duplicate id %s", id)
			seen[id] = true
		}
	})

	t.Run("without the option nothing is injected", func(t *testing.T) {
		provider := buildRequestIDProvider(t, nil)

		g := gin.New()
		g.Use(ScopeMiddleware(provider))
		g.GET("/", Handle((*ridController).Show))

		req := httptest.NewRequest(http.MethodGet, "/", nil)
		req.Header.Set(header, "ignored")
		rec := httptest.NewRecorder()
		g.ServeHTTP(rec, req)

		assert.Equal(t, "|||", rec.Body.String())
		assert.Empty(t, rec.Header().Get(header))
		assert.Equal(t, "", RequestID(context.Background()))
		var nilCtx context.Context
		assert.Equal(t, "", RequestID(nilCtx), "a nil context is tolerated")
	})

	t.Run("values and cancellation of the incoming context are kept", func(t *testing.T) {
		provider := buildRequestIDProvider(t, nil)

		type userKey struct{}
		var scopeCtx context.Context

		g := gin.New()
		g.Use(ScopeMiddleware(provider, WithRequestID(header, nil)))
		g.GET("/", func(c *gin.Context) {
			scope, err := godi.FromContext(c.Request.Context())
			require.NoError(t, err)
			scopeCtx = scope.Context()
			assert.Equal(t, "alice", scopeCtx.Value(userKey{}))
			assert.NoError(t, scopeCtx.Err())
		})

		parent, cancel := context.WithCancel(context.WithValue(context.Background(), userKey{}, "alice"))
		defer cancel()
		req := httptest.NewRequest(http.MethodGet, "/", nil).WithContext(parent)
		g.ServeHTTP(httptest.NewRecorder(), req)

		require.NotNil(t, scopeCtx)
		assert.ErrorIs(t, scopeCtx.Err(), context.Canceled, "scope context cancelled once the request ends")
	})

	t.Run("scope creation failure still reaches the error handler with the id echoed", func(t *testing.T) {
		collection := godi.NewCollection()
		provider, err := collection.Build()
		require.NoError(t, err)
		require.NoError(t, provider.Close())

		var handled error
		g := gin.New()
		g.Use(ScopeMiddleware(provider,
			WithRequestID(header, nil),
			WithErrorHandler(func(c *gin.Context, err error) {
				handled = err
				c.AbortWithStatus(http.StatusServiceUnavailable)
			}),
		))
		g.GET("/", func(c *gin.Context) { t.Error("handler must not run") })

		req := httptest.NewRequest(http.MethodGet, "/", nil)
		req.Header.Set(header, "dead")
		rec := httptest.NewRecorder()
		g.ServeHTTP(rec, req)

		assert.Equal(t, http.StatusServiceUnavailable, rec.Code)
		assert.ErrorIs(t, handled, godi.ErrProviderDisposed)
		assert.Equal(t, "dead", rec.Header().Get(header))
	})

	t.Run("concurrent requests keep their own id and scoped instance", func(t *testing.T) {
		var audits sync.Map
		provider := buildRequestIDProvider(t, &audits)

		g := gin.New()
		g.Use(ScopeMiddleware(provider, WithRequestID(header, nil)))
		g.GET("/", Handle((*ridController).Show))

		const workers, perWorker = 8, 40
		var wg sync.WaitGroup
		for w := 0; w < workers; w++ {
			wg.Add(1)
			go func() {
				defer wg.Done()
				for i := 0; i < perWorker; i++ {
					id := fmt.Sprintf("w%d-%d", w, i)
					req := httptest.NewRequest(http.MethodGet, "/", nil)
					req.Header.Set(header, id)
					rec := httptest.NewRecorder()
					g.ServeHTTP(rec, req)
					assert.Equal(t, id+"|"+id+"||"+id, rec.Body.String())
					assert.Equal(t, id, rec.Header().Get(header))
				}
			}()
		}
		wg.Wait()

		ids := map[string]bool{}
		audits.Range(func(k, _ any) bool {
			a := k.(*ridAudit)
			assert.False(t, ids[a.RequestID], "two scoped instances for one request")
			ids[a.RequestID] = true
			assert.Equal(t, int32(1), a.closes.Load())
			return true
		})
		assert.Len(t, ids, workers*perWorker)
	})
}
