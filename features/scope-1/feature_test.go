package godi

import (
	"context"
	"errors"
	"sync"
	"sync/atomic"
	"testing"

	"github.com/stretchr/testify/assert"
	"github.com/stretchr/testify/require"
)

type tryUnregistered struct{}

type tryFlaky struct{ n int32 }

func TestTryGet(t *testing.T) {
	t.Parallel()

	t.Run("unregistered_is_not_an_error", func(t *testing.T) {
		t.Parallel()
		p := BuildProvider(t, AddSingleton(NewTService))
		s, err := p.CreateScope(context.Background())
		require.NoError(t, err)
		defer s.Close()

		for _, g := range []TryGetter{p.(TryGetter), s.(TryGetter)} {
			v, ok, err := g.TryGet(PtrTypeOf[tryUnregistered]())
			assert.NoError(t, err)
			assert.False(t, ok)
			assert.Nil(t, v)

			v, ok, err = g.TryGetKeyed(PtrTypeOf[TService](), "nope")
			assert.NoError(t, err)
			assert.False(t, ok)
			assert.Nil(t, v)
		}
	})

	t.Run("lifetimes_are_those_of_get", func(t *testing.T) {
		t.Parallel()
		p := BuildProvider(t,
			AddSingleton(NewTService),
			AddScoped(NewTScoped),
			AddTransient(NewTTransient),
		)
		s1, _ := p.CreateScope(context.Background())
		defer s1.Close()
		s2, _ := p.CreateScope(context.Background())
		defer s2.Close()
		g1, g2 := s1.(TryGetter), s2.(TryGetter)

		// Singleton: the one instance, from everywhere
		single, ok, err := g1.TryGet(PtrTypeOf[TService]())
		require.NoError(t, err)
		require.True(t, ok)
		viaGet, _ := p.Get(PtrTypeOf[TService]())
		viaProvider, _, _ := p.(TryGetter).TryGet(PtrTypeOf[TService]())
		assert.Same(t, viaGet, single)
		assert.Same(t, viaGet, viaProvider)

		// Scoped: one per scope, shared with Get
		a, ok, err := g1.TryGet(PtrTypeOf[TScoped]())
		require.NoError(t, err)
		require.True(t, ok)
		b, _ := s1.Get(PtrTypeOf[TScoped]())
		c, _, _ := g1.TryGet(PtrTypeOf[TScoped]())
		d, _, _ := g2.TryGet(PtrTypeOf[TScoped]())
		assert.Same(t, a, b)
		assert.Same(t, a, c)
		assert.NotSame(t, a, d)

		// Transient: always new
		t1, _, _ := g1.TryGet(PtrTypeOf[TTransient]())
		t2, _, _ := g1.TryGet(PtrTypeOf[TTransient]())
		assert.NotSame(t, t1, t2)
	})

	t.Run("keys_groups_and_aliases_are_exact", func(t *testing.T) {
		t.Parallel()
		p := BuildProvider(t,
			AddSingleton(NewTServiceWithID("named"), Name("primary")),
			AddSingleton(NewTServiceWithID("member"), Group("services")),
			AddSingleton(NewTServiceWithID("alias"), As[TInterface]()),
		)
		g := p.(TryGetter)

		v, ok, err := g.TryGetKeyed(PtrTypeOf[TService](), "primary")
		require.NoError(t, err)
		require.True(t, ok)
		assert.Equal(t, "named", v.(*TService).ID)

		// Neither the keyed nor the grouped registration is visible without key
		_, ok, err = g.TryGet(PtrTypeOf[TService]())
		assert.NoError(t, err)
		assert.False(t, ok)

		_, ok, err = g.TryGetKeyed(PtrTypeOf[TService](), "other")
		assert.NoError(t, err)
		assert.False(t, ok)

		iface, ok, err := TryResolve[TInterface](p)
		require.NoError(t, err)
		require.True(t, ok)
		assert.Equal(t, "alias", iface.GetID())
	})

	t.Run("built_in_services", func(t *testing.T) {
		t.Parallel()
		p := BuildProvider(t)
		ctx := context.WithValue(context.Background(), testContextKey("k"), "v")
		s, _ := p.CreateScope(ctx)
		defer s.Close()
		g := s.(TryGetter)

		gotCtx, ok, err := g.TryGet(TypeOf[context.Context]())
		require.NoError(t, err)
		require.True(t, ok)
		assert.Equal(t, s.Context(), gotCtx)
		assert.Equal(t, "v", gotCtx.(context.Context).Value(testContextKey("k")))

		gotScope, ok, _ := g.TryGet(TypeOf[Scope]())
		require.True(t, ok)
		assert.Same(t, s, gotScope)

		gotProvider, ok, _ := g.TryGet(TypeOf[Provider]())
		require.True(t, ok)
		assert.Same(t, p, gotProvider)

		// Built-ins have no keyed form
		_, ok, err = g.TryGetKeyed(TypeOf[Scope](), "k")
		assert.NoError(t, err)
		assert.False(t, ok)
	})

	t.Run("invalid_arguments", func(t *testing.T) {
		t.Parallel()
		p := BuildProvider(t, AddSingleton(NewTService))
		s, _ := p.CreateScope(context.Background())
		defer s.Close()

		for _, g := range []TryGetter{p.(TryGetter), s.(TryGetter)} {
			_, ok, err := g.TryGet(nil)
			assert.False(t, ok)
			assert.ErrorIs(t, err, ErrServiceTypeNil)

			_, ok, err = g.TryGetKeyed(nil, "k")
			assert.False(t, ok)
			assert.ErrorIs(t, err, ErrServiceTypeNil)

			_, ok, err = g.TryGetKeyed(PtrTypeOf[TService](), nil)
			assert.False(t, ok)
			assert.ErrorIs(t, err, ErrServiceKeyNil)
		}

		_, ok, err := TryResolve[*TService](nil)
		assert.False(t, ok)
		assert.ErrorIs(t, err, ErrProviderNil)
	})

	t.Run("disposed_containers_refuse", func(t *testing.T) {
		t.Parallel()
		c := NewCollection()
		require.NoError(t, c.AddSingleton(NewTService))
		p, err := c.Build()
		require.NoError(t, err)
		parent, _ := p.CreateScope(context.Background())
		child, _ := parent.CreateScope(context.Background())

		require.NoError(t, parent.Close())
		for _, s := range []Scope{parent, child} {
			// Registered and unregistered types alike: the scope is gone
			_, ok, err := s.(TryGetter).TryGet(PtrTypeOf[TService]())
			assert.False(t, ok)
			assert.ErrorIs(t, err, ErrScopeDisposed)
			_, ok, err = s.(TryGetter).TryGet(PtrTypeOf[tryUnregistered]())
			assert.False(t, ok)
			assert.ErrorIs(t, err, ErrScopeDisposed)
			_, ok, err = s.(TryGetter).TryGetKeyed(PtrTypeOf[TService](), "k")
			assert.False(t, ok)
			assert.ErrorIs(t, err, ErrScopeDisposed)
		}

		require.NoError(t, p.Close())
		_, ok, err := p.(TryGetter).TryGet(PtrTypeOf[TService]())
		assert.False(t, ok)
		assert.ErrorIs(t, err, ErrProviderDisposed)
		_, ok, err = p.(TryGetter).TryGetKeyed(PtrTypeOf[TService](), "k")
		assert.False(t, ok)
		assert.ErrorIs(t, err, ErrProviderDisposed)
		_, ok, err = TryResolve[*TService](p)
		assert.False(t, ok)
		assert.ErrorIs(t, err, ErrProviderDisposed)
	})

	t.Run("constructor_failures_are_errors_and_not_cached", func(t *testing.T) {
		t.Parallel()
		var calls atomic.Int32
		boom := errors.New("boom")
		p := BuildProvider(t,
			AddScoped(func() (*tryFlaky, error) {
				n := calls.Add(1)
				if n == 1 {
					return nil, boom
				}
				return &tryFlaky{n: n}, nil
			}),
			AddTransient(func() *TDependency { panic("kaboom") }),
		)
		s, _ := p.CreateScope(context.Background())
		defer s.Close()

		v, ok, err := TryResolve[*tryFlaky](s)
		assert.Nil(t, v)
		assert.False(t, ok)
		require.ErrorIs(t, err, boom)
		var invocation *ConstructorInvocationError
		assert.ErrorAs(t, err, &invocation)

		// The retry behaves like a first attempt, and its result is cached
		v, ok, err = TryResolve[*tryFlaky](s)
		require.NoError(t, err)
		require.True(t, ok)
		again, _, _ := TryResolve[*tryFlaky](s)
		assert.Same(t, v, again)
		assert.EqualValues(t, 2, calls.Load())

		_, ok, err = TryResolve[*TDependency](s)
		assert.False(t, ok)
		var panicErr *ConstructorPanicError
		require.ErrorAs(t, err, &panicErr)
		assert.Equal(t, "kaboom", panicErr.Panic)
	})

	t.Run("instances_are_owned_by_the_scope", func(t *testing.T) {
		t.Parallel()
		p := BuildProvider(t, AddTransient(NewTDisposable))
		s, _ := p.CreateScope(context.Background())

		d1, ok, err := TryResolve[*TDisposable](s)
		require.NoError(t, err)
		require.True(t, ok)
		d2, _, _ := TryResolve[*TDisposable](s)
		require.NotSame(t, d1, d2)
		assert.False(t, d1.IsClosed())

		// TDisposable.Close fails when called twice, so nil means exactly once
		require.NoError(t, s.Close())
		assert.True(t, d1.IsClosed())
		assert.True(t, d2.IsClosed())
	})

	t.Run("concurrent_use_and_close", func(t *testing.T) {
		t.Parallel()
		p := BuildProvider(t,
			AddSingleton(NewTService),
			AddScoped(NewTScoped),
			AddTransient(NewTDisposable),
		)
		s, _ := p.CreateScope(context.Background())
		single, _ := p.Get(PtrTypeOf[TService]())
		scoped, _ := s.Get(PtrTypeOf[TScoped]())

		var mu sync.Mutex
		var created []*TDisposable

		var wg sync.WaitGroup
		for i := 0; i < 16; i++ {
			wg.Add(1)
			go func(i int) {
				defer wg.Done()
				if i == 8 {
					assert.NoError(t, s.Close())
					return
				}
				g := s.(TryGetter)
				for j := 0; j < 50; j++ {
					v, ok, err := g.TryGet(PtrTypeOf[TService]())
					if err != nil {
						assert.ErrorIs(t, err, ErrScopeDisposed)
						assert.False(t, ok)
						return
					}
					assert.Same(t, single, v)

					if v, ok, err = g.TryGet(PtrTypeOf[TScoped]()); err == nil {
						assert.True(t, ok)
						assert.Same(t, scoped, v)
					}

					if _, ok, err = g.TryGet(PtrTypeOf[tryUnregistered]()); err == nil {
						assert.False(t, ok)
					}

					if d, ok, err := TryResolve[*TDisposable](s); err == nil {
						assert.True(t, ok)
						mu.Lock()
						created = append(created, d)
						mu.Unlock()
					} else {
						assert.ErrorIs(t, err, ErrScopeDisposed)
					}
				}
			}(i)
		}
		wg.Wait()

		// Everything that was handed out has been closed by the scope
		for _, d := range created {
			assert.True(t, d.IsClosed())
		}
	})
}
