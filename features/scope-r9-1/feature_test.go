package godi

import (
	"context"
	"sync"
	"testing"
	"time"

	"github.com/stretchr/testify/assert"
	"github.com/stretchr/testify/require"
)

func hierarchyOf(t *testing.T, s Scope) ScopeHierarchy {
	t.Helper()
	h, ok := s.(ScopeHierarchy)
	require.True(t, ok, "scopes created by the container implement ScopeHierarchy")
	return h
}

func TestScopeHierarchy_Accessors(t *testing.T) {
	t.Parallel()

	p := BuildProvider(t, AddScoped(NewTScoped))

	top, err := p.CreateScope(context.Background())
	require.NoError(t, err)
	child, err := top.CreateScope(context.Background())
	require.NoError(t, err)
	grandchild, err := child.CreateScope(nil)
	require.NoError(t, err)
	other, err := p.CreateScope(context.Background())
	require.NoError(t, err)

	// Parent: a true nil for top-level scopes, the creating scope otherwise
	assert.Nil(t, hierarchyOf(t, top).Parent())
	assert.True(t, hierarchyOf(t, top).Parent() == nil)
	assert.Same(t, top, hierarchyOf(t, child).Parent())
	assert.Same(t, child, hierarchyOf(t, grandchild).Parent())

	// Root
	assert.Same(t, top, hierarchyOf(t, top).Root())
	assert.Same(t, top, hierarchyOf(t, child).Root())
	assert.Same(t, top, hierarchyOf(t, grandchild).Root())
	assert.Same(t, other, hierarchyOf(t, other).Root())

	// Depth
	assert.Equal(t, 0, hierarchyOf(t, top).Depth())
	assert.Equal(t, 1, hierarchyOf(t, child).Depth())
	assert.Equal(t, 2, hierarchyOf(t, grandchild).Depth())

	// The scope injected as a built-in is the one the accessors talk about
	injected, err := grandchild.Get(TypeOf[Scope]())
	require.NoError(t, err)
	assert.Same(t, child, hierarchyOf(t, injected.(Scope)).Parent())

	// The provider's own root scope has no parent and is its own root
	rootScope, err := p.Get(TypeOf[Scope]())
	require.NoError(t, err)
	assert.Nil(t, hierarchyOf(t, rootScope.(Scope)).Parent())
	assert.Same(t, rootScope, hierarchyOf(t, rootScope.(Scope)).Root())

	// The accessors keep answering after Close (they are not resolutions)
	require.NoError(t, top.Close())
	assert.Same(t, top, hierarchyOf(t, child).Parent())
	assert.Same(t, top, hierarchyOf(t, grandchild).Root())
	assert.Equal(t, 2, hierarchyOf(t, grandchild).Depth())

	// ... and a scope is isolated from its relatives as before
	a, err := other.Get(PtrTypeOf[TScoped]())
	require.NoError(t, err)
	b, err := other.Get(PtrTypeOf[TScoped]())
	require.NoError(t, err)
	assert.Same(t, a, b)
}

func TestScopeHierarchy_Descendants(t *testing.T) {
	t.Parallel()

	p := BuildProvider(t)

	top, err := p.CreateScope(context.Background())
	require.NoError(t, err)

	n, err := hierarchyOf(t, top).Descendants()
	require.NoError(t, err)
	assert.Equal(t, 0, n)

	c1, _ := top.CreateScope(context.Background())
	c2, _ := top.CreateScope(context.Background())
	g1, _ := c1.CreateScope(context.Background())
	g2, _ := c1.CreateScope(context.Background())
	gg, _ := g1.CreateScope(context.Background())

	count := func(s Scope) int {
		n, err := hierarchyOf(t, s).Descendants()
		require.NoError(t, err)
		return n
	}

	assert.Equal(t, 5, count(top))
	assert.Equal(t, 3, count(c1))
	assert.Equal(t, 0, count(c2))
	assert.Equal(t, 1, count(g1))
	assert.Equal(t, 0, count(gg))

	// A sibling tree is not counted
	sibling, _ := p.CreateScope(context.Background())
	_, _ = sibling.CreateScope(context.Background())
	assert.Equal(t, 5, count(top))
	assert.Equal(t, 1, count(sibling))

	// Closing a subtree removes all of it from the count
	require.NoError(t, g1.Close())
	assert.Equal(t, 3, count(top))
	assert.Equal(t, 1, count(c1))

	require.NoError(t, g2.Close())
	require.NoError(t, c2.Close())
	assert.Equal(t, 1, count(top))

	// A closed scope reports the disposed error
	_, err = hierarchyOf(t, g1).Descendants()
	assert.ErrorIs(t, err, ErrScopeDisposed)
	_, err = hierarchyOf(t, gg).Descendants()
	assert.ErrorIs(t, err, ErrScopeDisposed)

	require.NoError(t, top.Close())
	_, err = hierarchyOf(t, top).Descendants()
	assert.ErrorIs(t, err, ErrScopeDisposed)
	_, err = hierarchyOf(t, c1).Descendants()
	assert.ErrorIs(t, err, ErrScopeDisposed)

	// Closing the provider closes every scope
	require.NoError(t, p.Close())
	_, err = hierarchyOf(t, sibling).Descendants()
	assert.ErrorIs(t, err, ErrScopeDisposed)
}

func TestScopeHierarchy_DescendantsCancelledChild(t *testing.T) {
	t.Parallel()

	p := BuildProvider(t)
	top, err := p.CreateScope(context.Background())
	require.NoError(t, err)
	defer top.Close()

	ctx, cancel := context.WithCancel(context.Background())
	_, err = top.CreateScope(ctx)
	require.NoError(t, err)

	n, err := hierarchyOf(t, top).Descendants()
	require.NoError(t, err)
	assert.Equal(t, 1, n)

	cancel()
	assert.Eventually(t, func() bool {
		n, err := hierarchyOf(t, top).Descendants()
		return err == nil && n == 0
	}, 2*time.Second, 5*time.Millisecond)
}

func TestScopeHierarchy_ConcurrentUse(t *testing.T) {
	t.Parallel()

	p := BuildProvider(t, AddScoped(NewTDisposable))
	top, err := p.CreateScope(context.Background())
	require.NoError(t, err)

	var wg sync.WaitGroup
	for i := 0; i < 8; i++ {
		wg.Add(2)
		go func() {
			defer wg.Done()
			for j := 0; j < 50; j++ {
				child, err := top.CreateScope(context.Background())
				if err != nil {
					assert.ErrorIs(t, err, ErrScopeDisposed)
					return
				}
				grandchild, err := child.CreateScope(context.Background())
				if err == nil {
					_, _ = grandchild.Get(PtrTypeOf[TDisposable]())
					assert.Same(t, top, hierarchyOf(t, grandchild).Root())
				}
				_ = child.Close()
			}
		}()
		go func() {
			defer wg.Done()
			for j := 0; j < 50; j++ {
				n, err := hierarchyOf(t, top).Descendants()
				if err != nil {
					assert.ErrorIs(t, err, ErrScopeDisposed)
					return
				}
				assert.GreaterOrEqual(t, n, 0)
				assert.LessOrEqual(t, n, 16)
			}
		}()
	}

	wg.Wait()

	n, err := hierarchyOf(t, top).Descendants()
	require.NoError(t, err)
	assert.Equal(t, 0, n)

	// Counting while the scope itself is being closed
	for i := 0; i < 4; i++ {
		_, _ = top.CreateScope(context.Background())
	}
	wg.Add(1)
	go func() {
		defer wg.Done()
		for {
			if _, err := hierarchyOf(t, top).Descendants(); err != nil {
				assert.ErrorIs(t, err, ErrScopeDisposed)
				return
			}
		}
	}()
	require.NoError(t, top.Close())
	wg.Wait()
}
