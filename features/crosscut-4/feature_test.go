package godi

import (
	"context"
	"errors"
	"sync"
	"sync/atomic"
	"testing"

	"github.com/stretchr/testify/assert"
	"github.com/stretchr/testify/require"
)

// forkMailer is a service that tests replace in a fork.
type forkMailer interface{ Kind() string }

type forkRealMailer struct{ TDisposable }

func (*forkRealMailer) Kind() string { return "real" }

type forkFakeMailer struct{ TDisposable }

func (*forkFakeMailer) Kind() string { return "fake" }

type forkApp struct {
	Mailer forkMailer
	Deps   []*TDependency
}

func newForkApp(in struct {
	In
	Mailer forkMailer
	Deps   []*TDependency `group:"deps"`
}) *forkApp {
	return &forkApp{Mailer: in.Mailer, Deps: in.Deps}
}

func forkTestCollection(t *testing.T, mailers *atomic.Int32) Collection {
	t.Helper()
	return BuildCollection(t, NewModule("app",
		AddSingleton(func() forkMailer { mailers.Add(1); return &forkRealMailer{} }),
		AddSingleton(newForkApp),
		AddSingleton(NewTDependencyWithName("first"), Group("deps")),
		AddSingleton(NewTDependencyWithName("second"), Group("deps")),
		AddSingleton(NewTServiceWithID("keyed"), Name("keyed")),
		AddScoped(NewTScoped),
		AddTransient(NewTTransient),
	))
}

func TestFork_IsAnIndependentProvider(t *testing.T) {
	t.Parallel()
	var mailers atomic.Int32
	c := forkTestCollection(t, &mailers)
	p, err := c.Build()
	require.NoError(t, err)
	defer p.Close()

	// The collection moving on after Build does not leak into the fork
	c.Remove(PtrTypeOf[TScoped]())
	require.NoError(t, c.AddSingleton(NewTDisposable))

	s, err := p.CreateScope(context.Background())
	require.NoError(t, err)
	fork, err := Fork(s)
	require.NoError(t, err)
	defer fork.Close()

	assert.NotEqual(t, p.ID(), fork.ID())
	assert.EqualValues(t, 2, mailers.Load(), "the fork constructs its own singletons, once")
	_, err = Resolve[*TDisposable](fork)
	assert.ErrorIs(t, err, ErrServiceNotFound)

	// Same wiring, different instances
	app, forkedApp := RequireResolve[*forkApp](t, p), RequireResolve[*forkApp](t, fork)
	assert.NotSame(t, app, forkedApp)
	assert.NotSame(t, app.Mailer, forkedApp.Mailer)
	assert.Same(t, forkedApp.Mailer, RequireResolve[forkMailer](t, fork))
	require.Len(t, forkedApp.Deps, 2)
	assert.Equal(t, "first", forkedApp.Deps[0].Name)
	assert.Equal(t, "second", forkedApp.Deps[1].Name)
	assert.NotSame(t, app.Deps[0], forkedApp.Deps[0])
	assert.Equal(t, "keyed", RequireResolveKeyed[*TService](t, fork, "keyed").ID)
	assert.NotSame(t, RequireResolveKeyed[*TService](t, p, "keyed"), RequireResolveKeyed[*TService](t, fork, "keyed"))

	// Scopes of the fork follow the lifetime rules and belong to the fork
	fs, err := fork.CreateScope(context.Background())
	require.NoError(t, err)
	assert.Same(t, fork, fs.Provider())
	assert.Same(t, RequireResolveFrom[*TScoped](t, fs), RequireResolveFrom[*TScoped](t, fs))
	assert.NotSame(t, RequireResolveFrom[*TScoped](t, fs), RequireResolveFrom[*TScoped](t, s))
	assert.NotSame(t, RequireResolveFrom[*TTransient](t, fs), RequireResolveFrom[*TTransient](t, fs))
	assert.Same(t, forkedApp, RequireResolveFrom[*forkApp](t, fs))

	// Closing one side leaves the other untouched
	realMailer := app.Mailer.(*forkRealMailer)
	forkedMailer := forkedApp.Mailer.(*forkRealMailer)
	require.NoError(t, p.Close())
	assert.True(t, realMailer.IsClosed())
	assert.False(t, forkedMailer.IsClosed())
	assert.Same(t, forkedApp, RequireResolveFrom[*forkApp](t, fs))

	refork, err := Fork(fork)
	require.NoError(t, err)
	require.NoError(t, fork.Close())
	assert.True(t, forkedMailer.IsClosed())
	_, err = fs.Get(PtrTypeOf[TScoped]())
	assert.ErrorIs(t, err, ErrScopeDisposed)
	assert.Equal(t, "real", RequireResolve[*forkApp](t, refork).Mailer.Kind())
	require.NoError(t, refork.Close())
	assert.EqualValues(t, 3, mailers.Load())
}

func TestFork_AppliesModulesLikeTheCollectionWould(t *testing.T) {
	t.Parallel()
	var mailers atomic.Int32
	c := forkTestCollection(t, &mailers)
	p, err := c.Build()
	require.NoError(t, err)
	defer p.Close()

	fork, err := Fork(p, NewModule("test",
		Remove[forkMailer](),
		nil,
		AddSingleton(func() forkMailer { return &forkFakeMailer{} }),
		AddSingleton(NewTDependencyWithName("third"), Group("deps")),
	))
	require.NoError(t, err)
	defer fork.Close()

	forkedApp := RequireResolve[*forkApp](t, fork)
	assert.Equal(t, "fake", forkedApp.Mailer.Kind())
	require.Len(t, forkedApp.Deps, 3)
	assert.Equal(t, "third", forkedApp.Deps[2].Name)
	assert.EqualValues(t, 1, mailers.Load(), "the removed registration's constructor does not run in the fork")

	// Neither the original provider nor its collection changed
	app := RequireResolve[*forkApp](t, p)
	assert.Equal(t, "real", app.Mailer.Kind())
	assert.Len(t, app.Deps, 2)
	assert.Equal(t, 7, c.Count())
	again, err := c.Build()
	require.NoError(t, err)
	defer again.Close()
	assert.Len(t, RequireResolve[*forkApp](t, again).Deps, 2)
}

func TestFork_Failures(t *testing.T) {
	t.Parallel()
	var mailers atomic.Int32
	p, err := forkTestCollection(t, &mailers).Build()
	require.NoError(t, err)
	defer p.Close()

	// A failing module: wrapped once per named module, cause reachable
	_, err = Fork(p, NewModule("outer", NewModule("inner", AddSingleton(NewTServiceWithID("again"), Name("keyed")))))
	var moduleErr ModuleError
	require.ErrorAs(t, err, &moduleErr)
	assert.Equal(t, "outer", moduleErr.Module)
	var already *AlreadyRegisteredError
	assert.ErrorAs(t, err, &already)

	// Registrations that do not form a valid container
	_, err = Fork(p, AddSingleton(NewTCircularA), AddSingleton(NewTCircularB))
	var circular *CircularDependencyError
	assert.ErrorAs(t, err, &circular)

	_, err = Fork(p, AddSingleton(func(*TScoped) *TServiceWithDeps { return nil }))
	var conflict *LifetimeConflictError
	assert.ErrorAs(t, err, &conflict)

	_, err = Fork(p, Remove[forkMailer]())
	assert.ErrorIs(t, err, ErrServiceNotFound)

	// A singleton that fails in the fork: what the fork built so far is closed,
	// the original keeps running
	boom := errors.New("boom")
	closer := &TDisposable{}
	_, err = Fork(p,
		Remove[forkMailer](),
		AddSingleton(func(*TDisposable) (forkMailer, error) { return nil, boom }),
		AddSingleton(func() *TDisposable { return closer }),
	)
	assert.ErrorIs(t, err, boom)
	assert.True(t, closer.IsClosed())
	assert.Equal(t, "real", RequireResolve[*forkApp](t, p).Mailer.Kind())
	assert.False(t, RequireResolve[forkMailer](t, p).(*forkRealMailer).IsClosed())

	// Closed and foreign providers
	s, err := p.CreateScope(context.Background())
	require.NoError(t, err)
	require.NoError(t, s.Close())
	_, err = Fork(s)
	assert.ErrorIs(t, err, ErrScopeDisposed)
	require.NoError(t, p.Close())
	_, err = Fork(p)
	assert.ErrorIs(t, err, ErrProviderDisposed)
	_, err = Fork(nil)
	assert.ErrorIs(t, err, ErrProviderNil)
}

func TestFork_ConcurrentWithUse(t *testing.T) {
	t.Parallel()
	var mailers atomic.Int32
	p, err := forkTestCollection(t, &mailers).Build()
	require.NoError(t, err)
	defer p.Close()

	var wg sync.WaitGroup
	for i := 0; i < 6; i++ {
		wg.Add(2)
		go func() {
			defer wg.Done()
			for j := 0; j < 20; j++ {
				s, err := p.CreateScope(context.Background())
				if !assert.NoError(t, err) {
					return
				}
				_, err = Resolve[*TScoped](s)
				assert.NoError(t, err)
				_, err = ResolveGroup[*TDependency](s, "deps")
				assert.NoError(t, err)
				assert.NoError(t, s.Close())
			}
		}()
		go func() {
			defer wg.Done()
			fork, err := Fork(p, AddSingleton(NewTDependencyWithName("extra"), Group("deps")))
			if !assert.NoError(t, err) {
				return
			}
			deps, err := ResolveGroup[*TDependency](fork, "deps")
			assert.NoError(t, err)
			assert.Len(t, deps, 3)
			assert.NoError(t, fork.Close())
		}()
	}
	wg.Wait()

	assert.EqualValues(t, 7, mailers.Load())
	assert.Len(t, RequireResolve[*forkApp](t, p).Deps, 2)
}
