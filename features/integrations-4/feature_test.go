package echo

import (
	"errors"
	"net/http"
	"net/http/httptest"
	"sync"
	"sync/atomic"
	"testing"

	"github.com/junioryono/godi/v4"
	"github.com/labstack/echo/v4"
	"github.com/stretchr/testify/assert"
	"github.com/stretchr/testify/require"
)

// greeter is the controller interface mounted under several keys.
type greeter interface {
	Greet(echo.Context) error
	Boom(echo.Context) error
}

type keyedGreeter struct {
	version string
	closes  atomic.Int32
}

func (g *keyedGreeter) Greet(c echo.Context) error { return c.String(http.StatusOK, g.version) }
func (g *keyedGreeter) Boom(echo.Context) error    { panic("boom " + g.version) }
func (g *keyedGreeter) Close() error               { g.closes.Add(1); return nil }

type keyedCounters struct{ v1, v2, plain atomic.Int32 }

func buildKeyedProvider(t *testing.T, n *keyedCounters, all *sync.Map) godi.Provider {
	t.Helper()

	newGreeter := func(version string, count *atomic.Int32) func() *keyedGreeter {
		return func() *keyedGreeter {
			count.Add(1)
			g := &keyedGreeter{version: version}
			if all != nil {
				all.Store(g, struct{}{})
			}
			return g
		}
	}

	collection := godi.NewCollection()
	require.NoError(t, collection.AddScoped(newGreeter("v1", &n.v1), godi.Name("v1"), godi.As[greeter]()))
	require.NoError(t, collection.AddScoped(newGreeter("v2", &n.v2), godi.Name("v2"), godi.As[greeter]()))
	require.NoError(t, collection.AddScoped(newGreeter("plain", &n.plain), godi.As[greeter]()))

	provider, err := collection.Build()
	require.NoError(t, err)
	t.Cleanup(func() { provider.Close() })
	return provider
}

func serve(e *echo.Echo, path string) *httptest.ResponseRecorder {
	rec := httptest.NewRecorder()
	e.ServeHTTP(rec, httptest.NewRequest(http.MethodGet, path, nil))
	return rec
}

func TestHandleKeyed(t *testing.T) {
	t.Run("routes resolve exactly the registration under their key", func(t *testing.T) {
		var n keyedCounters
		provider := buildKeyedProvider(t, &n, nil)

		e := echo.New()
		e.Use(ScopeMiddleware(provider))
		e.GET("/v1", HandleKeyed("v1", greeter.Greet))
		e.GET("/v2", HandleKeyed("v2", greeter.Greet))
		e.GET("/plain", Handle(greeter.Greet))

		assert.Equal(t, "v1", serve(e, "/v1").Body.String())
		assert.Equal(t, [3]int32{1, 0, 0}, [3]int32{n.v1.Load(), n.v2.Load(), n.plain.Load()},
			"only the requested key is constructed")

		assert.Equal(t, "v2", serve(e, "/v2").Body.String())
		assert.Equal(t, "plain", serve(e, "/plain").Body.String())
		assert.Equal(t, [3]int32{1, 1, 1}, [3]int32{n.v1.Load(), n.v2.Load(), n.plain.Load()})
	})

	t.Run("controller is the request scope's instance and is closed once", func(t *testing.T) {
		var n keyedCounters
		provider := buildKeyedProvider(t, &n, nil)

		var fromMiddleware, fromHandler greeter

		e := echo.New()
		e.Use(ScopeMiddleware(provider, WithMiddleware(func(scope godi.Scope, c echo.Context) error {
			g, err := godi.ResolveKeyed[greeter](scope, "v1")
			fromMiddleware = g
			return err
		})))
		e.GET("/v1", HandleKeyed("v1", func(g greeter, c echo.Context) error {
			fromHandler = g
			assert.Equal(t, int32(0), g.(*keyedGreeter).closes.Load(), "still open inside the handler")
			return g.Greet(c)
		}))

		rec := serve(e, "/v1")
		assert.Equal(t, "v1", rec.Body.String())
		assert.Same(t, fromMiddleware, fromHandler)
		assert.Equal(t, int32(1), n.v1.Load(), "one scoped instance per request")
		assert.Equal(t, int32(1), fromHandler.(*keyedGreeter).closes.Load())

		first := fromHandler
		serve(e, "/v1")
		assert.NotSame(t, first, fromHandler, "next request gets a new scope and instance")
		assert.Equal(t, int32(1), first.(*keyedGreeter).closes.Load())
	})

	t.Run("unknown and nil keys go to the resolution error handler", func(t *testing.T) {
		var n keyedCounters
		provider := buildKeyedProvider(t, &n, nil)

		var resolutionErrs []error
		onResolve := WithResolutionErrorHandler(func(c echo.Context, err error) error {
			resolutionErrs = append(resolutionErrs, err)
			return c.NoContent(http.StatusNotImplemented)
		})
		called := false
		method := func(g greeter, c echo.Context) error { called = true; return nil }

		e := echo.New()
		e.Use(ScopeMiddleware(provider))
		e.GET("/v3", HandleKeyed("v3", method, onResolve))
		e.GET("/nil", HandleKeyed(nil, method, onResolve))
		e.GET("/wrongtype", HandleKeyed("v1", func(*testService, echo.Context) error { called = true; return nil }, onResolve))

		assert.Equal(t, http.StatusNotImplemented, serve(e, "/v3").Code)
		assert.Equal(t, http.StatusNotImplemented, serve(e, "/nil").Code)
		assert.Equal(t, http.StatusNotImplemented, serve(e, "/wrongtype").Code)

		require.Len(t, resolutionErrs, 3)
		assert.ErrorIs(t, resolutionErrs[0], godi.ErrServiceNotFound)
		assert.ErrorIs(t, resolutionErrs[1], godi.ErrServiceKeyNil)
		assert.ErrorIs(t, resolutionErrs[2], godi.ErrServiceNotFound, "a key names a (type, key) pair, not a key alone")
		assert.False(t, called, "method only runs after a successful resolution")
		assert.Equal(t, int32(0), n.v1.Load()+n.v2.Load()+n.plain.Load(), "failed lookups construct nothing")

		// Default handler: 500 through echo's error handling.
		e.GET("/default", HandleKeyed("v3", method))
		assert.Equal(t, http.StatusInternalServerError, serve(e, "/default").Code)
	})

	t.Run("no scope in context goes to the scope error handler", func(t *testing.T) {
		var scopeErr error
		called := false

		e := echo.New() // no ScopeMiddleware
		e.GET("/v1", HandleKeyed("v1",
			func(g greeter, c echo.Context) error { called = true; return nil },
			WithScopeErrorHandler(func(c echo.Context, err error) error {
				scopeErr = err
				return c.NoContent(http.StatusServiceUnavailable)
			}),
			WithResolutionErrorHandler(func(echo.Context, error) error {
				t.Error("exactly one of the handlers runs")
				return nil
			}),
		))

		assert.Equal(t, http.StatusServiceUnavailable, serve(e, "/v1").Code)
		assert.Error(t, scopeErr)
		assert.False(t, called)
	})

	t.Run("panics are swallowed only with recovery enabled and the scope is closed either way", func(t *testing.T) {
		var n keyedCounters
		var all sync.Map
		provider := buildKeyedProvider(t, &n, &all)

		var recovered any
		e := echo.New()
		e.Use(ScopeMiddleware(provider))
		e.GET("/raw", HandleKeyed("v2", greeter.Boom))
		e.GET("/safe", HandleKeyed("v2", greeter.Boom,
			WithPanicRecovery(true),
			WithPanicHandler(func(c echo.Context, v any) error {
				recovered = v
				return c.NoContent(http.StatusTeapot)
			}),
		))

		assert.PanicsWithValue(t, "boom v2", func() { serve(e, "/raw") })
		assert.Equal(t, http.StatusTeapot, serve(e, "/safe").Code)
		assert.Equal(t, "boom v2", recovered)

		count := 0
		all.Range(func(k, _ any) bool {
			count++
			assert.Equal(t, int32(1), k.(*keyedGreeter).closes.Load())
			return true
		})
		assert.Equal(t, 2, count)
	})

	t.Run("handler errors are returned unchanged", func(t *testing.T) {
		var n keyedCounters
		provider := buildKeyedProvider(t, &n, nil)
		want := errors.New("teapot")

		e := echo.New()
		var got error
		e.HTTPErrorHandler = func(err error, c echo.Context) { got = err; c.NoContent(http.StatusTeapot) }
		e.Use(ScopeMiddleware(provider))
		e.GET("/v1", HandleKeyed("v1", func(greeter, echo.Context) error { return want }))

		assert.Equal(t, http.StatusTeapot, serve(e, "/v1").Code)
		assert.Same(t, want, got)
	})

	t.Run("concurrent requests on different keys never share instances", func(t *testing.T) {
		var n keyedCounters
		var all sync.Map
		provider := buildKeyedProvider(t, &n, &all)

		e := echo.New()
		e.Use(ScopeMiddleware(provider))
		e.GET("/v1", HandleKeyed("v1", greeter.Greet))
		e.GET("/v2", HandleKeyed("v2", greeter.Greet))

		const workers, perWorker = 8, 40
		var wg sync.WaitGroup
		for w := 0; w < workers; w++ {
			version := []string{"v1", "v2"}[w%2]
			wg.Add(1)
			go func() {
				defer wg.Done()
				for i := 0; i < perWorker; i++ {
					assert.Equal(t, version, serve(e, "/"+version).Body.String())
				}
			}()
		}
		wg.Wait()

		assert.Equal(t, int32(workers/2*perWorker), n.v1.Load())
		assert.Equal(t, int32(workers/2*perWorker), n.v2.Load())
		assert.Equal(t, int32(0), n.plain.Load())
		all.Range(func(k, _ any) bool {
			assert.Equal(t, int32(1), k.(*keyedGreeter).closes.Load())
			return true
		})
	})
}
