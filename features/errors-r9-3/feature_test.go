package godi_test

import (
	"context"
	"errors"
	"fmt"
	"io"
	"reflect"
	"sync"
	"sync/atomic"
	"testing"

	"github.com/stretchr/testify/assert"
	"github.com/stretchr/testify/require"

	"github.com/junioryono/godi/v4"
)

// The test lives outside package godi so that its error types are, like an
// application's, not defined by the library.

type (
	f3Config   struct{}
	f3Database struct{ closes atomic.Int32 }
	f3Repo     struct{ DB *f3Database }
	f3Service  struct{ Repo *f3Repo }
	f3Plugin   struct{ Name string }
	f3Host     struct{ Plugins []*f3Plugin }
)

func (d *f3Database) Close() error {
	d.closes.Add(1)
	return nil
}

type f3RepoParams struct {
	godi.In

	Config *f3Config
	DB     *f3Database
}

type f3HostParams struct {
	godi.In

	Plugins []*f3Plugin `group:"plugins"`
}

// f3AppError is an application error type.
type f3AppError struct {
	Op    string
	Cause error
}

func (e *f3AppError) Error() string { return e.Op + ": " + e.Cause.Error() }
func (e *f3AppError) Unwrap() error { return e.Cause }

func TestRootCause(t *testing.T) {
	t.Parallel()

	t.Run("nil_and_foreign_errors", func(t *testing.T) {
		t.Parallel()

		assert.NoError(t, godi.RootCause(nil))

		foreign := fmt.Errorf("read config: %w", io.ErrUnexpectedEOF)
		assert.Same(t, foreign, godi.RootCause(foreign))
		assert.Equal(t, io.EOF, godi.RootCause(io.EOF))
	})

	t.Run("singleton_constructor_error_through_nested_dependencies", func(t *testing.T) {
		t.Parallel()

		appErr := &f3AppError{Op: "dial db", Cause: io.ErrUnexpectedEOF}

		c := godi.NewCollection()
		require.NoError(t, c.AddSingleton(func() *f3Config { return &f3Config{} }))
		require.NoError(t, c.AddSingleton(func(*f3Config) (*f3Database, error) { return nil, appErr }))
		require.NoError(t, c.AddSingleton(func(p f3RepoParams) *f3Repo { return &f3Repo{DB: p.DB} }))
		require.NoError(t, c.AddSingleton(func(r *f3Repo) *f3Service { return &f3Service{Repo: r} }))

		_, err := c.Build()
		require.Error(t, err)

		// The chain and its message are what they were
		var buildErr *godi.BuildError
		require.ErrorAs(t, err, &buildErr)
		var invocation *godi.ConstructorInvocationError
		require.ErrorAs(t, err, &invocation)
		assert.Contains(t, err.Error(), "constructor error: dial db: unexpected EOF")

		// The root cause is the constructor's error itself, not what it wraps
		root := godi.RootCause(err)
		assert.Same(t, appErr, root)
		assert.ErrorIs(t, root, io.ErrUnexpectedEOF)

		// Wrapping the build error in application code changes nothing
		assert.Same(t, appErr, godi.RootCause(fmt.Errorf("startup: %w", err)))
	})

	t.Run("scoped_failure_is_not_cached_and_retry_succeeds", func(t *testing.T) {
		t.Parallel()

		errDown := errors.New("database down")
		var fail atomic.Bool
		fail.Store(true)
		var dbCalls atomic.Int32

		c := godi.NewCollection()
		require.NoError(t, c.AddSingleton(func() *f3Config { return &f3Config{} }))
		require.NoError(t, c.AddScoped(func() (*f3Database, error) {
			dbCalls.Add(1)
			if fail.Load() {
				return nil, fmt.Errorf("connect: %w", errDown)
			}
			return &f3Database{}, nil
		}))
		require.NoError(t, c.AddScoped(func(p f3RepoParams) *f3Repo { return &f3Repo{DB: p.DB} }))
		require.NoError(t, c.AddScoped(func(r *f3Repo) *f3Service { return &f3Service{Repo: r} }))

		p, err := c.Build()
		require.NoError(t, err)
		t.Cleanup(func() { assert.NoError(t, p.Close()) })

		parent, err := p.CreateScope(context.Background())
		require.NoError(t, err)
		s, err := parent.CreateScope(context.Background())
		require.NoError(t, err)

		// Concurrent failing resolutions all report the same root cause
		var wg sync.WaitGroup
		for i := 0; i < 8; i++ {
			wg.Add(1)
			go func() {
				defer wg.Done()
				_, err := godi.Resolve[*f3Service](s)
				if assert.Error(t, err) {
					root := godi.RootCause(err)
					assert.EqualError(t, root, "connect: database down")
					assert.ErrorIs(t, root, errDown)
					assert.ErrorIs(t, err, errDown)
				}
			}()
		}
		wg.Wait()

		// A retry behaves like a first attempt
		fail.Store(false)
		before := dbCalls.Load()
		service, err := godi.Resolve[*f3Service](s)
		require.NoError(t, err)
		db, err := godi.Resolve[*f3Database](s)
		require.NoError(t, err)
		assert.Same(t, db, service.Repo.DB)
		assert.Equal(t, before+1, dbCalls.Load())

		require.NoError(t, parent.Close())
		assert.Equal(t, int32(1), db.closes.Load())

		// On the closed scope the sentinel is the root cause
		_, err = godi.Resolve[*f3Service](s)
		require.Error(t, err)
		assert.Equal(t, godi.ErrScopeDisposed, godi.RootCause(err))
	})

	t.Run("group_member_failure", func(t *testing.T) {
		t.Parallel()

		errPlugin := errors.New("plugin b is broken")

		c := godi.NewCollection()
		require.NoError(t, c.AddTransient(func() *f3Plugin { return &f3Plugin{Name: "a"} }, godi.Group("plugins")))
		require.NoError(t, c.AddTransient(func() (*f3Plugin, error) { return nil, errPlugin }, godi.Group("plugins")))
		require.NoError(t, c.AddTransient(func(p f3HostParams) *f3Host { return &f3Host{Plugins: p.Plugins} }))

		p, err := c.Build()
		require.NoError(t, err)
		t.Cleanup(func() { assert.NoError(t, p.Close()) })

		_, err = godi.ResolveGroup[*f3Plugin](p, "plugins")
		require.Error(t, err)
		assert.Equal(t, errPlugin, godi.RootCause(err))

		_, err = godi.Resolve[*f3Host](p)
		require.Error(t, err)
		assert.Equal(t, errPlugin, godi.RootCause(err))
	})

	t.Run("library_errors_without_user_code", func(t *testing.T) {
		t.Parallel()

		c := godi.NewCollection()
		require.NoError(t, c.AddSingleton(func() *f3Config { return &f3Config{} }))
		p, err := c.Build()
		require.NoError(t, err)

		// Not found
		_, err = godi.Resolve[*f3Database](p)
		require.Error(t, err)
		assert.Equal(t, godi.ErrServiceNotFound, godi.RootCause(err))
		_, err = godi.ResolveKeyed[*f3Config](p, "primary")
		require.Error(t, err)
		assert.Equal(t, godi.ErrServiceNotFound, godi.RootCause(err))

		// Empty group name
		_, err = p.GetGroup(reflect.TypeOf((*f3Config)(nil)), "")
		require.Error(t, err)
		assert.Equal(t, godi.ErrGroupNameEmpty, godi.RootCause(err))

		// Disposed
		require.NoError(t, p.Close())
		_, err = godi.Resolve[*f3Config](p)
		assert.Equal(t, godi.ErrProviderDisposed, godi.RootCause(err))

		// Missing dependency at build time
		missing := godi.NewCollection()
		require.NoError(t, missing.AddScoped(func(*f3Database) *f3Repo { return &f3Repo{} }))
		_, err = missing.Build()
		require.Error(t, err)
		assert.Equal(t, godi.ErrServiceNotFound, godi.RootCause(err))

		// Circular dependency
		cyclic := godi.NewCollection()
		require.NoError(t, cyclic.AddScoped(func(*f3Service) *f3Repo { return &f3Repo{} }))
		require.NoError(t, cyclic.AddScoped(func(*f3Repo) *f3Service { return &f3Service{} }))
		_, err = cyclic.Build()
		require.Error(t, err)
		var circular *godi.CircularDependencyError
		require.ErrorAs(t, err, &circular)
		assert.Same(t, circular, godi.RootCause(err))

		// Lifetime conflict
		conflict := godi.NewCollection()
		require.NoError(t, conflict.AddScoped(func() *f3Database { return &f3Database{} }))
		require.NoError(t, conflict.AddSingleton(func(db *f3Database) *f3Repo { return &f3Repo{DB: db} }))
		_, err = conflict.Build()
		require.Error(t, err)
		var lifetime *godi.LifetimeConflictError
		require.ErrorAs(t, err, &lifetime)
		assert.Same(t, lifetime, godi.RootCause(err))

		// Cancelled build
		ctx, cancel := context.WithCancel(context.Background())
		cancel()
		_, err = c.BuildWithContext(ctx)
		require.Error(t, err)
		assert.Equal(t, context.Canceled, godi.RootCause(err))
	})

	t.Run("panicking_constructor", func(t *testing.T) {
		t.Parallel()

		c := godi.NewCollection()
		require.NoError(t, c.AddSingleton(func() *f3Config { panic("no config") }))
		require.NoError(t, c.AddSingleton(func(*f3Config) *f3Repo { return &f3Repo{} }))

		_, err := c.Build()
		require.Error(t, err)

		var panicErr *godi.ConstructorPanicError
		require.ErrorAs(t, err, &panicErr)
		assert.Same(t, panicErr, godi.RootCause(err))
		assert.Equal(t, "no config", panicErr.Panic)
	})

	t.Run("modules", func(t *testing.T) {
		t.Parallel()

		appErr := &f3AppError{Op: "load plugins", Cause: io.EOF}
		custom := godi.ModuleOption(func(godi.Collection) error { return appErr })

		c := godi.NewCollection()
		err := c.AddModules(godi.NewModule("outer",
			godi.AddSingleton(func() *f3Config { return &f3Config{} }),
			godi.NewModule("inner", nil, custom, godi.AddSingleton(func() *f3Database { return &f3Database{} })),
		))
		require.Error(t, err)
		assert.Same(t, appErr, godi.RootCause(err))
		assert.EqualError(t, err, `module "outer": module "inner": load plugins: EOF`)

		// Processing stopped at the failing entry; earlier registrations stay
		assert.True(t, c.Contains(reflect.TypeOf((*f3Config)(nil))))
		assert.False(t, c.Contains(reflect.TypeOf((*f3Database)(nil))))

		// Duplicate registrations, plain and keyed
		err = c.AddModules(godi.NewModule("again", godi.AddSingleton(func() *f3Config { return &f3Config{} })))
		require.Error(t, err)
		var duplicate *godi.AlreadyRegisteredError
		require.ErrorAs(t, err, &duplicate)
		assert.Same(t, duplicate, godi.RootCause(err))

		require.NoError(t, c.AddScoped(func() *f3Repo { return &f3Repo{} }, godi.Name("main")))
		err = c.AddModules(godi.NewModule("keyed", godi.AddScoped(func() *f3Repo { return &f3Repo{} }, godi.Name("main"))))
		require.Error(t, err)
		duplicate = nil
		require.ErrorAs(t, err, &duplicate)
		assert.Same(t, duplicate, godi.RootCause(err))
		assert.Equal(t, 2, c.Count())
	})

	t.Run("stops_at_the_boundary_of_user_code", func(t *testing.T) {
		t.Parallel()

		// A constructor that uses a second container and wraps its failure
		inner := godi.NewCollection()
		innerProvider, err := inner.Build()
		require.NoError(t, err)
		t.Cleanup(func() { assert.NoError(t, innerProvider.Close()) })

		var wrapped error
		c := godi.NewCollection()
		require.NoError(t, c.AddSingleton(func() (*f3Repo, error) {
			_, err := godi.Resolve[*f3Database](innerProvider)
			wrapped = &f3AppError{Op: "inner container", Cause: err}
			return nil, wrapped
		}))

		_, err = c.Build()
		require.Error(t, err)
		assert.ErrorIs(t, err, godi.ErrServiceNotFound)

		root := godi.RootCause(err)
		assert.Same(t, wrapped, root)

		// Asked about the constructor's error, the answer is about the inner container
		assert.Equal(t, godi.ErrServiceNotFound, godi.RootCause(root))
	})

	t.Run("disposal_error_is_its_own_root", func(t *testing.T) {
		t.Parallel()

		err := &godi.DisposalError{Context: "scope", Errors: []error{io.EOF, io.ErrClosedPipe}}
		assert.Same(t, err, godi.RootCause(&godi.BuildError{Phase: "cleanup", Cause: err}))
	})
}
