package godi

import (
	"context"
	"errors"
	"sync"
	"sync/atomic"
	"testing"

	"github.com/stretchr/testify/assert"
	"github.com/stretchr/testify/require"
)

type invokeCtxKey struct{}

// invokeParams is a parameter object for an invoked function.
type invokeParams struct {
	In
	Svc      *TService
	Named    *TService     `name:"named"`
	Members  []*TService   `group:"services"`
	Missing  *TDependency  `optional:"true"`
	NoneYet  []*TTransient `group:"nobody"`
	Ignored  *TScoped      `inject:"-"`
	internal *TScoped      //nolint:unused
}

func TestInvoke_ResolvesArgumentsWithLifetimes(t *testing.T) {
	p := BuildProvider(t,
		AddSingleton(NewTService),
		AddScoped(NewTScoped),
		AddTransient(NewTTransient),
	)

	s1, err := p.CreateScope(context.Background())
	require.NoError(t, err)
	t.Cleanup(func() { _ = s1.Close() })
	s2, err := s1.CreateScope(context.Background())
	require.NoError(t, err)

	type seen struct {
		svc *TService
		sc  *TScoped
		tr  *TTransient
	}
	invoke := func(from Provider) seen {
		var got seen
		calls := 0
		require.NoError(t, Invoke(from, func(svc *TService, sc *TScoped, tr *TTransient) {
			calls++
			got = seen{svc, sc, tr}
		}))
		require.Equal(t, 1, calls)
		return got
	}

	a, b, nested, root := invoke(s1), invoke(s1), invoke(s2), invoke(p)

	// One singleton everywhere
	singleton := RequireResolve[*TService](t, p)
	for _, g := range []seen{a, b, nested, root} {
		assert.Same(t, singleton, g.svc)
	}

	// Scoped: the instance of the scope invoked on, never shared between scopes
	assert.Same(t, a.sc, b.sc)
	assert.Same(t, RequireResolveFrom[*TScoped](t, s1), a.sc)
	assert.Same(t, RequireResolveFrom[*TScoped](t, s2), nested.sc)
	assert.Same(t, RequireResolve[*TScoped](t, p), root.sc)
	assert.NotSame(t, a.sc, nested.sc)
	assert.NotSame(t, a.sc, root.sc)
	assert.NotSame(t, nested.sc, root.sc)

	// Transient: fresh for every call
	assert.NotSame(t, a.tr, b.tr)
	assert.NotSame(t, a.tr, nested.tr)
}

func TestInvoke_ParamObjectAndBuiltins(t *testing.T) {
	p := BuildProvider(t,
		AddSingleton(NewTServiceWithID("plain")),
		AddSingleton(NewTServiceWithID("named"), Name("named")),
		AddSingleton(NewTServiceWithID("g1"), Group("services")),
		AddScoped(NewTServiceWithID("g2"), Group("services")),
		AddScoped(NewTScoped),
	)

	ctx := context.WithValue(context.Background(), invokeCtxKey{}, "v")
	s, err := p.CreateScope(ctx)
	require.NoError(t, err)
	t.Cleanup(func() { _ = s.Close() })

	called := false
	require.NoError(t, Invoke(s, func(in invokeParams) error {
		called = true
		assert.Equal(t, "plain", in.Svc.ID)
		assert.Equal(t, "named", in.Named.ID)
		require.Len(t, in.Members, 2)
		assert.Equal(t, "g1", in.Members[0].ID)
		assert.Equal(t, "g2", in.Members[1].ID)
		assert.Nil(t, in.Missing)
		assert.NotNil(t, in.NoneYet)
		assert.Empty(t, in.NoneYet)
		assert.Nil(t, in.Ignored)
		assert.Nil(t, in.internal)
		return nil
	}))
	assert.True(t, called)

	require.NoError(t, Invoke(s, func(c context.Context, sc Scope, pr Provider) {
		assert.Same(t, s, sc)
		assert.Same(t, p, pr)
		assert.Equal(t, s.Context(), c)
		assert.Equal(t, "v", c.Value(invokeCtxKey{}))
		fromCtx, err := FromContext(c)
		assert.NoError(t, err)
		assert.Same(t, s, fromCtx)
	}))

	// On the provider the built-ins are those of the root scope
	require.NoError(t, Invoke(p, func(sc Scope, pr Provider) {
		assert.Same(t, p, pr)
		assert.Same(t, p, sc.Provider())
		assert.NotSame(t, s, sc)
	}))
}

func TestInvoke_Errors(t *testing.T) {
	var ctorCalls, fnCalls atomic.Int32
	failing := true

	p := BuildProvider(t,
		AddSingleton(NewTService),
		AddScoped(func() (*TScoped, error) {
			ctorCalls.Add(1)
			if failing {
				return nil, errors.New("not yet")
			}
			return NewTScoped(), nil
		}),
		AddTransient(func() *TTransient { panic("ctor boom") }),
	)
	s, err := p.CreateScope(context.Background())
	require.NoError(t, err)
	t.Cleanup(func() { _ = s.Close() })

	// The function's own error
	sentinel := errors.New("sentinel")
	err = Invoke(s, func(*TService) error { fnCalls.Add(1); return sentinel })
	require.ErrorIs(t, err, sentinel)
	var invocationErr *ConstructorInvocationError
	require.ErrorAs(t, err, &invocationErr)
	assert.Equal(t, int32(1), fnCalls.Load())

	// A panic in the function
	err = Invoke(s, func(*TService) { panic("fn boom") })
	var panicErr *ConstructorPanicError
	require.ErrorAs(t, err, &panicErr)
	assert.Equal(t, "fn boom", panicErr.Panic)

	// A panic in a dependency's constructor
	err = Invoke(s, func(*TTransient) { fnCalls.Add(1) })
	panicErr = nil
	require.ErrorAs(t, err, &panicErr)
	assert.Equal(t, "ctor boom", panicErr.Panic)

	// A dependency that is not registered
	err = Invoke(s, func(*TDependency) { fnCalls.Add(1) })
	require.ErrorIs(t, err, ErrServiceNotFound)

	// A dependency whose constructor fails: nothing cached, the retry succeeds
	err = Invoke(s, func(*TScoped) { fnCalls.Add(1) })
	require.Error(t, err)
	assert.ErrorContains(t, err, "not yet")
	failing = false
	var first *TScoped
	require.NoError(t, Invoke(s, func(sc *TScoped) { fnCalls.Add(1); first = sc }))
	assert.Equal(t, int32(2), ctorCalls.Load())
	assert.Same(t, first, RequireResolveFrom[*TScoped](t, s))

	assert.Equal(t, int32(2), fnCalls.Load(), "the function runs only when every argument was resolved")
}

func TestInvoke_Validation(t *testing.T) {
	p := BuildProvider(t, AddSingleton(NewTService))

	var nilFunc func()
	for name, fn := range map[string]any{
		"nil":        nil,
		"not a func": 42,
		"nil func":   nilFunc,
		"variadic":   func(...*TService) {},
		"value":      func() *TService { return nil },
		"two values": func() (*TService, error) { return nil, nil },
		"non-error":  func() string { return "" },
	} {
		var validationErr *ValidationError
		assert.ErrorAs(t, Invoke(p, fn), &validationErr, name)
	}

	require.ErrorIs(t, Invoke(nil, func() {}), ErrProviderNil)
}

func TestInvoke_ClosedContainer(t *testing.T) {
	c := NewCollection()
	require.NoError(t, c.AddSingleton(NewTService))
	p, err := c.Build()
	require.NoError(t, err)

	s, err := p.CreateScope(context.Background())
	require.NoError(t, err)
	child, err := s.CreateScope(context.Background())
	require.NoError(t, err)

	calls := 0
	require.NoError(t, Invoke(child, func() { calls++ }))
	require.Equal(t, 1, calls)

	require.NoError(t, s.Close())
	for _, closed := range []Scope{s, child} {
		// Also for a function that needs nothing from the scope
		require.ErrorIs(t, Invoke(closed, func() { calls++ }), ErrScopeDisposed)
		require.ErrorIs(t, Invoke(closed, func(*TService) { calls++ }), ErrScopeDisposed)
	}

	require.NoError(t, Invoke(p, func(*TService) { calls++ }))
	require.Equal(t, 2, calls)

	require.NoError(t, p.Close())
	require.ErrorIs(t, Invoke(p, func() { calls++ }), ErrProviderDisposed)
	require.ErrorIs(t, Invoke(p, func(*TService) { calls++ }), ErrProviderDisposed)
	assert.Equal(t, 2, calls)
}

func TestInvoke_TransientsBelongToTheScope(t *testing.T) {
	p := BuildProvider(t, AddTransient(NewTDisposable), AddScoped(NewTDisposableWithName("scoped"), Name("scoped")))
	impl := p.(*provider)

	s, err := p.CreateScope(context.Background())
	require.NoError(t, err)

	cached := impl.analyzer.CacheSize()

	var got []*TDisposable
	for i := 0; i < 3; i++ {
		require.NoError(t, Invoke(s, func(d *TDisposable) { got = append(got, d) }))
	}
	assert.NotSame(t, got[0], got[1])
	assert.NotSame(t, got[1], got[2])

	// The invoked closures are not remembered by the provider's analyzer
	assert.Equal(t, cached, impl.analyzer.CacheSize())

	for _, d := range got {
		assert.False(t, d.IsClosed())
	}
	require.NoError(t, s.Close())
	for _, d := range got {
		assert.True(t, d.IsClosed(), "closed with the scope, exactly once (a second Close fails)")
	}
}

func TestInvoke_Concurrent(t *testing.T) {
	p := BuildProvider(t,
		AddSingleton(NewTService),
		AddScoped(NewTScoped),
		AddTransient(NewTDisposable),
	)
	singleton := RequireResolve[*TService](t, p)

	var wg sync.WaitGroup
	for i := 0; i < 16; i++ {
		wg.Add(1)
		go func() {
			defer wg.Done()

			s, err := p.CreateScope(context.Background())
			if !assert.NoError(t, err) {
				return
			}

			var d *TDisposable
			for j := 0; j < 10; j++ {
				err := Invoke(s, func(svc *TService, sc *TScoped, tr *TDisposable) error {
					assert.Same(t, singleton, svc)
					d = tr
					return nil
				})
				assert.NoError(t, err)
			}

			// An Invoke overlapping Close either runs or reports the disposed error
			done := make(chan error, 1)
			go func() { done <- Invoke(s, func(*TScoped, *TDisposable) {}) }()
			assert.NoError(t, s.Close())
			if err := <-done; err != nil {
				assert.ErrorIs(t, err, ErrScopeDisposed)
			}
			assert.True(t, d.IsClosed())
		}()
	}
	wg.Wait()
}
