package reflection_test

import (
	"sync"
	"testing"

	"github.com/junioryono/godi/v4/internal/reflection"
	"github.com/stretchr/testify/assert"
	"github.com/stretchr/testify/require"
)

type sigDB struct{}
type sigCache struct{}
type sigHandler interface{ Handle() }
type sigOption func(*sigDB)

type sigParams struct {
	reflection.In

	DB       *sigDB
	Replica  *sigDB       `name:"replica"`
	Cache    *sigCache    `optional:"true"`
	Handlers []sigHandler `group:"handlers"`
	Skipped  *sigCache    `inject:"-"`
	hidden   *sigCache    //nolint:unused
}

type sigResults struct {
	reflection.Out

	Primary *sigDB
	Replica *sigDB     `name:"replica"`
	Handler sigHandler `group:"handlers"`
	Skipped *sigCache  `inject:"-"`
}

func TestConstructorInfo_Signature(t *testing.T) {
	analyzer := reflection.New()

	tests := []struct {
		name        string
		constructor any
		want        string
	}{
		{
			name:        "no parameters",
			constructor: func() *sigDB { return nil },
			want:        "func() *reflection_test.sigDB",
		},
		{
			name:        "parameters and error",
			constructor: func(*sigDB, sigHandler) (*sigCache, error) { return nil, nil },
			want:        "func(*reflection_test.sigDB, reflection_test.sigHandler) (*reflection_test.sigCache, error)",
		},
		{
			name:        "multiple returns",
			constructor: func() (*sigDB, *sigCache) { return nil, nil },
			want:        "func() (*reflection_test.sigDB, *reflection_test.sigCache)",
		},
		{
			name:        "void initializer",
			constructor: func(*sigDB) {},
			want:        "func(*reflection_test.sigDB)",
		},
		{
			name:        "variadic",
			constructor: func(db *sigDB, opts ...sigOption) *sigCache { return nil },
			want:        "func(*reflection_test.sigDB, ...reflection_test.sigOption) *reflection_test.sigCache",
		},
		{
			name:        "slice parameter is not variadic",
			constructor: func(opts []sigOption) *sigCache { return nil },
			want:        "func([]reflection_test.sigOption) *reflection_test.sigCache",
		},
		{
			name:        "param object",
			constructor: func(sigParams) *sigCache { return nil },
			want: `func(In{DB *reflection_test.sigDB; Replica *reflection_test.sigDB name:"replica"; ` +
				`Cache *reflection_test.sigCache optional; Handlers []reflection_test.sigHandler group:"handlers"}) ` +
				`*reflection_test.sigCache`,
		},
		{
			name:        "result object with error",
			constructor: func() (sigResults, error) { return sigResults{}, nil },
			want: `func() (Out{Primary *reflection_test.sigDB; Replica *reflection_test.sigDB name:"replica"; ` +
				`Handler reflection_test.sigHandler group:"handlers"}, error)`,
		},
		{
			name:        "result object without error",
			constructor: func(*sigCache) sigResults { return sigResults{} },
			want: `func(*reflection_test.sigCache) Out{Primary *reflection_test.sigDB; ` +
				`Replica *reflection_test.sigDB name:"replica"; Handler reflection_test.sigHandler group:"handlers"}`,
		},
		{
			name:        "instance",
			constructor: &sigDB{},
			want:        "value(*reflection_test.sigDB)",
		},
	}

	for _, tt := range tests {
		t.Run(tt.name, func(t *testing.T) {
			info, err := analyzer.Analyze(tt.constructor)
			require.NoError(t, err)
			assert.Equal(t, tt.want, info.Signature())
		})
	}
}

func TestConstructorInfo_Signature_Nil(t *testing.T) {
	var info *reflection.ConstructorInfo
	assert.Equal(t, "<nil>", info.Signature())
	assert.Equal(t, "<nil>", (&reflection.ConstructorInfo{}).Signature())
}

// Constructors that share a type but not code have the same signature, and the
// rendering does not disturb the analysis (dependencies stay as analyzed).
func TestConstructorInfo_Signature_DependsOnAnalysisOnly(t *testing.T) {
	analyzer := reflection.New()

	first, err := analyzer.Analyze(func(*sigDB) *sigCache { return &sigCache{} })
	require.NoError(t, err)
	second, err := analyzer.Analyze(func(*sigDB) *sigCache { return nil })
	require.NoError(t, err)

	require.NotSame(t, first, second)
	assert.Equal(t, first.Signature(), second.Signature())

	before := len(first.Parameters)
	_ = first.Signature()
	assert.Len(t, first.Parameters, before)

	// A different key is a different signature
	type otherParams struct {
		reflection.In
		DB *sigDB `name:"primary"`
	}
	type replicaParams struct {
		reflection.In
		DB *sigDB `name:"replica"`
	}
	a, err := analyzer.Analyze(func(otherParams) *sigCache { return nil })
	require.NoError(t, err)
	b, err := analyzer.Analyze(func(replicaParams) *sigCache { return nil })
	require.NoError(t, err)
	assert.NotEqual(t, a.Signature(), b.Signature())
}

func TestConstructorInfo_Signature_Concurrent(t *testing.T) {
	analyzer := reflection.New()
	constructor := func(sigParams) (sigResults, error) { return sigResults{}, nil }

	info, err := analyzer.Analyze(constructor)
	require.NoError(t, err)
	want := info.Signature()

	var wg sync.WaitGroup
	for i := 0; i < 16; i++ {
		wg.Add(1)
		go func() {
			defer wg.Done()
			for j := 0; j < 50; j++ {
				got, err := analyzer.Analyze(constructor)
				if err != nil || got.Signature() != want {
					t.Errorf("unexpected signature %v / %v", got, err)
					return
				}
			}
		}()
	}
	wg.Wait()
}
