package reflection_test

import (
	"errors"
	"reflect"
	"sync"
	"testing"

	godi "github.com/junioryono/godi/v4"
	"github.com/junioryono/godi/v4/internal/reflection"
	"github.com/stretchr/testify/assert"
	"github.com/stretchr/testify/require"
)

type warmDep struct{ id int }

type warmSvc struct {
	dep  *warmDep
	more []*warmDep
}

type warmParams struct {
	reflection.In

	Dep  *warmDep
	More []*warmDep `group:"more"`
	Alt  *warmDep   `name:"alt" optional:"true"`
}

func newWarmDep() *warmDep                 { return &warmDep{id: 1} }
func newWarmSvc(p warmParams) *warmSvc     { return &warmSvc{dep: p.Dep, more: p.More} }
func newWarmPair() (*warmDep, error)       { return &warmDep{id: 2}, nil }
func (d *warmDep) Build() *warmSvc         { return &warmSvc{dep: d} }
func (d *warmDep) BuildOther(int) *warmSvc { return &warmSvc{dep: d} }

func TestWarmup_FillsTheCache(t *testing.T) {
	a := reflection.New()
	assert.False(t, a.IsCached(newWarmDep))
	assert.Equal(t, 0, a.CacheSize(), "IsCached must not analyze")

	n, err := a.Warmup(newWarmDep, newWarmSvc, newWarmPair)
	require.NoError(t, err)
	assert.Equal(t, 3, n)
	assert.Equal(t, 3, a.CacheSize())
	assert.True(t, a.IsCached(newWarmDep))
	assert.True(t, a.IsCached(newWarmSvc))
	assert.True(t, a.IsCached(newWarmPair))

	// What was cached is the ordinary analysis.
	info, err := a.Analyze(newWarmSvc)
	require.NoError(t, err)
	assert.True(t, info.IsParamObject)
	require.Len(t, info.Parameters, 3)
	assert.Equal(t, "more", info.Parameters[1].Group)
	assert.Equal(t, "alt", info.Parameters[2].Key)
	assert.True(t, info.Parameters[2].Optional)
	assert.Equal(t, 3, a.CacheSize())

	// Empty and repeated warmups are no-ops.
	n, err = a.Warmup()
	require.NoError(t, err)
	assert.Zero(t, n)
	n, err = a.Warmup(newWarmDep, newWarmSvc)
	require.NoError(t, err)
	assert.Zero(t, n, "cached constructors are left alone")
	assert.Same(t, info, func() *reflection.ConstructorInfo { i, _ := a.Analyze(newWarmSvc); return i }(),
		"a second warmup does not replace a cached analysis")
}

func TestWarmup_DuplicatesAndInstances(t *testing.T) {
	a := reflection.New()
	inst := &warmDep{id: 9}

	n, err := a.Warmup(newWarmDep, newWarmDep, inst, &warmDep{id: 10})
	require.NoError(t, err)
	// Instances are keyed by their type, like in Analyze.
	assert.Equal(t, 2, n)
	assert.Equal(t, 2, a.CacheSize())
	assert.True(t, a.IsCached(inst))
	assert.False(t, a.IsCached(warmDep{}), "a different type has a different key")
}

func TestWarmup_KeyDistinguishesMethodValuesByType(t *testing.T) {
	// Method values all run through one trampoline, so they share a code
	// pointer; the type in the key must still tell them apart.
	a := reflection.New()
	d := &warmDep{}

	n, err := a.Warmup(d.Build)
	require.NoError(t, err)
	require.Equal(t, 1, n)
	assert.True(t, a.IsCached(d.Build))
	assert.False(t, a.IsCached(d.BuildOther), "different signature, not cached yet")

	info, err := a.Analyze(d.BuildOther)
	require.NoError(t, err)
	assert.Len(t, info.Parameters, 1)
	assert.Equal(t, 2, a.CacheSize())
}

func TestWarmup_CollectsAllFailures(t *testing.T) {
	a := reflection.New()
	var nilFn func() *warmDep

	n, err := a.Warmup(newWarmDep, nil, newWarmSvc, nilFn, newWarmPair)
	require.Error(t, err)
	assert.Equal(t, 3, n, "the valid constructors around the failures are all analyzed")
	assert.Equal(t, 3, a.CacheSize())
	assert.False(t, a.IsCached(nil))
	assert.False(t, a.IsCached(nilFn), "failures are not cached")

	// errors.Join keeps every failure reachable.
	joined, ok := err.(interface{ Unwrap() []error })
	require.True(t, ok)
	errs := joined.Unwrap()
	require.Len(t, errs, 2)

	var first, second *reflection.WarmupError
	require.True(t, errors.As(errs[0], &first))
	require.True(t, errors.As(errs[1], &second))
	assert.Equal(t, 1, first.Index)
	assert.Nil(t, first.Constructor)
	assert.Equal(t, 3, second.Index)
	assert.Equal(t, reflect.TypeOf(nilFn), second.Constructor)

	// The cause is the error Analyze itself reports.
	_, want := a.Analyze(nil)
	assert.EqualError(t, first.Cause, want.Error())
	assert.Equal(t, first.Cause, errors.Unwrap(first))
	assert.Contains(t, err.Error(), "constructor 1")
	assert.Contains(t, err.Error(), "constructor 3")

	// errors.As on the joined error finds the first one.
	var we *reflection.WarmupError
	require.True(t, errors.As(err, &we))
	assert.Equal(t, 1, we.Index)

	// A retry after a failure behaves like a first attempt.
	n, err = a.Warmup(nil)
	require.Error(t, err)
	assert.Zero(t, n)
}

func TestWarmup_ClearForgets(t *testing.T) {
	a := reflection.New()
	_, err := a.Warmup(newWarmDep)
	require.NoError(t, err)
	a.Clear()
	assert.False(t, a.IsCached(newWarmDep))
	n, err := a.Warmup(newWarmDep)
	require.NoError(t, err)
	assert.Equal(t, 1, n)
}

func TestWarmup_Concurrent(t *testing.T) {
	a := reflection.New()
	d := &warmDep{}
	all := []any{newWarmDep, newWarmSvc, newWarmPair, d.Build, d.BuildOther, d}

	var wg sync.WaitGroup
	for g := 0; g < 16; g++ {
		wg.Add(1)
		go func(g int) {
			defer wg.Done()
			for i := 0; i < 100; i++ {
				_, err := a.Warmup(all...)
				assert.NoError(t, err)
				c := all[(g+i)%len(all)]
				_ = a.IsCached(c) // may be false: goroutine 0 clears now and then
				info, err := a.Analyze(c)
				if assert.NoError(t, err) {
					assert.Equal(t, reflect.TypeOf(c), info.Type)
				}
				if g == 0 && i%25 == 0 {
					a.Clear()
				}
			}
		}(g)
	}
	wg.Wait()

	n, err := a.Warmup(all...)
	require.NoError(t, err)
	assert.Equal(t, len(all), a.CacheSize())
	assert.LessOrEqual(t, n, len(all))
	for _, c := range all {
		assert.True(t, a.IsCached(c))
	}
}

// The container analyzes through the very same entry point; this guards the
// key refactoring end to end: parameter objects, groups, keys, method values
// and instances still resolve to exactly what was registered.
func TestWarmup_KeyRefactoringKeepsContainerBehaviour(t *testing.T) {
	c := godi.NewCollection()
	base := &warmDep{id: 100}
	require.NoError(t, c.AddSingleton(base))
	require.NoError(t, c.AddSingleton(func() *warmDep { return &warmDep{id: 1} }, godi.Group("more")))
	require.NoError(t, c.AddSingleton(func() *warmDep { return &warmDep{id: 2} }, godi.Group("more")))
	require.NoError(t, c.AddSingleton(func() *warmDep { return &warmDep{id: 3} }, godi.Name("alt")))
	require.NoError(t, c.AddScoped(newWarmSvc))

	p, err := c.Build()
	require.NoError(t, err)
	defer p.Close()

	s, err := p.CreateScope(nil)
	require.NoError(t, err)
	defer s.Close()

	svc, err := godi.Resolve[*warmSvc](s)
	require.NoError(t, err)
	assert.Same(t, base, svc.dep)
	require.Len(t, svc.more, 2)
	assert.Equal(t, 1, svc.more[0].id)
	assert.Equal(t, 2, svc.more[1].id)

	again, err := godi.Resolve[*warmSvc](s)
	require.NoError(t, err)
	assert.Same(t, svc, again)
}
