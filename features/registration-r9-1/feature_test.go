package godi

import (
	"context"
	"fmt"
	"sync"
	"sync/atomic"
	"testing"

	"github.com/stretchr/testify/assert"
	"github.com/stretchr/testify/require"
)

// rgPlugin is the group member type used by the RemoveGroup tests.
type rgPlugin struct{ Name string }

// rgHost consumes the "plugins" group.
type rgHost struct{ Plugins []*rgPlugin }

type rgHostParams struct {
	In
	Plugins []*rgPlugin `group:"plugins"`
}

func newRGHost(p rgHostParams) *rgHost { return &rgHost{Plugins: p.Plugins} }

// rgPluginCtor returns a constructor that counts its calls.
func rgPluginCtor(name string, calls *atomic.Int32) func() *rgPlugin {
	return func() *rgPlugin {
		calls.Add(1)
		return &rgPlugin{Name: name}
	}
}

func rgNames(plugins []*rgPlugin) []string {
	names := make([]string, 0, len(plugins))
	for _, p := range plugins {
		names = append(names, p.Name)
	}
	return names
}

func TestRemoveGroup(t *testing.T) {
	t.Parallel()

	pluginType := PtrTypeOf[rgPlugin]()

	t.Run("removes_every_member_and_nothing_else", func(t *testing.T) {
		t.Parallel()
		var removedCalls, keptCalls atomic.Int32

		c := NewCollection()
		require.NoError(t, c.AddSingleton(rgPluginCtor("a", &removedCalls), Group("plugins")))
		require.NoError(t, c.AddScoped(rgPluginCtor("b", &removedCalls), Group("plugins")))
		require.NoError(t, c.AddTransient(rgPluginCtor("c", &removedCalls), Group("plugins")))
		// Same type: other group, keyed, unkeyed. Same group name: other type.
		require.NoError(t, c.AddSingleton(rgPluginCtor("other", &keptCalls), Group("other")))
		require.NoError(t, c.AddSingleton(rgPluginCtor("keyed", &keptCalls), Name("keyed")))
		require.NoError(t, c.AddSingleton(rgPluginCtor("plain", &keptCalls)))
		require.NoError(t, c.AddSingleton(NewTServiceWithID("svc"), Group("plugins")))
		require.NoError(t, c.AddScoped(newRGHost))
		require.Equal(t, 8, c.Count())

		assert.Equal(t, 3, c.RemoveGroup(pluginType, "plugins"))

		assert.Equal(t, 5, c.Count())
		assert.Len(t, c.ToSlice(), 5)
		assert.False(t, c.(*collection).HasGroup(pluginType, "plugins"))
		assert.True(t, c.(*collection).HasGroup(pluginType, "other"))
		assert.True(t, c.(*collection).HasGroup(PtrTypeOf[TService](), "plugins"))
		assert.True(t, c.Contains(pluginType))
		assert.True(t, c.ContainsKeyed(pluginType, "keyed"))
		for _, d := range c.ToSlice() {
			assert.False(t, d.Type == pluginType && d.Group == "plugins", "member %v is still listed", d.Key)
		}

		// Removing again is a no-op
		assert.Equal(t, 0, c.RemoveGroup(pluginType, "plugins"))
		assert.Equal(t, 5, c.Count())

		// The build does not see the removed members: an empty group is fine
		p, err := c.Build()
		require.NoError(t, err)
		t.Cleanup(func() { _ = p.Close() })

		s, err := p.CreateScope(context.Background())
		require.NoError(t, err)
		t.Cleanup(func() { _ = s.Close() })

		host, err := Resolve[*rgHost](s)
		require.NoError(t, err)
		assert.Empty(t, host.Plugins)

		plugins, err := ResolveGroup[*rgPlugin](s, "plugins")
		require.NoError(t, err)
		assert.Empty(t, plugins)

		others, err := ResolveGroup[*rgPlugin](s, "other")
		require.NoError(t, err)
		assert.Equal(t, []string{"other"}, rgNames(others))

		assert.Equal(t, int32(0), removedCalls.Load(), "a removed constructor must never run")
		assert.Equal(t, int32(3), keptCalls.Load())
	})

	t.Run("invalid_arguments", func(t *testing.T) {
		t.Parallel()
		var calls atomic.Int32
		c := NewCollection()
		require.NoError(t, c.AddSingleton(rgPluginCtor("a", &calls), Group("plugins")))

		assert.Equal(t, 0, c.RemoveGroup(nil, "plugins"))
		assert.Equal(t, 0, c.RemoveGroup(pluginType, ""))
		assert.Equal(t, 0, c.RemoveGroup(pluginType, "missing"))
		assert.Equal(t, 0, c.RemoveGroup(PtrTypeOf[TDependency](), "plugins"))
		assert.Equal(t, 1, c.Count())
	})

	t.Run("group_can_be_refilled", func(t *testing.T) {
		t.Parallel()
		var oldCalls, newCalls atomic.Int32

		c := NewCollection()
		require.NoError(t, c.AddSingleton(rgPluginCtor("old1", &oldCalls), Group("plugins")))
		require.NoError(t, c.AddSingleton(rgPluginCtor("old2", &oldCalls), Group("plugins")))
		require.NoError(t, c.AddSingleton(rgPluginCtor("old3", &oldCalls), Group("plugins")))
		require.NoError(t, c.AddSingleton(newRGHost))

		require.Equal(t, 3, c.RemoveGroup(pluginType, "plugins"))

		require.NoError(t, c.AddSingleton(rgPluginCtor("new1", &newCalls), Group("plugins")))
		require.NoError(t, c.AddSingleton(rgPluginCtor("new2", &newCalls), Group("plugins")))
		assert.Equal(t, 3, c.Count())

		p, err := c.Build()
		require.NoError(t, err)
		t.Cleanup(func() { _ = p.Close() })

		host, err := Resolve[*rgHost](p)
		require.NoError(t, err)
		assert.Equal(t, []string{"new1", "new2"}, rgNames(host.Plugins))

		// The new members do not share a cache slot with each other or with
		// anything left over from the removed ones
		plugins, err := ResolveGroup[*rgPlugin](p, "plugins")
		require.NoError(t, err)
		require.Len(t, plugins, 2)
		assert.Same(t, host.Plugins[0], plugins[0])
		assert.Same(t, host.Plugins[1], plugins[1])
		assert.NotSame(t, plugins[0], plugins[1])

		assert.Equal(t, int32(0), oldCalls.Load())
		assert.Equal(t, int32(2), newCalls.Load())
	})

	t.Run("built_provider_is_unaffected", func(t *testing.T) {
		t.Parallel()
		var calls atomic.Int32

		c := NewCollection()
		require.NoError(t, c.AddSingleton(rgPluginCtor("a", &calls), Group("plugins")))
		require.NoError(t, c.AddScoped(rgPluginCtor("b", &calls), Group("plugins")))
		require.NoError(t, c.AddScoped(newRGHost))

		before, err := c.Build()
		require.NoError(t, err)
		t.Cleanup(func() { _ = before.Close() })

		require.Equal(t, 2, c.RemoveGroup(pluginType, "plugins"))
		require.NoError(t, c.AddSingleton(rgPluginCtor("z", &calls), Group("plugins")))

		s, err := before.CreateScope(context.Background())
		require.NoError(t, err)
		t.Cleanup(func() { _ = s.Close() })

		host, err := Resolve[*rgHost](s)
		require.NoError(t, err)
		assert.Equal(t, []string{"a", "b"}, rgNames(host.Plugins))

		after, err := c.Build()
		require.NoError(t, err)
		t.Cleanup(func() { _ = after.Close() })

		plugins, err := ResolveGroup[*rgPlugin](after, "plugins")
		require.NoError(t, err)
		assert.Equal(t, []string{"z"}, rgNames(plugins))
	})

	t.Run("removing_scoped_members_lifts_a_lifetime_conflict", func(t *testing.T) {
		t.Parallel()
		var calls atomic.Int32

		c := NewCollection()
		require.NoError(t, c.AddScoped(rgPluginCtor("scoped", &calls), Group("plugins")))
		require.NoError(t, c.AddSingleton(newRGHost))

		_, err := c.Build()
		var conflict *LifetimeConflictError
		require.ErrorAs(t, err, &conflict)

		require.Equal(t, 1, c.RemoveGroup(pluginType, "plugins"))

		p, err := c.Build()
		require.NoError(t, err)
		t.Cleanup(func() { _ = p.Close() })
		assert.Equal(t, int32(0), calls.Load())
	})

	t.Run("module_option", func(t *testing.T) {
		t.Parallel()
		var oldCalls, newCalls atomic.Int32

		viaModule := NewCollection()
		require.NoError(t, viaModule.AddModules(
			NewModule("base",
				AddSingleton(rgPluginCtor("a", &oldCalls), Group("plugins")),
				AddSingleton(rgPluginCtor("b", &oldCalls), Group("plugins")),
				AddSingleton(newRGHost),
			),
			NewModule("testing",
				RemoveGroup[*rgPlugin]("plugins"),
				RemoveGroup[*rgPlugin]("missing"),
				AddSingleton(rgPluginCtor("mock", &newCalls), Group("plugins")),
			),
		))

		direct := NewCollection()
		require.NoError(t, direct.AddSingleton(rgPluginCtor("a", &oldCalls), Group("plugins")))
		require.NoError(t, direct.AddSingleton(rgPluginCtor("b", &oldCalls), Group("plugins")))
		require.NoError(t, direct.AddSingleton(newRGHost))
		direct.RemoveGroup(pluginType, "plugins")
		direct.RemoveGroup(pluginType, "missing")
		require.NoError(t, direct.AddSingleton(rgPluginCtor("mock", &newCalls), Group("plugins")))

		for name, c := range map[string]Collection{"module": viaModule, "direct": direct} {
			assert.Equal(t, 2, c.Count(), name)

			p, err := c.Build()
			require.NoError(t, err, name)
			host, err := Resolve[*rgHost](p)
			require.NoError(t, err, name)
			assert.Equal(t, []string{"mock"}, rgNames(host.Plugins), name)
			require.NoError(t, p.Close(), name)
		}

		assert.Equal(t, int32(0), oldCalls.Load())
		assert.Equal(t, int32(2), newCalls.Load())
	})

	t.Run("concurrent_use", func(t *testing.T) {
		t.Parallel()
		var calls atomic.Int32

		c := NewCollection()
		require.NoError(t, c.AddSingleton(rgPluginCtor("plain", &calls)))

		const workers = 8
		var wg sync.WaitGroup
		var added, removed atomic.Int64
		for w := 0; w < workers; w++ {
			wg.Add(1)
			go func(w int) {
				defer wg.Done()
				for i := 0; i < 50; i++ {
					if err := c.AddTransient(rgPluginCtor(fmt.Sprintf("p%d-%d", w, i), &calls), Group("plugins")); err == nil {
						added.Add(1)
					}
					if i%10 == 9 {
						removed.Add(int64(c.RemoveGroup(pluginType, "plugins")))
					}
					_ = c.Count()
					_ = c.ToSlice()
				}
			}(w)
		}
		wg.Wait()

		removed.Add(int64(c.RemoveGroup(pluginType, "plugins")))
		assert.Equal(t, int64(workers*50), added.Load())
		assert.Equal(t, added.Load(), removed.Load(), "every member is removed exactly once")
		assert.Equal(t, 1, c.Count())
		assert.Equal(t, int32(0), calls.Load())
	})
}
