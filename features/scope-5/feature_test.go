package godi

import (
	"context"
	"errors"
	"sync"
	"sync/atomic"
	"testing"

	"github.com/stretchr/testify/assert"
	"github.com/stretchr/testify/require"
)

type peekMissing struct{}

type peekConsumer struct{ Dep *TScoped }

func inspect(t *testing.T, s Scope) Inspector {
	t.Helper()
	i, ok := s.(Inspector)
	require.True(t, ok)
	return i
}

func TestScopeHas(t *testing.T) {
	t.Parallel()

	c := NewCollection()
	require.NoError(t, c.AddModules(
		AddSingleton(NewTService),
		AddScoped(NewTScoped, Name("named")),
		AddTransient(NewTTransient, Group("things")),
		AddSingleton(NewTDependency, As[any]()),
	))
	p, err := c.Build()
	require.NoError(t, err)
	defer p.Close()

	parent, _ := p.CreateScope(context.Background())
	child, _ := parent.CreateScope(context.Background())
	root, err := Resolve[Scope](p)
	require.NoError(t, err)

	for _, s := range []Scope{root, parent, child} {
		i := inspect(t, s)
		assert.True(t, i.Has(PtrTypeOf[TService]()))
		assert.False(t, i.Has(PtrTypeOf[peekMissing]()))
		assert.False(t, i.Has(nil))

		// Keyed registration: only under its key
		assert.False(t, i.Has(PtrTypeOf[TScoped]()))
		assert.True(t, i.HasKeyed(PtrTypeOf[TScoped](), "named"))
		assert.False(t, i.HasKeyed(PtrTypeOf[TScoped](), "other"))
		assert.False(t, i.HasKeyed(PtrTypeOf[TScoped](), nil))
		assert.False(t, i.HasKeyed(nil, "named"))
		assert.False(t, i.HasKeyed(PtrTypeOf[TService](), "named"))

		// Group members cannot be requested with Get
		assert.False(t, i.Has(PtrTypeOf[TTransient]()))
		_, err := s.Get(PtrTypeOf[TTransient]())
		assert.ErrorIs(t, err, ErrServiceNotFound)

		// Registered under the alias only
		assert.True(t, i.Has(TypeOf[any]()))
		assert.False(t, i.Has(PtrTypeOf[TDependency]()))

		// Built-ins, which have no keyed form
		assert.True(t, i.Has(TypeOf[context.Context]()))
		assert.True(t, i.Has(TypeOf[Scope]()))
		assert.True(t, i.Has(TypeOf[Provider]()))
		assert.False(t, i.HasKeyed(TypeOf[Scope](), "k"))
	}

	// A disposed scope has nothing, and so do its descendants
	require.NoError(t, parent.Close())
	for _, s := range []Scope{parent, child} {
		assert.False(t, inspect(t, s).Has(PtrTypeOf[TService]()))
		assert.False(t, inspect(t, s).Has(TypeOf[Scope]()))
		assert.False(t, inspect(t, s).HasKeyed(PtrTypeOf[TScoped](), "named"))
	}
	assert.True(t, inspect(t, root).Has(PtrTypeOf[TService]()))

	require.NoError(t, p.Close())
	assert.False(t, inspect(t, root).Has(PtrTypeOf[TService]()))
}

func TestScopePeek(t *testing.T) {
	t.Parallel()

	t.Run("never_constructs_and_agrees_with_get", func(t *testing.T) {
		t.Parallel()
		var scopedRuns, transientRuns, keyedRuns atomic.Int32
		p := BuildProvider(t,
			AddSingleton(NewTService),
			AddScoped(func() *TScoped { scopedRuns.Add(1); return &TScoped{} }),
			AddScoped(func(d *TScoped) *peekConsumer { return &peekConsumer{Dep: d} }),
			AddTransient(func() *TTransient { transientRuns.Add(1); return &TTransient{} }),
			AddScoped(func() *TDependency { keyedRuns.Add(1); return &TDependency{Name: "k"} }, Name("k")),
		)
		parent, _ := p.CreateScope(context.Background())
		defer parent.Close()
		child, _ := parent.CreateScope(context.Background())
		defer child.Close()
		sibling, _ := p.CreateScope(context.Background())
		defer sibling.Close()
		scopes := []Scope{parent, child, sibling}

		// Singletons exist since Build, everywhere
		single, _ := p.Get(PtrTypeOf[TService]())
		for _, s := range scopes {
			v, ok, err := inspect(t, s).Peek(PtrTypeOf[TService]())
			require.NoError(t, err)
			assert.True(t, ok)
			assert.Same(t, single, v)
		}

		// Scoped: nothing yet, and asking does not create
		for _, s := range scopes {
			v, ok, err := inspect(t, s).Peek(PtrTypeOf[TScoped]())
			assert.NoError(t, err)
			assert.False(t, ok)
			assert.Nil(t, v)
			_, ok, err = inspect(t, s).PeekKeyed(PtrTypeOf[TDependency](), "k")
			assert.NoError(t, err)
			assert.False(t, ok)
		}
		assert.Zero(t, scopedRuns.Load())
		assert.Zero(t, keyedRuns.Load())

		// Constructed in the child as a dependency: visible there and only there
		consumer, err := Resolve[*peekConsumer](child)
		require.NoError(t, err)
		v, ok, err := inspect(t, child).Peek(PtrTypeOf[TScoped]())
		require.NoError(t, err)
		require.True(t, ok)
		assert.Same(t, consumer.Dep, v)
		viaGet, _ := child.Get(PtrTypeOf[TScoped]())
		assert.Same(t, viaGet, v)
		for _, s := range []Scope{parent, sibling} {
			_, ok, err := inspect(t, s).Peek(PtrTypeOf[TScoped]())
			assert.NoError(t, err)
			assert.False(t, ok)
		}
		assert.EqualValues(t, 1, scopedRuns.Load())

		// Keyed
		keyed, _ := parent.GetKeyed(PtrTypeOf[TDependency](), "k")
		v, ok, err = inspect(t, parent).PeekKeyed(PtrTypeOf[TDependency](), "k")
		require.NoError(t, err)
		require.True(t, ok)
		assert.Same(t, keyed, v)
		_, ok, _ = inspect(t, child).PeekKeyed(PtrTypeOf[TDependency](), "k")
		assert.False(t, ok)
		assert.EqualValues(t, 1, keyedRuns.Load())

		// Transients are never kept
		_, _ = child.Get(PtrTypeOf[TTransient]())
		v, ok, err = inspect(t, child).Peek(PtrTypeOf[TTransient]())
		assert.NoError(t, err)
		assert.False(t, ok)
		assert.Nil(t, v)
		assert.EqualValues(t, 1, transientRuns.Load())
	})

	t.Run("built_ins", func(t *testing.T) {
		t.Parallel()
		p := BuildProvider(t)
		s, _ := p.CreateScope(context.Background())
		defer s.Close()

		v, ok, err := inspect(t, s).Peek(TypeOf[Scope]())
		require.NoError(t, err)
		assert.True(t, ok)
		assert.Same(t, s, v)
		v, ok, _ = inspect(t, s).Peek(TypeOf[Provider]())
		assert.True(t, ok)
		assert.Same(t, p, v)
		v, ok, _ = inspect(t, s).Peek(TypeOf[context.Context]())
		assert.True(t, ok)
		assert.Equal(t, s.Context(), v)
	})

	t.Run("errors", func(t *testing.T) {
		t.Parallel()
		boom := errors.New("boom")
		var fail atomic.Bool
		fail.Store(true)
		p := BuildProvider(t,
			AddSingleton(NewTService),
			AddTransient(func() (*TDependency, error) {
				if fail.Load() {
					return nil, boom
				}
				return &TDependency{}, nil
			}),
			AddScoped(func(*TDependency) *TScoped { return &TScoped{} }),
		)
		s, _ := p.CreateScope(context.Background())
		i := inspect(t, s)

		_, ok, err := i.Peek(PtrTypeOf[peekMissing]())
		assert.False(t, ok)
		require.ErrorIs(t, err, ErrServiceNotFound)
		var resolution *ResolutionError
		require.ErrorAs(t, err, &resolution)
		assert.Equal(t, PtrTypeOf[peekMissing](), resolution.ServiceType)

		_, ok, err = i.PeekKeyed(PtrTypeOf[TService](), "nope")
		assert.False(t, ok)
		assert.ErrorIs(t, err, ErrServiceNotFound)
		_, _, err = i.PeekKeyed(TypeOf[Scope](), "nope")
		assert.ErrorIs(t, err, ErrServiceNotFound)

		_, _, err = i.Peek(nil)
		assert.ErrorIs(t, err, ErrServiceTypeNil)
		_, _, err = i.PeekKeyed(nil, "k")
		assert.ErrorIs(t, err, ErrServiceTypeNil)
		_, _, err = i.PeekKeyed(PtrTypeOf[TService](), nil)
		assert.ErrorIs(t, err, ErrServiceKeyNil)

		// A failed construction leaves nothing to peek at
		_, err = s.Get(PtrTypeOf[TScoped]())
		require.ErrorIs(t, err, boom)
		_, ok, err = i.Peek(PtrTypeOf[TScoped]())
		assert.NoError(t, err)
		assert.False(t, ok)
		fail.Store(false)
		made, err := s.Get(PtrTypeOf[TScoped]())
		require.NoError(t, err)
		v, ok, _ := i.Peek(PtrTypeOf[TScoped]())
		assert.True(t, ok)
		assert.Same(t, made, v)

		// Disposed: always the disposed error, whatever is asked
		child, _ := s.CreateScope(context.Background())
		require.NoError(t, s.Close())
		for _, sc := range []Scope{s, child} {
			_, ok, err = inspect(t, sc).Peek(PtrTypeOf[TScoped]())
			assert.False(t, ok)
			assert.ErrorIs(t, err, ErrScopeDisposed)
			_, _, err = inspect(t, sc).Peek(PtrTypeOf[TService]())
			assert.ErrorIs(t, err, ErrScopeDisposed)
			_, _, err = inspect(t, sc).Peek(PtrTypeOf[peekMissing]())
			assert.ErrorIs(t, err, ErrScopeDisposed)
			_, _, err = inspect(t, sc).PeekKeyed(PtrTypeOf[TService](), "k")
			assert.ErrorIs(t, err, ErrScopeDisposed)
		}
	})

	t.Run("concurrent_with_get_and_close", func(t *testing.T) {
		t.Parallel()
		p := BuildProvider(t, AddSingleton(NewTService), AddScoped(NewTScoped))
		single, _ := p.Get(PtrTypeOf[TService]())

		for round := 0; round < 20; round++ {
			s, _ := p.CreateScope(context.Background())
			i := inspect(t, s)
			start := make(chan struct{})

			var wg sync.WaitGroup
			for w := 0; w < 8; w++ {
				wg.Add(1)
				go func(w int) {
					defer wg.Done()
					<-start
					switch {
					case w == 0:
						for j := 0; j < 20; j++ {
							_, _ = s.Get(PtrTypeOf[TScoped]())
						}
						assert.NoError(t, s.Close())
					default:
						var first any
						for j := 0; j < 100; j++ {
							v, ok, err := i.Peek(PtrTypeOf[TScoped]())
							if err != nil {
								assert.ErrorIs(t, err, ErrScopeDisposed)
								assert.False(t, ok)
								assert.False(t, i.Has(PtrTypeOf[TScoped]()))
								break
							}
							if ok {
								assert.IsType(t, &TScoped{}, v)
								if first == nil {
									first = v
								}
								assert.Same(t, first, v)
							} else {
								assert.Nil(t, v)
							}

							if v, ok, err = i.Peek(PtrTypeOf[TService]()); err == nil {
								assert.True(t, ok)
								assert.Same(t, single, v)
							}
						}
					}
				}(w)
			}
			close(start)
			wg.Wait()
		}
	})
}
