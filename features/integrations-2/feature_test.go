package chi

import (
	"context"
	"net/http"
	"net/http/httptest"
	"sync"
	"sync/atomic"
	"testing"

	"github.com/junioryono/godi/v4"
	"github.com/stretchr/testify/assert"
	"github.com/stretchr/testify/require"
)

// tenantInfo is a singleton naming the provider it lives in.
type tenantInfo struct{ Name string }

// tenantSession is a scoped disposable depending on the tenant singleton.
type tenantSession struct {
	Tenant *tenantInfo
	closes atomic.Int32
}

func (s *tenantSession) Close() error {
	s.closes.Add(1)
	return nil
}

type tenantCounters struct {
	created atomic.Int32
}

func buildTenantProvider(t *testing.T, name string, n *tenantCounters) godi.Provider {
	t.Helper()

	collection := godi.NewCollection()
	require.NoError(t, collection.AddSingleton(func() *tenantInfo { return &tenantInfo{Name: name} }))
	require.NoError(t, collection.AddScoped(func(info *tenantInfo) *tenantSession {
		n.created.Add(1)
		return &tenantSession{Tenant: info}
	}))

	provider, err := collection.Build()
	require.NoError(t, err)
	t.Cleanup(func() { provider.Close() })
	return provider
}

func tenantRequest(tenant string) *http.Request {
	req := httptest.NewRequest(http.MethodGet, "/", nil)
	if tenant != "" {
		req.Header.Set("X-Tenant", tenant)
	}
	return req
}

func TestWithScopeSource(t *testing.T) {
	t.Run("selects the provider per request and falls back on nil", func(t *testing.T) {
		var nDefault, nA, nB tenantCounters
		fallback := buildTenantProvider(t, "default", &nDefault)
		tenants := map[string]godi.Provider{
			"a": buildTenantProvider(t, "a", &nA),
			"b": buildTenantProvider(t, "b", &nB),
		}

		var order []string
		var session *tenantSession

		handler := ScopeMiddleware(fallback,
			WithScopeSource(func(r *http.Request) godi.Provider {
				if p, ok := tenants[r.Header.Get("X-Tenant")]; ok {
					return p
				}
				return nil
			}),
			WithMiddleware(func(scope godi.Scope, r *http.Request) error {
				order = append(order, "mw")
				s, err := godi.Resolve[*tenantSession](scope)
				session = s
				return err
			}),
		)(http.HandlerFunc(func(w http.ResponseWriter, r *http.Request) {
			order = append(order, "handler")
			scope, err := godi.FromContext(r.Context())
			require.NoError(t, err)

			got, err := godi.Resolve[*tenantSession](scope)
			require.NoError(t, err)
			assert.Same(t, session, got, "middleware and handler share the request scope")
			assert.Equal(t, int32(0), got.closes.Load())

			// The scope belongs to the selected provider.
			want := fallback
			if p, ok := tenants[r.Header.Get("X-Tenant")]; ok {
				want = p
			}
			assert.Same(t, want, scope.Provider())

			w.Write([]byte(got.Tenant.Name))
		}))

		for _, tc := range []struct{ header, want string }{
			{"a", "a"}, {"b", "b"}, {"", "default"}, {"unknown", "default"}, {"a", "a"},
		} {
			order, session = nil, nil
			rec := httptest.NewRecorder()
			handler.ServeHTTP(rec, tenantRequest(tc.header))

			assert.Equal(t, tc.want, rec.Body.String())
			assert.Equal(t, []string{"mw", "handler"}, order)
			require.NotNil(t, session)
			assert.Equal(t, int32(1), session.closes.Load(), "request scope closed exactly once")
		}

		assert.Equal(t, int32(2), nA.created.Load())
		assert.Equal(t, int32(1), nB.created.Load())
		assert.Equal(t, int32(2), nDefault.created.Load())
	})

	t.Run("a scope as source makes the request scope its child", func(t *testing.T) {
		var n tenantCounters
		provider := buildTenantProvider(t, "root", &n)

		tenantScope, err := provider.CreateScope(context.Background())
		require.NoError(t, err)
		parentSession, err := godi.Resolve[*tenantSession](tenantScope)
		require.NoError(t, err)

		var requestSessions []*tenantSession
		var handled error

		handler := ScopeMiddleware(provider,
			WithScopeSource(func(*http.Request) godi.Provider { return tenantScope }),
			WithErrorHandler(func(w http.ResponseWriter, r *http.Request, err error) {
				handled = err
				w.WriteHeader(http.StatusServiceUnavailable)
			}),
		)(http.HandlerFunc(func(w http.ResponseWriter, r *http.Request) {
			scope, err := godi.FromContext(r.Context())
			require.NoError(t, err)
			assert.NotSame(t, tenantScope, scope, "request gets a fresh scope, not the parent itself")
			assert.Same(t, provider, scope.Provider())

			s, err := godi.Resolve[*tenantSession](scope)
			require.NoError(t, err)
			assert.NotSame(t, parentSession, s, "parent and child never share a scoped instance")
			assert.Same(t, parentSession.Tenant, s.Tenant, "singleton is shared")
			requestSessions = append(requestSessions, s)
		}))

		for i := 0; i < 3; i++ {
			handler.ServeHTTP(httptest.NewRecorder(), tenantRequest(""))
		}

		require.Len(t, requestSessions, 3)
		assert.NotSame(t, requestSessions[0], requestSessions[1])
		for _, s := range requestSessions {
			assert.Equal(t, int32(1), s.closes.Load())
		}
		assert.Equal(t, int32(0), parentSession.closes.Load(), "closing request scopes leaves the parent alone")
		assert.Nil(t, handled)

		// Once the parent is closed, requests are refused via the error handler.
		require.NoError(t, tenantScope.Close())
		assert.Equal(t, int32(1), parentSession.closes.Load())

		created := n.created.Load()
		rec := httptest.NewRecorder()
		handler.ServeHTTP(rec, tenantRequest(""))
		assert.Equal(t, http.StatusServiceUnavailable, rec.Code)
		assert.ErrorIs(t, handled, godi.ErrScopeDisposed)
		assert.Len(t, requestSessions, 3, "handler did not run")
		assert.Equal(t, created, n.created.Load())
	})

	t.Run("closing the parent scope mid-request closes the request scope once", func(t *testing.T) {
		var n tenantCounters
		provider := buildTenantProvider(t, "root", &n)

		tenantScope, err := provider.CreateScope(context.Background())
		require.NoError(t, err)

		var session *tenantSession
		var lateErr error

		handler := ScopeMiddleware(provider,
			WithScopeSource(func(*http.Request) godi.Provider { return tenantScope }),
		)(http.HandlerFunc(func(w http.ResponseWriter, r *http.Request) {
			scope, err := godi.FromContext(r.Context())
			require.NoError(t, err)
			session, err = godi.Resolve[*tenantSession](scope)
			require.NoError(t, err)

			require.NoError(t, tenantScope.Close())
			assert.Equal(t, int32(1), session.closes.Load())
			_, lateErr = godi.Resolve[*tenantSession](scope)
		}))

		handler.ServeHTTP(httptest.NewRecorder(), tenantRequest(""))
		assert.ErrorIs(t, lateErr, godi.ErrScopeDisposed)
		assert.Equal(t, int32(1), session.closes.Load(), "middleware close after the parent's is a no-op")
	})

	t.Run("closed provider as source reaches the error handler", func(t *testing.T) {
		var nDefault, nGone tenantCounters
		fallback := buildTenantProvider(t, "default", &nDefault)
		gone := buildTenantProvider(t, "gone", &nGone)
		require.NoError(t, gone.Close())

		var handled error
		handler := ScopeMiddleware(fallback,
			WithScopeSource(func(*http.Request) godi.Provider { return gone }),
			WithErrorHandler(func(w http.ResponseWriter, r *http.Request, err error) {
				handled = err
				w.WriteHeader(http.StatusBadGateway)
			}),
		)(http.HandlerFunc(func(http.ResponseWriter, *http.Request) {
			t.Error("handler must not run")
		}))

		rec := httptest.NewRecorder()
		handler.ServeHTTP(rec, tenantRequest(""))
		assert.Equal(t, http.StatusBadGateway, rec.Code)
		assert.ErrorIs(t, handled, godi.ErrProviderDisposed)
		assert.Equal(t, int32(0), nDefault.created.Load(), "no silent fallback to the default provider")
	})

	t.Run("concurrent requests for different tenants stay isolated", func(t *testing.T) {
		var nA, nB tenantCounters
		tenants := map[string]godi.Provider{
			"a": buildTenantProvider(t, "a", &nA),
			"b": buildTenantProvider(t, "b", &nB),
		}

		var seen sync.Map
		var sessions sync.Map

		handler := ScopeMiddleware(tenants["a"],
			WithScopeSource(func(r *http.Request) godi.Provider { return tenants[r.Header.Get("X-Tenant")] }),
		)(Handle(func(s *tenantSession, w http.ResponseWriter, r *http.Request) {
			assert.Equal(t, r.Header.Get("X-Tenant"), s.Tenant.Name)
			_, dup := seen.LoadOrStore(s, struct{}{})
			assert.False(t, dup, "scoped instance shared between requests")
			sessions.Store(s, struct{}{})
		}))

		const workers, perWorker = 8, 40
		var wg sync.WaitGroup
		for i := 0; i < workers; i++ {
			tenant := []string{"a", "b"}[i%2]
			wg.Add(1)
			go func() {
				defer wg.Done()
				for j := 0; j < perWorker; j++ {
					handler.ServeHTTP(httptest.NewRecorder(), tenantRequest(tenant))
				}
			}()
		}
		wg.Wait()

		assert.Equal(t, int32(workers/2*perWorker), nA.created.Load())
		assert.Equal(t, int32(workers/2*perWorker), nB.created.Load())
		sessions.Range(func(k, _ any) bool {
			assert.Equal(t, int32(1), k.(*tenantSession).closes.Load())
			return true
		})
	})
}
