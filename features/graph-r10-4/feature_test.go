package graph_test

import (
	"errors"
	"fmt"
	"reflect"
	"sort"
	"sync"
	"testing"

	"github.com/junioryono/godi/v4/internal/graph"
	"github.com/junioryono/godi/v4/internal/reflection"
	"github.com/stretchr/testify/assert"
	"github.com/stretchr/testify/require"
)

// rpProvider is a minimal graph.Provider for the ReplaceProvider tests.
type rpProvider struct {
	typ   reflect.Type
	key   any
	group string
	deps  []*reflection.Dependency
}

func (p *rpProvider) GetType() reflect.Type                     { return p.typ }
func (p *rpProvider) GetKey() any                               { return p.key }
func (p *rpProvider) GetGroup() string                          { return p.group }
func (p *rpProvider) GetDependencies() []*reflection.Dependency { return p.deps }

type (
	rpA struct{}
	rpB struct{}
	rpC struct{}
	rpD struct{}
	rpE struct{}
	rpH interface{ Handle() }
)

var (
	rpTypeA = reflect.TypeOf(rpA{})
	rpTypeB = reflect.TypeOf(rpB{})
	rpTypeC = reflect.TypeOf(rpC{})
	rpTypeD = reflect.TypeOf(rpD{})
	rpTypeE = reflect.TypeOf(rpE{})
	rpTypeH = reflect.TypeOf((*rpH)(nil)).Elem()
)

func rpNode(t reflect.Type, deps ...reflect.Type) *rpProvider {
	p := &rpProvider{typ: t}
	for _, d := range deps {
		p.deps = append(p.deps, &reflection.Dependency{Type: d})
	}
	return p
}

func rpKey(t reflect.Type) graph.NodeKey { return graph.NodeKey{Type: t} }

func rpKeyText(k graph.NodeKey) string { return fmt.Sprintf("%v|%v|%s", k.Type, k.Key, k.Group) }

func rpSorted(keys []graph.NodeKey) []string {
	out := make([]string, 0, len(keys))
	for _, k := range keys {
		out = append(out, rpKeyText(k))
	}
	sort.Strings(out)
	return out
}

var rpUniverse = []graph.NodeKey{
	{Type: rpTypeA}, {Type: rpTypeB}, {Type: rpTypeC}, {Type: rpTypeD}, {Type: rpTypeE},
	{Type: rpTypeA, Key: "k"},
	{Type: rpTypeH, Group: "hs"},
	{Type: rpTypeH, Key: "m1", Group: "hs"},
	{Type: rpTypeH, Key: "m2", Group: "hs"},
}

// rpState renders what the graph's queries tell about it. Node-level fields
// are read before IsAcyclic, which would renormalise them.
func rpState(t *testing.T, g *graph.DependencyGraph) map[string]any {
	t.Helper()

	state := map[string]any{"size": g.Size()}
	for _, k := range rpUniverse {
		name := rpKeyText(k)
		state[name+" has"] = g.HasNode(k.Type, k.Key, k.Group)
		if node := g.GetNode(k.Type, k.Key, k.Group); node != nil {
			state[name+" provider"] = fmt.Sprintf("%p", node.Provider)
			state[name+" in"] = node.InDegree
			state[name+" out"] = node.OutDegree
			state[name+" nodeDeps"] = rpSorted(node.Dependencies)
			state[name+" nodeDependents"] = rpSorted(node.Dependents)
		}
		state[name+" deps"] = rpSorted(g.GetDependencies(k.Type, k.Key, k.Group))
		state[name+" dependents"] = rpSorted(g.GetDependents(k.Type, k.Key, k.Group))
		state[name+" transitive"] = rpSorted(g.GetTransitiveDependencies(k.Type, k.Key, k.Group))
	}

	var roots, leaves []graph.NodeKey
	for _, n := range g.GetRoots() {
		roots = append(roots, n.Key)
	}
	for _, n := range g.GetLeaves() {
		leaves = append(leaves, n.Key)
	}
	state["roots"] = rpSorted(roots)
	state["leaves"] = rpSorted(leaves)

	sorted, err := g.TopologicalSort()
	state["sortable"] = err == nil
	if err == nil {
		require.Len(t, sorted, g.Size())
		seen := make(map[graph.NodeKey]bool)
		for _, n := range sorted {
			for _, dep := range n.Dependencies {
				require.True(t, seen[dep], "%v sorted before its dependency %v", n.Key, dep)
			}
			seen[n.Key] = true
		}
	}
	state["acyclic"] = g.IsAcyclic()
	return state
}

func TestReplaceProvider_SwapsProviderAndEdges(t *testing.T) {
	base := []graph.Provider{rpNode(rpTypeA), rpNode(rpTypeD), rpNode(rpTypeC, rpTypeB)}
	build := func() *graph.DependencyGraph {
		g := graph.NewDependencyGraph()
		for _, p := range base {
			require.NoError(t, g.AddProvider(p))
		}
		return g
	}
	oldB := rpNode(rpTypeB, rpTypeA, rpTypeD)
	newB := &rpProvider{typ: rpTypeB, deps: []*reflection.Dependency{{Type: rpTypeD}, {Type: rpTypeA, Key: "k"}}}

	g := build()
	require.NoError(t, g.AddProvider(oldB))
	_, err := g.TopologicalSort() // warm the cache
	require.NoError(t, err)
	node := g.GetNode(rpTypeB, nil, "")

	prev, err := g.ReplaceProvider(newB)
	require.NoError(t, err)
	assert.Same(t, oldB, prev)

	// Same node object, new provider, new edges, dependents kept
	assert.Same(t, node, g.GetNode(rpTypeB, nil, ""))
	assert.Same(t, newB, node.Provider)
	assert.Equal(t, []graph.NodeKey{rpKey(rpTypeD), {Type: rpTypeA, Key: "k"}}, g.GetDependencies(rpTypeB, nil, ""))
	assert.Equal(t, []graph.NodeKey{rpKey(rpTypeC)}, g.GetDependents(rpTypeB, nil, ""))
	assert.Empty(t, g.GetDependents(rpTypeA, nil, ""))
	assert.True(t, g.HasNode(rpTypeA, "k", ""), "placeholder for the new dependency")

	// Indistinguishable from AddProvider on an existing node
	twin := build()
	require.NoError(t, twin.AddProvider(oldB))
	require.NoError(t, twin.AddProvider(newB))
	assert.Equal(t, rpState(t, twin), rpState(t, g))

	// A replacement without dependencies inherits none
	bare := rpNode(rpTypeB)
	prev, err = g.ReplaceProvider(bare)
	require.NoError(t, err)
	assert.Same(t, newB, prev)
	assert.Empty(t, g.GetDependencies(rpTypeB, nil, ""))
	assert.Empty(t, g.GetTransitiveDependencies(rpTypeB, nil, ""))
	assert.Empty(t, g.GetDependents(rpTypeD, nil, ""))
	assert.Equal(t, 0, g.GetNode(rpTypeB, nil, "").OutDegree)
	assert.Equal(t, []graph.NodeKey{rpKey(rpTypeB)}, g.GetTransitiveDependencies(rpTypeC, nil, ""))
}

func TestReplaceProvider_NothingToReplace(t *testing.T) {
	g := graph.NewDependencyGraph()
	require.NoError(t, g.AddProvider(rpNode(rpTypeB, rpTypeA))) // A is only a placeholder
	before := rpState(t, g)

	_, err := g.ReplaceProvider(nil)
	require.Error(t, err)
	assert.Contains(t, err.Error(), "cannot be nil")

	var nf *graph.ProviderNotFoundError
	for _, p := range []*rpProvider{
		rpNode(rpTypeC, rpTypeD),               // unknown identity
		rpNode(rpTypeA, rpTypeD),               // known only as a dependency
		{typ: rpTypeB, key: "k"},               // other key
		{typ: rpTypeB, key: "m", group: "hs"},  // other group
		{typ: nil, key: "no type", group: "x"}, // must not panic
	} {
		prev, err := g.ReplaceProvider(p)
		assert.Nil(t, prev)
		require.True(t, errors.As(err, &nf), "%v", err)
		assert.Equal(t, graph.NodeKey{Type: p.typ, Key: p.key, Group: p.group}, nf.Key)
		assert.Contains(t, err.Error(), "no provider registered for")
	}

	// Neither the identities nor their dependencies were created
	assert.Equal(t, before, rpState(t, g))
	assert.Nil(t, g.GetNode(rpTypeA, nil, "").Provider)

	// A removed provider cannot be replaced back into existence
	g.RemoveProvider(rpTypeB, nil, "")
	_, err = g.ReplaceProvider(rpNode(rpTypeB))
	require.True(t, errors.As(err, &nf))
	assert.False(t, g.HasNode(rpTypeB, nil, ""))

	g.Clear()
	_, err = g.ReplaceProvider(rpNode(rpTypeA))
	require.True(t, errors.As(err, &nf))
	assert.Equal(t, 0, g.Size())
}

func TestReplaceProvider_CycleIsRejected(t *testing.T) {
	g := graph.NewDependencyGraph()
	oldA := rpNode(rpTypeA, rpTypeE)
	require.NoError(t, g.AddProvider(oldA))
	require.NoError(t, g.AddProvider(rpNode(rpTypeB, rpTypeA)))
	require.NoError(t, g.AddProvider(rpNode(rpTypeC, rpTypeB)))

	_, err := g.TopologicalSort()
	require.NoError(t, err)
	require.NoError(t, g.DetectCycles())
	before := rpState(t, g)

	// New A needs D (unknown so far), the keyed A (unknown so far) and C
	cyclic := &rpProvider{typ: rpTypeA, deps: []*reflection.Dependency{
		{Type: rpTypeD}, {Type: rpTypeA, Key: "k"}, {Type: rpTypeC},
	}}
	prev, err := g.ReplaceProvider(cyclic)
	assert.Nil(t, prev)

	var cErr *graph.CircularDependencyError
	require.True(t, errors.As(err, &cErr))
	assert.GreaterOrEqual(t, len(cErr.Path), 2)

	assert.Equal(t, before, rpState(t, g))
	assert.Same(t, oldA, g.GetNode(rpTypeA, nil, "").Provider)
	assert.False(t, g.HasNode(rpTypeD, nil, ""))
	assert.False(t, g.HasNode(rpTypeA, "k", ""))
	assert.True(t, g.HasNode(rpTypeE, nil, ""))
	assert.NoError(t, g.DetectCycles())

	// Self dependency
	_, err = g.ReplaceProvider(rpNode(rpTypeA, rpTypeA))
	require.True(t, errors.As(err, &cErr))
	assert.Equal(t, before, rpState(t, g))
}

func TestReplaceProvider_GroupMemberAndKey(t *testing.T) {
	g := graph.NewDependencyGraph()
	m1 := &rpProvider{typ: rpTypeH, key: "m1", group: "hs"}
	m2 := &rpProvider{typ: rpTypeH, key: "m2", group: "hs"}
	consumer := &rpProvider{typ: rpTypeE, deps: []*reflection.Dependency{{Type: rpTypeH, Group: "hs"}}}
	keyed := &rpProvider{typ: rpTypeA, key: "k"}
	for _, p := range []graph.Provider{m1, m2, consumer, keyed, rpNode(rpTypeA)} {
		require.NoError(t, g.AddProvider(p))
	}
	groupRef := []graph.NodeKey{{Type: rpTypeH, Key: "m1", Group: "hs"}, {Type: rpTypeH, Key: "m2", Group: "hs"}}

	// The member stays in its group and now reaches the keyed A, not the plain one
	newM1 := &rpProvider{typ: rpTypeH, key: "m1", group: "hs", deps: []*reflection.Dependency{{Type: rpTypeA, Key: "k"}}}
	prev, err := g.ReplaceProvider(newM1)
	require.NoError(t, err)
	assert.Same(t, m1, prev)
	assert.Equal(t, rpSorted(groupRef), rpSorted(g.GetDependencies(rpTypeH, nil, "hs")))
	assert.Contains(t, g.GetTransitiveDependencies(rpTypeE, nil, ""), graph.NodeKey{Type: rpTypeA, Key: "k"})
	assert.NotContains(t, g.GetTransitiveDependencies(rpTypeE, nil, ""), rpKey(rpTypeA))
	assert.Same(t, m2, g.GetNode(rpTypeH, "m2", "hs").Provider)

	// A member that needs the consumer of its own group closes a cycle through the group
	before := rpState(t, g)
	_, err = g.ReplaceProvider(&rpProvider{typ: rpTypeH, key: "m2", group: "hs", deps: []*reflection.Dependency{{Type: rpTypeE}}})
	var cErr *graph.CircularDependencyError
	require.True(t, errors.As(err, &cErr))
	assert.Equal(t, before, rpState(t, g))
	assert.Equal(t, rpSorted(groupRef), rpSorted(g.GetDependencies(rpTypeH, nil, "hs")))
}

func TestReplaceProvider_Concurrent(t *testing.T) {
	g := graph.NewDependencyGraph()
	require.NoError(t, g.AddProvider(rpNode(rpTypeA)))
	require.NoError(t, g.AddProvider(rpNode(rpTypeC, rpTypeB)))

	var wg sync.WaitGroup
	for w := 0; w < 4; w++ {
		wg.Add(1)
		go func(w int) {
			defer wg.Done()
			for i := 0; i < 200; i++ {
				switch w {
				case 0:
					_ = g.AddProvider(rpNode(rpTypeB, rpTypeA))
					g.RemoveProvider(rpTypeB, nil, "")
				case 1:
					_, _ = g.TopologicalSort()
					_ = g.IsAcyclic()
					_ = g.GetDependencies(rpTypeB, nil, "")
				default:
					prev, err := g.ReplaceProvider(rpNode(rpTypeB, rpTypeA))
					if err != nil {
						// B was not there at that moment - and was not created
						var nf *graph.ProviderNotFoundError
						assert.True(t, errors.As(err, &nf), "%v", err)
						assert.Nil(t, prev)
					} else {
						assert.NotNil(t, prev)
					}
				}
			}
		}(w)
	}
	wg.Wait()

	// The remover had the last word on B in its own goroutine; whatever the
	// interleaving, B never exists with a provider unless AddProvider put it there
	g.RemoveProvider(rpTypeB, nil, "")
	_, err := g.ReplaceProvider(rpNode(rpTypeB))
	require.Error(t, err)
	assert.False(t, g.HasNode(rpTypeB, nil, ""))
	assert.True(t, g.IsAcyclic())
}
