package godi

import (
	"context"
	"errors"
	"sync"
	"sync/atomic"
	"testing"
	"time"

	"github.com/stretchr/testify/assert"
	"github.com/stretchr/testify/require"
)

// closeLog records the order in which things are closed.
type closeLog struct {
	mu     sync.Mutex
	events []string
}

func (l *closeLog) add(event string) {
	l.mu.Lock()
	defer l.mu.Unlock()
	l.events = append(l.events, event)
}

func (l *closeLog) hook(event string) func() error {
	return func() error { l.add(event); return nil }
}

// closeLogged is a disposable service that logs its Close.
type closeLogged struct {
	name string
	log  *closeLog
}

func (c *closeLogged) Close() error { c.log.add(c.name); return nil }

func TestOnClose_RunsInReverseOrderAmongInstances(t *testing.T) {
	t.Parallel()
	log := &closeLog{}
	p := BuildProvider(t,
		AddSingleton(func() *closeLogged { return &closeLogged{"singleton", log} }),
		AddScoped(func() *closeLogged { return &closeLogged{"scoped", log} }, Name("scoped")),
		AddTransient(func() *closeLogged { return &closeLogged{"transient", log} }, Name("transient")),
	)

	s, err := p.CreateScope(context.Background())
	require.NoError(t, err)
	child, err := s.CreateScope(context.Background())
	require.NoError(t, err)

	require.NoError(t, OnClose(p, log.hook("provider-hook")))
	require.NoError(t, OnClose(s, log.hook("hook-1")))
	RequireResolveKeyed[*closeLogged](t, s, "scoped")
	require.NoError(t, OnClose(s, log.hook("hook-2")))
	RequireResolveKeyed[*closeLogged](t, s, "transient")
	require.NoError(t, OnClose(s, log.hook("hook-3")))
	require.NoError(t, OnClose(child, log.hook("child-hook")))
	RequireResolveKeyed[*closeLogged](t, child, "scoped")

	assert.Empty(t, log.events, "nothing runs before Close")

	require.NoError(t, p.Close())
	assert.Equal(t, []string{
		"scoped", "child-hook", // the child scope first, newest first
		"hook-3", "transient", "hook-2", "scoped", "hook-1",
		"provider-hook", "singleton", // every scope before the provider's own
	}, log.events)

	// Exactly once
	require.NoError(t, s.Close())
	require.NoError(t, child.Close())
	require.NoError(t, p.Close())
	assert.Len(t, log.events, 9)
}

func TestOnClose_ErrorsAndPanicsAreReportedByClose(t *testing.T) {
	t.Parallel()
	log := &closeLog{}
	boom := errors.New("boom")
	p := BuildProvider(t, AddScoped(func() *closeLogged { return &closeLogged{"scoped", log} }))

	s, err := p.CreateScope(context.Background())
	require.NoError(t, err)
	child, err := s.CreateScope(context.Background())
	require.NoError(t, err)

	require.NoError(t, OnClose(s, log.hook("first")))
	RequireResolveFrom[*closeLogged](t, s)
	require.NoError(t, OnClose(s, func() error { log.add("failing"); return boom }))
	require.NoError(t, OnClose(s, func() error { log.add("panicking"); panic("oops") }))
	require.NoError(t, OnClose(child, func() error { log.add("child-failing"); return boom }))

	var closeErr error
	require.NotPanics(t, func() { closeErr = s.Close() })
	var disposal *DisposalError
	require.ErrorAs(t, closeErr, &disposal)
	assert.Len(t, disposal.Errors, 3)
	assert.Contains(t, closeErr.Error(), "boom")
	assert.Contains(t, closeErr.Error(), "oops")

	// Everything was attempted, and nothing is attempted again
	assert.Equal(t, []string{"child-failing", "panicking", "failing", "scoped", "first"}, log.events)
	assert.NoError(t, s.Close())
	assert.NoError(t, child.Close())
	assert.Len(t, log.events, 5)

	// A scope without failing functions closes without error
	ok, err := p.CreateScope(context.Background())
	require.NoError(t, err)
	require.NoError(t, OnClose(ok, log.hook("fine")))
	assert.NoError(t, ok.Close())
}

func TestOnClose_RefusesClosedContainers(t *testing.T) {
	t.Parallel()
	var ran atomic.Int32
	fn := func() error { ran.Add(1); return nil }

	p := BuildProvider(t, AddScoped(NewTScoped))
	s, err := p.CreateScope(context.Background())
	require.NoError(t, err)
	child, err := s.CreateScope(context.Background())
	require.NoError(t, err)

	var validation *ValidationError
	assert.ErrorAs(t, OnClose(s, nil), &validation)
	assert.ErrorIs(t, OnClose(nil, fn), ErrProviderNil)
	type foreign struct{ Provider }
	assert.ErrorAs(t, OnClose(foreign{}, fn), &validation)

	require.NoError(t, s.Close())
	assert.ErrorIs(t, OnClose(s, fn), ErrScopeDisposed)
	assert.ErrorIs(t, OnClose(child, fn), ErrScopeDisposed, "closed with its parent")

	other, err := p.CreateScope(context.Background())
	require.NoError(t, err)
	require.NoError(t, p.Close())
	assert.ErrorIs(t, OnClose(p, fn), ErrProviderDisposed)
	assert.ErrorIs(t, OnClose(other, fn), ErrScopeDisposed, "closed with the provider")

	assert.EqualValues(t, 0, ran.Load(), "a refused function is never called")
}

func TestOnClose_FunctionSeesAClosedScope(t *testing.T) {
	t.Parallel()
	p := BuildProvider(t, AddScoped(NewTScoped))
	s, err := p.CreateScope(context.Background())
	require.NoError(t, err)

	var resolveErr, registerErr, closeErr error
	ran := 0
	require.NoError(t, OnClose(s, func() error {
		ran++
		_, resolveErr = Resolve[*TScoped](s)
		registerErr = OnClose(s, func() error { ran++; return nil })
		closeErr = s.Close() // re-entrant Close neither blocks nor runs anything twice
		return nil
	}))

	require.NoError(t, s.Close())
	assert.Equal(t, 1, ran)
	assert.ErrorIs(t, resolveErr, ErrScopeDisposed)
	assert.ErrorIs(t, registerErr, ErrScopeDisposed)
	assert.NoError(t, closeErr)
}

func TestOnClose_RunsOnContextCancellation(t *testing.T) {
	t.Parallel()
	p := BuildProvider(t, AddScoped(NewTScoped))
	ctx, cancel := context.WithCancel(context.Background())
	s, err := p.CreateScope(ctx)
	require.NoError(t, err)

	var ran atomic.Int32
	require.NoError(t, OnClose(s, func() error { ran.Add(1); return nil }))
	cancel()
	require.Eventually(t, func() bool { return ran.Load() == 1 }, time.Second, time.Millisecond)
	require.NoError(t, s.Close())
	assert.EqualValues(t, 1, ran.Load())
}

func TestOnClose_RacingWithClose(t *testing.T) {
	t.Parallel()
	p := BuildProvider(t, AddScoped(NewTDisposable))

	for round := 0; round < 50; round++ {
		s, err := p.CreateScope(context.Background())
		require.NoError(t, err)

		const workers = 8
		var accepted, ran atomic.Int32
		var wg sync.WaitGroup
		start := make(chan struct{})
		for i := 0; i < workers; i++ {
			wg.Add(1)
			go func() {
				defer wg.Done()
				<-start
				for j := 0; j < 10; j++ {
					err := OnClose(s, func() error { ran.Add(1); return nil })
					if err == nil {
						accepted.Add(1)
					} else {
						assert.ErrorIs(t, err, ErrScopeDisposed)
					}
					_, _ = Resolve[*TDisposable](s)
				}
			}()
		}
		wg.Add(1)
		go func() {
			defer wg.Done()
			<-start
			assert.NoError(t, s.Close())
		}()
		close(start)
		wg.Wait()

		// Every accepted function ran exactly once, every refused one never
		assert.Equal(t, accepted.Load(), ran.Load())
	}
}
