package godi

import (
	"context"
	"sync"
	"testing"

	"github.com/stretchr/testify/assert"
	"github.com/stretchr/testify/require"
)

func dumpTestProvider(t *testing.T) (Collection, Provider) {
	t.Helper()
	c := BuildCollection(t,
		AddSingleton(NewTService),
		AddSingleton(NewTServiceWithID("named"), Name("named")),
		AddScoped(NewTScoped),
		AddScoped(NewTDisposable),
		AddTransient(NewTTransient),
		AddTransient(NewTDependencyWithName("b"), Group("deps")),
		AddScoped(NewTDependencyWithName("a"), Group("deps")),
	)
	p, err := c.Build()
	require.NoError(t, err)
	t.Cleanup(func() { _ = p.Close() })
	return c, p
}

func TestDump_DescribesRegistrations(t *testing.T) {
	t.Parallel()
	_, p := dumpTestProvider(t)

	d, err := Dump(p)
	require.NoError(t, err)
	assert.Equal(t, p.ID(), d.ID)
	assert.Equal(t, []ServiceDump{
		{Type: "*godi.TDependency", Key: "1", Group: "deps", Lifetime: Transient},
		{Type: "*godi.TDependency", Key: "2", Group: "deps", Lifetime: Scoped},
		{Type: "*godi.TDisposable", Lifetime: Scoped},
		{Type: "*godi.TScoped", Lifetime: Scoped},
		{Type: "*godi.TService", Lifetime: Singleton},
		{Type: "*godi.TService", Key: "named", Lifetime: Singleton},
		{Type: "*godi.TTransient", Lifetime: Transient},
	}, d.Services)
	assert.Empty(t, d.Scopes)
	assert.Empty(t, d.Root.Instances)
	assert.Contains(t, d.String(), "provider "+p.ID())
}

func TestDump_DescribesTheScopeTree(t *testing.T) {
	t.Parallel()
	_, p := dumpTestProvider(t)

	s1, err := p.CreateScope(context.Background())
	require.NoError(t, err)
	s2, err := p.CreateScope(context.Background())
	require.NoError(t, err)
	child, err := s1.CreateScope(context.Background())
	require.NoError(t, err)
	grandchild, err := child.CreateScope(context.Background())
	require.NoError(t, err)

	RequireResolveFrom[*TScoped](t, s1)
	RequireResolveFrom[*TDisposable](t, child)
	RequireResolveFrom[*TTransient](t, child) // transients and singletons are not scope instances
	RequireResolveFrom[*TService](t, child)
	_, err = ResolveGroup[*TDependency](grandchild, "deps")
	require.NoError(t, err)

	before, err := Dump(p)
	require.NoError(t, err)
	require.Len(t, before.Scopes, 2)
	assert.Equal(t, s1.ID(), before.Scopes[0].ID)
	assert.Equal(t, []string{"*godi.TScoped"}, before.Scopes[0].Instances)
	assert.Equal(t, 0, before.Scopes[0].Disposables)
	assert.Equal(t, ScopeDump{ID: s2.ID()}, before.Scopes[1])

	require.Len(t, before.Scopes[0].Children, 1)
	childDump := before.Scopes[0].Children[0]
	assert.Equal(t, child.ID(), childDump.ID)
	assert.Equal(t, []string{"*godi.TDisposable"}, childDump.Instances)
	assert.Equal(t, 1, childDump.Disposables)
	require.Len(t, childDump.Children, 1)
	assert.Equal(t, grandchild.ID(), childDump.Children[0].ID)
	assert.Equal(t, []string{`*godi.TDependency group="deps" key=2`}, childDump.Children[0].Instances)

	// Any scope of the provider describes the same provider
	viaScope, err := Dump(grandchild)
	require.NoError(t, err)
	assert.Equal(t, before, viaScope)

	// Closing a scope removes its whole subtree from the next dump; the dump
	// taken before is a snapshot and does not change
	require.NoError(t, child.Close())
	after, err := Dump(p)
	require.NoError(t, err)
	require.Len(t, after.Scopes, 2)
	assert.Empty(t, after.Scopes[0].Children)
	assert.Len(t, before.Scopes[0].Children, 1)

	before.Scopes[0].Instances[0] = "tampered"
	again, err := Dump(p)
	require.NoError(t, err)
	assert.Equal(t, after, again)

	_, err = Dump(child)
	assert.ErrorIs(t, err, ErrScopeDisposed)
	_, err = Dump(grandchild)
	assert.ErrorIs(t, err, ErrScopeDisposed)
}

func TestDump_ClosedAndForeignProviders(t *testing.T) {
	t.Parallel()
	c, p := dumpTestProvider(t)
	s, err := p.CreateScope(context.Background())
	require.NoError(t, err)

	// A second provider built from the same collection is described on its own
	p2, err := c.Build()
	require.NoError(t, err)
	defer p2.Close()
	d2, err := Dump(p2)
	require.NoError(t, err)
	assert.Equal(t, p2.ID(), d2.ID)
	assert.Empty(t, d2.Scopes)

	require.NoError(t, p.Close())
	_, err = Dump(p)
	assert.ErrorIs(t, err, ErrProviderDisposed)
	_, err = Dump(s)
	assert.ErrorIs(t, err, ErrScopeDisposed)

	_, err = Dump(nil)
	assert.ErrorIs(t, err, ErrProviderNil)

	type foreign struct{ Provider }
	_, err = Dump(foreign{})
	var validation *ValidationError
	assert.ErrorAs(t, err, &validation)
}

func TestDump_WhileScopesComeAndGo(t *testing.T) {
	t.Parallel()
	_, p := dumpTestProvider(t)

	stop := make(chan struct{})
	var dumper sync.WaitGroup
	dumper.Add(1)
	go func() {
		defer dumper.Done()
		for {
			select {
			case <-stop:
				return
			default:
			}
			d, err := Dump(p)
			if assert.NoError(t, err) {
				_ = d.String()
			}
		}
	}()

	var wg sync.WaitGroup
	for i := 0; i < 8; i++ {
		wg.Add(1)
		go func() {
			defer wg.Done()
			for j := 0; j < 50; j++ {
				s, err := p.CreateScope(context.Background())
				if !assert.NoError(t, err) {
					return
				}
				child, err := s.CreateScope(context.Background())
				assert.NoError(t, err)
				_, err = Resolve[*TDisposable](child)
				assert.NoError(t, err)
				_, err = Resolve[*TScoped](s)
				assert.NoError(t, err)
				assert.NoError(t, s.Close())
			}
		}()
	}
	wg.Wait()
	close(stop)
	dumper.Wait()

	d, err := Dump(p)
	require.NoError(t, err)
	assert.Empty(t, d.Scopes)
}
