package godi

import (
	"context"
	"errors"
	"fmt"
	"reflect"
	"strings"
	"sync"
	"sync/atomic"
	"testing"

	"github.com/stretchr/testify/assert"
	"github.com/stretchr/testify/require"
)

type (
	f5Database struct{ closes atomic.Int32 }
	f5Repo     struct{}
	f5Service  struct{}
)

func (d *f5Database) Close() error {
	d.closes.Add(1)
	return nil
}

type f5RepoParams struct {
	In

	DB *f5Database `name:"main"`
}

// f5Twin has the fields and the error methods of BuildError but no Format
// method: fmt prints it the way it printed a *BuildError before.
type f5Twin BuildError

func (e f5Twin) Error() string { return BuildError(e).Error() }
func (e f5Twin) Unwrap() error { return e.Cause }

func TestBuildErrorFormat(t *testing.T) {
	t.Parallel()

	t.Run("only_plus_v_changes", func(t *testing.T) {
		t.Parallel()

		cause := &ResolutionError{ServiceType: reflect.TypeOf((*f5Repo)(nil)), Cause: ErrServiceNotFound}
		err := &BuildError{Phase: "validation", Details: "dependency validation failed", Cause: cause}
		twin := (*f5Twin)(err)

		formats := []string{
			"%v", "%s", "%q", "%x", "%X", "% x", "%#x", "%+q", "%#q", "%+s",
			"%10.5v", "%-200s|", "%200v|", "%.3s", "%.0v", "%010s",
			"%d", "%+d", "%t", "%e", "%c", "%U", "%o", "%b",
			"%#v", "%#+v", "%T", "%z", "%!", "%w",
		}
		for _, format := range formats {
			want := strings.ReplaceAll(fmt.Sprintf(format, twin), "godi.f5Twin", "godi.BuildError")
			assert.Equal(t, want, fmt.Sprintf(format, err), "format %q", format)
		}

		assert.Equal(t, fmt.Sprint(twin), fmt.Sprint(err))
		assert.Equal(t, fmt.Sprintln("x", twin, 1), fmt.Sprintln("x", err, 1))
		assert.Equal(t, err.Error(), fmt.Errorf("%w", err).Error())
		assert.Equal(t, "startup: "+err.Error(), fmt.Errorf("startup: %w", err).Error())
		assert.True(t, strings.HasPrefix(fmt.Sprintf("%p", err), "0x"))

		// A nil pointer prints what it printed
		var nilErr *BuildError
		var nilTwin *f5Twin
		for _, format := range []string{"%v", "%s", "%d", "%#v", "%q"} {
			want := strings.ReplaceAll(fmt.Sprintf(format, nilTwin), "godi.f5Twin", "godi.BuildError")
			assert.Equal(t, want, fmt.Sprintf(format, nilErr), "format %q", format)
		}
		assert.Equal(t, "<nil>", fmt.Sprintf("%+v", nilErr))

		// The value form is not a fmt.Formatter and keeps printing its text
		assert.Equal(t, err.Error(), fmt.Sprintf("%+v", *err))

		// Only %+v differs
		assert.NotEqual(t, fmt.Sprintf("%+v", twin), fmt.Sprintf("%+v", err))
		assert.Equal(t, FormatErrorChain(err), fmt.Sprintf("%+v", err))
		assert.Equal(t, FormatErrorChain(err), fmt.Sprintf("%+10.3v", err))
	})

	t.Run("failing_singleton_constructor", func(t *testing.T) {
		t.Parallel()

		var db *f5Database
		errRefused := errors.New("connection refused")

		c := NewCollection()
		require.NoError(t, c.AddSingleton(func() *f5Database {
			db = &f5Database{}
			return db
		}, Name("main")))
		require.NoError(t, c.AddSingleton(func(f5RepoParams) (*f5Repo, error) {
			return nil, fmt.Errorf("open repo: %w", errRefused)
		}))
		require.NoError(t, c.AddSingleton(func(*f5Repo) *f5Service { return &f5Service{} }))

		p, err := c.Build()
		require.Error(t, err)
		assert.Nil(t, p)

		var buildErr *BuildError
		require.ErrorAs(t, err, &buildErr)
		assert.ErrorIs(t, err, errRefused)

		assert.Equal(t, strings.Join([]string{
			"build failed during singleton-creation phase: failed to initialize singletons",
			"  caused by *godi.ResolutionError: could not resolve *f5Repo",
			"  caused by *godi.ConstructorInvocationError: failed to invoke func(godi.f5RepoParams) (*godi.f5Repo, error) with parameters [*f5Database]",
			"  caused by *fmt.wrapError: constructor error",
			"  caused by *fmt.wrapError: open repo",
			"  caused by *errors.errorString: connection refused",
		}, "\n"), fmt.Sprintf("%+v", err))

		// %v is still the one-sentence message
		assert.Equal(t, err.Error(), fmt.Sprintf("%v", err))
		assert.Contains(t, fmt.Sprintf("%v", err), "constructor error: open repo: connection refused")

		// The singleton created before the failure was disposed with the failed build
		require.NotNil(t, db)
		assert.Equal(t, int32(1), db.closes.Load())
	})

	t.Run("multi_line_causes_are_indented", func(t *testing.T) {
		t.Parallel()

		conflict := NewCollection()
		require.NoError(t, conflict.AddScoped(func() *f5Repo { return &f5Repo{} }))
		require.NoError(t, conflict.AddSingleton(func(*f5Repo) *f5Service { return &f5Service{} }))
		_, err := conflict.Build()
		require.Error(t, err)
		var lifetime *LifetimeConflictError
		require.ErrorAs(t, err, &lifetime)

		lines := strings.Split(fmt.Sprintf("%+v", err), "\n")
		assert.Equal(t, "build failed during validation phase: lifetime validation failed", lines[0])
		assert.Equal(t, "  caused by *godi.LifetimeConflictError: lifetime conflict: *f5Service (Singleton) cannot depend on *f5Repo (Scoped)", lines[1])
		for _, line := range lines[2:] {
			assert.True(t, line == "" || strings.HasPrefix(line, "      "), "line %q", line)
		}
		assert.Contains(t, lines, "        • Change *f5Service to Scoped lifetime")
		assert.NotEqual(t, "", lines[len(lines)-1])

		cyclic := NewCollection()
		require.NoError(t, cyclic.AddSingleton(NewTCircularA))
		require.NoError(t, cyclic.AddSingleton(NewTCircularB))
		_, err = cyclic.Build()
		require.Error(t, err)
		var circular *CircularDependencyError
		require.ErrorAs(t, err, &circular)
		verbose := fmt.Sprintf("%+v", err)
		assert.True(t, strings.HasPrefix(verbose, "build failed during validation phase: dependency graph validation failed\n  caused by *graph.CircularDependencyError: circular dependency detected:\n"), verbose)

		panicking := NewCollection()
		require.NoError(t, panicking.AddSingleton(func() *f5Repo { panic("no config") }))
		_, err = panicking.Build()
		require.Error(t, err)
		var panicErr *ConstructorPanicError
		require.ErrorAs(t, err, &panicErr)
		assert.Equal(t, "no config", panicErr.Panic)
		verbose = fmt.Sprintf("%+v", err)
		assert.Contains(t, verbose, "\n  caused by *godi.ConstructorPanicError: constructor func() *godi.f5Repo panicked: no config\n")
		assert.Contains(t, verbose, "\n      Stack trace:\n      goroutine ")
	})

	t.Run("cancelled_build", func(t *testing.T) {
		t.Parallel()

		c := NewCollection()
		require.NoError(t, c.AddSingleton(func() *f5Repo { return &f5Repo{} }))
		ctx, cancel := context.WithCancel(context.Background())
		cancel()

		_, err := c.BuildWithContext(ctx)
		require.Error(t, err)
		assert.ErrorIs(t, err, context.Canceled)
		assert.Equal(t,
			"build failed during initialization phase: build cancelled before starting\n  caused by *errors.errorString: context canceled",
			fmt.Sprintf("%+v", err))
	})

	t.Run("format_error_chain_on_resolution_errors", func(t *testing.T) {
		t.Parallel()

		assert.Equal(t, "", FormatErrorChain(nil))
		assert.Equal(t, "plain", FormatErrorChain(errors.New("plain")))

		// Value forms with uncomparable fields are fine
		assert.Equal(t, "scope disposal failed: x", FormatErrorChain(DisposalError{Context: "scope", Errors: []error{errors.New("x")}}))
		assert.Equal(t, "failed to invoke <nil> with parameters []\n  caused by *errors.errorString: y",
			FormatErrorChain(ConstructorInvocationError{Cause: errors.New("y")}))

		var fail atomic.Bool
		fail.Store(true)
		var calls atomic.Int32

		c := NewCollection()
		require.NoError(t, c.AddScoped(func() (*f5Database, error) {
			calls.Add(1)
			if fail.Load() {
				return nil, errors.New("connection refused")
			}
			return &f5Database{}, nil
		}, Name("main")))
		require.NoError(t, c.AddScoped(func(f5RepoParams) *f5Repo { return &f5Repo{} }))

		p, err := c.Build()
		require.NoError(t, err)
		t.Cleanup(func() { assert.NoError(t, p.Close()) })

		s, err := p.CreateScope(nil)
		require.NoError(t, err)

		// The same failure rendered from several goroutines
		want := strings.Join([]string{
			"failed to invoke func(godi.f5RepoParams) *godi.f5Repo with parameters [*f5Database]",
			"  caused by *fmt.wrapError: failed to build arguments",
			"  caused by *fmt.wrapError: failed to resolve field DB",
			"  caused by *godi.ConstructorInvocationError: failed to invoke func() (*godi.f5Database, error) with parameters []",
			"  caused by *fmt.wrapError: constructor error",
			"  caused by *errors.errorString: connection refused",
		}, "\n")
		var wg sync.WaitGroup
		for i := 0; i < 4; i++ {
			wg.Add(1)
			go func() {
				defer wg.Done()
				_, err := Resolve[*f5Repo](s)
				if assert.Error(t, err) {
					assert.Equal(t, want, FormatErrorChain(err))
				}
			}()
		}
		wg.Wait()

		_, err = ResolveKeyed[*f5Repo](s, "missing")
		require.Error(t, err)
		assert.Equal(t, "could not resolve *f5Repo (key: missing)\n  caused by *errors.errorString: service not found", FormatErrorChain(err))

		// Rendering an error has no effect on the container: the retry succeeds
		fail.Store(false)
		before := calls.Load()
		_, err = Resolve[*f5Repo](s)
		require.NoError(t, err)
		db, err := ResolveKeyed[*f5Database](s, "main")
		require.NoError(t, err)
		assert.Equal(t, before+1, calls.Load())

		require.NoError(t, s.Close())
		assert.Equal(t, int32(1), db.closes.Load())
		_, err = Resolve[*f5Repo](s)
		assert.Equal(t, "scope has been disposed", FormatErrorChain(err))
	})
}
