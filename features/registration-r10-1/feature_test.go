package godi

import (
	"errors"
	"sync"
	"testing"

	"github.com/stretchr/testify/assert"
	"github.com/stretchr/testify/require"
)

// describeCollection renders the identities of a collection in registration order.
func describeCollection(c Collection) []string {
	out := make([]string, 0, c.Count())
	for _, d := range c.ToSlice() {
		out = append(out, formatType(d.Type)+"/"+d.Group+"/"+d.Lifetime.String())
	}
	return out
}

func TestWhen(t *testing.T) {
	t.Parallel()

	t.Run("true_applies_in_order", func(t *testing.T) {
		t.Parallel()

		viaWhen := BuildCollection(t,
			AddSingleton(NewTDependency),
			When(true,
				AddSingleton(NewTServiceWithID("a"), Group("g")),
				nil,
				AddSingleton(NewTServiceWithID("b"), Group("g")),
				Remove[*TDependency](),
			),
			AddScoped(NewTScoped),
		)

		direct := NewCollection()
		require.NoError(t, direct.AddSingleton(NewTDependency))
		require.NoError(t, direct.AddSingleton(NewTServiceWithID("a"), Group("g")))
		require.NoError(t, direct.AddSingleton(NewTServiceWithID("b"), Group("g")))
		direct.Remove(PtrTypeOf[TDependency]())
		require.NoError(t, direct.AddScoped(NewTScoped))

		assert.Equal(t, describeCollection(direct), describeCollection(viaWhen))

		p, err := viaWhen.Build()
		require.NoError(t, err)
		t.Cleanup(func() { _ = p.Close() })

		members, err := ResolveGroup[*TService](p, "g")
		require.NoError(t, err)
		require.Len(t, members, 2)
		assert.Equal(t, "a", members[0].ID)
		assert.Equal(t, "b", members[1].ID)
	})

	t.Run("false_applies_nothing", func(t *testing.T) {
		t.Parallel()

		ran := false
		c := BuildCollection(t,
			When(false, AddSingleton(NewTService), func(Collection) error {
				ran = true
				return errors.New("must not run")
			}),
			Unless(true, AddSingleton(NewTDependency)),
		)

		assert.False(t, ran)
		assert.Equal(t, 0, c.Count())
	})

	t.Run("unless", func(t *testing.T) {
		t.Parallel()

		c := BuildCollection(t, Unless(false, AddSingleton(NewTService)))
		assert.True(t, c.Contains(PtrTypeOf[TService]()))
	})

	t.Run("no_modules_and_nil_entries", func(t *testing.T) {
		t.Parallel()

		c := NewCollection()
		require.NoError(t, c.AddModules(When(true), When(true, nil, nil), WhenFunc(nil, AddSingleton(NewTService))))
		assert.Equal(t, 0, c.Count())
	})

	t.Run("error_stops_and_is_wrapped_by_named_modules_only", func(t *testing.T) {
		t.Parallel()

		module := NewModule("outer",
			When(true,
				AddSingleton(NewTDependency),
				NewModule("inner",
					AddSingleton(NewTService),
					AddScoped(NewTService), // duplicate
				),
				AddScoped(NewTScoped), // never reached
			),
		)

		c := NewCollection()
		err := c.AddModules(module)
		require.Error(t, err)

		// Wrapped once per named module, outermost first; When adds no level
		var outer ModuleError
		require.True(t, errors.As(err, &outer))
		assert.Equal(t, "outer", outer.Module)

		var inner ModuleError
		require.True(t, errors.As(outer.Cause, &inner))
		assert.Equal(t, "inner", inner.Module)

		var again ModuleError
		assert.False(t, errors.As(inner.Cause, &again))

		var already *AlreadyRegisteredError
		assert.True(t, errors.As(err, &already))

		// Registrations made before the failure stay, later ones never ran
		assert.True(t, c.Contains(PtrTypeOf[TDependency]()))
		assert.True(t, c.Contains(PtrTypeOf[TService]()))
		assert.False(t, c.Contains(PtrTypeOf[TScoped]()))
		assert.Equal(t, 2, c.Count())
	})

	t.Run("top_level_error_is_returned_unwrapped", func(t *testing.T) {
		t.Parallel()

		c := NewCollection()
		direct := c.AddSingleton(nil)
		viaWhen := c.AddModules(When(true, AddSingleton(nil)))
		require.Error(t, viaWhen)
		assert.Equal(t, direct.Error(), viaWhen.Error())
		assert.ErrorIs(t, viaWhen, ErrConstructorNil)

		var moduleErr ModuleError
		assert.False(t, errors.As(viaWhen, &moduleErr))
	})
}

func TestWhenFunc(t *testing.T) {
	t.Parallel()

	t.Run("sees_the_collection_at_apply_time", func(t *testing.T) {
		t.Parallel()

		calls := 0
		fallback := WhenFunc(
			func(c Collection) bool {
				calls++
				return !c.Contains(PtrTypeOf[TService]())
			},
			AddSingleton(NewTServiceWithID("fallback")),
			// The condition was decided before the first module ran
			AddSingleton(NewTDependency),
		)

		// Nothing registered yet: the fallback is used
		empty := BuildCollection(t, fallback)
		assert.Equal(t, 1, calls)
		assert.Equal(t, 2, empty.Count())

		// Already registered: the same module value now does nothing
		p := BuildProvider(t, AddSingleton(NewTServiceWithID("real")), fallback)
		assert.Equal(t, 2, calls)
		assert.Equal(t, "real", RequireResolve[*TService](t, p).ID)
		_, err := Resolve[*TDependency](p)
		assert.ErrorIs(t, err, ErrServiceNotFound)
	})

	t.Run("later_changes_to_the_argument_slice_are_not_seen", func(t *testing.T) {
		t.Parallel()

		modules := []ModuleOption{AddSingleton(NewTService)}
		when := When(true, modules...)
		modules[0] = AddSingleton(NewTDependency)

		c := BuildCollection(t, when)
		assert.True(t, c.Contains(PtrTypeOf[TService]()))
		assert.False(t, c.Contains(PtrTypeOf[TDependency]()))
	})

	t.Run("one_module_value_applied_concurrently_to_many_collections", func(t *testing.T) {
		t.Parallel()

		module := NewModule("shared",
			When(true, AddSingleton(NewTService)),
			WhenFunc(func(c Collection) bool { return c.Contains(PtrTypeOf[TService]()) }, AddScoped(NewTScoped)),
			Unless(true, AddTransient(NewTTransient)),
		)

		var wg sync.WaitGroup
		for i := 0; i < 8; i++ {
			wg.Add(1)
			go func() {
				defer wg.Done()
				c := NewCollection()
				assert.NoError(t, c.AddModules(module))
				assert.Equal(t, 2, c.Count())

				p, err := c.Build()
				if assert.NoError(t, err) {
					assert.NoError(t, p.Close())
				}
			}()
		}
		wg.Wait()
	})
}
