package reflection_test

import (
	"reflect"
	"strings"
	"sync"
	"testing"

	"github.com/junioryono/godi/v4/internal/reflection"
	"github.com/stretchr/testify/assert"
	"github.com/stretchr/testify/require"
)

type nameDep struct{ id int }
type nameSvc struct{ dep *nameDep }

type nameIn struct {
	reflection.In

	Dep     *nameDep
	Named   *nameDep   `name:"primary"`
	Members []*nameDep `group:"deps"`
}

func newNameSvc(dep *nameDep) (*nameSvc, error) { return &nameSvc{dep: dep}, nil }

func newNameSvcFromIn(in nameIn) *nameSvc { return &nameSvc{dep: in.Dep} }

type nameFactoryA struct{}
type nameFactoryB struct{}

func (nameFactoryA) Build() *nameDep { return &nameDep{id: 1} }
func (nameFactoryB) Build() *nameDep { return &nameDep{id: 2} }

// nameClosure returns closures that share one function literal. Inlining would
// give every call site its own copy of the literal.
//
//go:noinline
func nameClosure(id int) func() *nameDep {
	return func() *nameDep { return &nameDep{id: id} }
}

func TestConstructorName_Format(t *testing.T) {
	analyzer := reflection.New()

	t.Run("named function", func(t *testing.T) {
		name, err := analyzer.ConstructorName(newNameSvc)
		require.NoError(t, err)
		assert.True(t, strings.HasSuffix(name, "reflection_test.newNameSvc func(*nameDep) (*nameSvc, error)"), name)
	})

	t.Run("param object", func(t *testing.T) {
		name, err := analyzer.ConstructorName(newNameSvcFromIn)
		require.NoError(t, err)
		assert.Contains(t, name, "reflection_test.newNameSvcFromIn func(struct{In; ")
		assert.Contains(t, name, "Named *nameDep `name:primary`")
		assert.Contains(t, name, "Members []*nameDep `group:deps`")
	})

	t.Run("instance", func(t *testing.T) {
		name, err := analyzer.ConstructorName(&nameDep{})
		require.NoError(t, err)
		assert.Equal(t, "value[*nameDep]", name)
	})

	t.Run("nil constructors are rejected and not cached", func(t *testing.T) {
		before := analyzer.NameCacheSize()

		var typedNil func() *nameDep
		for _, constructor := range []any{nil, typedNil} {
			name, err := analyzer.ConstructorName(constructor)
			require.Error(t, err)
			assert.Empty(t, name)
		}

		assert.Equal(t, before, analyzer.NameCacheSize())
	})
}

func TestConstructorName_Identity(t *testing.T) {
	analyzer := reflection.New()

	t.Run("closures sharing code share one entry", func(t *testing.T) {
		first, err := analyzer.ConstructorName(nameClosure(1))
		require.NoError(t, err)
		second, err := analyzer.ConstructorName(nameClosure(2))
		require.NoError(t, err)

		assert.Equal(t, first, second)
		assert.Contains(t, first, "nameClosure.func1")
		assert.Equal(t, 1, analyzer.NameCacheSize())
	})

	t.Run("method values of different receivers differ", func(t *testing.T) {
		a, err := analyzer.ConstructorName(nameFactoryA{}.Build)
		require.NoError(t, err)
		b, err := analyzer.ConstructorName(nameFactoryB{}.Build)
		require.NoError(t, err)

		assert.Contains(t, a, "nameFactoryA.Build")
		assert.Contains(t, b, "nameFactoryB.Build")
		assert.NotEqual(t, a, b)
	})

	t.Run("reflect-made functions of different types differ", func(t *testing.T) {
		depFn := reflect.MakeFunc(reflect.TypeOf((func() *nameDep)(nil)), func([]reflect.Value) []reflect.Value {
			return []reflect.Value{reflect.ValueOf(&nameDep{})}
		}).Interface()
		svcFn := reflect.MakeFunc(reflect.TypeOf((func(*nameDep) *nameSvc)(nil)), func([]reflect.Value) []reflect.Value {
			return []reflect.Value{reflect.ValueOf(&nameSvc{})}
		}).Interface()

		depName, err := analyzer.ConstructorName(depFn)
		require.NoError(t, err)
		svcName, err := analyzer.ConstructorName(svcFn)
		require.NoError(t, err)

		// Both share the code pointer of reflect's stub; the type tells them apart
		assert.True(t, strings.HasSuffix(depName, " func() *nameDep"), depName)
		assert.True(t, strings.HasSuffix(svcName, " func(*nameDep) *nameSvc"), svcName)
	})
}

func TestConstructorName_CacheLifecycle(t *testing.T) {
	analyzer := reflection.New()

	first, err := analyzer.ConstructorName(newNameSvc)
	require.NoError(t, err)
	assert.Equal(t, 1, analyzer.NameCacheSize())
	assert.Equal(t, 1, analyzer.CacheSize(), "naming a constructor also caches its analysis")

	// Served from the cache: no growth, same answer
	again, err := analyzer.ConstructorName(newNameSvc)
	require.NoError(t, err)
	assert.Equal(t, first, again)
	assert.Equal(t, 1, analyzer.NameCacheSize())

	// The analysis is the one every other caller gets
	info, err := analyzer.Analyze(newNameSvc)
	require.NoError(t, err)
	assert.Equal(t, 1, analyzer.CacheSize())
	assert.True(t, info.HasErrorReturn)

	// Clear empties both caches; names are rebuilt identically afterwards
	analyzer.Clear()
	assert.Zero(t, analyzer.NameCacheSize())
	assert.Zero(t, analyzer.CacheSize())

	rebuilt, err := analyzer.ConstructorName(newNameSvc)
	require.NoError(t, err)
	assert.Equal(t, first, rebuilt)

	// Analyzing alone does not create names
	other := reflection.New()
	_, err = other.Analyze(newNameSvc)
	require.NoError(t, err)
	assert.Zero(t, other.NameCacheSize())
}

func TestConstructorName_Concurrent(t *testing.T) {
	analyzer := reflection.New()
	constructors := []any{newNameSvc, newNameSvcFromIn, nameClosure(1), nameFactoryA{}.Build, &nameDep{}}

	expected := make([]string, len(constructors))
	for i, constructor := range constructors {
		name, err := reflection.New().ConstructorName(constructor)
		require.NoError(t, err)
		expected[i] = name
	}

	var wg sync.WaitGroup
	for g := 0; g < 16; g++ {
		wg.Add(1)
		go func(g int) {
			defer wg.Done()
			for round := 0; round < 50; round++ {
				if g == 0 && round%10 == 0 {
					analyzer.Clear()
				}
				for i, constructor := range constructors {
					name, err := analyzer.ConstructorName(constructor)
					if err != nil || name != expected[i] {
						t.Errorf("constructor %d: got %q, %v; want %q", i, name, err, expected[i])
						return
					}
					if _, err := analyzer.Analyze(constructor); err != nil {
						t.Errorf("constructor %d: %v", i, err)
						return
					}
				}
			}
		}(g)
	}
	wg.Wait()

	assert.LessOrEqual(t, analyzer.NameCacheSize(), len(constructors))
}
