package godi

import (
	"context"
	"errors"
	"reflect"
	"sync"
	"sync/atomic"
	"testing"

	"github.com/stretchr/testify/assert"
	"github.com/stretchr/testify/require"
)

type (
	toReader interface{ Read() string }
	toCloser interface{ Close() error }
	toFile   struct{ name string }
	toOther  struct{}
	toDep    struct{}
	toResult struct {
		Out

		File *toFile
	}
)

func (f *toFile) Read() string { return f.name }
func (f *toFile) Close() error { return nil }

func toNewFile() *toFile { return &toFile{name: "file"} }

func toTypeOf[T any]() reflect.Type { return reflect.TypeOf((*T)(nil)).Elem() }

func TestTypedAdd_ConcreteAndInterface(t *testing.T) {
	var files atomic.Int32
	newFile := func(*toDep) (*toFile, error) {
		files.Add(1)
		return &toFile{name: "counted"}, nil
	}

	c := NewCollection()
	require.NoError(t, c.AddModules(NewModule("files",
		AddSingletonOf[*toDep](&toDep{}),
		AddSingletonOf[*toFile](newFile),
		AddScopedOf[toReader](toNewFile),
		AddTransientOf[toReader](toNewFile, Name("fresh")),
		AddSingletonOf[toReader](func() toReader { return &toFile{name: "first"} }, Group("readers")),
		AddSingleton(func() toReader { return &toFile{name: "second"} }, Group("readers")),
		AddSingletonOf[toReader](&toFile{name: "third"}, Group("readers")),
	)))

	// Registered under exactly the stated type
	assert.True(t, c.Contains(toTypeOf[*toFile]()))
	assert.True(t, c.Contains(toTypeOf[toReader]()))
	assert.True(t, c.ContainsKeyed(toTypeOf[toReader](), "fresh"))
	assert.False(t, c.ContainsKeyed(toTypeOf[*toFile](), "fresh"), "provided as the interface only, like godi.As")
	assert.Equal(t, 7, c.Count())

	p, err := c.Build()
	require.NoError(t, err)
	defer p.Close()
	assert.EqualValues(t, 1, files.Load())

	file1, err := Resolve[*toFile](p)
	require.NoError(t, err)
	file2, err := Resolve[*toFile](p)
	require.NoError(t, err)
	assert.Same(t, file1, file2)
	assert.Equal(t, "counted", file1.name)
	assert.EqualValues(t, 1, files.Load(), "a singleton stays a singleton")

	s1, err := p.CreateScope(context.Background())
	require.NoError(t, err)
	s2, err := p.CreateScope(context.Background())
	require.NoError(t, err)

	scopedA, err := Resolve[toReader](s1)
	require.NoError(t, err)
	scopedB, err := Resolve[toReader](s1)
	require.NoError(t, err)
	scopedC, err := Resolve[toReader](s2)
	require.NoError(t, err)
	assert.Same(t, scopedA, scopedB)
	assert.NotSame(t, scopedA, scopedC)

	freshA, err := ResolveKeyed[toReader](s1, "fresh")
	require.NoError(t, err)
	freshB, err := ResolveKeyed[toReader](s1, "fresh")
	require.NoError(t, err)
	assert.NotSame(t, freshA, freshB)

	readers, err := ResolveGroup[toReader](s1, "readers")
	require.NoError(t, err)
	require.Len(t, readers, 3)
	assert.Equal(t, []string{"first", "second", "third"}, []string{readers[0].Read(), readers[1].Read(), readers[2].Read()})
}

func TestTypedAdd_SameAsTheDirectCall(t *testing.T) {
	describe := func(c Collection) [][4]any {
		var out [][4]any
		for _, d := range c.ToSlice() {
			out = append(out, [4]any{d.Type, d.Key, d.Group, d.Lifetime})
		}
		return out
	}

	typed, direct := NewCollection(), NewCollection()
	require.NoError(t, typed.AddModules(
		AddSingletonOf[*toFile](toNewFile),
		AddScopedOf[toReader](toNewFile, Name("r")),
		AddTransientOf[toReader](toNewFile, As[toCloser](), Group("g")),
		AddTransientOf[toCloser](toNewFile, As[toCloser](), As[toReader]()),
	))
	require.NoError(t, direct.AddSingleton(toNewFile))
	require.NoError(t, direct.AddScoped(toNewFile, Name("r"), As[toReader]()))
	require.NoError(t, direct.AddTransient(toNewFile, As[toCloser](), Group("g"), As[toReader]()))
	require.NoError(t, direct.AddTransient(toNewFile, As[toCloser](), As[toReader]()))

	assert.Equal(t, describe(direct), describe(typed))
}

func TestTypedAdd_RejectionsLeaveTheCollectionUntouched(t *testing.T) {
	c := NewCollection()
	require.NoError(t, c.AddModules(AddSingletonOf[*toFile](toNewFile)))
	before := c.ToSlice()

	var (
		mismatchErr   *TypeMismatchError
		validationErr *ValidationError
		registeredErr *AlreadyRegisteredError
		moduleErr     ModuleError
	)

	// The constructor provides something else
	err := c.AddModules(AddSingletonOf[*toOther](toNewFile))
	require.ErrorAs(t, err, &mismatchErr)
	assert.Equal(t, toTypeOf[*toOther](), mismatchErr.Expected)
	assert.Equal(t, toTypeOf[*toFile](), mismatchErr.Actual)

	// An interface the service does not implement (only *toFile does)
	err = c.AddModules(AddScopedOf[toReader](func() toFile { return toFile{} }))
	assert.ErrorAs(t, err, &mismatchErr)

	// Constructor shapes that provide none or several services
	for _, constructor := range []any{
		func() {},
		func() error { return nil },
		func() (*toFile, *toOther) { return nil, nil },
		func() (*toFile, *toOther, error) { return nil, nil, nil },
		func() toResult { return toResult{} },
	} {
		err = c.AddModules(AddTransientOf[*toFile](constructor))
		assert.ErrorAs(t, err, &validationErr, "%T", constructor)
	}
	err = c.AddModules(AddSingletonOf[toResult](func() toResult { return toResult{} }))
	assert.ErrorAs(t, err, &validationErr, "a result object is not a service")

	// godi.As would hide the concrete type
	err = c.AddModules(AddSingletonOf[*toFile](toNewFile, As[toReader](), Name("hidden")))
	assert.ErrorAs(t, err, &validationErr)

	// The collection's own errors come through, wrapped once per module
	err = c.AddModules(NewModule("outer", NewModule("inner", AddSingletonOf[*toFile](toNewFile))))
	require.ErrorAs(t, err, &moduleErr)
	assert.Equal(t, "outer", moduleErr.Module)
	assert.ErrorAs(t, err, &registeredErr)
	err = c.AddModules(AddSingletonOf[*toFile](nil))
	assert.ErrorIs(t, err, ErrConstructorNil)
	err = c.AddModules(AddSingletonOf[context.Context](func() context.Context { return context.Background() }))
	assert.Error(t, err, "reserved types stay reserved")

	assert.Equal(t, before, c.ToSlice(), "nothing was added or removed")

	// Earlier registrations of a module stay when a later typed one fails
	err = c.AddModules(NewModule("partial",
		AddSingletonOf[*toDep](&toDep{}),
		AddSingletonOf[*toOther](toNewFile),
		AddSingletonOf[*toOther](&toOther{}),
	))
	require.Error(t, err)
	assert.True(t, c.Contains(toTypeOf[*toDep]()))
	assert.False(t, c.Contains(toTypeOf[*toOther]()))
}

func TestTypedAdd_ConstructorErrorsAndReuse(t *testing.T) {
	errBroken := errors.New("broken")

	c := NewCollection()
	require.NoError(t, c.AddModules(AddSingletonOf[toReader](func() (*toFile, error) { return nil, errBroken })))
	_, err := c.Build()
	assert.ErrorIs(t, err, errBroken)

	// One option value, with spare capacity in the caller's slice, applied to
	// several collections at once
	opts := make([]AddOption, 1, 8)
	opts[0] = Group("readers")
	option := AddTransientOf[toReader](toNewFile, opts...)

	var wg sync.WaitGroup
	for i := 0; i < 8; i++ {
		wg.Add(1)
		go func() {
			defer wg.Done()
			c := NewCollection()
			assert.NoError(t, c.AddModules(option, option))

			p, err := c.Build()
			if !assert.NoError(t, err) {
				return
			}
			defer p.Close()

			readers, err := ResolveGroup[toReader](p, "readers")
			assert.NoError(t, err)
			assert.Len(t, readers, 2)
		}()
	}
	wg.Wait()
	assert.Len(t, opts[:cap(opts)][1:], 7)
	for _, opt := range opts[:cap(opts)][1:] {
		assert.Nil(t, opt, "the caller's slice is not written to")
	}
}
