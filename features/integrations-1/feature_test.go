package http

import (
	"context"
	"errors"
	"net/http"
	"net/http/httptest"
	"runtime"
	"sync"
	"sync/atomic"
	"testing"
	"time"

	"github.com/junioryono/godi/v4"
	"github.com/stretchr/testify/assert"
	"github.com/stretchr/testify/require"
)

// timeoutResource is a scoped disposable that remembers the context it was
// constructed with and counts its Close calls.
type timeoutResource struct {
	ctx    context.Context
	closes *atomic.Int32
}

func (r *timeoutResource) Close() error {
	r.closes.Add(1)
	return nil
}

func buildTimeoutProvider(t *testing.T, created, closes *atomic.Int32) godi.Provider {
	t.Helper()

	collection := godi.NewCollection()
	require.NoError(t, collection.AddScoped(func(ctx context.Context) *timeoutResource {
		created.Add(1)
		return &timeoutResource{ctx: ctx, closes: closes}
	}))

	provider, err := collection.Build()
	require.NoError(t, err)
	t.Cleanup(func() { provider.Close() })
	return provider
}

func TestWithScopeTimeout(t *testing.T) {
	t.Run("fast handler sees the deadline and the scope is closed once on return", func(t *testing.T) {
		var created, closes atomic.Int32
		provider := buildTimeoutProvider(t, &created, &closes)

		var closeErrs atomic.Int32
		var scopeCtx context.Context

		handler := ScopeMiddleware(provider,
			WithScopeTimeout(time.Minute),
			WithCloseErrorHandler(func(error) { closeErrs.Add(1) }),
		)(http.HandlerFunc(func(w http.ResponseWriter, r *http.Request) {
			scope, err := godi.FromContext(r.Context())
			require.NoError(t, err)
			scopeCtx = scope.Context()

			deadline, ok := r.Context().Deadline()
			assert.True(t, ok, "request context carries the scope deadline")
			assert.WithinDuration(t, time.Now().Add(time.Minute), deadline, 5*time.Second)

			res, err := godi.Resolve[*timeoutResource](scope)
			require.NoError(t, err)
			again, err := godi.Resolve[*timeoutResource](scope)
			require.NoError(t, err)
			assert.Same(t, res, again)

			// The injected context is the scope's own context, deadline included.
			injected, ok := res.ctx.Deadline()
			assert.True(t, ok)
			assert.Equal(t, deadline, injected)
			assert.Equal(t, int32(0), closes.Load(), "not closed while the handler runs")
		}))

		rec := httptest.NewRecorder()
		handler.ServeHTTP(rec, httptest.NewRequest(http.MethodGet, "/", nil))

		assert.Equal(t, http.StatusOK, rec.Code)
		assert.Equal(t, int32(1), created.Load())
		assert.Equal(t, int32(1), closes.Load(), "closed exactly once")
		assert.Equal(t, int32(0), closeErrs.Load())
		assert.ErrorIs(t, scopeCtx.Err(), context.Canceled, "scope context is cancelled after the request")
	})

	t.Run("deadline passing mid-request closes the scope exactly once", func(t *testing.T) {
		var created, closes atomic.Int32
		provider := buildTimeoutProvider(t, &created, &closes)

		var lateErr error

		handler := ScopeMiddleware(provider, WithScopeTimeout(20*time.Millisecond))(
			http.HandlerFunc(func(w http.ResponseWriter, r *http.Request) {
				scope, err := godi.FromContext(r.Context())
				require.NoError(t, err)

				_, err = godi.Resolve[*timeoutResource](scope)
				require.NoError(t, err)

				<-r.Context().Done()
				assert.ErrorIs(t, r.Context().Err(), context.DeadlineExceeded)

				// The auto-close runs on its own goroutine; wait for it.
				assert.Eventually(t, func() bool { return closes.Load() == 1 }, time.Second, time.Millisecond)

				_, lateErr = godi.Resolve[*timeoutResource](scope)
				_, childErr := scope.CreateScope(context.Background())
				assert.ErrorIs(t, childErr, godi.ErrScopeDisposed)
			}))

		rec := httptest.NewRecorder()
		handler.ServeHTTP(rec, httptest.NewRequest(http.MethodGet, "/", nil))

		assert.ErrorIs(t, lateErr, godi.ErrScopeDisposed)
		assert.Equal(t, int32(1), created.Load(), "a disposed scope constructs nothing new")
		assert.Equal(t, int32(1), closes.Load(), "middleware close after the auto-close is a no-op")
	})

	t.Run("zero and negative durations disable the timeout", func(t *testing.T) {
		for _, d := range []time.Duration{0, -time.Second} {
			var created, closes atomic.Int32
			provider := buildTimeoutProvider(t, &created, &closes)

			handler := ScopeMiddleware(provider, WithScopeTimeout(d))(
				http.HandlerFunc(func(w http.ResponseWriter, r *http.Request) {
					_, ok := r.Context().Deadline()
					assert.False(t, ok)
					scope, err := godi.FromContext(r.Context())
					require.NoError(t, err)
					_, err = godi.Resolve[*timeoutResource](scope)
					assert.NoError(t, err)
				}))

			handler.ServeHTTP(httptest.NewRecorder(), httptest.NewRequest(http.MethodGet, "/", nil))
			assert.Equal(t, int32(1), closes.Load())
		}
	})

	t.Run("middleware error and handler panic still close the scope once", func(t *testing.T) {
		var created, closes atomic.Int32
		provider := buildTimeoutProvider(t, &created, &closes)

		mwErr := errors.New("denied")
		var handled error
		handlerRan := false

		handler := ScopeMiddleware(provider,
			WithScopeTimeout(time.Minute),
			WithMiddleware(func(scope godi.Scope, r *http.Request) error {
				_, err := godi.Resolve[*timeoutResource](scope)
				require.NoError(t, err)
				return mwErr
			}),
			WithErrorHandler(func(w http.ResponseWriter, r *http.Request, err error) {
				handled = err
				w.WriteHeader(http.StatusForbidden)
			}),
		)(http.HandlerFunc(func(http.ResponseWriter, *http.Request) { handlerRan = true }))

		rec := httptest.NewRecorder()
		handler.ServeHTTP(rec, httptest.NewRequest(http.MethodGet, "/", nil))
		assert.Equal(t, http.StatusForbidden, rec.Code)
		assert.Same(t, mwErr, handled)
		assert.False(t, handlerRan)
		assert.Equal(t, int32(1), closes.Load())

		panicking := ScopeMiddleware(provider, WithScopeTimeout(time.Minute))(
			http.HandlerFunc(func(w http.ResponseWriter, r *http.Request) {
				scope, _ := godi.FromContext(r.Context())
				_, err := godi.Resolve[*timeoutResource](scope)
				require.NoError(t, err)
				panic("boom")
			}))
		assert.PanicsWithValue(t, "boom", func() {
			panicking.ServeHTTP(httptest.NewRecorder(), httptest.NewRequest(http.MethodGet, "/", nil))
		})
		assert.Equal(t, int32(2), closes.Load())
	})

	t.Run("closed provider reports the error and leaves no timer behind", func(t *testing.T) {
		collection := godi.NewCollection()
		provider, err := collection.Build()
		require.NoError(t, err)
		require.NoError(t, provider.Close())

		var handled error
		handler := ScopeMiddleware(provider,
			WithScopeTimeout(time.Minute),
			WithErrorHandler(func(w http.ResponseWriter, r *http.Request, err error) {
				handled = err
				w.WriteHeader(http.StatusServiceUnavailable)
			}),
		)(http.HandlerFunc(func(http.ResponseWriter, *http.Request) {
			t.Error("handler must not run")
		}))

		rec := httptest.NewRecorder()
		handler.ServeHTTP(rec, httptest.NewRequest(http.MethodGet, "/", nil))
		assert.Equal(t, http.StatusServiceUnavailable, rec.Code)
		assert.ErrorIs(t, handled, godi.ErrProviderDisposed)
	})

	t.Run("concurrent requests get their own scopes and leave no goroutines", func(t *testing.T) {
		var created, closes atomic.Int32
		provider := buildTimeoutProvider(t, &created, &closes)

		var seen sync.Map
		handler := ScopeMiddleware(provider, WithScopeTimeout(time.Minute))(
			http.HandlerFunc(func(w http.ResponseWriter, r *http.Request) {
				scope, err := godi.FromContext(r.Context())
				if !assert.NoError(t, err) {
					return
				}
				res, err := godi.Resolve[*timeoutResource](scope)
				if !assert.NoError(t, err) {
					return
				}
				_, dup := seen.LoadOrStore(res, struct{}{})
				assert.False(t, dup, "scoped instance shared between requests")
			}))

		before := runtime.NumGoroutine()

		const workers, perWorker = 8, 50
		var wg sync.WaitGroup
		for i := 0; i < workers; i++ {
			wg.Add(1)
			go func() {
				defer wg.Done()
				for j := 0; j < perWorker; j++ {
					handler.ServeHTTP(httptest.NewRecorder(), httptest.NewRequest(http.MethodGet, "/", nil))
				}
			}()
		}
		wg.Wait()

		assert.Equal(t, int32(workers*perWorker), created.Load())
		assert.Equal(t, int32(workers*perWorker), closes.Load())

		// Every scope's watcher goroutine ends once its context is cancelled.
		assert.Eventually(t, func() bool {
			return runtime.NumGoroutine() <= before+2
		}, 2*time.Second, 5*time.Millisecond)
	})
}
