package reflection_test

import (
	"errors"
	"fmt"
	"reflect"
	"sync"
	"testing"

	"github.com/junioryono/godi/v4/internal/reflection"
	"github.com/stretchr/testify/assert"
	"github.com/stretchr/testify/require"
)

type planDB struct{ name string }
type planCache struct{}
type planHandler interface{ Handle() string }
type planHandlerImpl struct{ id string }

func (h *planHandlerImpl) Handle() string { return h.id }

type planParams struct {
	reflection.In

	DB       *planDB
	hidden   *planDB            //nolint:unused
	Replica  *planDB            `name:"replica"`
	Cache    *planCache         `optional:"true"`
	Ignored  *planDB            `inject:"-"`
	Handlers []planHandler      `group:"handlers"`
	Missing  *planCache         `name:"missing" optional:"true"`
	Empty    []*planHandlerImpl `group:"empty"`
}

type planOtherParams struct {
	reflection.In

	Cache *planCache
	DB    *planDB `name:"replica"`
}

// planResolver records every request it receives, in order.
type planResolver struct {
	mu       sync.Mutex
	calls    []string
	services map[string]any
	groups   map[string][]any
}

var errPlanNotFound = errors.New("plan: not found")

func newPlanResolver() *planResolver {
	return &planResolver{
		services: map[string]any{
			"*reflection_test.planDB":         &planDB{name: "primary"},
			"*reflection_test.planDB/replica": &planDB{name: "replica"},
		},
		groups: map[string][]any{
			"reflection_test.planHandler/handlers": {&planHandlerImpl{id: "h1"}, &planHandlerImpl{id: "h2"}},
		},
	}
}

func (r *planResolver) record(call string) {
	r.mu.Lock()
	r.calls = append(r.calls, call)
	r.mu.Unlock()
}

func (r *planResolver) Get(t reflect.Type) (any, error) {
	r.record("get " + t.String())
	if v, ok := r.services[t.String()]; ok {
		return v, nil
	}
	return nil, errPlanNotFound
}

func (r *planResolver) GetKeyed(t reflect.Type, key any) (any, error) {
	r.record(fmt.Sprintf("keyed %s/%v", t, key))
	if v, ok := r.services[fmt.Sprintf("%s/%v", t, key)]; ok {
		return v, nil
	}
	return nil, errPlanNotFound
}

func (r *planResolver) GetGroup(t reflect.Type, group string) ([]any, error) {
	r.record(fmt.Sprintf("group %s/%s", t, group))
	return r.groups[fmt.Sprintf("%s/%s", t, group)], nil
}

// referenceCalls is the plain, uncached walk over the struct: the requests a
// builder has to make, in order, stopping after the first required failure.
func referenceCalls(structType reflect.Type) []string {
	var calls []string
	for i := 0; i < structType.NumField(); i++ {
		field := structType.Field(i)
		if !field.IsExported() {
			continue
		}
		if field.Anonymous && field.Type == reflect.TypeOf(reflection.In{}) {
			continue
		}
		if field.Tag.Get("inject") == "-" {
			continue
		}
		switch {
		case field.Tag.Get("group") != "":
			calls = append(calls, fmt.Sprintf("group %s/%s", field.Type.Elem(), field.Tag.Get("group")))
		case field.Tag.Get("name") != "":
			calls = append(calls, fmt.Sprintf("keyed %s/%s", field.Type, field.Tag.Get("name")))
		default:
			calls = append(calls, "get "+field.Type.String())
		}
	}
	return calls
}

func TestParamPlan_CachedBuildEqualsFirstBuildAndReferenceWalk(t *testing.T) {
	analyzer := reflection.New()
	builder := reflection.NewParamObjectBuilder(analyzer)
	paramType := reflect.TypeOf(planParams{})
	want := referenceCalls(paramType)
	require.Len(t, want, 6)

	var previous planParams
	for round := 0; round < 3; round++ {
		resolver := newPlanResolver()
		// optional unkeyed cache is absent in this resolver
		value, err := builder.BuildParamObject(paramType, resolver)
		require.NoError(t, err)
		assert.Equal(t, want, resolver.calls, "round %d", round)

		params := value.Interface().(planParams)
		assert.Equal(t, "primary", params.DB.name)
		assert.Equal(t, "replica", params.Replica.name)
		assert.Nil(t, params.Cache, "missing optional stays zero")
		assert.Nil(t, params.Missing, "missing optional keyed stays zero")
		assert.Nil(t, params.Ignored, "ignored field untouched")
		require.Len(t, params.Handlers, 2)
		assert.Equal(t, "h1", params.Handlers[0].Handle())
		assert.Equal(t, "h2", params.Handlers[1].Handle())
		assert.NotNil(t, params.Empty, "empty group is an empty slice")
		assert.Empty(t, params.Empty)

		if round > 0 {
			// Every build makes its own struct and its own group slices
			assert.NotSame(t, &previous.Handlers[0], &params.Handlers[0])
		}
		previous = params
		assert.Equal(t, 1, analyzer.ParamPlanCount())
	}

	// The pointer form shares the plan of the struct type
	resolver := newPlanResolver()
	value, err := builder.BuildParamObject(reflect.TypeOf(&planParams{}), resolver)
	require.NoError(t, err)
	assert.Equal(t, want, resolver.calls)
	assert.Equal(t, "primary", value.Interface().(*planParams).DB.name)
	assert.Equal(t, 1, analyzer.ParamPlanCount())

	// A present optional service is injected by the cached plan too
	resolver = newPlanResolver()
	resolver.services["*reflection_test.planCache"] = &planCache{}
	value, err = builder.BuildParamObject(paramType, resolver)
	require.NoError(t, err)
	assert.NotNil(t, value.Interface().(planParams).Cache)
}

func TestParamPlan_FailureIsNotRemembered(t *testing.T) {
	analyzer := reflection.New()
	builder := reflection.NewParamObjectBuilder(analyzer)
	paramType := reflect.TypeOf(planOtherParams{})

	// Required field missing: same error on the first (uncached) and second (cached) build
	for round := 0; round < 2; round++ {
		resolver := newPlanResolver()
		_, err := builder.BuildParamObject(paramType, resolver)
		require.Error(t, err)
		assert.ErrorIs(t, err, errPlanNotFound)
		assert.Contains(t, err.Error(), "failed to resolve field Cache")
		assert.Equal(t, []string{"get *reflection_test.planCache"}, resolver.calls, "stops at the first required failure")
	}

	// A retry with the service available behaves like a first attempt
	resolver := newPlanResolver()
	resolver.services["*reflection_test.planCache"] = &planCache{}
	value, err := builder.BuildParamObject(paramType, resolver)
	require.NoError(t, err)
	assert.Equal(t, referenceCalls(paramType), resolver.calls)
	assert.Equal(t, "replica", value.Interface().(planOtherParams).DB.name)
}

func TestParamPlan_ClearAndSeparateAnalyzers(t *testing.T) {
	analyzer := reflection.New()
	builder := reflection.NewParamObjectBuilder(analyzer)

	_, err := builder.BuildParamObject(reflect.TypeOf(planParams{}), newPlanResolver())
	require.NoError(t, err)
	_, err = builder.BuildParamObject(reflect.TypeOf(planOtherParams{}), newPlanResolver())
	require.Error(t, err)
	assert.Equal(t, 2, analyzer.ParamPlanCount())

	// Invalid inputs are rejected before any plan is made
	_, err = builder.BuildParamObject(reflect.TypeOf(42), newPlanResolver())
	require.Error(t, err)
	_, err = builder.BuildParamObject(reflect.TypeOf(planParams{}), nil)
	require.Error(t, err)
	assert.Equal(t, 2, analyzer.ParamPlanCount())

	analyzer.Clear()
	assert.Equal(t, 0, analyzer.ParamPlanCount())

	resolver := newPlanResolver()
	_, err = builder.BuildParamObject(reflect.TypeOf(planParams{}), resolver)
	require.NoError(t, err)
	assert.Equal(t, referenceCalls(reflect.TypeOf(planParams{})), resolver.calls)
	assert.Equal(t, 1, analyzer.ParamPlanCount())

	// Plans belong to one analyzer
	assert.Equal(t, 0, reflection.New().ParamPlanCount())

	// A builder without an analyzer still works, it just caches nothing
	bare := reflection.NewParamObjectBuilder(nil)
	resolver = newPlanResolver()
	value, err := bare.BuildParamObject(reflect.TypeOf(planParams{}), resolver)
	require.NoError(t, err)
	assert.Equal(t, referenceCalls(reflect.TypeOf(planParams{})), resolver.calls)
	assert.Equal(t, "primary", value.Interface().(planParams).DB.name)
}

func TestParamPlan_Concurrent(t *testing.T) {
	analyzer := reflection.New()
	invoker := analyzer.GetInvoker()

	constructor := func(p planParams) *planCache {
		if p.DB == nil || p.Replica == nil || len(p.Handlers) != 2 || p.Ignored != nil {
			panic("bad parameter object")
		}
		return &planCache{}
	}
	info, err := analyzer.Analyze(constructor)
	require.NoError(t, err)

	want := referenceCalls(reflect.TypeOf(planParams{}))

	var wg sync.WaitGroup
	for i := 0; i < 16; i++ {
		wg.Add(1)
		go func(i int) {
			defer wg.Done()
			for j := 0; j < 50; j++ {
				if i == 0 && j%10 == 0 {
					analyzer.Clear()
				}

				resolver := newPlanResolver()
				results, err := invoker.InvokeConstructor(info, reflect.ValueOf(constructor), resolver)
				if err != nil || len(results) != 1 {
					t.Errorf("invoke failed: %v", err)
					return
				}
				if !reflect.DeepEqual(want, resolver.calls) {
					t.Errorf("unexpected requests: %v", resolver.calls)
					return
				}
			}
		}(i)
	}
	wg.Wait()

	assert.LessOrEqual(t, analyzer.ParamPlanCount(), 1)
}
