package godi

import (
	"context"
	"errors"
	"sync"
	"sync/atomic"
	"testing"

	"github.com/stretchr/testify/require"
)

type rakCache struct {
	name   string
	closed atomic.Int32
}

func (c *rakCache) Close() error {
	c.closed.Add(1)
	return nil
}

func newRakCache(name string, calls *atomic.Int32) func() *rakCache {
	return func() *rakCache {
		if calls != nil {
			calls.Add(1)
		}
		return &rakCache{name: name}
	}
}

type rakResult struct {
	Out
	Primary *rakCache
	Backup  *rakCache `name:"backup"`
}

func TestResolveAllKeyed_Lifetimes(t *testing.T) {
	var singletonCalls, scopedCalls, transientCalls atomic.Int32

	c := NewCollection()
	require.NoError(t, c.AddSingleton(newRakCache("single", &singletonCalls), Name("single")))
	require.NoError(t, c.AddScoped(newRakCache("scoped", &scopedCalls), Name("scoped")))
	require.NoError(t, c.AddTransient(newRakCache("transient", &transientCalls), Name("transient")))
	// Not keyed: an unnamed registration, a group member and an initializer
	require.NoError(t, c.AddSingleton(newRakCache("plain", nil)))
	require.NoError(t, c.AddSingleton(newRakCache("member", nil), Group("caches")))
	require.NoError(t, c.AddScoped(func(*rakCache) {}))

	p, err := c.Build()
	require.NoError(t, err)
	defer p.Close()

	s1, err := p.CreateScope(context.Background())
	require.NoError(t, err)
	s2, err := s1.CreateScope(context.Background())
	require.NoError(t, err)

	first, err := ResolveAllKeyed[*rakCache](s1)
	require.NoError(t, err)
	require.Len(t, first, 3)
	for key, cache := range first {
		require.Equal(t, key, cache.name)
	}

	again, err := ResolveAllKeyed[*rakCache](s1)
	require.NoError(t, err)
	nested, err := ResolveAllKeyed[*rakCache](s2)
	require.NoError(t, err)

	// Singleton: one instance everywhere, constructed once at build time
	require.Same(t, first["single"], again["single"])
	require.Same(t, first["single"], nested["single"])
	require.Equal(t, int32(1), singletonCalls.Load())

	// Scoped: one per scope, the one ResolveKeyed yields
	require.Same(t, first["scoped"], again["scoped"])
	require.NotSame(t, first["scoped"], nested["scoped"])
	direct, err := ResolveKeyed[*rakCache](s1, "scoped")
	require.NoError(t, err)
	require.Same(t, direct, first["scoped"])
	require.Equal(t, int32(2), scopedCalls.Load())

	// Transient: a new instance per call
	require.NotSame(t, first["transient"], again["transient"])
	require.Equal(t, int32(3), transientCalls.Load())

	// Everything created for a scope is closed exactly once with it
	require.NoError(t, s1.Close())
	require.Equal(t, int32(1), first["scoped"].closed.Load())
	require.Equal(t, int32(1), nested["scoped"].closed.Load())
	require.Equal(t, int32(1), first["transient"].closed.Load())
	require.Equal(t, int32(1), again["transient"].closed.Load())
	require.Equal(t, int32(1), nested["transient"].closed.Load())
	require.Equal(t, int32(0), first["single"].closed.Load())

	require.NoError(t, p.Close())
	require.Equal(t, int32(1), first["single"].closed.Load())
}

func TestResolveAllKeyed_NoKeysAndOtherTypes(t *testing.T) {
	c := NewCollection()
	require.NoError(t, c.AddSingleton(newRakCache("plain", nil)))
	require.NoError(t, c.AddScoped(func() {}))

	p, err := c.Build()
	require.NoError(t, err)
	defer p.Close()

	caches, err := ResolveAllKeyed[*rakCache](p)
	require.NoError(t, err)
	require.NotNil(t, caches)
	require.Empty(t, caches)

	// Initialization functions are keyed internally, but they are not services
	inits, err := ResolveAllKeyed[struct{}](p)
	require.NoError(t, err)
	require.Empty(t, inits)

	_, err = ResolveAllKeyed[*rakCache](nil)
	require.ErrorIs(t, err, ErrProviderNil)
}

func TestResolveAllKeyed_ResultObjectAndAlias(t *testing.T) {
	c := NewCollection()
	require.NoError(t, c.AddSingleton(func() rakResult {
		return rakResult{
			Primary: &rakCache{name: "primary"},
			Backup:  &rakCache{name: "backup"},
		}
	}))
	require.NoError(t, c.AddSingleton(newRakCache("closer", nil), Name("closer"), As[Disposable]()))

	p, err := c.Build()
	require.NoError(t, err)
	defer p.Close()

	caches, err := ResolveAllKeyed[*rakCache](p)
	require.NoError(t, err)
	require.Len(t, caches, 1)
	require.Equal(t, "backup", caches["backup"].name)

	// The alias is registered under the interface only
	closers, err := ResolveAllKeyed[Disposable](p)
	require.NoError(t, err)
	require.Len(t, closers, 1)
	require.Equal(t, "closer", closers["closer"].(*rakCache).name)
}

func TestResolveAllKeyed_SnapshotPerBuild(t *testing.T) {
	c := NewCollection()
	require.NoError(t, c.AddSingleton(newRakCache("a", nil), Name("a")))
	require.NoError(t, c.AddSingleton(newRakCache("b", nil), Name("b")))

	p1, err := c.Build()
	require.NoError(t, err)
	defer p1.Close()

	c.RemoveKeyed(PtrTypeOf[rakCache](), "a")
	require.NoError(t, c.AddSingleton(newRakCache("c", nil), Name("c")))

	p2, err := c.Build()
	require.NoError(t, err)
	defer p2.Close()

	one, err := ResolveAllKeyed[*rakCache](p1)
	require.NoError(t, err)
	require.Len(t, one, 2)
	require.Contains(t, one, "a")
	require.Contains(t, one, "b")

	two, err := ResolveAllKeyed[*rakCache](p2)
	require.NoError(t, err)
	require.Len(t, two, 2)
	require.Contains(t, two, "b")
	require.Contains(t, two, "c")
	require.NotSame(t, one["b"], two["b"])
}

func TestResolveAllKeyed_Disposed(t *testing.T) {
	c := NewCollection()
	require.NoError(t, c.AddScoped(newRakCache("a", nil), Name("a")))

	p, err := c.Build()
	require.NoError(t, err)

	s, err := p.CreateScope(context.Background())
	require.NoError(t, err)
	require.NoError(t, s.Close())

	_, err = ResolveAllKeyed[*rakCache](s)
	require.ErrorIs(t, err, ErrScopeDisposed)

	// Also for a type without keyed registrations
	_, err = ResolveAllKeyed[*TService](s)
	require.ErrorIs(t, err, ErrScopeDisposed)

	require.NoError(t, p.Close())
	_, err = ResolveAllKeyed[*rakCache](p)
	require.ErrorIs(t, err, ErrProviderDisposed)
	_, err = ResolveAllKeyed[*TService](p)
	require.ErrorIs(t, err, ErrProviderDisposed)
}

func TestResolveAllKeyed_FailureIsNotCached(t *testing.T) {
	boom := errors.New("boom")
	var fail atomic.Bool
	fail.Store(true)

	c := NewCollection()
	require.NoError(t, c.AddScoped(newRakCache("ok", nil), Name("ok")))
	require.NoError(t, c.AddScoped(func() (*rakCache, error) {
		if fail.Load() {
			return nil, boom
		}
		return &rakCache{name: "flaky"}, nil
	}, Name("flaky")))

	p, err := c.Build()
	require.NoError(t, err)
	defer p.Close()

	s, err := p.CreateScope(context.Background())
	require.NoError(t, err)

	caches, err := ResolveAllKeyed[*rakCache](s)
	require.ErrorIs(t, err, boom)
	require.Nil(t, caches)

	// The service created before the failure is still owned by the scope
	ok, err := ResolveKeyed[*rakCache](s, "ok")
	require.NoError(t, err)

	fail.Store(false)
	caches, err = ResolveAllKeyed[*rakCache](s)
	require.NoError(t, err)
	require.Len(t, caches, 2)
	require.Same(t, ok, caches["ok"])

	require.NoError(t, s.Close())
	require.Equal(t, int32(1), ok.closed.Load())
	require.Equal(t, int32(1), caches["flaky"].closed.Load())
}

func TestResolveAllKeyed_Concurrent(t *testing.T) {
	c := NewCollection()
	require.NoError(t, c.AddSingleton(newRakCache("a", nil), Name("a")))
	require.NoError(t, c.AddTransient(newRakCache("b", nil), Name("b")))

	p, err := c.Build()
	require.NoError(t, err)
	defer p.Close()

	want, err := ResolveKeyed[*rakCache](p, "a")
	require.NoError(t, err)

	var wg sync.WaitGroup
	for i := 0; i < 8; i++ {
		wg.Add(1)
		go func() {
			defer wg.Done()
			s, err := p.CreateScope(context.Background())
			if err != nil {
				t.Error(err)
				return
			}
			defer s.Close()

			for j := 0; j < 20; j++ {
				caches, err := ResolveAllKeyed[*rakCache](s)
				if err != nil || len(caches) != 2 || caches["a"] != want {
					t.Errorf("unexpected result: %v %v", caches, err)
					return
				}

				// The returned map is the caller's own
				delete(caches, "a")
			}
		}()
	}
	wg.Wait()

	// A resolution that overlaps Close completes or reports the disposed error
	s, err := p.CreateScope(context.Background())
	require.NoError(t, err)
	done := make(chan struct{})
	go func() {
		defer close(done)
		for {
			if _, err := ResolveAllKeyed[*rakCache](s); err != nil {
				if !errors.Is(err, ErrScopeDisposed) {
					t.Errorf("unexpected error: %v", err)
				}
				return
			}
		}
	}()
	require.NoError(t, s.Close())
	<-done
}
