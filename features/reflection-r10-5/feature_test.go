package reflection_test

import (
	"errors"
	"reflect"
	"sync"
	"testing"

	"github.com/junioryono/godi/v4/internal/reflection"
	"github.com/stretchr/testify/assert"
	"github.com/stretchr/testify/require"
)

type ignDB struct{ name string }
type ignClock struct{}
type ignTracer struct{}

type ignParams struct {
	reflection.In

	DB      *ignDB
	Clock   *ignClock  `di:"-"`
	Tracer  *ignTracer `inject:"-"`
	Replica *ignDB     `name:"replica" di:"keep"`
	Legacy  *ignClock  `wire:"-" optional:"true"`
}

type ignResults struct {
	reflection.Out

	DB     *ignDB
	Clock  *ignClock  `di:"-"`
	Tracer *ignTracer `inject:"-"`
}

// ignResolver knows only *ignDB (plain and keyed) and records what it was asked for.
type ignResolver struct {
	mu    sync.Mutex
	asked []reflect.Type
}

var errIgnNotFound = errors.New("ign: not found")

func (r *ignResolver) lookup(t reflect.Type) (any, error) {
	r.mu.Lock()
	r.asked = append(r.asked, t)
	r.mu.Unlock()

	if t == reflect.TypeOf(&ignDB{}) {
		return &ignDB{name: "db"}, nil
	}
	return nil, errIgnNotFound
}

func (r *ignResolver) Get(t reflect.Type) (any, error)              { return r.lookup(t) }
func (r *ignResolver) GetKeyed(t reflect.Type, _ any) (any, error)  { return r.lookup(t) }
func (r *ignResolver) GetGroup(reflect.Type, string) ([]any, error) { return nil, nil }
func newIgnService(p ignParams) *ignTracer                          { return &ignTracer{} }
func newIgnResults() ignResults {
	return ignResults{DB: &ignDB{}, Clock: &ignClock{}, Tracer: &ignTracer{}}
}
func paramNames(info *reflection.ConstructorInfo) (names []string) {
	for _, p := range info.Parameters {
		names = append(names, p.Name)
	}
	return names
}

func TestWithIgnoreTag_DefaultIsUnchanged(t *testing.T) {
	for name, analyzer := range map[string]*reflection.Analyzer{
		"New":                      reflection.New(),
		"NewWithOptions()":         reflection.NewWithOptions(),
		"NewWithOptions(nil)":      reflection.NewWithOptions(nil),
		"NewWithOptions(rejected)": reflection.NewWithOptions(reflection.WithIgnoreTag(""), reflection.WithIgnoreTag("name")),
	} {
		t.Run(name, func(t *testing.T) {
			assert.Equal(t, []string{"inject"}, analyzer.IgnoreTags())

			info, err := analyzer.Analyze(newIgnService)
			require.NoError(t, err)
			assert.Equal(t, []string{"DB", "Clock", "Replica", "Legacy"}, paramNames(info))

			// and the builder asks for the di:"-" field, which is required here
			resolver := &ignResolver{}
			_, err = reflection.NewParamObjectBuilder(analyzer).BuildParamObject(reflect.TypeOf(ignParams{}), resolver)
			require.ErrorIs(t, err, errIgnNotFound)
			assert.Contains(t, err.Error(), "field Clock")

			registrations, err := reflection.NewResultObjectProcessor(analyzer).
				ProcessResultObject(reflect.ValueOf(newIgnResults()), reflect.TypeOf(ignResults{}))
			require.NoError(t, err)
			assert.Len(t, registrations, 2)
		})
	}
}

func TestWithIgnoreTag_AnalysisBuilderAndProcessorAgree(t *testing.T) {
	analyzer := reflection.NewWithOptions(
		reflection.WithIgnoreTag("di"),
		reflection.WithIgnoreTag("wire"),
		reflection.WithIgnoreTag("di"), // duplicates collapse
		reflection.WithIgnoreTag("inject"),
		reflection.WithIgnoreTag("group"),
		reflection.WithIgnoreTag("optional"),
	)
	assert.Equal(t, []string{"inject", "di", "wire"}, analyzer.IgnoreTags())

	// The returned slice is a copy
	analyzer.IgnoreTags()[1] = "changed"
	assert.Equal(t, []string{"inject", "di", "wire"}, analyzer.IgnoreTags())

	// Analysis: aliased fields are no dependencies, di:"keep" is not an ignore marker
	info, err := analyzer.Analyze(newIgnService)
	require.NoError(t, err)
	assert.Equal(t, []string{"DB", "Replica"}, paramNames(info))
	assert.Equal(t, "replica", info.Parameters[1].Key)

	deps, err := analyzer.GetDependencies(newIgnService)
	require.NoError(t, err)
	require.Len(t, deps, 2)
	for _, dep := range deps {
		assert.Equal(t, reflect.TypeOf(&ignDB{}), dep.Type)
	}

	// Building: exactly the analyzed dependencies are requested, in order, and
	// the ignored fields are left untouched
	resolver := &ignResolver{}
	results, err := analyzer.GetInvoker().InvokeConstructor(info, reflect.ValueOf(func(p ignParams) *ignTracer {
		assert.NotNil(t, p.DB)
		assert.NotNil(t, p.Replica)
		assert.Nil(t, p.Clock)
		assert.Nil(t, p.Tracer)
		assert.Nil(t, p.Legacy)
		return &ignTracer{}
	}), resolver)
	require.NoError(t, err)
	require.Len(t, results, 1)
	assert.Equal(t, []reflect.Type{reflect.TypeOf(&ignDB{}), reflect.TypeOf(&ignDB{})}, resolver.asked)

	// Results: analysis and processing list the same fields
	outInfo, err := analyzer.Analyze(newIgnResults)
	require.NoError(t, err)
	require.Len(t, outInfo.Returns, 1)
	assert.Equal(t, "DB", outInfo.Returns[0].Name)

	registrations, err := reflection.NewResultObjectProcessor(analyzer).
		ProcessResultObject(reflect.ValueOf(newIgnResults()), reflect.TypeOf(ignResults{}))
	require.NoError(t, err)
	require.Len(t, registrations, 1)
	assert.Equal(t, "DB", registrations[0].Name)
}

// Options belong to one analyzer; the same constructor analyzed by another
// analyzer is not affected, whatever the order of the calls.
func TestWithIgnoreTag_AnalyzersAreIndependent(t *testing.T) {
	plain := reflection.New()
	aliased := reflection.NewWithOptions(reflection.WithIgnoreTag("di"))

	first, err := aliased.Analyze(newIgnService)
	require.NoError(t, err)
	second, err := plain.Analyze(newIgnService)
	require.NoError(t, err)
	third, err := aliased.Analyze(newIgnService)
	require.NoError(t, err)

	assert.Equal(t, []string{"DB", "Replica", "Legacy"}, paramNames(first))
	assert.Equal(t, []string{"DB", "Clock", "Replica", "Legacy"}, paramNames(second))
	assert.Same(t, first, third)

	// Clear keeps the configuration
	aliased.Clear()
	again, err := aliased.Analyze(newIgnService)
	require.NoError(t, err)
	assert.Equal(t, paramNames(first), paramNames(again))
	assert.Equal(t, []string{"inject", "di"}, aliased.IgnoreTags())

	var none *reflection.Analyzer
	assert.Equal(t, []string{"inject"}, none.IgnoreTags())
}

func TestWithIgnoreTag_Concurrent(t *testing.T) {
	analyzer := reflection.NewWithOptions(reflection.WithIgnoreTag("di"), reflection.WithIgnoreTag("wire"))
	invoker := analyzer.GetInvoker()

	var wg sync.WaitGroup
	for i := 0; i < 16; i++ {
		wg.Add(1)
		go func(i int) {
			defer wg.Done()
			for j := 0; j < 50; j++ {
				if i == 0 && j%10 == 0 {
					analyzer.Clear()
				}

				info, err := analyzer.Analyze(newIgnService)
				if err != nil || len(info.Parameters) != 2 {
					t.Errorf("unexpected analysis: %v %v", info, err)
					return
				}

				resolver := &ignResolver{}
				if _, err := invoker.InvokeConstructor(info, reflect.ValueOf(newIgnService), resolver); err != nil {
					t.Errorf("unexpected invocation error: %v", err)
					return
				}
				if len(resolver.asked) != 2 || len(analyzer.IgnoreTags()) != 3 {
					t.Errorf("unexpected requests: %v", resolver.asked)
					return
				}
			}
		}(i)
	}
	wg.Wait()
}
