package godi

import (
	"context"
	"errors"
	"fmt"
	"reflect"
	"testing"

	"github.com/stretchr/testify/assert"
	"github.com/stretchr/testify/require"
)

type esLeaf struct{}
type esMid struct{ leaf *esLeaf }
type esA struct{}
type esB struct{}

type esCloser struct{ err error }

func (c *esCloser) Close() error { return c.err }

var errESBoom = errors.New("es boom")

// every sentinel a caller may test for; exactly one of them (or none) must
// match a given failure
var esSentinels = map[string]error{
	"not found":          ErrServiceNotFound,
	"scope disposed":     ErrScopeDisposed,
	"provider disposed":  ErrProviderDisposed,
	"already registered": ErrAlreadyRegistered,
	"lifetime conflict":  ErrLifetimeConflict,
	"circular":           ErrCircularDependency,
	"panic":              ErrConstructorPanic,
	"invalid lifetime":   ErrInvalidLifetime,
	"type mismatch":      ErrTypeMismatch,
	"disposal":           ErrDisposalFailed,
}

func esAssertOnly(t *testing.T, err error, want string) {
	t.Helper()
	for name, sentinel := range esSentinels {
		assert.Equal(t, name == want, errors.Is(err, sentinel), "errors.Is(err, <%s>)", name)
	}
}

func esWrap(err error) []error {
	return []error{
		err,
		fmt.Errorf("ctx: %w", err),
		&BuildError{Phase: "validation", Details: "d", Cause: err},
		ModuleError{Module: "outer", Cause: ModuleError{Module: "inner", Cause: err}},
		&RegistrationError{Operation: "register", Cause: err},
		&ResolutionError{Cause: fmt.Errorf("failed to resolve group member: %w", err)},
		errors.Join(errors.New("unrelated"), err),
	}
}

func TestSentinels_ValueAndPointerThroughWrappers(t *testing.T) {
	intType := reflect.TypeOf(0)
	cases := []struct {
		want string
		errs []error
	}{
		{"already registered", []error{AlreadyRegisteredError{ServiceType: intType}, &AlreadyRegisteredError{ServiceType: intType}}},
		{"lifetime conflict", []error{LifetimeConflictError{ServiceType: intType}, &LifetimeConflictError{ServiceType: intType}}},
		{"circular", []error{CircularDependencyError{}, &CircularDependencyError{}}},
		{"panic", []error{ConstructorPanicError{Panic: "p"}, &ConstructorPanicError{Panic: "p"}}},
		{"invalid lifetime", []error{LifetimeError{Value: 7}, &LifetimeError{Value: 7}}},
		{"type mismatch", []error{TypeMismatchError{Context: "c"}, &TypeMismatchError{Context: "c"}}},
		{"disposal", []error{DisposalError{Context: "scope", Errors: []error{errESBoom}}, &DisposalError{Context: "scope", Errors: []error{errESBoom}}}},
	}

	for _, tc := range cases {
		for _, base := range tc.errs {
			for i, err := range esWrap(base) {
				t.Run(fmt.Sprintf("%s/%T/%d", tc.want, base, i), func(t *testing.T) {
					esAssertOnly(t, err, tc.want)
				})
			}
		}
	}

	// A sentinel is not one of the typed errors
	var are *AlreadyRegisteredError
	assert.False(t, errors.As(ErrAlreadyRegistered, &are))
	// and a typed error is not "equal" to another typed error because of Is
	assert.False(t, errors.Is(&AlreadyRegisteredError{ServiceType: intType}, &AlreadyRegisteredError{ServiceType: intType}))
	// non-comparable targets are handled
	assert.False(t, errors.Is(AlreadyRegisteredError{}, DisposalError{Errors: []error{errESBoom}}))
	assert.False(t, errors.Is(DisposalError{Errors: []error{errESBoom}}, DisposalError{Errors: []error{errESBoom}}))
}

func TestSentinels_AsStillWorks(t *testing.T) {
	intType := reflect.TypeOf(0)

	err := error(ModuleError{Module: "m", Cause: &RegistrationError{Operation: "register", Cause: &AlreadyRegisteredError{ServiceType: intType}}})
	var are *AlreadyRegisteredError
	require.True(t, errors.As(err, &are))
	assert.Equal(t, intType, are.ServiceType)
	var me ModuleError
	require.True(t, errors.As(err, &me))
	assert.Equal(t, "m", me.Module)

	err = fmt.Errorf("w: %w", LifetimeConflictError{ServiceType: intType, ServiceLifetime: Singleton, DependencyLifetime: Scoped})
	var lce LifetimeConflictError
	require.True(t, errors.As(err, &lce))
	assert.Equal(t, Singleton, lce.ServiceLifetime)
	var lcePtr *LifetimeConflictError
	assert.False(t, errors.As(err, &lcePtr), "a value is not found as a pointer, as before")

	// TimeoutError keeps its own Is
	assert.ErrorIs(t, TimeoutError{}, context.DeadlineExceeded)
}

func TestSentinels_RealBuildErrors(t *testing.T) {
	t.Run("circular", func(t *testing.T) {
		c := NewCollection()
		require.NoError(t, c.AddSingleton(func(*esB) *esA { return &esA{} }))
		require.NoError(t, c.AddSingleton(func(*esA) *esB { return &esB{} }))
		_, err := c.Build()
		require.Error(t, err)
		esAssertOnly(t, err, "circular")

		var cde *CircularDependencyError
		require.True(t, errors.As(err, &cde))
		assert.NotEmpty(t, cde.Path)
	})

	t.Run("lifetime conflict through group", func(t *testing.T) {
		c := NewCollection()
		require.NoError(t, c.AddScoped(func() *esLeaf { return &esLeaf{} }, Group("g")))
		type in struct {
			In
			Leaves []*esLeaf `group:"g"`
		}
		require.NoError(t, c.AddSingleton(func(in) *esMid { return &esMid{} }))
		_, err := c.Build()
		require.Error(t, err)
		esAssertOnly(t, err, "lifetime conflict")

		var lce *LifetimeConflictError
		require.True(t, errors.As(err, &lce))
		assert.Equal(t, Scoped, lce.DependencyLifetime)
	})

	t.Run("missing dependency", func(t *testing.T) {
		c := NewCollection()
		require.NoError(t, c.AddTransient(func(l *esLeaf) *esMid { return &esMid{l} }))
		_, err := c.Build()
		require.Error(t, err)
		esAssertOnly(t, err, "not found")
	})

	t.Run("singleton panic, then a clean second build", func(t *testing.T) {
		fail := true
		c := NewCollection()
		require.NoError(t, c.AddSingleton(func() *esLeaf {
			if fail {
				panic(errESBoom)
			}
			return &esLeaf{}
		}))
		_, err := c.Build()
		require.Error(t, err)
		esAssertOnly(t, err, "panic")
		var cpe *ConstructorPanicError
		require.True(t, errors.As(err, &cpe))
		assert.Equal(t, errESBoom, cpe.Panic)

		fail = false
		p, err := c.Build()
		require.NoError(t, err)
		require.NoError(t, p.Close())
	})

	t.Run("constructor error matches no sentinel but its own cause", func(t *testing.T) {
		c := NewCollection()
		require.NoError(t, c.AddSingleton(func() (*esLeaf, error) { return nil, errESBoom }))
		_, err := c.Build()
		require.Error(t, err)
		esAssertOnly(t, err, "")
		assert.ErrorIs(t, err, errESBoom)
	})
}

func TestSentinels_RegistrationAndModules(t *testing.T) {
	c := NewCollection()
	require.NoError(t, c.AddSingleton(func() *esLeaf { return &esLeaf{} }))
	require.NoError(t, c.AddSingleton(func() *esLeaf { return &esLeaf{} }, Name("k")))

	err := c.AddScoped(func() *esLeaf { return &esLeaf{} })
	esAssertOnly(t, err, "already registered")
	err = c.AddScoped(func() *esLeaf { return &esLeaf{} }, Name("k"))
	esAssertOnly(t, err, "already registered")

	err = c.AddModules(NewModule("outer", nil, NewModule("inner",
		AddTransient(func() *esA { return &esA{} }),
		AddTransient(func() *esLeaf { return &esLeaf{} }),
		AddTransient(func() *esB { return &esB{} }),
	)))
	esAssertOnly(t, err, "already registered")
	var me ModuleError
	require.True(t, errors.As(err, &me))
	assert.Equal(t, "outer", me.Module)

	// The registration before the failure stays, the one after it was not made
	assert.True(t, c.Contains(reflect.TypeOf(&esA{})))
	assert.False(t, c.Contains(reflect.TypeOf(&esB{})))

	// Groups accumulate: no error
	require.NoError(t, c.AddSingleton(func() *esMid { return &esMid{} }, Group("g")))
	require.NoError(t, c.AddSingleton(func() *esMid { return &esMid{} }, Group("g")))
}

func TestSentinels_ResolutionAndDisposal(t *testing.T) {
	c := NewCollection()
	require.NoError(t, c.AddScoped(func() *esLeaf { return &esLeaf{} }))
	require.NoError(t, c.AddScoped(func() *esCloser { return &esCloser{err: errESBoom} }))
	require.NoError(t, c.AddTransient(func() *esA { panic("es panic") }))
	require.NoError(t, c.AddScoped(func(*esA) *esB { return &esB{} }))
	p, err := c.Build()
	require.NoError(t, err)

	s, err := p.CreateScope(context.Background())
	require.NoError(t, err)
	child, err := s.CreateScope(context.Background())
	require.NoError(t, err)

	_, err = Resolve[*esMid](s)
	esAssertOnly(t, err, "not found")

	// A panic two levels down is still recognisable, and nothing is cached
	for i := 0; i < 2; i++ {
		_, err = Resolve[*esB](child)
		esAssertOnly(t, err, "panic")
	}

	_, err = Resolve[*esCloser](child)
	require.NoError(t, err)

	// The child's failing Close surfaces through the parent
	err = s.Close()
	esAssertOnly(t, err, "disposal")
	var de *DisposalError
	require.True(t, errors.As(err, &de))
	assert.Len(t, de.Errors, 1)
	assert.NoError(t, s.Close())
	assert.NoError(t, child.Close())

	_, err = Resolve[*esLeaf](child)
	esAssertOnly(t, err, "scope disposed")
	_, err = s.CreateScope(context.Background())
	esAssertOnly(t, err, "scope disposed")

	require.NoError(t, p.Close())
	_, err = Resolve[*esLeaf](p)
	esAssertOnly(t, err, "provider disposed")
}
