package graph_test

import (
	"math/rand"
	"reflect"
	"sync"
	"testing"

	"github.com/junioryono/godi/v4"
	"github.com/junioryono/godi/v4/internal/graph"
	"github.com/junioryono/godi/v4/internal/reflection"
	"github.com/stretchr/testify/assert"
	"github.com/stretchr/testify/require"
)

type (
	tdConfig  struct{}
	tdLogger  struct{}
	tdDB      struct{}
	tdRepo    struct{}
	tdService struct{}
	tdPlugin  struct{}
	tdOther   struct{}
)

var (
	tdTypeConfig  = reflect.TypeOf(tdConfig{})
	tdTypeLogger  = reflect.TypeOf(tdLogger{})
	tdTypeDB      = reflect.TypeOf(tdDB{})
	tdTypeRepo    = reflect.TypeOf(tdRepo{})
	tdTypeService = reflect.TypeOf(tdService{})
	tdTypePlugin  = reflect.TypeOf(tdPlugin{})
	tdTypeOther   = reflect.TypeOf(tdOther{})
)

func tdProvider(t reflect.Type, deps ...reflect.Type) *godi.Descriptor {
	d := &godi.Descriptor{Type: t, Lifetime: godi.Singleton}
	for _, dep := range deps {
		d.Dependencies = append(d.Dependencies, &reflection.Dependency{Type: dep})
	}
	return d
}

func tdKeys(types ...reflect.Type) []graph.NodeKey {
	keys := make([]graph.NodeKey, len(types))
	for i, t := range types {
		keys[i] = graph.NodeKey{Type: t}
	}
	return keys
}

func TestGetTransitiveDependents_Basic(t *testing.T) {
	g := graph.NewDependencyGraph()

	// Service -> Repo -> DB -> Config, Logger -> Config, Service -> Logger
	require.NoError(t, g.AddProvider(tdProvider(tdTypeConfig)))
	require.NoError(t, g.AddProvider(tdProvider(tdTypeLogger, tdTypeConfig)))
	require.NoError(t, g.AddProvider(tdProvider(tdTypeDB, tdTypeConfig)))
	require.NoError(t, g.AddProvider(tdProvider(tdTypeRepo, tdTypeDB)))
	require.NoError(t, g.AddProvider(tdProvider(tdTypeService, tdTypeRepo, tdTypeLogger)))
	require.NoError(t, g.AddProvider(tdProvider(tdTypeOther)))

	assert.ElementsMatch(t,
		tdKeys(tdTypeLogger, tdTypeDB, tdTypeRepo, tdTypeService),
		g.GetTransitiveDependents(tdTypeConfig, nil, ""))
	assert.ElementsMatch(t,
		tdKeys(tdTypeRepo, tdTypeService),
		g.GetTransitiveDependents(tdTypeDB, nil, ""))

	// Nearer dependents come first: DB and Logger (distance 1) before
	// Repo and Service (distance 2), each node listed once
	got := g.GetTransitiveDependents(tdTypeConfig, nil, "")
	require.Len(t, got, 4)
	assert.ElementsMatch(t, tdKeys(tdTypeLogger, tdTypeDB), got[:2])
	assert.ElementsMatch(t, tdKeys(tdTypeRepo, tdTypeService), got[2:])

	// Nothing depends on these: empty, but not nil, because they are nodes
	leaf := g.GetTransitiveDependents(tdTypeService, nil, "")
	assert.NotNil(t, leaf)
	assert.Empty(t, leaf)
	assert.Empty(t, g.GetTransitiveDependents(tdTypeOther, nil, ""))

	// Unknown service
	assert.Nil(t, g.GetTransitiveDependents(tdTypePlugin, nil, ""))
	assert.Nil(t, g.GetTransitiveDependents(tdTypeConfig, "no-such-key", ""))
	assert.Nil(t, g.GetTransitiveDependents(nil, nil, ""))

	// The caller owns the result
	got[0] = graph.NodeKey{}
	assert.NotContains(t, g.GetTransitiveDependents(tdTypeConfig, nil, ""), graph.NodeKey{})
}

func TestGetTransitiveDependents_GroupsAndKeys(t *testing.T) {
	for _, deferred := range []bool{false, true} {
		g := graph.NewDependencyGraph()
		add := g.AddProvider
		if deferred {
			add = g.AddProviderDeferred
		}

		// Service consumes the whole "plugins" group, one plugin needs the keyed DB
		require.NoError(t, add(&godi.Descriptor{
			Type:         tdTypeService,
			Dependencies: []*reflection.Dependency{{Type: tdTypePlugin, Group: "plugins"}},
		}))
		require.NoError(t, add(&godi.Descriptor{Type: tdTypeDB, Key: "main"}))
		require.NoError(t, add(&godi.Descriptor{Type: tdTypeDB, Key: "audit"}))
		require.NoError(t, add(&godi.Descriptor{Type: tdTypePlugin, Key: "p1", Group: "plugins",
			Dependencies: []*reflection.Dependency{{Type: tdTypeDB, Key: "main"}}}))
		require.NoError(t, add(&godi.Descriptor{Type: tdTypePlugin, Key: "p2", Group: "plugins"}))
		require.NoError(t, g.DetectCycles())

		p1 := graph.NodeKey{Type: tdTypePlugin, Key: "p1", Group: "plugins"}
		ref := graph.NodeKey{Type: tdTypePlugin, Group: "plugins"}
		service := graph.NodeKey{Type: tdTypeService}

		assert.Equal(t, []graph.NodeKey{p1, ref, service},
			g.GetTransitiveDependents(tdTypeDB, "main", ""), "deferred=%v", deferred)
		assert.Empty(t, g.GetTransitiveDependents(tdTypeDB, "audit", ""), "deferred=%v", deferred)
		assert.Equal(t, []graph.NodeKey{ref, service},
			g.GetTransitiveDependents(tdTypePlugin, "p2", "plugins"), "deferred=%v", deferred)

		// A removed member no longer connects its dependencies to the consumer
		g.RemoveProvider(tdTypePlugin, "p1", "plugins")
		assert.Empty(t, g.GetTransitiveDependents(tdTypeDB, "main", ""), "deferred=%v", deferred)
	}
}

func TestGetTransitiveDependents_DeferredBeforeDetectCycles(t *testing.T) {
	g := graph.NewDependencyGraph()

	require.NoError(t, g.AddProviderDeferred(tdProvider(tdTypeConfig)))
	require.NoError(t, g.AddProviderDeferred(tdProvider(tdTypeDB, tdTypeConfig)))
	require.NoError(t, g.AddProviderDeferred(tdProvider(tdTypeRepo, tdTypeDB)))

	// The per-node Dependents lists are only filled in by DetectCycles; the
	// transitive query derives the reverse edges itself
	assert.ElementsMatch(t, tdKeys(tdTypeDB, tdTypeRepo), g.GetTransitiveDependents(tdTypeConfig, nil, ""))

	// A deferred replacement drops the old edges
	require.NoError(t, g.AddProviderDeferred(tdProvider(tdTypeDB)))
	assert.Empty(t, g.GetTransitiveDependents(tdTypeConfig, nil, ""))
	assert.ElementsMatch(t, tdKeys(tdTypeRepo), g.GetTransitiveDependents(tdTypeDB, nil, ""))

	require.NoError(t, g.DetectCycles())
	assert.Empty(t, g.GetTransitiveDependents(tdTypeConfig, nil, ""))
}

func TestGetTransitiveDependents_CycleAndRejectedAdd(t *testing.T) {
	g := graph.NewDependencyGraph()
	require.NoError(t, g.AddProvider(tdProvider(tdTypeConfig)))
	require.NoError(t, g.AddProvider(tdProvider(tdTypeDB, tdTypeConfig)))
	require.NoError(t, g.AddProvider(tdProvider(tdTypeRepo, tdTypeDB)))

	// Rejected: Config -> Repo would close a cycle
	require.Error(t, g.AddProvider(tdProvider(tdTypeConfig, tdTypeRepo, tdTypeOther)))
	assert.Empty(t, g.GetTransitiveDependents(tdTypeRepo, nil, ""), "rejected edge must not show")
	assert.Nil(t, g.GetTransitiveDependents(tdTypeOther, nil, ""), "placeholder of the rejected add is gone")
	assert.ElementsMatch(t, tdKeys(tdTypeDB, tdTypeRepo), g.GetTransitiveDependents(tdTypeConfig, nil, ""))

	// A deferred add can leave a real cycle in the graph: the walk still
	// terminates and the service itself is not reported
	require.NoError(t, g.AddProviderDeferred(tdProvider(tdTypeConfig, tdTypeRepo)))
	require.Error(t, g.DetectCycles())
	assert.ElementsMatch(t, tdKeys(tdTypeDB, tdTypeRepo), g.GetTransitiveDependents(tdTypeConfig, nil, ""))
	assert.ElementsMatch(t, tdKeys(tdTypeConfig, tdTypeDB), g.GetTransitiveDependents(tdTypeRepo, nil, ""))
}

// The transitive dependents relation is the exact converse of the transitive
// dependencies relation, whatever sequence of operations built the graph.
func TestGetTransitiveDependents_ConverseOfTransitiveDependencies(t *testing.T) {
	const n = 10
	types := make([]reflect.Type, n)
	for i := range types {
		types[i] = reflect.ArrayOf(i+1, tdTypeConfig)
	}
	rng := rand.New(rand.NewSource(11))

	for round := 0; round < 50; round++ {
		g := graph.NewDependencyGraph()
		for i := 0; i < n; i++ {
			var deps []reflect.Type
			for j := 0; j < i; j++ {
				if rng.Intn(4) == 0 {
					deps = append(deps, types[j])
				}
			}
			if round%2 == 0 {
				require.NoError(t, g.AddProvider(tdProvider(types[i], deps...)))
			} else {
				require.NoError(t, g.AddProviderDeferred(tdProvider(types[i], deps...)))
			}
		}
		require.NoError(t, g.DetectCycles())

		// replace one, remove one
		require.NoError(t, g.AddProvider(tdProvider(types[rng.Intn(n)])))
		removed := rng.Intn(n)
		g.RemoveProvider(types[removed], nil, "")

		for x := 0; x < n; x++ {
			dependents := g.GetTransitiveDependents(types[x], nil, "")
			if x == removed {
				assert.Nil(t, dependents)
				continue
			}

			want := []graph.NodeKey{}
			for y := 0; y < n; y++ {
				for _, dep := range g.GetTransitiveDependencies(types[y], nil, "") {
					if dep.Type == types[x] {
						want = append(want, graph.NodeKey{Type: types[y]})
					}
				}
			}
			assert.ElementsMatch(t, want, dependents, "round %d node %d", round, x)

			// Direct dependents are the first entries
			direct := g.GetDependents(types[x], nil, "")
			require.GreaterOrEqual(t, len(dependents), len(direct))
			assert.ElementsMatch(t, direct, dependents[:len(direct)], "round %d node %d", round, x)
		}
	}
}

func TestGetTransitiveDependents_Concurrent(t *testing.T) {
	const n = 10
	types := make([]reflect.Type, n)
	for i := range types {
		types[i] = reflect.ArrayOf(i+1, tdTypeLogger)
	}

	g := graph.NewDependencyGraph()
	require.NoError(t, g.AddProvider(tdProvider(types[0])))

	var wg sync.WaitGroup
	wg.Add(1)
	go func() {
		defer wg.Done()
		for round := 0; round < 20; round++ {
			for i := 1; i < n; i++ {
				assert.NoError(t, g.AddProvider(tdProvider(types[i], types[i-1])))
			}
			for i := n - 1; i >= 1; i-- {
				g.RemoveProvider(types[i], nil, "")
			}
		}
	}()

	for r := 0; r < 4; r++ {
		wg.Add(1)
		go func() {
			defer wg.Done()
			for i := 0; i < 300; i++ {
				// The chain is built bottom-up and torn down top-down, so the
				// dependents of the root always form a prefix types[1..k]
				got := g.GetTransitiveDependents(types[0], nil, "")
				for idx, key := range got {
					assert.Equal(t, types[idx+1], key.Type)
				}
				_, _ = g.TopologicalSort()
			}
		}()
	}
	wg.Wait()
}
