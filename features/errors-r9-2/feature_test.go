package godi

import (
	"context"
	"errors"
	"sync"
	"sync/atomic"
	"testing"
	"time"

	"github.com/stretchr/testify/assert"
	"github.com/stretchr/testify/require"
)

// f2First is a disposable singleton; f2Second depends on it, so it is always
// constructed after it.
type f2First struct {
	closes   atomic.Int32
	closeErr error
}

func (f *f2First) Close() error {
	f.closes.Add(1)
	return f.closeErr
}

type f2Second struct{ First *f2First }

// f2Fixture registers f2First and f2Second; onFirst runs inside the constructor
// of f2First.
type f2Fixture struct {
	collection  Collection
	firstCalls  atomic.Int32
	secondCalls atomic.Int32

	mu     sync.Mutex
	firsts []*f2First
}

func newF2Fixture(t *testing.T, closeErr error, onFirst func()) *f2Fixture {
	t.Helper()

	f := &f2Fixture{collection: NewCollection()}
	require.NoError(t, f.collection.AddSingleton(func() *f2First {
		f.firstCalls.Add(1)
		first := &f2First{closeErr: closeErr}
		f.mu.Lock()
		f.firsts = append(f.firsts, first)
		f.mu.Unlock()
		if onFirst != nil {
			onFirst()
		}
		return first
	}))
	require.NoError(t, f.collection.AddSingleton(func(first *f2First) *f2Second {
		f.secondCalls.Add(1)
		return &f2Second{First: first}
	}))

	return f
}

func TestErrBuildCancelled(t *testing.T) {
	t.Parallel()

	t.Run("cancelled_before_start", func(t *testing.T) {
		t.Parallel()

		f := newF2Fixture(t, nil, nil)
		ctx, cancel := context.WithCancel(context.Background())
		cancel()

		p, err := f.collection.BuildWithContext(ctx)
		require.Error(t, err)
		assert.Nil(t, p)

		assert.ErrorIs(t, err, ErrBuildCancelled)
		assert.ErrorIs(t, err, context.Canceled)
		assert.NotErrorIs(t, err, context.DeadlineExceeded)

		var buildErr *BuildError
		require.ErrorAs(t, err, &buildErr)
		assert.Equal(t, "initialization", buildErr.Phase)
		assert.Equal(t, context.Canceled, buildErr.Cause)
		assert.Equal(t, "build failed during initialization phase: build cancelled before starting: context canceled", err.Error())

		assert.Zero(t, f.firstCalls.Load())
		assert.Zero(t, f.secondCalls.Load())
	})

	t.Run("cancelled_between_singletons_then_rebuilt", func(t *testing.T) {
		t.Parallel()

		ctx, cancel := context.WithCancel(context.Background())
		defer cancel()
		f := newF2Fixture(t, nil, cancel)

		p, err := f.collection.BuildWithContext(ctx)
		require.Error(t, err)
		assert.Nil(t, p)

		// Both the outer (singleton-creation) and the inner error are BuildErrors;
		// the sentinel and the context error are found through the chain
		assert.ErrorIs(t, err, ErrBuildCancelled)
		assert.ErrorIs(t, err, context.Canceled)
		var buildErr *BuildError
		require.ErrorAs(t, err, &buildErr)
		assert.Equal(t, "singleton-creation", buildErr.Phase)
		assert.Contains(t, err.Error(), "build cancelled during singleton creation: context canceled")

		// The singleton built before the cancellation was disposed exactly once,
		// the one after it never constructed
		assert.Equal(t, int32(1), f.firstCalls.Load())
		assert.Zero(t, f.secondCalls.Load())
		require.Len(t, f.firsts, 1)
		assert.Equal(t, int32(1), f.firsts[0].closes.Load())

		// The collection is unaffected: a build with a live context succeeds and
		// gets fresh singletons, constructed once
		p, err = f.collection.Build()
		require.NoError(t, err)
		second, err := Resolve[*f2Second](p)
		require.NoError(t, err)
		first, err := Resolve[*f2First](p)
		require.NoError(t, err)
		assert.Same(t, first, second.First)
		assert.NotSame(t, f.firsts[0], first)
		assert.Equal(t, int32(2), f.firstCalls.Load())
		assert.Equal(t, int32(1), f.secondCalls.Load())

		require.NoError(t, p.Close())
		assert.Equal(t, int32(1), first.closes.Load())
		assert.Equal(t, int32(1), f.firsts[0].closes.Load())
	})

	t.Run("build_timeout", func(t *testing.T) {
		t.Parallel()

		f := newF2Fixture(t, nil, func() { time.Sleep(100 * time.Millisecond) })

		p, err := f.collection.BuildWithOptions(&ProviderOptions{BuildTimeout: 10 * time.Millisecond})
		require.Error(t, err)
		assert.Nil(t, p)

		assert.ErrorIs(t, err, ErrBuildCancelled)
		assert.ErrorIs(t, err, context.DeadlineExceeded)
		assert.NotErrorIs(t, err, context.Canceled)

		assert.Zero(t, f.secondCalls.Load())
		require.Len(t, f.firsts, 1)
		assert.Equal(t, int32(1), f.firsts[0].closes.Load())
	})

	t.Run("failed_cleanup_keeps_the_sentinel", func(t *testing.T) {
		t.Parallel()

		errClose := errors.New("close failed")
		ctx, cancel := context.WithCancel(context.Background())
		defer cancel()
		f := newF2Fixture(t, errClose, cancel)

		_, err := f.collection.BuildWithContext(ctx)
		require.Error(t, err)

		var buildErr *BuildError
		require.ErrorAs(t, err, &buildErr)
		assert.Equal(t, "cleanup", buildErr.Phase)
		assert.ErrorIs(t, err, ErrBuildCancelled)

		var disposal *DisposalError
		assert.ErrorAs(t, buildErr.Cause, &disposal)

		require.Len(t, f.firsts, 1)
		assert.Equal(t, int32(1), f.firsts[0].closes.Load())
		assert.Zero(t, f.secondCalls.Load())
	})

	t.Run("constructor_context_error_is_not_a_cancelled_build", func(t *testing.T) {
		t.Parallel()

		c := NewCollection()
		require.NoError(t, c.AddSingleton(func() (*f2First, error) { return nil, context.Canceled }))

		ctx, cancel := context.WithCancel(context.Background())
		defer cancel()

		_, err := c.BuildWithContext(ctx)
		require.Error(t, err)
		assert.ErrorIs(t, err, context.Canceled)
		assert.NotErrorIs(t, err, ErrBuildCancelled)
	})

	t.Run("other_build_failures_do_not_match", func(t *testing.T) {
		t.Parallel()

		cyclic := NewCollection()
		require.NoError(t, cyclic.AddSingleton(NewTCircularA))
		require.NoError(t, cyclic.AddSingleton(NewTCircularB))
		_, err := cyclic.Build()
		require.Error(t, err)
		assert.NotErrorIs(t, err, ErrBuildCancelled)
		var circular *CircularDependencyError
		assert.ErrorAs(t, err, &circular)

		conflict := NewCollection()
		require.NoError(t, conflict.AddScoped(func() *f2First { return &f2First{} }))
		require.NoError(t, conflict.AddSingleton(func(first *f2First) *f2Second { return &f2Second{First: first} }))
		_, err = conflict.Build()
		require.Error(t, err)
		assert.NotErrorIs(t, err, ErrBuildCancelled)
		var lifetime *LifetimeConflictError
		assert.ErrorAs(t, err, &lifetime)

		// Hand-made build errors never match, whatever their cause
		assert.NotErrorIs(t, BuildError{Phase: "graph", Cause: context.Canceled}, ErrBuildCancelled)
		assert.NotErrorIs(t, &BuildError{Phase: "graph", Cause: ErrBuildCancelled}, context.Canceled)
		assert.ErrorIs(t, &BuildError{Phase: "graph", Cause: ErrBuildCancelled}, ErrBuildCancelled)
	})

	t.Run("concurrent_builds", func(t *testing.T) {
		t.Parallel()

		f := newF2Fixture(t, nil, nil)
		cancelled, cancel := context.WithCancel(context.Background())
		cancel()

		var wg sync.WaitGroup
		for i := 0; i < 8; i++ {
			wg.Add(1)
			go func(i int) {
				defer wg.Done()

				if i%2 == 0 {
					_, err := f.collection.BuildWithContext(cancelled)
					assert.ErrorIs(t, err, ErrBuildCancelled)
					assert.ErrorIs(t, err, context.Canceled)
					return
				}

				p, err := f.collection.BuildWithContext(context.Background())
				if assert.NoError(t, err) {
					second, err := Resolve[*f2Second](p)
					assert.NoError(t, err)
					assert.NoError(t, p.Close())
					assert.Equal(t, int32(1), second.First.closes.Load())
				}
			}(i)
		}
		wg.Wait()

		assert.Equal(t, int32(4), f.firstCalls.Load())
		assert.Equal(t, int32(4), f.secondCalls.Load())
	})
}
