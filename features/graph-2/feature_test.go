package graph_test

import (
	"errors"
	"math/rand"
	"reflect"
	"slices"
	"sync"
	"testing"

	"github.com/junioryono/godi/v4/internal/graph"
	"github.com/junioryono/godi/v4/internal/reflection"
	"github.com/stretchr/testify/assert"
	"github.com/stretchr/testify/require"
)

// Named types so that the expected order can be read off the names.
type (
	stableA struct{}
	stableB struct{}
	stableC struct{}
	stableD struct{}
	stableE struct{}
	stableF struct{}
)

var (
	stA = reflect.TypeOf(stableA{})
	stB = reflect.TypeOf(stableB{})
	stC = reflect.TypeOf(stableC{})
	stD = reflect.TypeOf(stableD{})
	stE = reflect.TypeOf(stableE{})
	stF = reflect.TypeOf(stableF{})
)

// stableProvider is a minimal graph.Provider.
type stableProvider struct {
	typ   reflect.Type
	key   any
	group string
	deps  []*reflection.Dependency
}

func (p *stableProvider) GetType() reflect.Type                     { return p.typ }
func (p *stableProvider) GetKey() any                               { return p.key }
func (p *stableProvider) GetGroup() string                          { return p.group }
func (p *stableProvider) GetDependencies() []*reflection.Dependency { return p.deps }

func stableOn(t reflect.Type, deps ...reflect.Type) *stableProvider {
	p := &stableProvider{typ: t}
	for _, d := range deps {
		p.deps = append(p.deps, &reflection.Dependency{Type: d})
	}
	return p
}

func stableKey(t reflect.Type) graph.NodeKey { return graph.NodeKey{Type: t} }

// stableCheckOrder verifies that order lists every node of g exactly once with
// all dependencies of a node before it.
func stableCheckOrder(t *testing.T, g *graph.DependencyGraph, order []graph.NodeKey) {
	t.Helper()
	require.Len(t, order, g.Size())
	at := make(map[graph.NodeKey]int, len(order))
	for i, k := range order {
		_, dup := at[k]
		require.False(t, dup, "%v listed twice", k)
		require.True(t, g.HasNode(k.Type, k.Key, k.Group))
		at[k] = i
	}
	for _, k := range order {
		for _, d := range g.GetDependencies(k.Type, k.Key, k.Group) {
			require.Less(t, at[d], at[k], "%v must come before %v", d, k)
		}
	}
}

func TestTopologicalSortStable_SmallestReadyFirst(t *testing.T) {
	// F -> B, E -> {A, F}, D -> C; A, B, C free
	providers := []*stableProvider{
		stableOn(stA), stableOn(stB), stableOn(stC),
		stableOn(stD, stC), stableOn(stE, stA, stF), stableOn(stF, stB),
	}
	// A, B, C are ready first; B releases F, C releases D; F releases E
	want := []graph.NodeKey{stableKey(stA), stableKey(stB), stableKey(stC), stableKey(stD), stableKey(stF), stableKey(stE)}

	rng := rand.New(rand.NewSource(1))
	for round := 0; round < 30; round++ {
		rng.Shuffle(len(providers), func(i, j int) { providers[i], providers[j] = providers[j], providers[i] })

		g := graph.NewDependencyGraph()
		for _, p := range providers {
			if round%2 == 0 {
				require.NoError(t, g.AddProvider(p))
			} else {
				require.NoError(t, g.AddProviderDeferred(p))
			}
		}
		require.NoError(t, g.DetectCycles())

		got, err := g.TopologicalSortStable()
		require.NoError(t, err)
		require.Equal(t, want, got, "round %d", round)
		stableCheckOrder(t, g, got)

		// same answer when asked again, and the slice belongs to the caller
		got[0], got[1] = got[1], got[0]
		again, err := g.TopologicalSortStable()
		require.NoError(t, err)
		require.Equal(t, want, again)

		// the unordered variant is still a valid order of the same nodes
		nodes, err := g.TopologicalSort()
		require.NoError(t, err)
		require.Len(t, nodes, len(want))
	}
}

func TestTopologicalSortStable_EmptyAndPlaceholders(t *testing.T) {
	g := graph.NewDependencyGraph()
	got, err := g.TopologicalSortStable()
	require.NoError(t, err)
	assert.Empty(t, got)
	assert.NotNil(t, got)

	// B is only known as a dependency: it is a node and is listed
	require.NoError(t, g.AddProvider(stableOn(stA, stB)))
	got, err = g.TopologicalSortStable()
	require.NoError(t, err)
	assert.Equal(t, []graph.NodeKey{stableKey(stB), stableKey(stA)}, got)

	// a nil type does not break the ordering
	require.NoError(t, g.AddProvider(&stableProvider{typ: nil, key: "x"}))
	got, err = g.TopologicalSortStable()
	require.NoError(t, err)
	assert.Equal(t, []graph.NodeKey{{Key: "x"}, stableKey(stB), stableKey(stA)}, got)
}

func TestTopologicalSortStable_KeysGroupsAndDuplicateEdges(t *testing.T) {
	g := graph.NewDependencyGraph()
	// the consumer of the group is registered before its members
	require.NoError(t, g.AddProviderDeferred(&stableProvider{typ: stD, deps: []*reflection.Dependency{
		{Type: stB, Group: "g"},
		{Type: stA, Key: "two"}, {Type: stA, Key: "two"}, // the same dependency twice
	}}))
	require.NoError(t, g.AddProviderDeferred(&stableProvider{typ: stB, key: 2, group: "g", deps: []*reflection.Dependency{{Type: stC}}}))
	require.NoError(t, g.AddProviderDeferred(&stableProvider{typ: stB, key: 1, group: "g"}))
	require.NoError(t, g.AddProviderDeferred(&stableProvider{typ: stA, key: "two"}))
	require.NoError(t, g.AddProviderDeferred(&stableProvider{typ: stA, key: "one"}))
	require.NoError(t, g.AddProviderDeferred(stableOn(stC)))
	require.NoError(t, g.DetectCycles())

	got, err := g.TopologicalSortStable()
	require.NoError(t, err)
	stableCheckOrder(t, g, got)
	assert.Equal(t, []graph.NodeKey{
		{Type: stA, Key: "one"},
		{Type: stA, Key: "two"},
		{Type: stB, Key: 1, Group: "g"},
		{Type: stC},
		{Type: stB, Key: 2, Group: "g"},
		{Type: stB, Group: "g"}, // the group as a whole, after all its members
		{Type: stD},
	}, got)
}

func TestTopologicalSortStable_Cycle(t *testing.T) {
	g := graph.NewDependencyGraph()
	// D -> A -> B -> C -> A, E free, F -> D
	require.NoError(t, g.AddProviderDeferred(stableOn(stF, stD)))
	require.NoError(t, g.AddProviderDeferred(stableOn(stD, stA)))
	require.NoError(t, g.AddProviderDeferred(stableOn(stC, stE, stA)))
	require.NoError(t, g.AddProviderDeferred(stableOn(stB, stC)))
	require.NoError(t, g.AddProviderDeferred(stableOn(stA, stE, stB)))
	require.NoError(t, g.AddProviderDeferred(stableOn(stE)))

	for i := 0; i < 5; i++ {
		got, err := g.TopologicalSortStable()
		require.Error(t, err)
		assert.Nil(t, got)

		var cErr *graph.CircularDependencyError
		require.True(t, errors.As(err, &cErr))
		assert.Contains(t, err.Error(), "circular dependency")

		// the reported path is a real cycle, and always the same one
		assert.Equal(t, []graph.NodeKey{stableKey(stA), stableKey(stB), stableKey(stC), stableKey(stA)}, cErr.Path)
		assert.Equal(t, stableKey(stA), cErr.Node)
		for j := 0; j+1 < len(cErr.Path); j++ {
			from, to := cErr.Path[j], cErr.Path[j+1]
			assert.Contains(t, g.GetDependencies(from.Type, from.Key, from.Group), to)
		}
	}
	require.Error(t, g.DetectCycles())

	// self dependency
	g2 := graph.NewDependencyGraph()
	require.NoError(t, g2.AddProviderDeferred(stableOn(stA, stA)))
	_, err := g2.TopologicalSortStable()
	var cErr *graph.CircularDependencyError
	require.True(t, errors.As(err, &cErr))
	assert.Equal(t, []graph.NodeKey{stableKey(stA), stableKey(stA)}, cErr.Path)

	// breaking the cycle makes the sort succeed again: nothing is cached
	require.NoError(t, g.AddProviderDeferred(stableOn(stB, stE)))
	require.NoError(t, g.DetectCycles())
	got, err := g.TopologicalSortStable()
	require.NoError(t, err)
	stableCheckOrder(t, g, got)
	assert.Equal(t, []graph.NodeKey{stableKey(stE), stableKey(stB), stableKey(stA), stableKey(stC), stableKey(stD), stableKey(stF)}, got)
}

func TestTopologicalSortStable_FollowsMutations(t *testing.T) {
	g := graph.NewDependencyGraph()
	require.NoError(t, g.AddProvider(stableOn(stA, stB)))
	require.NoError(t, g.AddProvider(stableOn(stB, stC)))
	require.NoError(t, g.AddProvider(stableOn(stC)))

	sorted := func() []graph.NodeKey {
		t.Helper()
		got, err := g.TopologicalSortStable()
		require.NoError(t, err)
		stableCheckOrder(t, g, got)
		return got
	}
	assert.Equal(t, []graph.NodeKey{stableKey(stC), stableKey(stB), stableKey(stA)}, sorted())

	// a rejected add changes nothing
	require.Error(t, g.AddProvider(stableOn(stC, stA)))
	assert.Equal(t, []graph.NodeKey{stableKey(stC), stableKey(stB), stableKey(stA)}, sorted())

	// replace: A no longer depends on B
	require.NoError(t, g.AddProvider(stableOn(stA)))
	assert.Equal(t, []graph.NodeKey{stableKey(stA), stableKey(stC), stableKey(stB)}, sorted())

	g.RemoveProvider(stC, nil, "")
	assert.Equal(t, []graph.NodeKey{stableKey(stA), stableKey(stB)}, sorted())

	g.Clear()
	assert.Empty(t, sorted())
}

func TestTopologicalSortStable_RandomGraphsAndPermutations(t *testing.T) {
	rng := rand.New(rand.NewSource(2))
	typeOf := func(i int) reflect.Type { return reflect.ArrayOf(i+1, reflect.TypeOf(0)) }

	for round := 0; round < 50; round++ {
		n := 2 + rng.Intn(14)
		providers := make([]*stableProvider, n)
		for i := range providers {
			p := &stableProvider{typ: typeOf(i)}
			for d := 0; d < i; d++ {
				if rng.Intn(4) == 0 {
					p.deps = append(p.deps, &reflection.Dependency{Type: typeOf(d)})
				}
			}
			providers[i] = p
		}

		var first []graph.NodeKey
		for perm := 0; perm < 4; perm++ {
			rng.Shuffle(n, func(i, j int) { providers[i], providers[j] = providers[j], providers[i] })
			g := graph.NewDependencyGraphWithCapacity(n)
			for _, p := range providers {
				require.NoError(t, g.AddProviderDeferred(p))
			}
			require.NoError(t, g.DetectCycles())

			got, err := g.TopologicalSortStable()
			require.NoError(t, err)
			stableCheckOrder(t, g, got)
			if perm == 0 {
				first = got
			} else {
				require.Equal(t, first, got, "round %d: the order depends on the registration order", round)
			}
		}
	}
}

func TestTopologicalSortStable_Concurrent(t *testing.T) {
	g := graph.NewDependencyGraph()
	require.NoError(t, g.AddProvider(stableOn(stA)))
	require.NoError(t, g.AddProvider(stableOn(stB, stA)))
	require.NoError(t, g.AddProvider(stableOn(stC, stB)))

	var wg sync.WaitGroup
	for w := 0; w < 4; w++ {
		wg.Add(2)
		go func() {
			defer wg.Done()
			for i := 0; i < 200; i++ {
				_ = g.AddProvider(stableOn(stD, stC))
				_ = g.AddProviderDeferred(stableOn(stE, stD))
				_ = g.DetectCycles()
				_, _ = g.TopologicalSort()
				g.RemoveProvider(stE, nil, "")
				g.RemoveProvider(stD, nil, "")
			}
		}()
		go func() {
			defer wg.Done()
			for i := 0; i < 200; i++ {
				got, err := g.TopologicalSortStable()
				assert.NoError(t, err)
				a := slices.Index(got, stableKey(stA))
				b := slices.Index(got, stableKey(stB))
				c := slices.Index(got, stableKey(stC))
				assert.True(t, 0 <= a && a < b && b < c, "%v", got)
				if len(got) > 0 {
					got[0] = graph.NodeKey{}
				}
			}
		}()
	}
	wg.Wait()
}
