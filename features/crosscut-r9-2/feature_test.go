package godi

import (
	"context"
	"reflect"
	"sync"
	"testing"
	"time"

	"github.com/stretchr/testify/assert"
	"github.com/stretchr/testify/require"
)

type wsScoped struct{ scopeID string }

func wsProvider(t *testing.T) Provider {
	t.Helper()
	c := NewCollection()
	require.NoError(t, c.AddScoped(func(s Scope) *wsScoped { return &wsScoped{scopeID: s.ID()} }))
	p, err := c.Build()
	require.NoError(t, err)
	t.Cleanup(func() { _ = p.Close() })
	return p
}

func wsScope(t *testing.T, parent Provider) Scope {
	t.Helper()
	s, err := parent.CreateScope(context.Background())
	require.NoError(t, err)
	return s
}

type wsVisit struct {
	id    string
	depth int
}

func wsCollect(t *testing.T, root Provider) []wsVisit {
	t.Helper()
	var visits []wsVisit
	require.NoError(t, WalkScopes(root, func(s Scope, depth int) bool {
		visits = append(visits, wsVisit{s.ID(), depth})
		return true
	}))
	return visits
}

func TestWalkScopes_TreeOrder(t *testing.T) {
	p := wsProvider(t)

	assert.Empty(t, wsCollect(t, p), "the internal root scope is not visited")

	a := wsScope(t, p)
	b := wsScope(t, p)
	a1 := wsScope(t, a)
	a2 := wsScope(t, a)
	a11 := wsScope(t, a1)
	b1 := wsScope(t, b)

	assert.Equal(t, []wsVisit{
		{a.ID(), 0}, {a1.ID(), 1}, {a11.ID(), 2}, {a2.ID(), 1},
		{b.ID(), 0}, {b1.ID(), 1},
	}, wsCollect(t, p))

	assert.Equal(t, []wsVisit{
		{a.ID(), 0}, {a1.ID(), 1}, {a11.ID(), 2}, {a2.ID(), 1},
	}, wsCollect(t, a), "walking from a scope starts with that scope")

	// The visitor receives the very scopes, usable as such
	require.NoError(t, WalkScopes(a1, func(s Scope, depth int) bool {
		if depth == 0 {
			assert.Same(t, a1, s)
		} else {
			assert.Same(t, a11, s)
		}
		fromCtx, err := FromContext(s.Context())
		require.NoError(t, err)
		assert.Same(t, s, fromCtx)

		svc, err := Resolve[*wsScoped](s)
		require.NoError(t, err)
		assert.Equal(t, s.ID(), svc.scopeID)
		return true
	}))

	// Returning false ends the whole walk
	var seen []string
	require.NoError(t, WalkScopes(p, func(s Scope, _ int) bool {
		seen = append(seen, s.ID())
		return s != a1
	}))
	assert.Equal(t, []string{a.ID(), a1.ID()}, seen)

	// Closing a scope removes its whole subtree from later walks
	require.NoError(t, a1.Close())
	assert.Equal(t, []wsVisit{{a.ID(), 0}, {a2.ID(), 1}, {b.ID(), 0}, {b1.ID(), 1}}, wsCollect(t, p))

	require.NoError(t, a.Close())
	require.NoError(t, b.Close())
	assert.Empty(t, wsCollect(t, p), "closed scopes are not kept")
}

func TestWalkScopes_ClosedAndInvalidRoots(t *testing.T) {
	p := wsProvider(t)
	s := wsScope(t, p)
	child := wsScope(t, s)
	visit := func(Scope, int) bool { return true }

	assert.ErrorIs(t, WalkScopes(nil, visit), ErrProviderNil)

	var validationErr *ValidationError
	assert.ErrorAs(t, WalkScopes(p, nil), &validationErr)
	assert.ErrorAs(t, WalkScopes(wsForeign{p}, visit), &validationErr)

	require.NoError(t, s.Close())
	assert.ErrorIs(t, WalkScopes(s, visit), ErrScopeDisposed)
	assert.ErrorIs(t, WalkScopes(child, visit), ErrScopeDisposed, "closing a scope closes its descendants")
	assert.NoError(t, WalkScopes(p, visit))

	// Cancelling its context closes a scope, and the walk no longer sees it
	ctx, cancel := context.WithCancel(context.Background())
	cancelled, err := p.CreateScope(ctx)
	require.NoError(t, err)
	cancel()
	require.Eventually(t, func() bool {
		_, getErr := cancelled.Get(reflect.TypeOf((*wsScoped)(nil)))
		return getErr != nil
	}, 2*time.Second, time.Millisecond)
	assert.Empty(t, wsCollect(t, p))

	require.NoError(t, p.Close())
	assert.ErrorIs(t, WalkScopes(p, visit), ErrProviderDisposed)
}

// wsForeign is a Provider that is not one of the container's own.
type wsForeign struct{ Provider }

func TestWalkScopes_VisitorChangesTheTree(t *testing.T) {
	p := wsProvider(t)
	a := wsScope(t, p)
	a1 := wsScope(t, a)
	a2 := wsScope(t, a)
	b := wsScope(t, p)

	var (
		seen  []string
		added Scope
	)
	require.NoError(t, WalkScopes(p, func(s Scope, depth int) bool {
		seen = append(seen, s.ID())
		switch s {
		case a:
			// Children are listed after their parent has been visited
			require.NoError(t, a2.Close())
			added = wsScope(t, a)
		case a1:
			// b was listed before the walk began, and is closed before its turn
			require.NoError(t, b.Close())
		}
		return true
	}))
	assert.Equal(t, []string{a.ID(), a1.ID(), added.ID()}, seen)

	// A panicking visitor is reported and leaves the tree usable
	err := WalkScopes(p, func(Scope, int) bool { panic("boom") })
	require.Error(t, err)
	assert.Contains(t, err.Error(), "boom")
	assert.Equal(t, []wsVisit{{a.ID(), 0}, {a1.ID(), 1}, {added.ID(), 1}}, wsCollect(t, p))
	wsScope(t, a1)
	assert.Len(t, wsCollect(t, p), 4)
}

func TestWalkScopes_Concurrent(t *testing.T) {
	p := wsProvider(t)

	const workers = 6
	var wg sync.WaitGroup
	stop := make(chan struct{})

	// Churn: request-like scopes with a nested scope, created and closed
	for i := 0; i < workers; i++ {
		wg.Add(1)
		go func() {
			defer wg.Done()
			for {
				select {
				case <-stop:
					return
				default:
				}

				s, err := p.CreateScope(context.Background())
				if !assert.NoError(t, err) {
					return
				}
				child, err := s.CreateScope(context.Background())
				if !assert.NoError(t, err) {
					return
				}
				_, err = Resolve[*wsScoped](child)
				assert.NoError(t, err)
				assert.NoError(t, s.Close())
			}
		}()
	}

	for i := 0; i < 200; i++ {
		seen := map[string]struct{}{}
		err := WalkScopes(p, func(s Scope, depth int) bool {
			_, dup := seen[s.ID()]
			assert.False(t, dup, "a scope is visited at most once per walk")
			seen[s.ID()] = struct{}{}
			assert.LessOrEqual(t, depth, 1)

			// A visited scope works, or has been closed meanwhile
			svc, err := Resolve[*wsScoped](s)
			if err != nil {
				assert.ErrorIs(t, err, ErrScopeDisposed)
			} else {
				assert.Equal(t, s.ID(), svc.scopeID)
			}
			return true
		})
		assert.NoError(t, err)
	}

	close(stop)
	wg.Wait()
	assert.Empty(t, wsCollect(t, p))
}
