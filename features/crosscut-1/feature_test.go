package godi

import (
	"context"
	"errors"
	"sync"
	"sync/atomic"
	"testing"

	"github.com/stretchr/testify/assert"
	"github.com/stretchr/testify/require"
)

// hookCloser counts how often it was closed.
type hookCloser struct {
	id     int32
	closed atomic.Int32
}

func (c *hookCloser) Close() error {
	c.closed.Add(1)
	return nil
}

func (c *hookCloser) GetID() string { return "hook-closer" }

func TestOnCreate_RunsOncePerConstructedInstance(t *testing.T) {
	t.Parallel()

	var singletonCalls, scopedCalls, transientCalls atomic.Int32
	var order []string

	c := NewCollection()
	require.NoError(t, c.AddSingleton(NewTService,
		OnCreate(func(s *TService) error { order = append(order, "first"); singletonCalls.Add(1); return nil }),
		OnCreate(func(s TInterface) error { order = append(order, "second:"+s.GetID()); return nil }),
	))
	require.NoError(t, c.AddScoped(NewTScoped, OnCreate(func(*TScoped) error { scopedCalls.Add(1); return nil })))
	require.NoError(t, c.AddTransient(NewTTransient, OnCreate(func(any) error { transientCalls.Add(1); return nil })))

	p, err := c.Build()
	require.NoError(t, err)
	defer p.Close()

	// Singleton hooks ran at Build, in option order, and never again
	assert.Equal(t, []string{"first", "second:test"}, order)
	s1, err := p.CreateScope(context.Background())
	require.NoError(t, err)
	s2, err := s1.CreateScope(context.Background())
	require.NoError(t, err)
	for _, r := range []Provider{p, s1, s2} {
		_, err := Resolve[*TService](r)
		require.NoError(t, err)
	}
	assert.EqualValues(t, 1, singletonCalls.Load())

	// Scoped: once per scope that resolves it, the cached instance does not re-run it
	a, err := Resolve[*TScoped](s1)
	require.NoError(t, err)
	b, err := Resolve[*TScoped](s1)
	require.NoError(t, err)
	assert.Same(t, a, b)
	assert.EqualValues(t, 1, scopedCalls.Load())
	_, err = Resolve[*TScoped](s2)
	require.NoError(t, err)
	assert.EqualValues(t, 2, scopedCalls.Load())

	// Transient: once per resolution
	for i := 0; i < 3; i++ {
		_, err = Resolve[*TTransient](s1)
		require.NoError(t, err)
	}
	assert.EqualValues(t, 3, transientCalls.Load())

	// A second Build constructs its own singleton and runs the hooks for it
	p2, err := c.Build()
	require.NoError(t, err)
	defer p2.Close()
	assert.EqualValues(t, 2, singletonCalls.Load())
}

func TestOnCreate_SeesTheInstanceThatIsResolved(t *testing.T) {
	t.Parallel()

	var seen sync.Map
	remember := func(name string) AddOption {
		return OnCreate(func(s *TService) error { seen.Store(name, s); return nil })
	}

	p := BuildProvider(t, NewModule("hooks",
		AddSingleton(NewTServiceWithID("plain"), remember("plain")),
		AddSingleton(NewTServiceWithID("named"), Name("n"), remember("named")),
		AddSingleton(NewTServiceWithID("grouped"), Group("g"), remember("grouped")),
		AddSingleton(NewTServiceWithID("alias"), As[TInterface](), remember("alias")),
	))

	plain := RequireResolve[*TService](t, p)
	named := RequireResolveKeyed[*TService](t, p, "n")
	grouped, err := ResolveGroup[*TService](p, "g")
	require.NoError(t, err)
	require.Len(t, grouped, 1)
	alias := RequireResolve[TInterface](t, p)

	for name, want := range map[string]any{"plain": plain, "named": named, "grouped": grouped[0], "alias": alias} {
		got, ok := seen.Load(name)
		require.True(t, ok, name)
		assert.Same(t, want, got, name)
		assert.Equal(t, name, got.(*TService).ID)
	}
}

func TestOnCreate_FailingHookFailsTheResolutionWithoutCaching(t *testing.T) {
	t.Parallel()

	hookErr := errors.New("not ready")
	var fail atomic.Bool
	fail.Store(true)
	var constructed []*hookCloser
	var deps atomic.Int32

	c := NewCollection()
	require.NoError(t, c.AddScoped(func() *TDependency { deps.Add(1); return &TDependency{} }))
	require.NoError(t, c.AddScoped(func(*TDependency) *hookCloser {
		hc := &hookCloser{id: int32(len(constructed))}
		constructed = append(constructed, hc)
		return hc
	}, OnCreate(func(*hookCloser) error {
		if fail.Load() {
			return hookErr
		}
		return nil
	})))

	p, err := c.Build()
	require.NoError(t, err)
	defer p.Close()
	s, err := p.CreateScope(context.Background())
	require.NoError(t, err)

	_, err = Resolve[*hookCloser](s)
	require.Error(t, err)
	assert.ErrorIs(t, err, hookErr)
	var invocation *ConstructorInvocationError
	assert.ErrorAs(t, err, &invocation)
	assert.NotErrorIs(t, err, ErrServiceNotFound)

	// Not cached: the retry constructs again; the dependency built on the way stays
	_, err = Resolve[*hookCloser](s)
	require.ErrorIs(t, err, hookErr)
	require.Len(t, constructed, 2)
	assert.EqualValues(t, 1, deps.Load())

	fail.Store(false)
	ok1, err := Resolve[*hookCloser](s)
	require.NoError(t, err)
	ok2, err := Resolve[*hookCloser](s)
	require.NoError(t, err)
	assert.Same(t, ok1, ok2)
	require.Len(t, constructed, 3)
	assert.Same(t, constructed[2], ok1)

	// The rejected instances are owned by the scope: closed with it, not before, once
	for _, hc := range constructed {
		assert.EqualValues(t, 0, hc.closed.Load())
	}
	require.NoError(t, s.Close())
	require.NoError(t, s.Close())
	for _, hc := range constructed {
		assert.EqualValues(t, 1, hc.closed.Load())
	}
	require.NoError(t, p.Close())
	for _, hc := range constructed {
		assert.EqualValues(t, 1, hc.closed.Load())
	}
}

func TestOnCreate_PanickingHookIsReportedAsError(t *testing.T) {
	t.Parallel()

	p := BuildProvider(t, AddTransient(NewTService, OnCreate(func(*TService) error { panic("boom") })))

	var err error
	require.NotPanics(t, func() { _, err = Resolve[*TService](p) })
	var panicErr *ConstructorPanicError
	require.ErrorAs(t, err, &panicErr)
	assert.Equal(t, "boom", panicErr.Panic)
}

func TestOnCreate_FailingSingletonHookFailsBuildAndReleasesEverything(t *testing.T) {
	t.Parallel()

	hookErr := errors.New("refused")
	first := &hookCloser{}
	rejected := &hookCloser{}

	c := NewCollection()
	require.NoError(t, c.AddSingleton(func() *hookCloser { return first }, Name("first")))
	require.NoError(t, c.AddSingleton(func(in struct {
		In
		First *hookCloser `name:"first"`
	}) *hookCloser {
		return rejected
	}, OnCreate(func(*hookCloser) error { return hookErr })))

	p, err := c.Build()
	require.Nil(t, p)
	require.ErrorIs(t, err, hookErr)
	var buildErr *BuildError
	require.ErrorAs(t, err, &buildErr)

	assert.EqualValues(t, 1, first.closed.Load())
	assert.EqualValues(t, 1, rejected.closed.Load())
}

func TestOnCreate_HookThatClosesTheScope(t *testing.T) {
	t.Parallel()

	var scope Scope
	var made *hookCloser
	c := NewCollection()
	require.NoError(t, c.AddScoped(func() *hookCloser { made = &hookCloser{}; return made },
		OnCreate(func(*hookCloser) error { return scope.Close() })))

	p, err := c.Build()
	require.NoError(t, err)
	defer p.Close()
	scope, err = p.CreateScope(context.Background())
	require.NoError(t, err)

	_, err = Resolve[*hookCloser](scope)
	require.ErrorIs(t, err, ErrScopeDisposed)
	assert.EqualValues(t, 1, made.closed.Load())
	require.NoError(t, scope.Close())
	assert.EqualValues(t, 1, made.closed.Load())
}

func TestOnCreate_RejectedRegistrations(t *testing.T) {
	t.Parallel()

	noop := OnCreate(func(any) error { return nil })
	cases := map[string]struct {
		service any
		opts    []AddOption
	}{
		"nil_hook":      {NewTService, []AddOption{OnCreate[*TService](nil)}},
		"wrong_type":    {NewTService, []AddOption{OnCreate(func(*TDependency) error { return nil })}},
		"instance":      {&TService{ID: "instance"}, []AddOption{noop}},
		"void":          {NewTVoid, []AddOption{noop}},
		"multi_return":  {NewTMultiReturn, []AddOption{noop}},
		"result_object": {NewTResult, []AddOption{noop}},
	}

	for name, tc := range cases {
		t.Run(name, func(t *testing.T) {
			c := NewCollection()
			require.NoError(t, c.AddSingleton(NewTDependency))

			err := c.AddModules(NewModule("m", AddScoped(tc.service, tc.opts...)))
			require.Error(t, err)
			var moduleErr ModuleError
			assert.ErrorAs(t, err, &moduleErr)

			// The collection is as it was
			assert.Equal(t, 1, c.Count())
			assert.False(t, c.Contains(PtrTypeOf[TService]()))
		})
	}

	// A constructor with an error return produces one service and is accepted
	c := NewCollection()
	require.NoError(t, c.AddScoped(NewTServiceWithError, noop))

	var mismatch *TypeMismatchError
	err := NewCollection().AddScoped(NewTService, OnCreate(func(*TDependency) error { return nil }))
	assert.ErrorAs(t, err, &mismatch)
}

func TestOnCreate_ConcurrentResolutions(t *testing.T) {
	t.Parallel()

	var constructed, hooked atomic.Int32
	p := BuildProvider(t,
		AddTransient(func() *hookCloser { return &hookCloser{id: constructed.Add(1)} },
			OnCreate(func(*hookCloser) error { hooked.Add(1); return nil })),
	)

	const scopes, perScope = 8, 25
	var wg sync.WaitGroup
	for i := 0; i < scopes; i++ {
		wg.Add(1)
		go func() {
			defer wg.Done()
			s, err := p.CreateScope(context.Background())
			if !assert.NoError(t, err) {
				return
			}
			seen := make(map[*hookCloser]struct{})
			for j := 0; j < perScope; j++ {
				hc, err := Resolve[*hookCloser](s)
				assert.NoError(t, err)
				seen[hc] = struct{}{}
			}
			assert.Len(t, seen, perScope)
			assert.NoError(t, s.Close())
			for hc := range seen {
				assert.EqualValues(t, 1, hc.closed.Load())
			}
		}()
	}
	wg.Wait()

	assert.EqualValues(t, scopes*perScope, constructed.Load())
	assert.EqualValues(t, scopes*perScope, hooked.Load())
}
