package godi

import (
	"context"
	"errors"
	"sync"
	"testing"
	"time"

	"github.com/stretchr/testify/assert"
	"github.com/stretchr/testify/require"
)

type scopeValueKey struct{ name string }

type scopeValueAnyKey struct{ v any }

func valuesOf(t *testing.T, s Scope) ScopeValues {
	t.Helper()
	v, ok := s.(ScopeValues)
	require.True(t, ok, "scopes created by the container implement ScopeValues")
	return v
}

func TestScopeValues_SetGetDelete(t *testing.T) {
	t.Parallel()

	s := valuesOf(t, BuildScope(t))

	_, ok := s.Value(scopeValueKey{"user"})
	assert.False(t, ok)

	require.NoError(t, s.SetValue(scopeValueKey{"user"}, "alice"))
	require.NoError(t, s.SetValue("plain", 42))
	require.NoError(t, s.SetValue(scopeValueKey{"nil"}, nil))

	v, ok := s.Value(scopeValueKey{"user"})
	assert.True(t, ok)
	assert.Equal(t, "alice", v)

	v, ok = s.Value("plain")
	assert.True(t, ok)
	assert.Equal(t, 42, v)

	// A stored nil is present
	v, ok = s.Value(scopeValueKey{"nil"})
	assert.True(t, ok)
	assert.Nil(t, v)

	// Keys are compared with their type
	_, ok = s.Value(scopeValueKey{"plain"})
	assert.False(t, ok)

	// Overwrite
	require.NoError(t, s.SetValue(scopeValueKey{"user"}, "bob"))
	v, _ = s.Value(scopeValueKey{"user"})
	assert.Equal(t, "bob", v)

	// Delete (twice, and of something that never existed)
	s.DeleteValue(scopeValueKey{"user"})
	s.DeleteValue(scopeValueKey{"user"})
	s.DeleteValue(scopeValueKey{"never"})
	_, ok = s.Value(scopeValueKey{"user"})
	assert.False(t, ok)
}

func TestScopeValues_InvalidKeysDoNotPanic(t *testing.T) {
	t.Parallel()

	s := valuesOf(t, BuildScope(t))

	bad := []any{
		nil,
		[]int{1},
		map[string]int{},
		func() {},
		scopeValueAnyKey{v: []int{1}}, // comparable type, unhashable value
	}

	for _, key := range bad {
		assert.NotPanics(t, func() {
			err := s.SetValue(key, 1)
			var validationErr *ValidationError
			assert.ErrorAs(t, err, &validationErr)

			_, ok := s.Value(key)
			assert.False(t, ok)

			s.DeleteValue(key)
		})
	}

	// The same struct type with a hashable payload is fine
	require.NoError(t, s.SetValue(scopeValueAnyKey{v: 1}, "ok"))
	v, ok := s.Value(scopeValueAnyKey{v: 1})
	assert.True(t, ok)
	assert.Equal(t, "ok", v)
}

func TestScopeValues_Hierarchy(t *testing.T) {
	t.Parallel()

	p := BuildProvider(t)
	parent, err := p.CreateScope(context.Background())
	require.NoError(t, err)
	child, err := parent.CreateScope(context.Background())
	require.NoError(t, err)
	grandchild, err := child.CreateScope(context.Background())
	require.NoError(t, err)
	sibling, err := p.CreateScope(context.Background())
	require.NoError(t, err)

	require.NoError(t, valuesOf(t, parent).SetValue(scopeValueKey{"k"}, "parent"))

	// Inherited downwards, nearest first
	v, ok := valuesOf(t, grandchild).Value(scopeValueKey{"k"})
	assert.True(t, ok)
	assert.Equal(t, "parent", v)

	require.NoError(t, valuesOf(t, child).SetValue(scopeValueKey{"k"}, "child"))
	v, _ = valuesOf(t, grandchild).Value(scopeValueKey{"k"})
	assert.Equal(t, "child", v)
	v, _ = valuesOf(t, parent).Value(scopeValueKey{"k"})
	assert.Equal(t, "parent", v, "shadowing does not write through")

	// Never upwards or sideways
	require.NoError(t, valuesOf(t, grandchild).SetValue(scopeValueKey{"g"}, 1))
	_, ok = valuesOf(t, child).Value(scopeValueKey{"g"})
	assert.False(t, ok)
	_, ok = valuesOf(t, sibling).Value(scopeValueKey{"k"})
	assert.False(t, ok)

	// Nor into the provider's root scope
	root, err := p.Get(TypeOf[Scope]())
	require.NoError(t, err)
	_, ok = valuesOf(t, root.(Scope)).Value(scopeValueKey{"k"})
	assert.False(t, ok)

	// Deleting the shadow makes the inherited value visible again
	valuesOf(t, child).DeleteValue(scopeValueKey{"k"})
	v, _ = valuesOf(t, grandchild).Value(scopeValueKey{"k"})
	assert.Equal(t, "parent", v)

	// The scope seen by a service is the scope the values were attached to
	injected, err := child.Get(TypeOf[Scope]())
	require.NoError(t, err)
	require.NoError(t, valuesOf(t, injected.(Scope)).SetValue(scopeValueKey{"i"}, true))
	_, ok = valuesOf(t, child).Value(scopeValueKey{"i"})
	assert.True(t, ok)
}

func TestScopeValues_ClosedScope(t *testing.T) {
	t.Parallel()

	p := BuildProvider(t)
	parent, err := p.CreateScope(context.Background())
	require.NoError(t, err)
	child, err := parent.CreateScope(context.Background())
	require.NoError(t, err)

	closer := &TDisposable{Name: "value"}
	require.NoError(t, valuesOf(t, parent).SetValue(scopeValueKey{"p"}, "parent"))
	require.NoError(t, valuesOf(t, child).SetValue(scopeValueKey{"c"}, closer))

	require.NoError(t, child.Close())

	// Values are not owned by the container: it does not close them
	assert.False(t, closer.IsClosed())

	// The map is released, not just emptied
	child.(*scope).valuesMu.RLock()
	assert.Nil(t, child.(*scope).values)
	child.(*scope).valuesMu.RUnlock()

	// A closed scope refuses new values and has none, not even inherited ones
	assert.ErrorIs(t, valuesOf(t, child).SetValue(scopeValueKey{"c"}, 1), ErrScopeDisposed)
	_, ok := valuesOf(t, child).Value(scopeValueKey{"c"})
	assert.False(t, ok)
	_, ok = valuesOf(t, child).Value(scopeValueKey{"p"})
	assert.False(t, ok)
	assert.NotPanics(t, func() { valuesOf(t, child).DeleteValue(scopeValueKey{"c"}) })

	// The parent is unaffected
	v, ok := valuesOf(t, parent).Value(scopeValueKey{"p"})
	assert.True(t, ok)
	assert.Equal(t, "parent", v)

	// Closing a parent drops the values of its descendants too
	child2, err := parent.CreateScope(context.Background())
	require.NoError(t, err)
	require.NoError(t, valuesOf(t, child2).SetValue(scopeValueKey{"c"}, 1))
	require.NoError(t, parent.Close())
	assert.ErrorIs(t, valuesOf(t, child2).SetValue(scopeValueKey{"c"}, 2), ErrScopeDisposed)
	_, ok = valuesOf(t, child2).Value(scopeValueKey{"c"})
	assert.False(t, ok)
	assert.Nil(t, child2.(*scope).values)

	// Closing the provider, and cancelling the context, do the same
	s3, err := p.CreateScope(context.Background())
	require.NoError(t, err)
	require.NoError(t, valuesOf(t, s3).SetValue(scopeValueKey{"k"}, 1))

	ctx, cancel := context.WithCancel(context.Background())
	s4, err := p.CreateScope(ctx)
	require.NoError(t, err)
	require.NoError(t, valuesOf(t, s4).SetValue(scopeValueKey{"k"}, 1))
	cancel()
	assert.Eventually(t, func() bool {
		return errors.Is(valuesOf(t, s4).SetValue(scopeValueKey{"k"}, 2), ErrScopeDisposed)
	}, 2*time.Second, 5*time.Millisecond)

	require.NoError(t, p.Close())
	assert.ErrorIs(t, valuesOf(t, s3).SetValue(scopeValueKey{"k"}, 2), ErrScopeDisposed)
	_, ok = valuesOf(t, s3).Value(scopeValueKey{"k"})
	assert.False(t, ok)
}

func TestScopeValues_DoNotInterfereWithServices(t *testing.T) {
	t.Parallel()

	s := BuildScope(t, AddScoped(NewTScoped))

	// A value stored under a reflect.Type key is not a service
	require.NoError(t, valuesOf(t, s).SetValue(PtrTypeOf[TService](), &TService{ID: "value"}))
	_, err := s.Get(PtrTypeOf[TService]())
	assert.ErrorIs(t, err, ErrServiceNotFound)

	a, err := s.Get(PtrTypeOf[TScoped]())
	require.NoError(t, err)
	require.NoError(t, valuesOf(t, s).SetValue(PtrTypeOf[TScoped](), &TScoped{}))
	b, err := s.Get(PtrTypeOf[TScoped]())
	require.NoError(t, err)
	assert.Same(t, a, b)
}

func TestScopeValues_ConcurrentWithClose(t *testing.T) {
	t.Parallel()

	p := BuildProvider(t)

	for round := 0; round < 20; round++ {
		parent, err := p.CreateScope(context.Background())
		require.NoError(t, err)
		child, err := parent.CreateScope(context.Background())
		require.NoError(t, err)
		require.NoError(t, valuesOf(t, parent).SetValue("shared", round))

		var wg sync.WaitGroup
		for g := 0; g < 6; g++ {
			wg.Add(1)
			go func(g int) {
				defer wg.Done()
				for i := 0; i < 100; i++ {
					err := valuesOf(t, child).SetValue(scopeValueKey{"k"}, i)
					if err != nil {
						assert.ErrorIs(t, err, ErrScopeDisposed)
					}
					if v, ok := valuesOf(t, child).Value("shared"); ok {
						assert.Equal(t, round, v)
					}
					if g%2 == 0 {
						valuesOf(t, child).DeleteValue(scopeValueKey{"k"})
					}
				}
			}(g)
		}

		wg.Add(1)
		go func() {
			defer wg.Done()
			assert.NoError(t, parent.Close())
		}()
		wg.Wait()

		// Whatever the interleaving, nothing survives Close
		for _, s := range []Scope{parent, child} {
			sc := s.(*scope)
			sc.valuesMu.RLock()
			assert.Nil(t, sc.values)
			sc.valuesMu.RUnlock()
			assert.ErrorIs(t, valuesOf(t, s).SetValue("late", 1), ErrScopeDisposed)
		}
	}
}
