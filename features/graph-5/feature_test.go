package graph_test

import (
	"math/rand"
	"reflect"
	"sync"
	"testing"

	"github.com/junioryono/godi/v4/internal/graph"
	"github.com/junioryono/godi/v4/internal/reflection"
	"github.com/stretchr/testify/assert"
	"github.com/stretchr/testify/require"
)

type (
	treeApp    struct{}
	treeRepo   struct{}
	treeLogger struct{}
	treeConfig struct{}
	treePlugin struct{}
)

var (
	treeAppT    = reflect.TypeOf(treeApp{})
	treeRepoT   = reflect.TypeOf(treeRepo{})
	treeLoggerT = reflect.TypeOf(treeLogger{})
	treeConfigT = reflect.TypeOf(treeConfig{})
	treePluginT = reflect.TypeOf(treePlugin{})
)

// treeProvider is a minimal graph.Provider.
type treeProvider struct {
	typ   reflect.Type
	key   any
	group string
	deps  []*reflection.Dependency
}

func (p *treeProvider) GetType() reflect.Type                     { return p.typ }
func (p *treeProvider) GetKey() any                               { return p.key }
func (p *treeProvider) GetGroup() string                          { return p.group }
func (p *treeProvider) GetDependencies() []*reflection.Dependency { return p.deps }

// treeType returns a distinct type for every i.
func treeType(i int) reflect.Type { return reflect.ArrayOf(i+1, reflect.TypeOf(0)) }

func treeKey(i int) graph.NodeKey { return graph.NodeKey{Type: treeType(i)} }

func treePlain(i int, deps ...int) *treeProvider {
	p := &treeProvider{typ: treeType(i)}
	for _, d := range deps {
		p.deps = append(p.deps, &reflection.Dependency{Type: treeType(d)})
	}
	return p
}

// treeWalk calls fn for every entry of the tree, parents first.
func treeWalk(n *graph.TreeNode, fn func(*graph.TreeNode)) {
	fn(n)
	for _, c := range n.Children {
		treeWalk(c, fn)
	}
}

// treeCheck verifies a tree against the graph it was taken from: one entry for
// the root and one per reachable edge, every service expanded exactly once, and
// the expanded entry lists exactly the direct dependencies, in order.
func treeCheck(t *testing.T, g *graph.DependencyGraph, tree *graph.TreeNode) {
	t.Helper()
	expanded := map[graph.NodeKey]int{}
	entries, edges := 0, 0

	treeWalk(tree, func(n *graph.TreeNode) {
		entries++
		if n.Repeated {
			require.Empty(t, n.Children, "%v is repeated and must not be expanded again", n.Key)
			return
		}
		require.False(t, n.Cycle)
		expanded[n.Key]++

		deps := g.GetDependencies(n.Key.Type, n.Key.Key, n.Key.Group)
		edges += len(deps)
		require.Len(t, n.Children, len(deps), "%v", n.Key)
		for i, c := range n.Children {
			require.Equal(t, deps[i], c.Key)
		}

		node := g.GetNode(n.Key.Type, n.Key.Key, n.Key.Group)
		require.NotNil(t, node)
		require.Equal(t, node.Provider, n.Provider)
	})

	reachable := append(g.GetTransitiveDependencies(tree.Key.Type, tree.Key.Key, tree.Key.Group), tree.Key)
	require.Len(t, expanded, len(reachable))
	for _, k := range reachable {
		require.Equal(t, 1, expanded[k], "%v must be expanded exactly once", k)
	}
	require.Equal(t, 1+edges, entries)
}

func treeBuild(t *testing.T) *graph.DependencyGraph {
	t.Helper()
	g := graph.NewDependencyGraph()
	for _, p := range []*treeProvider{
		{typ: treeAppT, deps: []*reflection.Dependency{
			{Type: treeRepoT, Key: "primary"},
			{Type: treeLoggerT},
			{Type: treePluginT, Group: "plugins"},
			{Type: treeConfigT},
		}},
		{typ: treeRepoT, key: "primary", deps: []*reflection.Dependency{{Type: treeLoggerT}, {Type: treeConfigT}}},
		{typ: treeRepoT, key: "replica"},
		{typ: treeLoggerT, deps: []*reflection.Dependency{{Type: treeConfigT}}},
		{typ: treePluginT, key: 1, group: "plugins", deps: []*reflection.Dependency{{Type: treeLoggerT}}},
		// treeConfig is never registered
	} {
		require.NoError(t, g.AddProviderDeferred(p))
	}
	require.NoError(t, g.DetectCycles())
	return g
}

func TestDependencyTree_Shape(t *testing.T) {
	g := treeBuild(t)

	tree := g.DependencyTree(treeAppT, nil, "")
	require.NotNil(t, tree)
	treeCheck(t, g, tree)

	assert.Equal(t, `graph_test.treeApp
├── graph_test.treeRepo:primary
│   ├── graph_test.treeLogger
│   │   └── graph_test.treeConfig
│   └── graph_test.treeConfig (*)
├── graph_test.treeLogger (*)
├── graph_test.treePlugin [plugins]
│   └── graph_test.treePlugin:1 [plugins]
│       └── graph_test.treeLogger (*)
└── graph_test.treeConfig (*)
`, tree.String())

	// providers: the registered ones, nil for the group reference and the missing service
	assert.NotNil(t, tree.Provider)
	assert.Equal(t, "primary", tree.Children[0].Provider.GetKey())
	assert.Nil(t, tree.Children[2].Provider)
	assert.Nil(t, tree.Children[3].Provider)
	assert.NotNil(t, tree.Children[1].Provider, "a repeated entry still says who provides it")

	// the key and the group are part of the identity
	assert.Equal(t, "graph_test.treeRepo:replica\n", g.DependencyTree(treeRepoT, "replica", "").String())
	assert.Equal(t, "graph_test.treeConfig\n", g.DependencyTree(treeConfigT, nil, "").String())
	assert.Nil(t, g.DependencyTree(treeRepoT, nil, ""))
	assert.Nil(t, g.DependencyTree(treeRepoT, "primary", "plugins"))
	assert.Nil(t, g.DependencyTree(nil, nil, ""))
	assert.Equal(t, "<nil>", g.DependencyTree(nil, nil, "").String())

	// the tree belongs to the caller
	tree.Children[0].Children = nil
	tree.Children = tree.Children[:1]
	treeCheck(t, g, g.DependencyTree(treeAppT, nil, ""))
}

func TestDependencyTree_ManyPathsStaySmall(t *testing.T) {
	// a ladder of diamonds: 2^40 paths from the top to the bottom
	const rungs = 40
	g := graph.NewDependencyGraph()
	require.NoError(t, g.AddProvider(treePlain(0)))
	for r := 0; r < rungs; r++ {
		bottom, left, right, top := 3*r, 3*r+1, 3*r+2, 3*r+3
		require.NoError(t, g.AddProvider(treePlain(left, bottom)))
		require.NoError(t, g.AddProvider(treePlain(right, bottom)))
		require.NoError(t, g.AddProvider(treePlain(top, left, right)))
	}

	tree := g.DependencyTree(treeType(3*rungs), nil, "")
	treeCheck(t, g, tree)

	entries := 0
	treeWalk(tree, func(*graph.TreeNode) { entries++ })
	assert.Equal(t, 1+4*rungs, entries)
}

func TestDependencyTree_UnrejectedCycle(t *testing.T) {
	g := graph.NewDependencyGraph()
	require.NoError(t, g.AddProviderDeferred(treePlain(0, 1, 3)))
	require.NoError(t, g.AddProviderDeferred(treePlain(1, 2)))
	require.NoError(t, g.AddProviderDeferred(treePlain(2, 0, 3)))
	require.NoError(t, g.AddProviderDeferred(treePlain(3)))
	require.NoError(t, g.AddProviderDeferred(treePlain(4, 4)))

	tree := g.DependencyTree(treeType(0), nil, "")
	assert.Equal(t, `[1]int
├── [2]int
│   └── [3]int
│       ├── [1]int (cycle)
│       └── [4]int
└── [4]int (*)
`, tree.String())

	back := tree.Children[0].Children[0].Children[0]
	assert.True(t, back.Repeated && back.Cycle)
	assert.Empty(t, back.Children)
	shared := tree.Children[1]
	assert.True(t, shared.Repeated)
	assert.False(t, shared.Cycle, "seen before, but not an ancestor")

	assert.Equal(t, "[5]int\n└── [5]int (cycle)\n", g.DependencyTree(treeType(4), nil, "").String())
	require.Error(t, g.DetectCycles())
}

func TestDependencyTree_NilTypeAndDuplicates(t *testing.T) {
	g := graph.NewDependencyGraph()
	require.NoError(t, g.AddProvider(&treeProvider{typ: nil, key: "k", group: "grp", deps: []*reflection.Dependency{
		{Type: treeLoggerT}, {Type: treeLoggerT},
	}}))

	tree := g.DependencyTree(nil, "k", "grp")
	treeCheck(t, g, tree)
	assert.Equal(t, "<nil>:k [grp]\n├── graph_test.treeLogger\n└── graph_test.treeLogger (*)\n", tree.String())
}

func TestDependencyTree_FollowsMutations(t *testing.T) {
	const n = 10
	rng := rand.New(rand.NewSource(6))
	g := graph.NewDependencyGraph()
	nodes := map[int]bool{}

	for op := 0; op < 400; op++ {
		i := rng.Intn(n)
		switch {
		case op%131 == 130:
			g.Clear()
			nodes = map[int]bool{}
		case rng.Intn(4) == 0:
			g.RemoveProvider(treeType(i), nil, "")
			delete(nodes, i)
		default:
			var deps []int
			for k := rng.Intn(3); k > 0; k-- {
				deps = append(deps, rng.Intn(n))
			}
			// adds that would close a cycle are rejected and must leave no trace
			if g.AddProvider(treePlain(i, deps...)) == nil {
				nodes[i] = true
				for _, d := range deps {
					nodes[d] = true
				}
			}
		}

		for x := 0; x < n; x++ {
			tree := g.DependencyTree(treeType(x), nil, "")
			if !nodes[x] {
				require.Nil(t, tree, "op %d node %d", op, x)
				continue
			}
			require.NotNil(t, tree, "op %d node %d", op, x)
			treeCheck(t, g, tree)
			treeWalk(tree, func(e *graph.TreeNode) { require.False(t, e.Cycle) })
		}
	}
}

func TestDependencyTree_Concurrent(t *testing.T) {
	g := treeBuild(t)

	var wg sync.WaitGroup
	for w := 0; w < 4; w++ {
		wg.Add(2)
		go func(w int) {
			defer wg.Done()
			for i := 0; i < 150; i++ {
				_ = g.AddProvider(treePlain(w, 10+w))
				_ = g.AddProviderDeferred(&treeProvider{typ: treePluginT, key: 10 + w, group: "plugins"})
				_ = g.DetectCycles()
				g.RemoveProvider(treePluginT, 10+w, "plugins")
				g.RemoveProvider(treeType(w), nil, "")
			}
		}(w)
		go func() {
			defer wg.Done()
			for i := 0; i < 150; i++ {
				tree := g.DependencyTree(treeAppT, nil, "")
				if !assert.NotNil(t, tree) {
					return
				}
				// the stable part is always there, and the snapshot can be
				// read and changed while the graph moves on
				assert.Len(t, tree.Children, 4)
				assert.Equal(t, graph.NodeKey{Type: treeRepoT, Key: "primary"}, tree.Children[0].Key)
				assert.Contains(t, tree.String(), "graph_test.treePlugin:1 [plugins]")
				tree.Children[2].Children = nil
			}
		}()
	}
	wg.Wait()
}
