package graph_test

import (
	"math/rand"
	"reflect"
	"sync"
	"testing"

	"github.com/junioryono/godi/v4"
	"github.com/junioryono/godi/v4/internal/graph"
	"github.com/junioryono/godi/v4/internal/reflection"
	"github.com/stretchr/testify/assert"
	"github.com/stretchr/testify/require"
)

type (
	rpA struct{}
	rpB struct{}
	rpC struct{}
	rpD struct{}
	rpE struct{}
	rpM struct{}
)

var (
	rpTypeA = reflect.TypeOf(rpA{})
	rpTypeB = reflect.TypeOf(rpB{})
	rpTypeC = reflect.TypeOf(rpC{})
	rpTypeD = reflect.TypeOf(rpD{})
	rpTypeE = reflect.TypeOf(rpE{})
	rpTypeM = reflect.TypeOf(rpM{})
)

func rpKey(t reflect.Type) graph.NodeKey { return graph.NodeKey{Type: t} }

func rpProvider(t reflect.Type, deps ...reflect.Type) *godi.Descriptor {
	d := &godi.Descriptor{Type: t, Lifetime: godi.Singleton}
	for _, dep := range deps {
		d.Dependencies = append(d.Dependencies, &reflection.Dependency{Type: dep})
	}
	return d
}

// rpRequireSameGraph checks that every query gives the same answer on both graphs.
func rpRequireSameGraph(t *testing.T, want, got *graph.DependencyGraph, universe []graph.NodeKey) {
	t.Helper()

	require.Equal(t, want.Size(), got.Size())
	require.Equal(t, want.IsAcyclic(), got.IsAcyclic())
	want.CalculateDepths()
	got.CalculateDepths()

	keysOf := func(nodes []*graph.Node) []graph.NodeKey {
		keys := make([]graph.NodeKey, 0, len(nodes))
		for _, node := range nodes {
			keys = append(keys, node.Key)
		}
		return keys
	}
	require.ElementsMatch(t, keysOf(want.GetRoots()), keysOf(got.GetRoots()))
	require.ElementsMatch(t, keysOf(want.GetLeaves()), keysOf(got.GetLeaves()))

	for _, k := range universe {
		require.Equal(t, want.HasNode(k.Type, k.Key, k.Group), got.HasNode(k.Type, k.Key, k.Group), "%v", k)

		wantDeps, gotDeps := want.GetDependencies(k.Type, k.Key, k.Group), got.GetDependencies(k.Type, k.Key, k.Group)
		if k.Group != "" && k.Key == nil {
			require.ElementsMatch(t, wantDeps, gotDeps, "members of %v", k) // no order among members
		} else {
			require.Equal(t, wantDeps, gotDeps, "dependencies of %v", k)
		}
		require.ElementsMatch(t, want.GetDependents(k.Type, k.Key, k.Group), got.GetDependents(k.Type, k.Key, k.Group), "dependents of %v", k)
		require.ElementsMatch(t,
			want.GetTransitiveDependencies(k.Type, k.Key, k.Group),
			got.GetTransitiveDependencies(k.Type, k.Key, k.Group), "transitive of %v", k)

		wantNode, gotNode := want.GetNode(k.Type, k.Key, k.Group), got.GetNode(k.Type, k.Key, k.Group)
		if wantNode == nil {
			require.Nil(t, gotNode)
			continue
		}
		require.Equal(t, wantNode.InDegree, gotNode.InDegree, "in-degree of %v", k)
		require.Equal(t, wantNode.OutDegree, gotNode.OutDegree, "out-degree of %v", k)
		require.Equal(t, wantNode.Depth, gotNode.Depth, "depth of %v", k)
		require.Equal(t, wantNode.Provider, gotNode.Provider)
		require.Equal(t, gotDeps, gotNode.Dependencies, "node and query disagree for %v", k)
	}

	if want.IsAcyclic() {
		sorted, err := got.TopologicalSort()
		require.NoError(t, err)
		require.Len(t, sorted, got.Size())
		position := map[graph.NodeKey]int{}
		for i, node := range sorted {
			position[node.Key] = i
		}
		for _, node := range sorted {
			for _, dep := range node.Dependencies {
				require.Less(t, position[dep], position[node.Key])
			}
		}
	}
}

func TestRemoveProviders_Basic(t *testing.T) {
	g := graph.NewDependencyGraph()

	// E -> D -> C -> B -> A, E -> A
	require.NoError(t, g.AddProvider(rpProvider(rpTypeA)))
	require.NoError(t, g.AddProvider(rpProvider(rpTypeB, rpTypeA)))
	require.NoError(t, g.AddProvider(rpProvider(rpTypeC, rpTypeB)))
	require.NoError(t, g.AddProvider(rpProvider(rpTypeD, rpTypeC)))
	require.NoError(t, g.AddProvider(rpProvider(rpTypeE, rpTypeD, rpTypeA)))

	// Warm both caches so that a stale answer would show
	_, err := g.TopologicalSort()
	require.NoError(t, err)
	require.True(t, g.IsAcyclic())

	// Nothing to do: no keys, unknown keys
	assert.Equal(t, 0, g.RemoveProviders())
	assert.Equal(t, 0, g.RemoveProviders(rpKey(rpTypeM), graph.NodeKey{Type: rpTypeA, Key: "nope"}, graph.NodeKey{}))
	assert.Equal(t, 5, g.Size())

	// B and D, with a duplicate and an unknown key mixed in
	assert.Equal(t, 2, g.RemoveProviders(rpKey(rpTypeB), rpKey(rpTypeM), rpKey(rpTypeD), rpKey(rpTypeB)))

	assert.Equal(t, 3, g.Size())
	assert.False(t, g.HasNode(rpTypeB, nil, ""))
	assert.False(t, g.HasNode(rpTypeD, nil, ""))
	assert.Empty(t, g.GetDependencies(rpTypeC, nil, ""), "C lost its only dependency")
	assert.Equal(t, []graph.NodeKey{rpKey(rpTypeA)}, g.GetDependencies(rpTypeE, nil, ""))
	assert.Equal(t, []graph.NodeKey{rpKey(rpTypeE)}, g.GetDependents(rpTypeA, nil, ""))
	assert.Equal(t, []graph.NodeKey{rpKey(rpTypeA)}, g.GetTransitiveDependencies(rpTypeE, nil, ""))
	assert.Equal(t, 1, g.GetNode(rpTypeE, nil, "").OutDegree)
	assert.Equal(t, 1, g.GetNode(rpTypeA, nil, "").InDegree)
	assert.Equal(t, 0, g.GetNode(rpTypeC, nil, "").OutDegree)

	// The cached sort was invalidated
	sorted, err := g.TopologicalSort()
	require.NoError(t, err)
	assert.Len(t, sorted, 3)
	for _, node := range sorted {
		assert.NotEqual(t, rpTypeB, node.Key.Type)
		assert.NotEqual(t, rpTypeD, node.Key.Type)
	}

	// Removing again is a no-op; the removed keys can be added back
	assert.Equal(t, 0, g.RemoveProviders(rpKey(rpTypeB), rpKey(rpTypeD)))
	require.NoError(t, g.AddProvider(rpProvider(rpTypeB, rpTypeA)))
	assert.Equal(t, []graph.NodeKey{rpKey(rpTypeA)}, g.GetDependencies(rpTypeB, nil, ""))
	assert.Empty(t, g.GetDependencies(rpTypeC, nil, ""), "C's old edge to B does not come back")

	// Everything at once
	assert.Equal(t, 4, g.RemoveProviders(rpKey(rpTypeA), rpKey(rpTypeB), rpKey(rpTypeC), rpKey(rpTypeE)))
	assert.Equal(t, 0, g.Size())
	assert.Empty(t, g.GetRoots())
	sorted, err = g.TopologicalSort()
	require.NoError(t, err)
	assert.Empty(t, sorted)
}

func TestRemoveProviders_BreaksCycleAndInvalidatesVerdict(t *testing.T) {
	g := graph.NewDependencyGraph()

	// A -> B -> C -> A and D -> E -> D, plus M -> A
	require.NoError(t, g.AddProviderDeferred(rpProvider(rpTypeA, rpTypeB)))
	require.NoError(t, g.AddProviderDeferred(rpProvider(rpTypeB, rpTypeC)))
	require.NoError(t, g.AddProviderDeferred(rpProvider(rpTypeC, rpTypeA)))
	require.NoError(t, g.AddProviderDeferred(rpProvider(rpTypeD, rpTypeE)))
	require.NoError(t, g.AddProviderDeferred(rpProvider(rpTypeE, rpTypeD)))
	require.NoError(t, g.AddProviderDeferred(rpProvider(rpTypeM, rpTypeA)))
	require.Error(t, g.DetectCycles())
	require.False(t, g.IsAcyclic())

	// One of the two cycles is left
	assert.Equal(t, 1, g.RemoveProviders(rpKey(rpTypeC)))
	assert.False(t, g.IsAcyclic())

	assert.Equal(t, 1, g.RemoveProviders(rpKey(rpTypeE)))
	assert.True(t, g.IsAcyclic(), "the cached verdict must not survive the removal")
	sorted, err := g.TopologicalSort()
	require.NoError(t, err)
	assert.Len(t, sorted, 4)
}

func TestRemoveProviders_GroupsAndKeys(t *testing.T) {
	build := func(deferred bool) *graph.DependencyGraph {
		g := graph.NewDependencyGraph()
		add := g.AddProvider
		if deferred {
			add = g.AddProviderDeferred
		}
		require.NoError(t, add(&godi.Descriptor{
			Type: rpTypeE,
			Dependencies: []*reflection.Dependency{
				{Type: rpTypeM, Group: "g"},
				{Type: rpTypeA, Key: "k1"},
			},
		}))
		require.NoError(t, add(&godi.Descriptor{Type: rpTypeA, Key: "k1"}))
		require.NoError(t, add(&godi.Descriptor{Type: rpTypeA, Key: "k2"}))
		require.NoError(t, add(&godi.Descriptor{Type: rpTypeM, Key: "m1", Group: "g",
			Dependencies: []*reflection.Dependency{{Type: rpTypeA, Key: "k2"}}}))
		require.NoError(t, add(&godi.Descriptor{Type: rpTypeM, Key: "m2", Group: "g"}))
		require.NoError(t, add(&godi.Descriptor{Type: rpTypeM, Key: "m3", Group: "g"}))
		require.NoError(t, add(&godi.Descriptor{Type: rpTypeM, Key: "x1", Group: "other"}))
		require.NoError(t, g.DetectCycles())
		return g
	}

	ref := graph.NodeKey{Type: rpTypeM, Group: "g"}
	m1 := graph.NodeKey{Type: rpTypeM, Key: "m1", Group: "g"}
	m2 := graph.NodeKey{Type: rpTypeM, Key: "m2", Group: "g"}
	m3 := graph.NodeKey{Type: rpTypeM, Key: "m3", Group: "g"}
	x1 := graph.NodeKey{Type: rpTypeM, Key: "x1", Group: "other"}
	k1 := graph.NodeKey{Type: rpTypeA, Key: "k1"}
	k2 := graph.NodeKey{Type: rpTypeA, Key: "k2"}
	universe := []graph.NodeKey{rpKey(rpTypeE), ref, m1, m2, m3, x1, k1, k2}

	for _, deferred := range []bool{false, true} {
		g := build(deferred)

		// Two members and a keyed service; same type, other key/group stay
		assert.Equal(t, 3, g.RemoveProviders(m1, m3, k1))

		assert.Equal(t, []graph.NodeKey{m2}, g.GetDependencies(rpTypeM, nil, "g"))
		assert.Equal(t, []graph.NodeKey{ref}, g.GetDependencies(rpTypeE, nil, ""), "edge to k1 is gone, edge to the group stays")
		assert.ElementsMatch(t, []graph.NodeKey{ref, m2}, g.GetTransitiveDependencies(rpTypeE, nil, ""))
		assert.Empty(t, g.GetDependents(rpTypeA, "k2", ""), "m1 was the only dependent of k2")
		assert.True(t, g.HasNode(rpTypeM, "x1", "other"))
		assert.True(t, g.HasNode(rpTypeA, "k2", ""))

		// Same as the one-by-one removal, and still the same after the next
		// DetectCycles re-links the groups
		twin := build(deferred)
		twin.RemoveProvider(rpTypeM, "m1", "g")
		twin.RemoveProvider(rpTypeM, "m3", "g")
		twin.RemoveProvider(rpTypeA, "k1", "")
		rpRequireSameGraph(t, twin, g, universe)
		require.NoError(t, g.DetectCycles())
		assert.Equal(t, []graph.NodeKey{m2}, g.GetDependencies(rpTypeM, nil, "g"))

		// A member added afterwards joins the group again
		require.NoError(t, g.AddProvider(&godi.Descriptor{Type: rpTypeM, Key: "m4", Group: "g"}))
		assert.ElementsMatch(t,
			[]graph.NodeKey{m2, {Type: rpTypeM, Key: "m4", Group: "g"}},
			g.GetDependencies(rpTypeM, nil, "g"))
	}
}

// A batch removal is indistinguishable from removing the same keys one by one.
func TestRemoveProviders_EquivalentToSequentialRemoval(t *testing.T) {
	const n = 10
	types := make([]reflect.Type, n)
	universe := make([]graph.NodeKey, n)
	for i := range types {
		types[i] = reflect.ArrayOf(i+1, rpTypeA)
		universe[i] = rpKey(types[i])
	}
	rng := rand.New(rand.NewSource(5))

	for round := 0; round < 80; round++ {
		batch, sequential := graph.NewDependencyGraph(), graph.NewDependencyGraph()
		for i := 0; i < n; i++ {
			if rng.Intn(6) == 0 {
				continue // may still exist as a placeholder of a dependent
			}
			var deps []reflect.Type
			for j := 0; j < i; j++ {
				if rng.Intn(3) == 0 {
					deps = append(deps, types[j])
				}
			}
			for _, g := range []*graph.DependencyGraph{batch, sequential} {
				if round%2 == 0 {
					require.NoError(t, g.AddProvider(rpProvider(types[i], deps...)))
				} else {
					require.NoError(t, g.AddProviderDeferred(rpProvider(types[i], deps...)))
				}
			}
		}
		if round%4 != 3 { // every fourth round removes before the deferred adds are completed
			require.NoError(t, batch.DetectCycles())
			require.NoError(t, sequential.DetectCycles())
		}

		var victims []graph.NodeKey
		for i := 0; i < n; i++ {
			if rng.Intn(3) == 0 {
				victims = append(victims, universe[i])
			}
		}
		rng.Shuffle(len(victims), func(i, j int) { victims[i], victims[j] = victims[j], victims[i] })

		present := 0
		for _, k := range victims {
			if sequential.HasNode(k.Type, nil, "") {
				present++
			}
			sequential.RemoveProvider(k.Type, k.Key, k.Group)
		}
		assert.Equal(t, present, batch.RemoveProviders(victims...), "round %d", round)

		rpRequireSameGraph(t, sequential, batch, universe)
	}
}

func TestRemoveProviders_ConcurrentReadersSeeAllOrNothing(t *testing.T) {
	const n = 8
	types := make([]reflect.Type, n)
	for i := range types {
		types[i] = reflect.ArrayOf(i+1, rpTypeB)
	}
	upper := make([]graph.NodeKey, 0, n-1)
	for i := 1; i < n; i++ {
		upper = append(upper, rpKey(types[i]))
	}
	last := rpKey(types[n-1])

	g := graph.NewDependencyGraph()
	require.NoError(t, g.AddProvider(rpProvider(types[0])))

	var wg sync.WaitGroup
	wg.Add(1)
	go func() {
		defer wg.Done()
		for round := 0; round < 30; round++ {
			// A star around types[0], built one node at a time ...
			for i := 1; i < n; i++ {
				assert.NoError(t, g.AddProvider(rpProvider(types[i], types[0])))
			}
			// ... and taken away in one step
			assert.Equal(t, n-1, g.RemoveProviders(upper...))
		}
	}()

	for r := 0; r < 4; r++ {
		wg.Add(1)
		go func() {
			defer wg.Done()
			for i := 0; i < 400; i++ {
				// The node added last is only ever present together with all
				// the others: no reader sees a half-removed star
				dependents := g.GetDependents(types[0], nil, "")
				for _, key := range dependents {
					if key == last {
						assert.Len(t, dependents, n-1)
					}
				}

				g.IsAcyclic()
				if sorted, err := g.TopologicalSort(); assert.NoError(t, err) && len(sorted) > 0 {
					assert.Equal(t, types[0], sorted[0].Key.Type)
				}
			}
		}()
	}
	wg.Wait()

	assert.Equal(t, 1, g.Size())
	assert.Empty(t, g.GetDependents(types[0], nil, ""))
	assert.Equal(t, 0, g.GetNode(types[0], nil, "").InDegree)
}
