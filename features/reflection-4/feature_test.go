package reflection_test

import (
	"reflect"
	"strings"
	"sync"
	"testing"

	"github.com/junioryono/godi/v4/internal/reflection"
	"github.com/stretchr/testify/assert"
	"github.com/stretchr/testify/require"
)

const descPkg = "github.com/junioryono/godi/v4/internal/reflection_test."

type descDep struct{ id int }

type descLogger interface{ Log(string) }

type descSvc struct{ dep *descDep }

type descParams struct {
	reflection.In

	Log     descLogger
	Routes  []*descDep `group:"routes"`
	Cache   *descDep   `name:"hot" optional:"true"`
	Skipped *descDep   `inject:"-"`
	private *descDep   //nolint:unused
}

type descResults struct {
	reflection.Out

	Svc   *descSvc
	Admin *descSvc `name:"admin"`
	Hook  func()   `group:"hooks"`
}

func newDescDep() *descDep                                  { return &descDep{} }
func newDescSvc(d *descDep, l descLogger) (*descSvc, error) { return &descSvc{dep: d}, nil }
func newDescFromParams(p descParams) *descSvc               { return &descSvc{} }
func newDescResults(d *descDep) (descResults, error)        { return descResults{}, nil }
func newDescPair(d *descDep) (*descSvc, descLogger)         { return nil, nil }
func descInit(d *descDep)                                   {}
func descInitErr(d *descDep) error                          { return nil }
func (d *descDep) Build(n int) *descSvc                     { return &descSvc{dep: d} }

//go:noinline
func descClosure(id int) func() *descDep {
	return func() *descDep { return &descDep{id: id} }
}

func TestDescribe_Formats(t *testing.T) {
	a := reflection.New()
	d := &descDep{}

	cases := []struct {
		name        string
		constructor any
		want        string
	}{
		{"no params", newDescDep, descPkg + "newDescDep() *descDep"},
		{"params and error", newDescSvc, descPkg + "newDescSvc(*descDep, descLogger) (*descSvc, error)"},
		{"param object", newDescFromParams,
			descPkg + `newDescFromParams(In{Log descLogger; Routes []*descDep group="routes"; Cache *descDep name="hot" optional}) *descSvc`},
		{"result object", newDescResults,
			descPkg + `newDescResults(*descDep) (Out{Svc *descSvc; Admin *descSvc name="admin"; Hook func() group="hooks"}, error)`},
		{"multiple returns", newDescPair, descPkg + "newDescPair(*descDep) (*descSvc, descLogger)"},
		{"void initializer", descInit, descPkg + "descInit(*descDep)"},
		{"error only", descInitErr, descPkg + "descInitErr(*descDep) error"},
		{"method value", d.Build, descPkg + "(*descDep).Build-fm(int) *descSvc"},
		{"pointer instance", d, "value *descDep"},
		{"struct instance", descDep{}, "value descDep"},
	}

	for _, tc := range cases {
		t.Run(tc.name, func(t *testing.T) {
			got, err := a.Describe(tc.constructor)
			require.NoError(t, err)
			assert.Equal(t, tc.want, got)
			assert.NotContains(t, got, "\n")

			again, err := a.Describe(tc.constructor)
			require.NoError(t, err)
			assert.Equal(t, got, again, "a cached analysis is rendered the same way")
		})
	}
}

func TestDescribe_Errors(t *testing.T) {
	a := reflection.New()
	var nilFn func() *descDep

	for _, c := range []any{nil, nilFn} {
		s, err := a.Describe(c)
		assert.Error(t, err)
		assert.Empty(t, s)

		ps, err := a.ParametersOf(c)
		assert.Error(t, err)
		assert.Nil(t, ps)

		rs, err := a.ReturnsOf(c)
		assert.Error(t, err)
		assert.Nil(t, rs)
	}
	assert.Equal(t, 0, a.CacheSize())
}

func TestDescribe_NameComesFromTheArgumentNotTheCache(t *testing.T) {
	a := reflection.New()

	// Closures of one literal share a cache entry and a name ...
	one, err := a.Describe(descClosure(1))
	require.NoError(t, err)
	two, err := a.Describe(descClosure(2))
	require.NoError(t, err)
	assert.Equal(t, one, two)
	assert.True(t, strings.HasPrefix(one, descPkg+"descClosure.func1()"), one)
	assert.Equal(t, 1, a.CacheSize())

	// ... but reflect.MakeFunc functions of one type share an entry without
	// sharing anything else; each call must describe its own argument.
	ft := reflect.TypeOf(newDescDep)
	mk := reflect.MakeFunc(ft, func([]reflect.Value) []reflect.Value {
		return []reflect.Value{reflect.ValueOf(&descDep{})}
	}).Interface()
	got, err := a.Describe(mk)
	require.NoError(t, err)
	assert.True(t, strings.HasSuffix(got, "() *descDep"), got)
	assert.NotContains(t, got, "newDescDep")
}

func TestParametersOf_ReturnsOf_HandOutCopies(t *testing.T) {
	a := reflection.New()

	params, err := a.ParametersOf(newDescFromParams)
	require.NoError(t, err)
	require.Len(t, params, 3, "ignored and unexported fields are not listed")
	assert.Equal(t, "Log", params[0].Name)
	assert.Equal(t, "routes", params[1].Group)
	assert.True(t, params[1].IsSlice)
	assert.Equal(t, reflect.TypeOf((*descDep)(nil)), params[1].ElemType)
	assert.Equal(t, "hot", params[2].Key)
	assert.True(t, params[2].Optional)

	returns, err := a.ReturnsOf(newDescResults)
	require.NoError(t, err)
	require.Len(t, returns, 3)
	assert.Equal(t, "admin", returns[1].Key)
	assert.Equal(t, "hooks", returns[2].Group)

	plain, err := a.ReturnsOf(newDescSvc)
	require.NoError(t, err)
	require.Len(t, plain, 2)
	assert.False(t, plain[0].IsError)
	assert.True(t, plain[1].IsError)

	// Vandalise the copies ...
	params[0].Name, params[1].Group, params[2].Key, params[2].Optional = "X", "other", "cold", false
	params = append(params[:1], params[2:]...)
	_ = params
	returns[1].Key, returns[2].Group = nil, ""

	// ... the cached analysis, and everything derived from it, is intact.
	info, err := a.Analyze(newDescFromParams)
	require.NoError(t, err)
	require.Len(t, info.Parameters, 3)
	assert.Equal(t, "Log", info.Parameters[0].Name)
	assert.Equal(t, "routes", info.Parameters[1].Group)
	assert.Equal(t, "hot", info.Parameters[2].Key)
	assert.True(t, info.Parameters[2].Optional)

	deps, err := a.GetDependencies(newDescFromParams)
	require.NoError(t, err)
	require.Len(t, deps, 3)
	assert.Equal(t, "routes", deps[1].Group)
	assert.Equal(t, "hot", deps[2].Key)
	assert.True(t, deps[2].Optional)

	outInfo, err := a.Analyze(newDescResults)
	require.NoError(t, err)
	assert.Equal(t, "admin", outInfo.Returns[1].Key)
	assert.Equal(t, "hooks", outInfo.Returns[2].Group)

	fresh, err := a.ParametersOf(newDescFromParams)
	require.NoError(t, err)
	assert.Equal(t, info.Parameters, fresh)

	// No parameters: an empty, non-nil slice, also for instances.
	none, err := a.ParametersOf(newDescDep)
	require.NoError(t, err)
	assert.NotNil(t, none)
	assert.Empty(t, none)
	none, err = a.ParametersOf(&descDep{})
	require.NoError(t, err)
	assert.Empty(t, none)
}

func TestDescribe_Concurrent(t *testing.T) {
	a := reflection.New()
	want, err := reflection.New().Describe(newDescFromParams)
	require.NoError(t, err)

	var wg sync.WaitGroup
	for g := 0; g < 16; g++ {
		wg.Add(1)
		go func(g int) {
			defer wg.Done()
			for i := 0; i < 100; i++ {
				got, err := a.Describe(newDescFromParams)
				assert.NoError(t, err)
				assert.Equal(t, want, got)

				// Writers on their own copies must not disturb anybody:
				// the race detector would flag a shared backing array.
				ps, err := a.ParametersOf(newDescFromParams)
				if assert.NoError(t, err) && assert.Len(t, ps, 3) {
					ps[2].Key = g
					ps[1].Group = "scribble"
				}
				rs, err := a.ReturnsOf(newDescResults)
				if assert.NoError(t, err) && assert.Len(t, rs, 3) {
					rs[0].Name = "scribble"
				}
				if g == 0 && i%20 == 0 {
					a.Clear()
				}
			}
		}(g)
	}
	wg.Wait()

	got, err := a.Describe(newDescFromParams)
	require.NoError(t, err)
	assert.Equal(t, want, got)
}
