package godi

import (
	"context"
	"errors"
	"reflect"
	"sync"
	"sync/atomic"
	"testing"
	"time"

	"github.com/stretchr/testify/assert"
	"github.com/stretchr/testify/require"
)

// crLog records the order in which the test's instances were really closed.
type crLog struct {
	mu    sync.Mutex
	names []string
}

func (l *crLog) add(name string) {
	l.mu.Lock()
	l.names = append(l.names, name)
	l.mu.Unlock()
}

type crBase struct {
	name   string
	log    *crLog
	err    error
	closes atomic.Int32
}

func (b *crBase) Close() error {
	b.closes.Add(1)
	b.log.add(b.name)
	return b.err
}

type (
	crConfig  struct{ crBase } // singleton
	crPool    struct{ crBase } // singleton, depends on crConfig
	crSession struct{ crBase } // scoped, depends on crPool
	crTx      struct{ crBase } // scoped, depends on crSession
	crTemp    struct{ crBase } // transient
	crPlain   struct{}         // scoped, not disposable
)

func crCollection(t *testing.T, log *crLog, sessionErr error) Collection {
	t.Helper()
	c := NewCollection()
	require.NoError(t, c.AddSingleton(func() *crConfig { return &crConfig{crBase{name: "config", log: log}} }))
	require.NoError(t, c.AddSingleton(func(*crConfig) *crPool { return &crPool{crBase{name: "pool", log: log}} }))
	require.NoError(t, c.AddScoped(func(*crPool) *crSession {
		return &crSession{crBase{name: "session", log: log, err: sessionErr}}
	}))
	require.NoError(t, c.AddScoped(func(*crSession) *crTx { return &crTx{crBase{name: "tx", log: log}} }))
	require.NoError(t, c.AddTransient(func() *crTemp { return &crTemp{crBase{name: "temp", log: log}} }))
	require.NoError(t, c.AddScoped(func() *crPlain { return &crPlain{} }))
	return c
}

func reportTypes(report *CloseReport) []reflect.Type {
	types := make([]reflect.Type, 0, len(report.Instances))
	for _, closed := range report.Instances {
		types = append(types, closed.Type)
	}
	return types
}

func TestCloseWithReport_ScopeReverseCreationOrder(t *testing.T) {
	log := &crLog{}
	p, err := crCollection(t, log, nil).Build()
	require.NoError(t, err)
	defer p.Close()

	s, err := p.CreateScope(context.Background())
	require.NoError(t, err)

	_, err = Resolve[*crTx](s) // creates session, then tx
	require.NoError(t, err)
	_, err = Resolve[*crTemp](s)
	require.NoError(t, err)
	_, err = Resolve[*crPlain](s)
	require.NoError(t, err)
	_, err = Resolve[*crPool](s) // singleton seen through the scope

	require.NoError(t, err)

	report, err := CloseWithReport(s)
	require.NoError(t, err)

	assert.Equal(t, []reflect.Type{
		reflect.TypeOf(&crTemp{}), reflect.TypeOf(&crTx{}), reflect.TypeOf(&crSession{}),
	}, reportTypes(report))
	for _, closed := range report.Instances {
		assert.Equal(t, s.ID(), closed.Owner)
		assert.NoError(t, closed.Err)
	}

	// The report is what really happened, and singletons were left alone
	assert.Equal(t, []string{"temp", "tx", "session"}, log.names)

	// Same semantics as Close afterwards
	_, err = s.Get(reflect.TypeOf(&crTx{}))
	assert.ErrorIs(t, err, ErrScopeDisposed)

	again, err := CloseWithReport(s)
	require.NoError(t, err)
	assert.Empty(t, again.Instances)
	assert.NoError(t, s.Close())
	assert.Equal(t, []string{"temp", "tx", "session"}, log.names)
}

func TestCloseWithReport_ProviderNestedScopesAndErrors(t *testing.T) {
	boom := errors.New("session close failed")
	log := &crLog{}
	p, err := crCollection(t, log, boom).Build()
	require.NoError(t, err)

	parent, err := p.CreateScope(context.Background())
	require.NoError(t, err)
	child, err := parent.CreateScope(context.Background())
	require.NoError(t, err)

	_, err = Resolve[*crSession](parent)
	require.NoError(t, err)
	_, err = Resolve[*crTx](child)
	require.NoError(t, err)
	_, err = Resolve[*crTx](p) // root scope has scoped instances of its own
	require.NoError(t, err)

	report, err := CloseWithReport(p)

	// Same error as Close: a disposal error (the causes are in the report)
	var disposal *DisposalError
	require.ErrorAs(t, err, &disposal)
	assert.Equal(t, "provider", disposal.Context)
	assert.NotEmpty(t, disposal.Errors)

	// Every instance was attempted exactly once, and reported in call order
	reported := make([]string, 0, len(report.Instances))
	failures := 0
	for _, closed := range report.Instances {
		reported = append(reported, closed.Type.Elem().Name())
		if closed.Err != nil {
			assert.Same(t, boom, closed.Err)
			assert.Equal(t, reflect.TypeOf(&crSession{}), closed.Type)
			failures++
		}
	}
	assert.Equal(t, []string{
		"crTx", "crSession", // child scope
		"crSession",         // parent scope
		"crTx", "crSession", // root scope
		"crPool", "crConfig", // singletons, after every scope
	}, reported)
	assert.Equal(t, 3, failures)
	assert.Equal(t, []string{"tx", "session", "session", "tx", "session", "pool", "config"}, log.names)

	// Owners: child, parent, root scope ("s1": first scope of the provider), provider
	assert.Equal(t, child.ID(), report.Instances[0].Owner)
	assert.Equal(t, parent.ID(), report.Instances[2].Owner)
	assert.Equal(t, "s1", report.Instances[3].Owner)
	assert.Equal(t, p.ID(), report.Instances[5].Owner)
	assert.Equal(t, p.ID(), report.Instances[6].Owner)

	// Provider and all scopes are disposed, nothing is closed twice
	_, err = p.Get(reflect.TypeOf(&crPool{}))
	assert.ErrorIs(t, err, ErrProviderDisposed)
	_, err = child.Get(reflect.TypeOf(&crTx{}))
	assert.ErrorIs(t, err, ErrScopeDisposed)

	again, err := CloseWithReport(p)
	require.NoError(t, err)
	assert.Empty(t, again.Instances)
	assert.NoError(t, parent.Close())
	assert.Len(t, log.names, 7)
}

func TestCloseWithReport_ChildClosedEarlierIsNotReported(t *testing.T) {
	log := &crLog{}
	p, err := crCollection(t, log, nil).Build()
	require.NoError(t, err)
	defer p.Close()

	parent, err := p.CreateScope(context.Background())
	require.NoError(t, err)
	child, err := parent.CreateScope(context.Background())
	require.NoError(t, err)
	_, err = Resolve[*crSession](child)
	require.NoError(t, err)
	_, err = Resolve[*crSession](parent)
	require.NoError(t, err)

	require.NoError(t, child.Close())

	report, err := CloseWithReport(parent)
	require.NoError(t, err)
	require.Len(t, report.Instances, 1)
	assert.Equal(t, parent.ID(), report.Instances[0].Owner)
	assert.Equal(t, []string{"session", "session"}, log.names)
}

func TestCloseWithReport_ConcurrentCallersCloseOnce(t *testing.T) {
	log := &crLog{}
	p, err := crCollection(t, log, nil).Build()
	require.NoError(t, err)
	defer p.Close()

	ctx, cancel := context.WithCancel(context.Background())
	defer cancel()
	s, err := p.CreateScope(ctx)
	require.NoError(t, err)
	tx, err := Resolve[*crTx](s)
	require.NoError(t, err)

	const workers = 8
	var wg sync.WaitGroup
	var total atomic.Int32
	for i := 0; i < workers; i++ {
		wg.Add(1)
		go func(i int) {
			defer wg.Done()
			switch i % 3 {
			case 0:
				assert.NoError(t, s.Close())
			case 1:
				cancel() // automatic close on cancellation
			default:
				report, err := CloseWithReport(s)
				assert.NoError(t, err)
				total.Add(int32(len(report.Instances)))
			}
		}(i)
	}
	wg.Wait()
	require.NoError(t, s.Close())

	// Whoever won closes both instances (the winner may be the automatic close,
	// which can still be running); a reporting caller saw all of them or none
	assert.Contains(t, []int32{0, 2}, total.Load())
	require.Eventually(t, func() bool {
		log.mu.Lock()
		defer log.mu.Unlock()
		return len(log.names) == 2
	}, time.Second, time.Millisecond)
	time.Sleep(10 * time.Millisecond)
	assert.Equal(t, int32(1), tx.closes.Load())
	log.mu.Lock()
	assert.Len(t, log.names, 2)
	log.mu.Unlock()
}

type crForeign struct{ closes int }

func (f *crForeign) Close() error { f.closes++; return errors.New("foreign") }

func TestCloseWithReport_NilAndForeign(t *testing.T) {
	report, err := CloseWithReport(nil)
	assert.ErrorIs(t, err, ErrProviderNil)
	assert.Empty(t, report.Instances)

	require.NotPanics(t, func() {
		report, err = CloseWithReport((*scope)(nil))
	})
	assert.ErrorIs(t, err, ErrProviderNil)
	assert.Empty(t, report.Instances)

	foreign := &crForeign{}
	report, err = CloseWithReport(foreign)
	assert.EqualError(t, err, "foreign")
	assert.Empty(t, report.Instances)
	assert.Equal(t, 1, foreign.closes)
}
