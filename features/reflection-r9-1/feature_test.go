package reflection_test

import (
	"fmt"
	"sync"
	"testing"

	"github.com/junioryono/godi/v4/internal/reflection"
	"github.com/stretchr/testify/assert"
	"github.com/stretchr/testify/require"
)

type checkDep struct{ id int }
type checkSvc struct{ dep *checkDep }

type checkGoodIn struct {
	reflection.In

	Dep      *checkDep
	Named    *checkDep   `name:"primary"`
	Members  []*checkDep `group:"deps"`
	Optional *checkSvc   `optional:"true"`
}

type checkBadGroupsIn struct {
	reflection.In

	First   *checkDep   `group:"a"`
	Good    []*checkDep `group:"b"`
	Second  checkDep    `group:"c"`
	Skipped *checkDep   `group:"d" inject:"-"`
}

type checkOtherIn struct {
	reflection.In

	Dep *checkDep
}

type checkOut struct {
	reflection.Out

	Svc *checkSvc
}

type checkEmptyOut struct {
	reflection.Out
}

// problems returns the individual errors joined by CheckConstructor.
func problems(t *testing.T, err error) []error {
	t.Helper()
	joined, ok := err.(interface{ Unwrap() []error })
	require.True(t, ok, "CheckConstructor must return a joined error, got %T", err)
	return joined.Unwrap()
}

func TestCheckConstructor_AgreesWithValidate(t *testing.T) {
	constructors := map[string]any{
		"no params":              func() *checkDep { return nil },
		"with error":             func(*checkDep) (*checkSvc, error) { return nil, nil },
		"instance":               &checkDep{},
		"param object":           func(checkGoodIn) *checkSvc { return nil },
		"pointer param object":   func(*checkGoodIn) *checkSvc { return nil },
		"result object":          func() checkOut { return checkOut{} },
		"result object+error":    func() (checkOut, error) { return checkOut{}, nil },
		"no returns":             func(*checkDep) {},
		"only error":             func() error { return nil },
		"three returns":          func() (*checkDep, *checkSvc, error) { return nil, nil, nil },
		"second not error":       func() (*checkDep, *checkSvc) { return nil, nil },
		"out three returns":      func() (checkOut, *checkDep, error) { return checkOut{}, nil, nil },
		"out second not error":   func() (checkOut, *checkDep) { return checkOut{}, nil },
		"empty out":              func() checkEmptyOut { return checkEmptyOut{} },
		"bad groups":             func(checkBadGroupsIn) *checkSvc { return nil },
		"two In":                 func(checkGoodIn, checkOtherIn) *checkSvc { return nil },
		"two In and no returns":  func(checkGoodIn, checkOtherIn) {},
		"bad groups, only error": func(checkBadGroupsIn) error { return nil },
	}

	for name, constructor := range constructors {
		t.Run(name, func(t *testing.T) {
			analyzer := reflection.New()

			info, err := analyzer.Analyze(constructor)
			require.NoError(t, err)
			want := reflection.NewValidator(analyzer).Validate(info)

			got := analyzer.CheckConstructor(constructor)
			if want == nil {
				assert.NoError(t, got)
				return
			}

			require.Error(t, got)
			all := problems(t, got)
			require.NotEmpty(t, all)
			assert.Equal(t, want.Error(), all[0].Error(), "first problem is the one Validate reports")
			assert.Contains(t, got.Error(), want.Error())
		})
	}
}

func TestCheckConstructor_ReportsAllProblems(t *testing.T) {
	analyzer := reflection.New()

	t.Run("every bad group field and the return problem", func(t *testing.T) {
		err := analyzer.CheckConstructor(func(checkBadGroupsIn) error { return nil })
		require.Error(t, err)

		var messages []string
		for _, problem := range problems(t, err) {
			messages = append(messages, problem.Error())
		}

		// The ignored field and the well-formed group are not reported
		assert.Equal(t, []string{
			"constructor must return at least one non-error value",
			"field First with group tag must be a slice",
			"field Second with group tag must be a slice",
		}, messages)
	})

	t.Run("return and parameter problem together", func(t *testing.T) {
		err := analyzer.CheckConstructor(func(checkGoodIn, checkOtherIn) {})
		require.Error(t, err)
		assert.Len(t, problems(t, err), 2)
		assert.ErrorContains(t, err, "constructor must return at least one value")
		assert.ErrorContains(t, err, "constructor cannot have multiple In parameters")
	})

	t.Run("nil constructors", func(t *testing.T) {
		var typedNil func() *checkDep

		for _, constructor := range []any{nil, typedNil} {
			err := analyzer.CheckConstructor(constructor)
			require.Error(t, err)
			assert.Len(t, problems(t, err), 1)
			assert.ErrorContains(t, err, "constructor cannot be nil")
		}
	})
}

func TestCheckConstructor_UsesAndKeepsTheCache(t *testing.T) {
	analyzer := reflection.New()
	constructor := func(checkBadGroupsIn) *checkSvc { return nil }

	require.Error(t, analyzer.CheckConstructor(constructor))
	assert.Equal(t, 1, analyzer.CacheSize(), "a rejected constructor is analyzed once")

	before, err := analyzer.Analyze(constructor)
	require.NoError(t, err)
	deps := len(before.Parameters)

	// Checking again neither re-analyzes nor alters the cached analysis
	first := analyzer.CheckConstructor(constructor)
	second := analyzer.CheckConstructor(constructor)
	assert.Equal(t, first.Error(), second.Error())
	assert.Equal(t, 1, analyzer.CacheSize())

	after, err := analyzer.Analyze(constructor)
	require.NoError(t, err)
	assert.Same(t, before, after)
	assert.Len(t, after.Parameters, deps)

	// A failed check leaves nothing behind for nil constructors
	require.Error(t, analyzer.CheckConstructor(nil))
	assert.Equal(t, 1, analyzer.CacheSize())
}

func TestCheckConstructor_Concurrent(t *testing.T) {
	analyzer := reflection.New()

	good := func(checkGoodIn) (*checkSvc, error) { return nil, nil }
	bad := func(checkBadGroupsIn) (*checkSvc, *checkDep) { return nil, nil }

	var wg sync.WaitGroup
	failures := make(chan string, 64)
	for i := 0; i < 32; i++ {
		wg.Add(1)
		go func(i int) {
			defer wg.Done()

			if i%8 == 0 {
				analyzer.Clear()
			}

			if err := analyzer.CheckConstructor(good); err != nil {
				failures <- fmt.Sprintf("good constructor rejected: %v", err)
			}

			err := analyzer.CheckConstructor(bad)
			if err == nil {
				failures <- "bad constructor accepted"
				return
			}
			if n := len(err.(interface{ Unwrap() []error }).Unwrap()); n != 3 {
				failures <- fmt.Sprintf("expected 3 problems, got %d: %v", n, err)
			}
		}(i)
	}
	wg.Wait()
	close(failures)

	for failure := range failures {
		t.Error(failure)
	}
}
