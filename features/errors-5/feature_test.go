package godi

import (
	"context"
	"errors"
	"reflect"
	"sync"
	"testing"

	"github.com/stretchr/testify/assert"
	"github.com/stretchr/testify/require"
)

type f5Mailer interface{ Send() }
type f5MailerSMTP struct{ cfg *f5MailerConfig }
type f5MailerConfig struct{}
type f5MailerHook struct{}
type f5Unrelated struct{}

func (*f5MailerSMTP) Send() {}

func newF5SMTPMailer(in struct {
	In
	Config *f5MailerConfig `name:"primary"`
}) *f5MailerSMTP {
	return &f5MailerSMTP{cfg: in.Config}
}
func newF5MailerConfig() *f5MailerConfig { return &f5MailerConfig{} }
func newF5MailerHook() *f5MailerHook     { return &f5MailerHook{} }
func newF5Unrelated() *f5Unrelated       { return &f5Unrelated{} }

var f5NilScope *scope

// f5Foreign is a Provider that does not come from this package.
type f5Foreign struct{ Provider }

func f5Collection(t *testing.T) Collection {
	c := NewCollection()
	require.NoError(t, c.AddScoped(newF5SMTPMailer, As[f5Mailer]()))
	require.NoError(t, c.AddSingleton(newF5MailerConfig, Name("primary")))
	require.NoError(t, c.AddSingleton(newF5MailerConfig, Name("replica")))
	require.NoError(t, c.AddTransient(newF5MailerHook, Group("hooks")))
	require.NoError(t, c.AddTransient(newF5MailerHook, Group("hooks")))
	require.NoError(t, c.AddSingleton(newF5Unrelated))
	return c
}

func TestF5_WithSuggestions(t *testing.T) {
	t.Parallel()

	c := f5Collection(t)
	p, err := c.Build()
	require.NoError(t, err)

	scope, err := p.CreateScope(context.Background())
	require.NoError(t, err)
	nested, err := scope.CreateScope(context.Background())
	require.NoError(t, err)

	// Registered as its interface only: asking for the concrete type fails
	_, err = Resolve[*f5MailerSMTP](nested)
	require.Error(t, err)
	assert.NotContains(t, err.Error(), "Did you mean")

	enriched := WithSuggestions(err, nested)
	require.Error(t, enriched)
	assert.Contains(t, enriched.Error(), "Did you mean one of these?")
	assert.Contains(t, enriched.Error(), "f5Mailer")
	assert.NotContains(t, enriched.Error(), "f5Unrelated")

	// Same identity for errors.Is / errors.As
	assert.True(t, errors.Is(enriched, ErrServiceNotFound))
	var orig, got *ResolutionError
	require.True(t, errors.As(err, &orig))
	require.True(t, errors.As(enriched, &got))
	assert.NotSame(t, orig, got, "the original error is copied")
	assert.Empty(t, orig.Available, "... and left alone")
	assert.Equal(t, orig.ServiceType, got.ServiceType)
	assert.Equal(t, orig.ServiceKey, got.ServiceKey)
	assert.Equal(t, orig.Cause, got.Cause)

	// Exactly the registered identities: the alias (not the concrete type), the
	// keyed type once although it has two keys, the group type once although it
	// has two members; sorted
	want := []reflect.Type{
		PtrTypeOf[f5MailerConfig](), PtrTypeOf[f5MailerHook](), PtrTypeOf[f5Unrelated](), TypeOf[f5Mailer](),
	}
	assert.Equal(t, want, got.Available)

	// Provider, scope and nested scope all stand for the same registry
	for _, container := range []Provider{p, scope, nested} {
		var again *ResolutionError
		require.True(t, errors.As(WithSuggestions(err, container), &again))
		assert.Equal(t, want, again.Available)
		again.Available[0] = nil // every call hands out its own slice
	}
	assert.Equal(t, want, got.Available)

	// Keyed miss: the key is kept, and enriching twice changes nothing more
	_, err = ResolveKeyed[*f5MailerConfig](scope, "backup")
	enriched = WithSuggestions(err, p)
	require.True(t, errors.As(enriched, &got))
	assert.Equal(t, "backup", got.ServiceKey)
	assert.Equal(t, want, got.Available)
	assert.Same(t, enriched, WithSuggestions(enriched, p))

	// The value form is handled like the pointer form
	valueErr := ResolutionError{ServiceType: PtrTypeOf[f5MailerSMTP](), Cause: ErrServiceNotFound}
	asValue, ok := WithSuggestions(valueErr, p).(ResolutionError)
	require.True(t, ok)
	assert.Equal(t, want, asValue.Available)
	assert.Empty(t, valueErr.Available)

	// Everything else passes through untouched
	assert.NoError(t, WithSuggestions(nil, p))
	var nilErr *ResolutionError
	assert.Equal(t, error(nilErr), WithSuggestions(nilErr, p))
	other := &ResolutionError{ServiceType: scopeType, Cause: errors.New("no scope found in context")}
	assert.Same(t, other, WithSuggestions(other, p))
	wrapped := &BuildError{Phase: "validation", Cause: orig}
	assert.Same(t, wrapped, WithSuggestions(wrapped, p), "only the head of the chain is considered")
	assert.Same(t, orig, WithSuggestions(orig, nil))
	assert.Same(t, orig, WithSuggestions(orig, f5Foreign{p}))
	assert.Same(t, orig, WithSuggestions(orig, f5NilScope))

	// Closing does not change the answers: disposed errors stay what they are,
	// and the registry - fixed at Build - can still explain an earlier failure
	require.NoError(t, scope.Close())
	_, derr := Resolve[*f5MailerSMTP](nested)
	require.ErrorIs(t, derr, ErrScopeDisposed)
	assert.Equal(t, derr, WithSuggestions(derr, nested))

	require.NoError(t, p.Close())
	_, derr = Resolve[*f5MailerSMTP](p)
	require.ErrorIs(t, derr, ErrProviderDisposed)
	assert.Equal(t, derr, WithSuggestions(derr, p))
	require.True(t, errors.As(WithSuggestions(orig, nested), &got))
	assert.Equal(t, want, got.Available)
}

// The suggestions come from the provider's own snapshot of the registry, not
// from the collection it was built from.
func TestF5_SuggestionsFollowTheProviderNotTheCollection(t *testing.T) {
	t.Parallel()

	c := f5Collection(t)
	p1, err := c.Build()
	require.NoError(t, err)
	defer p1.Close()

	c.Remove(PtrTypeOf[f5Unrelated]())
	require.NoError(t, c.AddScoped(func() *f5MailerSMTP { return &f5MailerSMTP{} }, Name("raw")))
	p2, err := c.Build()
	require.NoError(t, err)
	defer p2.Close()

	notFound := &ResolutionError{ServiceType: PtrTypeOf[f5MailerSMTP](), Cause: ErrServiceNotFound}

	var r1, r2 *ResolutionError
	require.True(t, errors.As(WithSuggestions(notFound, p1), &r1))
	require.True(t, errors.As(WithSuggestions(notFound, p2), &r2))

	assert.Contains(t, r1.Available, PtrTypeOf[f5Unrelated]())
	assert.NotContains(t, r1.Available, PtrTypeOf[f5MailerSMTP]())
	assert.NotContains(t, r2.Available, PtrTypeOf[f5Unrelated]())
	assert.Contains(t, r2.Available, PtrTypeOf[f5MailerSMTP]())

	// An empty registry yields no suggestions and an unchanged message
	empty, err := NewCollection().Build()
	require.NoError(t, err)
	defer empty.Close()
	assert.Equal(t, notFound.Error(), WithSuggestions(notFound, empty).Error())
}

func TestF5_ConcurrentUse(t *testing.T) {
	t.Parallel()

	p, err := f5Collection(t).Build()
	require.NoError(t, err)

	var wg sync.WaitGroup
	for i := 0; i < 16; i++ {
		wg.Add(1)
		go func() {
			defer wg.Done()
			scope, err := p.CreateScope(context.Background())
			if err != nil {
				assert.ErrorIs(t, err, ErrProviderDisposed)
				return
			}
			defer scope.Close()

			_, err = Resolve[*f5MailerSMTP](scope)
			enriched := WithSuggestions(err, scope)
			if errors.Is(err, ErrServiceNotFound) {
				assert.Contains(t, enriched.Error(), "Did you mean")
			} else {
				assert.ErrorIs(t, enriched, ErrScopeDisposed)
			}

			// The registered alias still resolves, one instance per scope
			a, err1 := Resolve[f5Mailer](scope)
			b, err2 := Resolve[f5Mailer](scope)
			if err1 == nil && err2 == nil {
				assert.Same(t, a, b)
			}
		}()
	}
	wg.Add(1)
	go func() {
		defer wg.Done()
		_ = p.Close()
	}()
	wg.Wait()
}
