package godi

import (
	"context"
	"fmt"
	"reflect"
	"sync"
	"testing"

	"github.com/stretchr/testify/assert"
	"github.com/stretchr/testify/require"
)

// descriptorIdentities renders type, key, group and lifetime of each descriptor.
func descriptorIdentities(descriptors []*Descriptor) []string {
	out := make([]string, 0, len(descriptors))
	for _, d := range descriptors {
		out = append(out, fmt.Sprintf("%s|%v|%s|%s", formatType(d.Type), d.Key, d.Group, d.Lifetime))
	}
	return out
}

func TestCollection_Descriptors(t *testing.T) {
	t.Parallel()

	register := func(t *testing.T) Collection {
		t.Helper()
		return BuildCollection(t,
			AddSingleton(NewTService),
			AddSingleton(NewTDependency),
			AddSingleton(NewTServiceWithID("named"), Name("named")),
			AddSingleton(NewTServiceWithID("g1"), Group("services")),
			AddSingleton(NewTServiceWithID("g2"), Group("services")),
			AddScoped(NewTFromParams),
			AddTransient(NewTService, As[TInterface]()),
			AddScoped(NewTVoid),
		)
	}

	t.Run("nil_filter_returns_everything_in_registration_order", func(t *testing.T) {
		t.Parallel()
		c := register(t)

		all := c.Descriptors(nil)
		live := c.ToSlice()
		require.Len(t, all, c.Count())
		assert.Equal(t, descriptorIdentities(live), descriptorIdentities(all))

		for i := range all {
			assert.NotSame(t, live[i], all[i], "descriptor %d is not a copy", i)
			assert.Equal(t, live[i].Constructor.Pointer(), all[i].Constructor.Pointer())
			assert.Equal(t, live[i].MultiReturnIndex, all[i].MultiReturnIndex)
			assert.Equal(t, live[i].VoidReturn, all[i].VoidReturn)
			require.Len(t, all[i].Dependencies, len(live[i].Dependencies))
			for j := range all[i].Dependencies {
				assert.NotSame(t, live[i].Dependencies[j], all[i].Dependencies[j])
				assert.Equal(t, *live[i].Dependencies[j], *all[i].Dependencies[j])
			}
		}
	})

	t.Run("empty_collection", func(t *testing.T) {
		t.Parallel()
		c := NewCollection()
		assert.Empty(t, c.Descriptors(nil))
		assert.Empty(t, c.Descriptors(func(*Descriptor) bool { return true }))
	})

	t.Run("filter_selects_by_lifetime_group_and_key", func(t *testing.T) {
		t.Parallel()
		c := register(t)

		scoped := c.Descriptors(func(d *Descriptor) bool { return d.Lifetime == Scoped })
		require.Len(t, scoped, 2)
		assert.Equal(t, PtrTypeOf[TServiceWithDeps](), scoped[0].Type)
		assert.True(t, scoped[1].VoidReturn)

		members := c.Descriptors(func(d *Descriptor) bool { return d.Group == "services" })
		require.Len(t, members, 2)
		assert.Equal(t, 1, members[0].Key)
		assert.Equal(t, 2, members[1].Key)

		named := c.Descriptors(func(d *Descriptor) bool { return d.Key == "named" })
		require.Len(t, named, 1)
		assert.Equal(t, PtrTypeOf[TService](), named[0].Type)

		aliases := c.Descriptors(func(d *Descriptor) bool { return d.Type == TypeOf[TInterface]() })
		require.Len(t, aliases, 1)
		assert.Equal(t, Transient, aliases[0].Lifetime)

		assert.Empty(t, c.Descriptors(func(*Descriptor) bool { return false }))
	})

	t.Run("result_object_and_multi_return_descriptors", func(t *testing.T) {
		t.Parallel()
		c := BuildCollection(t, AddSingleton(NewTResult), AddScoped(NewTTripleReturn, Name("x")))

		got := descriptorIdentities(c.Descriptors(nil))
		assert.Equal(t, descriptorIdentities(c.ToSlice()), got)
		assert.Len(t, got, 6)
	})

	t.Run("changing_the_copies_changes_nothing", func(t *testing.T) {
		t.Parallel()
		c := register(t)
		before := descriptorIdentities(c.ToSlice())

		vandalise := func(d *Descriptor) bool {
			d.Type = TypeOf[int]()
			d.Key = "hijacked"
			d.Group = ""
			d.Lifetime = Scoped
			d.Constructor = reflect.Value{}
			d.As = append(d.As, "junk")
			for _, dep := range d.Dependencies {
				dep.Type = TypeOf[string]()
				dep.Key = "nowhere"
				dep.Group = ""
				dep.Optional = false
			}
			d.Dependencies = nil
			return true
		}
		require.Len(t, c.Descriptors(vandalise), c.Count())

		// Neither the registry ...
		assert.Equal(t, before, descriptorIdentities(c.ToSlice()))
		assert.Equal(t, before, descriptorIdentities(c.Descriptors(nil)))
		assert.True(t, c.ContainsKeyed(PtrTypeOf[TService](), "named"))
		assert.False(t, c.ContainsKeyed(TypeOf[int](), "hijacked"))

		// ... nor the analysis cache shared by later registrations of the same
		// constructor ...
		require.NoError(t, c.AddScoped(NewTFromParams, Name("again")))
		again := c.Descriptors(func(d *Descriptor) bool { return d.Key == "again" })
		require.Len(t, again, 1)
		require.Len(t, again[0].Dependencies, 5)
		assert.Equal(t, PtrTypeOf[TService](), again[0].Dependencies[0].Type)
		assert.Equal(t, "named", again[0].Dependencies[2].Key)
		assert.Equal(t, "services", again[0].Dependencies[3].Group)

		// ... nor what Build wires together
		p, err := c.Build()
		require.NoError(t, err)
		t.Cleanup(func() { _ = p.Close() })

		s, err := p.CreateScope(context.Background())
		require.NoError(t, err)
		t.Cleanup(func() { _ = s.Close() })

		withDeps := RequireResolveFrom[*TServiceWithDeps](t, s)
		assert.Same(t, RequireResolve[*TService](t, p), withDeps.Svc)
		assert.Equal(t, RequireResolve[*TDependency](t, p).Name, withDeps.Dep.Name)

		members, err := ResolveGroup[*TService](s, "services")
		require.NoError(t, err)
		require.Len(t, members, 2)
		assert.Equal(t, "g1", members[0].ID)
		assert.Equal(t, "g2", members[1].ID)
	})

	t.Run("a_built_provider_is_not_affected", func(t *testing.T) {
		t.Parallel()
		c := register(t)
		p, err := c.Build()
		require.NoError(t, err)
		t.Cleanup(func() { _ = p.Close() })

		for _, d := range c.Descriptors(nil) {
			d.Lifetime = Transient
			d.Key = "other"
			for _, dep := range d.Dependencies {
				dep.Key = "other"
			}
		}

		first := RequireResolve[*TService](t, p)
		assert.Same(t, first, RequireResolve[*TService](t, p))
		assert.Equal(t, "named", RequireResolveKeyed[*TService](t, p, "named").ID)

		s, err := p.CreateScope(context.Background())
		require.NoError(t, err)
		t.Cleanup(func() { _ = s.Close() })
		assert.Same(t, first, RequireResolveFrom[*TServiceWithDeps](t, s).Svc)
	})

	t.Run("removed_services_are_not_reported", func(t *testing.T) {
		t.Parallel()
		c := register(t)
		c.Remove(PtrTypeOf[TDependency]())
		c.RemoveKeyed(PtrTypeOf[TService](), "named")

		for _, d := range c.Descriptors(nil) {
			assert.NotEqual(t, PtrTypeOf[TDependency](), d.Type)
			assert.NotEqual(t, "named", d.Key)
		}
		assert.Len(t, c.Descriptors(nil), c.Count())
	})

	t.Run("filter_may_call_back_into_the_collection_while_writers_wait", func(t *testing.T) {
		t.Parallel()
		c := register(t)

		stop := make(chan struct{})
		var wg sync.WaitGroup
		wg.Add(1)
		go func() {
			defer wg.Done()
			for i := 0; ; i++ {
				select {
				case <-stop:
					return
				default:
				}
				name := fmt.Sprintf("w%d", i)
				assert.NoError(t, c.AddSingleton(NewTDependency, Name(name)))
				c.RemoveKeyed(PtrTypeOf[TDependency](), name)
			}
		}()

		for i := 0; i < 200; i++ {
			got := c.Descriptors(func(d *Descriptor) bool {
				// Re-entrant reads (and even writes) must not deadlock
				_ = c.Count()
				return c.Contains(d.Type) && d.Key == nil
			})
			assert.GreaterOrEqual(t, len(got), 2)
		}

		close(stop)
		wg.Wait()
	})

	t.Run("concurrent_readers_and_builds", func(t *testing.T) {
		t.Parallel()
		c := register(t)

		var wg sync.WaitGroup
		for i := 0; i < 6; i++ {
			wg.Add(1)
			go func(i int) {
				defer wg.Done()
				for j := 0; j < 20; j++ {
					if i%2 == 0 {
						for _, d := range c.Descriptors(nil) {
							d.Key = j // private copy: no race with Build
						}
						continue
					}
					p, err := c.Build()
					if assert.NoError(t, err) {
						assert.NoError(t, p.Close())
					}
				}
			}(i)
		}
		wg.Wait()
	})
}

func TestDescriptor_clone(t *testing.T) {
	t.Parallel()

	var missing *Descriptor
	assert.Nil(t, missing.clone())

	instance := &TService{ID: "instance"}
	original, err := newDescriptor(instance, Singleton, Name("i"))
	require.NoError(t, err)

	cp := original.clone()
	assert.Equal(t, original, cp)
	assert.NotSame(t, original, cp)
	assert.Same(t, instance, cp.Instance, "a registered instance is shared, not duplicated")
	assert.Nil(t, cp.As)
}
