package godi

import (
	"context"
	"errors"
	"runtime"
	"sync"
	"sync/atomic"
	"testing"
	"time"

	"github.com/stretchr/testify/assert"
	"github.com/stretchr/testify/require"
)

// slowCloser is a scoped disposable whose Close blocks until released.
type slowCloser struct {
	release chan struct{}
	closes  *atomic.Int32
	log     *closeLog
}

func (c *slowCloser) Close() error {
	<-c.release
	c.closes.Add(1)
	c.log.add("slow")
	return nil
}

// fastCloser depends on slowCloser, so it is created later and closed earlier.
type fastCloser struct {
	closes *atomic.Int32
	log    *closeLog
	err    error
}

func (c *fastCloser) Close() error {
	c.closes.Add(1)
	c.log.add("fast")
	return c.err
}

type closeLog struct {
	mu    sync.Mutex
	order []string
}

func (l *closeLog) add(name string) {
	l.mu.Lock()
	l.order = append(l.order, name)
	l.mu.Unlock()
}

func (l *closeLog) get() []string {
	l.mu.Lock()
	defer l.mu.Unlock()
	return append([]string(nil), l.order...)
}

type closeCtxFixture struct {
	provider   Provider
	release    chan struct{}
	slowCloses atomic.Int32
	fastCloses atomic.Int32
	log        closeLog
	fastErr    error
}

func newCloseCtxFixture(t *testing.T, fastErr error) *closeCtxFixture {
	t.Helper()
	f := &closeCtxFixture{release: make(chan struct{}), fastErr: fastErr}

	c := NewCollection()
	require.NoError(t, c.AddScoped(func() *slowCloser {
		return &slowCloser{release: f.release, closes: &f.slowCloses, log: &f.log}
	}))
	require.NoError(t, c.AddScoped(func(*slowCloser) *fastCloser {
		return &fastCloser{closes: &f.fastCloses, log: &f.log, err: f.fastErr}
	}))

	p, err := c.Build()
	require.NoError(t, err)
	f.provider = p
	t.Cleanup(func() { _ = p.Close() })
	return f
}

func (f *closeCtxFixture) scope(t *testing.T) Scope {
	t.Helper()
	s, err := f.provider.CreateScope(context.Background())
	require.NoError(t, err)
	_, err = Resolve[*fastCloser](s)
	require.NoError(t, err)
	return s
}

func TestScopeCloseWithContext(t *testing.T) {
	t.Run("behaves like Close when the disposal finishes in time", func(t *testing.T) {
		f := newCloseCtxFixture(t, nil)
		close(f.release)
		s := f.scope(t)
		child, err := s.CreateScope(nil)
		require.NoError(t, err)

		ctx, cancel := context.WithTimeout(context.Background(), 5*time.Second)
		defer cancel()
		require.NoError(t, s.(ContextCloser).CloseWithContext(ctx))

		assert.Equal(t, []string{"fast", "slow"}, f.log.get(), "reverse creation order")
		assert.Error(t, s.Context().Err())
		_, err = child.Get(PtrTypeOf[fastCloser]())
		assert.ErrorIs(t, err, ErrScopeDisposed)

		impl := f.provider.(*provider)
		impl.scopesMu.Lock()
		assert.Empty(t, impl.scopes)
		impl.scopesMu.Unlock()

		// Closing again, either way, does nothing
		require.NoError(t, s.(ContextCloser).CloseWithContext(ctx))
		require.NoError(t, s.(ContextCloser).CloseWithContext(nil))
		require.NoError(t, s.Close())
		assert.EqualValues(t, 1, f.slowCloses.Load())
		assert.EqualValues(t, 1, f.fastCloses.Load())
	})

	t.Run("reports the disposal error", func(t *testing.T) {
		closeErr := errors.New("close failed")
		f := newCloseCtxFixture(t, closeErr)
		close(f.release)
		s := f.scope(t)

		ctx, cancel := context.WithTimeout(context.Background(), 5*time.Second)
		defer cancel()
		err := s.(ContextCloser).CloseWithContext(ctx)
		var disposalErr *DisposalError
		require.ErrorAs(t, err, &disposalErr)
		assert.Contains(t, err.Error(), "close failed")

		// Same through the path without a cancellable context
		s2 := f.scope(t)
		err = s2.(ContextCloser).CloseWithContext(nil)
		require.ErrorAs(t, err, &disposalErr)
	})

	t.Run("stops waiting but still disposes exactly once", func(t *testing.T) {
		f := newCloseCtxFixture(t, nil)
		s := f.scope(t)

		ctx, cancel := context.WithTimeout(context.Background(), 20*time.Millisecond)
		defer cancel()
		err := s.(ContextCloser).CloseWithContext(ctx)
		require.ErrorIs(t, err, context.DeadlineExceeded)
		assert.Contains(t, err.Error(), "disposal still in progress")

		// Closed for users at once, although the disposal is still running
		_, err = s.Get(PtrTypeOf[fastCloser]())
		assert.ErrorIs(t, err, ErrScopeDisposed)
		_, err = s.CreateScope(nil)
		assert.ErrorIs(t, err, ErrScopeDisposed)
		assert.EqualValues(t, 0, f.slowCloses.Load())

		// Close does not wait for the running disposal and closes nothing
		require.NoError(t, s.Close())

		// A second CloseWithContext waits for it - within its own context
		ctx2, cancel2 := context.WithTimeout(context.Background(), 20*time.Millisecond)
		defer cancel2()
		require.ErrorIs(t, s.(ContextCloser).CloseWithContext(ctx2), context.DeadlineExceeded)

		waiter := make(chan error, 1)
		go func() { waiter <- s.(ContextCloser).CloseWithContext(context.Background()) }()
		select {
		case <-waiter:
			t.Fatal("returned before the disposal had finished")
		case <-time.After(20 * time.Millisecond):
		}

		close(f.release)
		select {
		case err := <-waiter:
			require.NoError(t, err)
		case <-time.After(5 * time.Second):
			t.Fatal("disposal did not finish")
		}

		assert.Equal(t, []string{"fast", "slow"}, f.log.get())
		assert.EqualValues(t, 1, f.slowCloses.Load())
		assert.EqualValues(t, 1, f.fastCloses.Load())

		impl := f.provider.(*provider)
		impl.scopesMu.Lock()
		assert.Empty(t, impl.scopes, "the background disposal untracks the scope")
		impl.scopesMu.Unlock()
	})

	t.Run("context that has already ended", func(t *testing.T) {
		f := newCloseCtxFixture(t, nil)
		s := f.scope(t)

		ctx, cancel := context.WithCancel(context.Background())
		cancel()
		err := s.(ContextCloser).CloseWithContext(ctx)
		require.ErrorIs(t, err, context.Canceled)

		_, err = s.Get(PtrTypeOf[fastCloser]())
		assert.ErrorIs(t, err, ErrScopeDisposed)

		close(f.release)
		require.NoError(t, s.(ContextCloser).CloseWithContext(context.Background()))
		assert.EqualValues(t, 1, f.slowCloses.Load())
		assert.EqualValues(t, 1, f.fastCloses.Load())
	})

	t.Run("scope closed by its creation context", func(t *testing.T) {
		f := newCloseCtxFixture(t, nil)
		close(f.release)

		ctx, cancel := context.WithCancel(context.Background())
		s, err := f.provider.CreateScope(ctx)
		require.NoError(t, err)
		_, err = Resolve[*fastCloser](s)
		require.NoError(t, err)

		cancel()
		wait, cancelWait := context.WithTimeout(context.Background(), 5*time.Second)
		defer cancelWait()
		require.NoError(t, s.(ContextCloser).CloseWithContext(wait))
		assert.EqualValues(t, 1, f.slowCloses.Load(), "returns only after the disposal, whoever performs it")
		assert.EqualValues(t, 1, f.fastCloses.Load())
	})
}

func TestScopeCloseWithContextConcurrent(t *testing.T) {
	f := newCloseCtxFixture(t, nil)
	close(f.release)

	before := runtime.NumGoroutine()

	const rounds = 100
	for round := 0; round < rounds; round++ {
		s := f.scope(t)

		var wg sync.WaitGroup
		start := make(chan struct{})
		for i := 0; i < 6; i++ {
			wg.Add(1)
			go func(i int) {
				defer wg.Done()
				<-start
				switch i % 3 {
				case 0:
					assert.NoError(t, s.Close())
				case 1:
					ctx, cancel := context.WithTimeout(context.Background(), 5*time.Second)
					defer cancel()
					assert.NoError(t, s.(ContextCloser).CloseWithContext(ctx))
				default:
					_, err := s.Get(PtrTypeOf[fastCloser]())
					if err != nil {
						assert.ErrorIs(t, err, ErrScopeDisposed)
					}
				}
			}(i)
		}
		close(start)
		wg.Wait()
	}

	assert.EqualValues(t, rounds, f.slowCloses.Load(), "every instance closed exactly once")
	assert.EqualValues(t, rounds, f.fastCloses.Load())

	require.Eventually(t, func() bool { return runtime.NumGoroutine() <= before+2 },
		5*time.Second, 10*time.Millisecond, "no goroutine outlives the disposal")
}
