package godi

import (
	"errors"
	"reflect"
	"sync"
	"testing"

	"github.com/junioryono/godi/v4/internal/reflection"
	"github.com/stretchr/testify/assert"
	"github.com/stretchr/testify/require"
)

type depValuesIn struct {
	In

	Scoped   *TScoped
	Primary  *TService      `name:"primary"`
	Members  []*TDependency `group:"deps"`
	Optional *TDisposable   `optional:"true"`
	Ignored  *TTransient    `inject:"-"`
}

type depValuesHolder struct{ scoped *TScoped }

func newDepValuesHolder(in depValuesIn) *depValuesHolder {
	return &depValuesHolder{scoped: in.Scoped}
}

func (h *depValuesHolder) GetID() string { return "holder" }

// scramble makes every copied dependency point somewhere else.
func scramble(deps []reflection.Dependency) {
	for i := range deps {
		deps[i].Type = TypeOf[int]()
		deps[i].Key = "scrambled"
		deps[i].Group = "scrambled"
		deps[i].Optional = true
		deps[i].Index = -1
		deps[i].FieldName = "Scrambled"
	}
}

func TestDependencyValues_Analyzer(t *testing.T) {
	analyzer := reflection.New()

	shared, err := analyzer.GetDependencies(newDepValuesHolder)
	require.NoError(t, err)
	require.Len(t, shared, 4, "the ignored field is no dependency")

	values, err := analyzer.GetDependencyValues(newDepValuesHolder)
	require.NoError(t, err)
	require.Len(t, values, len(shared))

	for i, dep := range shared {
		assert.Equal(t, *dep, values[i], "copy %d equals the cached dependency", i)
		assert.NotSame(t, dep, &values[i])
	}

	// Keys, groups (on the element type), optional and order are preserved
	assert.Equal(t, reflection.Dependency{Type: PtrTypeOf[TScoped](), Index: 1, FieldName: "Scoped"}, values[0])
	assert.Equal(t, reflection.Dependency{Type: PtrTypeOf[TService](), Key: "primary", Index: 2, FieldName: "Primary"}, values[1])
	assert.Equal(t, reflection.Dependency{Type: PtrTypeOf[TDependency](), Group: "deps", Index: 3, FieldName: "Members"}, values[2])
	assert.Equal(t, reflection.Dependency{Type: PtrTypeOf[TDisposable](), Optional: true, Index: 4, FieldName: "Optional"}, values[3])

	// Scrambling the copies - including growing the slice - leaves the cache alone
	expected := make([]reflection.Dependency, len(shared))
	for i, dep := range shared {
		expected[i] = *dep
	}
	scramble(values)
	_ = append(values[:1], reflection.Dependency{Type: TypeOf[string]()})

	again, err := analyzer.GetDependencies(newDepValuesHolder)
	require.NoError(t, err)
	require.Len(t, again, len(expected))
	for i, dep := range again {
		assert.Same(t, shared[i], dep)
		assert.Equal(t, expected[i], *dep)
	}

	// Every call hands out a fresh slice
	info, err := analyzer.Analyze(newDepValuesHolder)
	require.NoError(t, err)
	first, second := info.Dependencies(), info.Dependencies()
	first[0].Optional = true
	assert.False(t, second[0].Optional)

	t.Run("empty but never nil", func(t *testing.T) {
		for _, constructor := range []any{NewTService, &TService{}} {
			values, err := analyzer.GetDependencyValues(constructor)
			require.NoError(t, err)
			assert.NotNil(t, values)
			assert.Empty(t, values)
		}

		var nilInfo *reflection.ConstructorInfo
		assert.Empty(t, nilInfo.Dependencies())
		assert.Empty(t, (&reflection.ConstructorInfo{}).Dependencies())
		assert.Empty(t, reflection.CopyDependencies(nil))
		assert.Len(t, reflection.CopyDependencies([]*reflection.Dependency{nil, {Type: TypeOf[int]()}, nil}), 1)

		_, err := analyzer.GetDependencyValues(nil)
		assert.Error(t, err)
	})
}

func TestDependencyValues_DescriptorCopiesDoNotReachTheBuild(t *testing.T) {
	// A transient that depends on a scoped service: Build must refuse it
	collection := NewCollection()
	require.NoError(t, collection.AddScoped(NewTScoped))
	require.NoError(t, collection.AddSingleton(NewTServiceWithID("primary"), Name("primary")))
	require.NoError(t, collection.AddTransient(newDepValuesHolder, As[TInterface](), As[interface{ GetID() string }]()))

	var aliases []*Descriptor
	for _, descriptor := range collection.ToSlice() {
		if descriptor.ConstructorType == reflect.TypeOf(newDepValuesHolder) {
			aliases = append(aliases, descriptor)
		}
	}
	require.Len(t, aliases, 2, "one descriptor per alias, sharing one dependency list")

	values := aliases[0].DependencyValues()
	require.Len(t, values, 4)
	assert.Equal(t, PtrTypeOf[TScoped](), values[0].Type)

	// Make the copies claim that nothing scoped is required
	scramble(values)

	for _, alias := range aliases {
		require.Len(t, alias.Dependencies, 4)
		assert.Equal(t, PtrTypeOf[TScoped](), alias.Dependencies[0].Type)
		assert.False(t, alias.Dependencies[0].Optional)
		assert.Equal(t, "primary", alias.Dependencies[1].Key)
		assert.Equal(t, "deps", alias.Dependencies[2].Group)
		assert.Equal(t, alias.GetDependencies(), alias.Dependencies)
	}

	_, err := collection.Build()
	require.Error(t, err)
	var conflict *LifetimeConflictError
	require.True(t, errors.As(err, &conflict), "expected a lifetime conflict, got %v", err)
	assert.Equal(t, PtrTypeOf[TScoped](), conflict.DependencyType)

	// The same registrations with a scoped consumer build and wire correctly,
	// however the copies taken before were treated
	fixed := NewCollection()
	require.NoError(t, fixed.AddScoped(NewTScoped))
	require.NoError(t, fixed.AddSingleton(NewTServiceWithID("primary"), Name("primary")))
	require.NoError(t, fixed.AddSingleton(NewTDependencyWithName("a"), Group("deps")))
	require.NoError(t, fixed.AddSingleton(NewTDependencyWithName("b"), Group("deps")))
	require.NoError(t, fixed.AddScoped(newDepValuesHolder))

	for _, descriptor := range fixed.ToSlice() {
		scramble(descriptor.DependencyValues())
	}

	provider, err := fixed.Build()
	require.NoError(t, err)
	defer provider.Close()

	scope, err := provider.CreateScope(nil)
	require.NoError(t, err)
	defer scope.Close()

	holder := RequireResolveFrom[*depValuesHolder](t, scope)
	assert.Same(t, RequireResolveFrom[*TScoped](t, scope), holder.scoped)
}

func TestDependencyValues_Concurrent(t *testing.T) {
	collection := NewCollection()
	require.NoError(t, collection.AddScoped(NewTScoped))
	require.NoError(t, collection.AddSingleton(NewTServiceWithID("primary"), Name("primary")))
	require.NoError(t, collection.AddScoped(newDepValuesHolder))

	provider, err := collection.Build()
	require.NoError(t, err)
	defer provider.Close()

	var holderDescriptor *Descriptor
	for _, descriptor := range collection.ToSlice() {
		if descriptor.Type == PtrTypeOf[depValuesHolder]() {
			holderDescriptor = descriptor
		}
	}
	require.NotNil(t, holderDescriptor)

	// Copies are taken and rewritten while scopes resolve the same descriptor
	var wg sync.WaitGroup
	for g := 0; g < 8; g++ {
		wg.Add(2)
		go func() {
			defer wg.Done()
			for i := 0; i < 100; i++ {
				scramble(holderDescriptor.DependencyValues())
			}
		}()
		go func() {
			defer wg.Done()
			for i := 0; i < 20; i++ {
				scope, err := provider.CreateScope(nil)
				if err != nil {
					t.Error(err)
					return
				}
				holder, err := Resolve[*depValuesHolder](scope)
				if err != nil || holder.scoped == nil {
					t.Errorf("resolve: %v, %v", holder, err)
				}
				if err := scope.Close(); err != nil {
					t.Error(err)
				}
			}
		}()
	}
	wg.Wait()
}
