package godi

import (
	"errors"
	"fmt"
	"reflect"
	"sync"
	"sync/atomic"
	"testing"

	"github.com/stretchr/testify/assert"
	"github.com/stretchr/testify/require"
)

// f4Closer records the order in which instances are closed.
type f4Closer struct {
	name   string
	err    error
	log    *f4Log
	closes atomic.Int32
}

func (c *f4Closer) Close() error {
	c.closes.Add(1)
	c.log.add(c.name)
	return c.err
}

type f4Log struct {
	mu    sync.Mutex
	names []string
}

func (l *f4Log) add(name string) {
	l.mu.Lock()
	l.names = append(l.names, name)
	l.mu.Unlock()
}

type (
	f4Pool      struct{ f4Closer }
	f4Cache     struct{ f4Closer }
	f4Session   struct{ f4Closer }
	f4Cursor    struct{ f4Closer }
	f4Quiet     struct{ f4Closer }
	f4Primary   struct{ f4Closer }
	f4Secondary struct{ f4Closer }
)

type f4Pair struct {
	Out

	Primary   *f4Primary
	Secondary *f4Secondary
}

// f4InstanceErrors extracts the InstanceDisposalErrors among errs.
func f4InstanceErrors(errs []error) []*InstanceDisposalError {
	var found []*InstanceDisposalError
	for _, err := range errs {
		var instanceErr *InstanceDisposalError
		if errors.As(err, &instanceErr) {
			found = append(found, instanceErr)
		}
	}
	return found
}

func TestInstanceDisposalError(t *testing.T) {
	t.Parallel()

	t.Run("messages_are_the_historical_ones", func(t *testing.T) {
		t.Parallel()

		cause := errors.New("boom")
		scoped := InstanceDisposalError{InstanceType: reflect.TypeOf(&f4Session{}), Index: 3, Cause: cause}
		singleton := &InstanceDisposalError{InstanceType: reflect.TypeOf(&f4Pool{}), Singleton: true, Index: 3, Cause: cause}

		assert.Equal(t, fmt.Errorf("failed to dispose scoped instance: %w", cause).Error(), scoped.Error())
		assert.Equal(t, fmt.Errorf("singleton disposable %d: %w", 3, cause).Error(), singleton.Error())
		assert.ErrorIs(t, scoped, cause)
		assert.ErrorIs(t, singleton, cause)
	})

	t.Run("scope_and_provider_report_typed_failures", func(t *testing.T) {
		t.Parallel()

		log := &f4Log{}
		errPool, errCache := errors.New("pool busy"), errors.New("cache dirty")
		errSession, errCursor := errors.New("session open"), errors.New("cursor open")

		c := NewCollection()
		require.NoError(t, c.AddSingleton(func() *f4Pool { return &f4Pool{f4Closer{name: "pool", err: errPool, log: log}} }))
		require.NoError(t, c.AddSingleton(func(*f4Pool) *f4Cache { return &f4Cache{f4Closer{name: "cache", err: errCache, log: log}} }))
		require.NoError(t, c.AddScoped(func(*f4Pool) *f4Session { return &f4Session{f4Closer{name: "session", err: errSession, log: log}} }))
		require.NoError(t, c.AddTransient(func() *f4Cursor { return &f4Cursor{f4Closer{name: "cursor", err: errCursor, log: log}} }))
		require.NoError(t, c.AddScoped(func(*f4Session, *f4Cursor) *f4Quiet { return &f4Quiet{f4Closer{name: "quiet", log: log}} }))

		p, err := c.Build()
		require.NoError(t, err)

		s, err := p.CreateScope(nil)
		require.NoError(t, err)
		child, err := s.CreateScope(nil)
		require.NoError(t, err)

		// Creation order in s: session, cursor, quiet, then a second cursor
		quiet, err := Resolve[*f4Quiet](s)
		require.NoError(t, err)
		cursor, err := Resolve[*f4Cursor](s)
		require.NoError(t, err)
		childSession, err := Resolve[*f4Session](child)
		require.NoError(t, err)

		closeErr := s.Close()
		require.Error(t, closeErr)
		var disposal *DisposalError
		require.ErrorAs(t, closeErr, &disposal)
		assert.Equal(t, "scope", disposal.Context)
		require.Len(t, disposal.Errors, 4)

		// The child scope failed first, and reports its own instance
		assert.Equal(t,
			"failed to close child scope: scope disposal failed: failed to dispose scoped instance: session open",
			disposal.Errors[0].Error())
		var childDisposal *DisposalError
		require.ErrorAs(t, disposal.Errors[0], &childDisposal)
		childErrs := f4InstanceErrors(childDisposal.Errors)
		require.Len(t, childErrs, 1)
		assert.Equal(t, InstanceDisposalError{InstanceType: reflect.TypeOf(childSession), Index: 0, Cause: errSession}, *childErrs[0])

		// Then the scope's own instances, in reverse creation order
		own := f4InstanceErrors(disposal.Errors[1:])
		require.Len(t, own, 3)
		assert.Equal(t, InstanceDisposalError{InstanceType: reflect.TypeOf(cursor), Index: 3, Cause: errCursor}, *own[0])
		assert.Equal(t, InstanceDisposalError{InstanceType: reflect.TypeOf(cursor), Index: 1, Cause: errCursor}, *own[1])
		assert.Equal(t, InstanceDisposalError{InstanceType: reflect.TypeOf(&f4Session{}), Index: 0, Cause: errSession}, *own[2])
		assert.ErrorIs(t, disposal.Errors[1], errCursor)
		assert.ErrorIs(t, disposal.Errors[3], errSession)
		assert.Equal(t, "failed to dispose scoped instance: cursor open", disposal.Errors[1].Error())

		assert.Equal(t, []string{"session", "cursor", "quiet", "cursor", "session"}, log.names)
		assert.Equal(t, int32(1), quiet.closes.Load())
		assert.Equal(t, int32(1), cursor.closes.Load())
		assert.Equal(t, int32(1), childSession.closes.Load())

		// Closing again does nothing
		assert.NoError(t, s.Close())
		assert.NoError(t, child.Close())
		assert.Len(t, log.names, 5)
		_, err = s.Get(reflect.TypeOf(quiet))
		assert.ErrorIs(t, err, ErrScopeDisposed)

		// Provider: singletons in reverse creation order, with their index
		closeErr = p.Close()
		require.Error(t, closeErr)
		require.ErrorAs(t, closeErr, &disposal)
		assert.Equal(t, "provider", disposal.Context)
		assert.Equal(t,
			"provider disposal failed with 2 errors:\n  1. singleton disposable 1: cache dirty\n  2. singleton disposable 0: pool busy",
			closeErr.Error())

		singletons := f4InstanceErrors(disposal.Errors)
		require.Len(t, singletons, 2)
		assert.Equal(t, InstanceDisposalError{InstanceType: reflect.TypeOf(&f4Cache{}), Singleton: true, Index: 1, Cause: errCache}, *singletons[0])
		assert.Equal(t, InstanceDisposalError{InstanceType: reflect.TypeOf(&f4Pool{}), Singleton: true, Index: 0, Cause: errPool}, *singletons[1])
		assert.Equal(t, []string{"cache", "pool"}, log.names[5:])

		assert.NoError(t, p.Close())
		assert.Len(t, log.names, 7)
	})

	t.Run("secondary_outputs_of_a_result_object", func(t *testing.T) {
		t.Parallel()

		log := &f4Log{}
		errSecondary := errors.New("secondary stuck")

		c := NewCollection()
		require.NoError(t, c.AddScoped(func() f4Pair {
			return f4Pair{
				Primary:   &f4Primary{f4Closer{name: "primary", log: log}},
				Secondary: &f4Secondary{f4Closer{name: "secondary", err: errSecondary, log: log}},
			}
		}))

		p, err := c.Build()
		require.NoError(t, err)
		t.Cleanup(func() { assert.NoError(t, p.Close()) })

		s, err := p.CreateScope(nil)
		require.NoError(t, err)
		primary, err := Resolve[*f4Primary](s)
		require.NoError(t, err)
		secondary, err := Resolve[*f4Secondary](s)
		require.NoError(t, err)

		closeErr := s.Close()
		var disposal *DisposalError
		require.ErrorAs(t, closeErr, &disposal)
		found := f4InstanceErrors(disposal.Errors)
		require.Len(t, found, 1)
		assert.Equal(t, reflect.TypeOf(secondary), found[0].InstanceType)
		assert.False(t, found[0].Singleton)
		assert.ErrorIs(t, closeErr.(*DisposalError).Errors[0], errSecondary)

		assert.Equal(t, int32(1), primary.closes.Load())
		assert.Equal(t, int32(1), secondary.closes.Load())
		assert.ElementsMatch(t, []string{"primary", "secondary"}, log.names)
	})

	t.Run("concurrent_close_reports_each_failure_once", func(t *testing.T) {
		t.Parallel()

		log := &f4Log{}
		errSession := errors.New("session open")

		c := NewCollection()
		require.NoError(t, c.AddSingleton(func() *f4Pool { return &f4Pool{f4Closer{name: "pool", log: log}} }))
		require.NoError(t, c.AddScoped(func(*f4Pool) *f4Session { return &f4Session{f4Closer{name: "session", err: errSession, log: log}} }))

		p, err := c.Build()
		require.NoError(t, err)
		t.Cleanup(func() { assert.NoError(t, p.Close()) })

		s, err := p.CreateScope(nil)
		require.NoError(t, err)
		session, err := Resolve[*f4Session](s)
		require.NoError(t, err)

		var (
			wg       sync.WaitGroup
			failures atomic.Int32
		)
		for i := 0; i < 8; i++ {
			wg.Add(1)
			go func() {
				defer wg.Done()
				err := s.Close()
				if err == nil {
					return
				}

				failures.Add(1)
				var disposal *DisposalError
				if assert.ErrorAs(t, err, &disposal) {
					found := f4InstanceErrors(disposal.Errors)
					if assert.Len(t, found, 1) {
						assert.Equal(t, reflect.TypeOf(session), found[0].InstanceType)
						assert.ErrorIs(t, found[0], errSession)
					}
				}
			}()
		}
		wg.Wait()

		assert.Equal(t, int32(1), failures.Load())
		assert.Equal(t, int32(1), session.closes.Load())

		// The singleton seen through the scope was not touched by the scope
		pool, err := Resolve[*f4Pool](p)
		require.NoError(t, err)
		assert.Zero(t, pool.closes.Load())
	})
}
