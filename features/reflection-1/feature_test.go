package reflection_test

import (
	"sync"
	"testing"

	"github.com/junioryono/godi/v4/internal/reflection"
	"github.com/stretchr/testify/assert"
	"github.com/stretchr/testify/require"
)

type statsDep struct{ n int }

type statsSvc struct{ dep *statsDep }

func newStatsDep() *statsDep                        { return &statsDep{} }
func newStatsSvc(d *statsDep) *statsSvc             { return &statsSvc{dep: d} }
func newStatsSvcErr(d *statsDep) (*statsSvc, error) { return &statsSvc{dep: d}, nil }

// statsClosure is kept out of line so that every closure it returns shares
// one code pointer (inlining would clone the literal per call site).
//
//go:noinline
func statsClosure(n int) func() *statsDep {
	return func() *statsDep { return &statsDep{n: n} }
}

func TestAnalyzerStats_CountsEveryCallOnce(t *testing.T) {
	a := reflection.New()
	assert.Equal(t, reflection.AnalyzerStats{}, a.Stats(), "a new analyzer has seen nothing")
	assert.Zero(t, a.Stats().HitRatio())

	_, err := a.Analyze(newStatsDep) // miss
	require.NoError(t, err)
	_, err = a.Analyze(newStatsDep) // hit
	require.NoError(t, err)
	_, err = a.Analyze(newStatsSvc) // miss
	require.NoError(t, err)

	_, err = a.Analyze(nil) // error
	require.Error(t, err)
	var nilFn func() *statsDep
	_, err = a.Analyze(nilFn) // error (typed nil)
	require.Error(t, err)

	st := a.Stats()
	assert.Equal(t, reflection.AnalyzerStats{Hits: 1, Misses: 2, Errors: 2, Entries: 2}, st)
	assert.Equal(t, uint64(5), st.Calls())
	assert.InDelta(t, 1.0/3.0, st.HitRatio(), 1e-9)

	// The wrappers go through Analyze and are therefore counted as well.
	_, err = a.GetDependencies(newStatsSvc)
	require.NoError(t, err)
	_, err = a.GetServiceType(newStatsSvc)
	require.NoError(t, err)
	_, err = a.GetResultTypes(newStatsSvcErr) // not seen before: miss
	require.NoError(t, err)
	_, err = a.GetDependencies(nil)
	require.Error(t, err)

	assert.Equal(t, reflection.AnalyzerStats{Hits: 3, Misses: 3, Errors: 3, Entries: 3}, a.Stats())
}

func TestAnalyzerStats_FailuresAreNotCached(t *testing.T) {
	a := reflection.New()
	for i := 0; i < 3; i++ {
		_, err := a.Analyze(nil)
		require.Error(t, err)
	}
	st := a.Stats()
	assert.Equal(t, uint64(3), st.Errors, "each failing call is counted, none is turned into a hit")
	assert.Zero(t, st.Hits)
	assert.Zero(t, st.Misses)
	assert.Zero(t, st.Entries)
	assert.Equal(t, 0, a.CacheSize())
}

func TestAnalyzerStats_ClearAndResetAreIndependent(t *testing.T) {
	a := reflection.New()
	first, err := a.Analyze(newStatsSvc)
	require.NoError(t, err)
	_, err = a.Analyze(newStatsSvc)
	require.NoError(t, err)

	// Clear empties the cache but keeps the history.
	a.Clear()
	assert.Equal(t, reflection.AnalyzerStats{Hits: 1, Misses: 1}, a.Stats())

	// The next call is a miss again and yields an equivalent analysis.
	again, err := a.Analyze(newStatsSvc)
	require.NoError(t, err)
	assert.Equal(t, first.Parameters, again.Parameters)
	assert.Equal(t, first.Returns, again.Returns)
	assert.Equal(t, reflection.AnalyzerStats{Hits: 1, Misses: 2, Entries: 1}, a.Stats())

	// ResetStats zeroes the history but keeps the cache: next call is a hit
	// that returns the very same cached analysis.
	a.ResetStats()
	assert.Equal(t, reflection.AnalyzerStats{Entries: 1}, a.Stats())
	cached, err := a.Analyze(newStatsSvc)
	require.NoError(t, err)
	assert.Same(t, again, cached)
	assert.Equal(t, reflection.AnalyzerStats{Hits: 1, Entries: 1}, a.Stats())
}

func TestAnalyzerStats_ClosuresOfOneLiteralShareAnEntry(t *testing.T) {
	a := reflection.New()
	_, err := a.Analyze(statsClosure(1))
	require.NoError(t, err)
	_, err = a.Analyze(statsClosure(2))
	require.NoError(t, err)

	// Same code, same type: one analysis serves both closures.
	assert.Equal(t, reflection.AnalyzerStats{Hits: 1, Misses: 1, Entries: 1}, a.Stats())
}

func TestAnalyzerStats_SeparateAnalyzersDoNotShareCounters(t *testing.T) {
	a, b := reflection.New(), reflection.New()
	_, err := a.Analyze(newStatsDep)
	require.NoError(t, err)
	assert.Equal(t, uint64(1), a.Stats().Misses)
	assert.Equal(t, reflection.AnalyzerStats{}, b.Stats())
}

func TestAnalyzerStats_Concurrent(t *testing.T) {
	a := reflection.New()
	constructors := []any{newStatsDep, newStatsSvc, newStatsSvcErr, nil}

	const goroutines, rounds = 16, 200
	var wg sync.WaitGroup
	for g := 0; g < goroutines; g++ {
		wg.Add(1)
		go func(g int) {
			defer wg.Done()
			for i := 0; i < rounds; i++ {
				c := constructors[(g+i)%len(constructors)]
				info, err := a.Analyze(c)
				if c == nil {
					assert.Error(t, err)
				} else if assert.NoError(t, err) {
					assert.True(t, info.IsFunc)
				}
				_ = a.Stats() // readers run alongside writers
			}
		}(g)
	}
	wg.Wait()

	st := a.Stats()
	assert.Equal(t, uint64(goroutines*rounds), st.Calls(), "no call is lost or counted twice")
	assert.Equal(t, uint64(goroutines*rounds/len(constructors)), st.Errors)
	assert.Equal(t, 3, st.Entries)
	// Concurrent first calls may each analyze, but there is at least one
	// miss per constructor and never more than one per call.
	assert.GreaterOrEqual(t, st.Misses, uint64(3))
	assert.LessOrEqual(t, st.Misses, uint64(3*goroutines))
	assert.Equal(t, st.Calls()-st.Errors-st.Misses, st.Hits)
}
