package godi

import (
	"context"
	"fmt"
	"reflect"
	"slices"
	"sync"
	"sync/atomic"
	"testing"

	"github.com/stretchr/testify/assert"
	"github.com/stretchr/testify/require"
)

// itRepo / itHandler are the services registered in the iterator tests.
type itRepo struct{ Name string }

type itHandler struct {
	Repo  *itRepo
	Named *itRepo
}

type itHandlerParams struct {
	In
	Repo  *itRepo
	Named *itRepo `name:"replica"`
}

func newITHandler(p itHandlerParams) *itHandler { return &itHandler{Repo: p.Repo, Named: p.Named} }

func itRepoCtor(name string, calls *atomic.Int32) func() *itRepo {
	return func() *itRepo {
		calls.Add(1)
		return &itRepo{Name: name}
	}
}

// itIdentity describes a descriptor by the fields a Build relies on.
func itIdentity(d *Descriptor) string {
	return fmt.Sprintf("%v|%v|%s|%v", d.Type, d.Key, d.Group, d.Lifetime)
}

func itIdentities(descriptors []*Descriptor) []string {
	out := make([]string, 0, len(descriptors))
	for _, d := range descriptors {
		out = append(out, itIdentity(d))
	}
	return out
}

func newITCollection(t *testing.T, calls *atomic.Int32) Collection {
	t.Helper()
	c := NewCollection()
	require.NoError(t, c.AddSingleton(itRepoCtor("main", calls)))
	require.NoError(t, c.AddSingleton(itRepoCtor("replica", calls), Name("replica")))
	require.NoError(t, c.AddScoped(newITHandler))
	require.NoError(t, c.AddTransient(itRepoCtor("g1", calls), Group("repos")))
	require.NoError(t, c.AddTransient(itRepoCtor("g2", calls), Group("repos")))
	require.NoError(t, c.AddSingleton(NewTMultiReturn))
	require.NoError(t, c.AddScoped(NewTVoid))
	return c
}

func TestCollectionAll(t *testing.T) {
	t.Parallel()

	t.Run("yields_every_registration_in_order", func(t *testing.T) {
		t.Parallel()
		var calls atomic.Int32
		c := newITCollection(t, &calls)

		got := slices.Collect(c.All())
		assert.Equal(t, itIdentities(c.ToSlice()), itIdentities(got))
		assert.Len(t, got, c.Count())
		assert.Equal(t, int32(0), calls.Load(), "iterating runs no constructor")

		// an empty collection yields nothing
		for range NewCollection().All() {
			t.Fatal("unexpected descriptor")
		}
	})

	t.Run("early_break_releases_the_lock", func(t *testing.T) {
		t.Parallel()
		var calls atomic.Int32
		c := newITCollection(t, &calls)

		seen := 0
		for range c.All() {
			seen++
			if seen == 2 {
				break
			}
		}
		assert.Equal(t, 2, seen)

		// a write lock can still be taken
		require.NoError(t, c.AddSingleton(NewTDisposable))
		assert.Equal(t, 9, c.Count())
	})

	t.Run("body_may_modify_the_collection", func(t *testing.T) {
		t.Parallel()
		var calls atomic.Int32
		c := newITCollection(t, &calls)
		repoType := PtrTypeOf[itRepo]()

		before := c.Count()
		visited := 0
		for d := range c.All() {
			visited++
			// would deadlock if the iterator still held its read lock
			if d.Type == repoType && d.Group == "" {
				c.RemoveKeyed(d.Type, d.Key)
			}
			require.NoError(t, c.AddTransient(NewTServiceWithID(fmt.Sprint(visited)), Group("added")))
		}

		assert.Equal(t, before, visited, "changes made by the body are not part of the running iteration")
		assert.False(t, c.Contains(repoType))
		assert.False(t, c.ContainsKeyed(repoType, "replica"))
		assert.Equal(t, before-2+visited, c.Count())

		// a new range sees the new state
		assert.Equal(t, itIdentities(c.ToSlice()), itIdentities(slices.Collect(c.All())))

		// the same Seq value can be ranged again and takes a fresh snapshot
		seq := c.All()
		first := len(slices.Collect(seq))
		c.RemoveKeyed(PtrTypeOf[TService](), nil)
		assert.Equal(t, first-1, len(slices.Collect(seq)))
	})

	t.Run("yielded_descriptors_are_detached_copies", func(t *testing.T) {
		t.Parallel()
		var calls atomic.Int32
		c := newITCollection(t, &calls)
		want := itIdentities(c.ToSlice())

		for d := range c.All() {
			for _, dep := range d.Dependencies {
				dep.Type = reflect.TypeOf(0)
				dep.Key = "tampered"
				dep.Optional = true
			}
			d.Dependencies = nil
			d.Type = reflect.TypeOf("")
			d.Key = "tampered"
			d.Group = "tampered"
			d.Lifetime = Transient
			d.Constructor = reflect.Value{}
		}

		assert.Equal(t, want, itIdentities(c.ToSlice()))
		for _, d := range c.ToSlice() {
			for _, dep := range d.Dependencies {
				assert.NotEqual(t, "tampered", dep.Key)
				assert.False(t, dep.Optional)
			}
		}

		// The analyzer cache, which shares its dependency lists with the
		// descriptors, was not touched either: registering the same
		// constructor again still reports its real dependencies
		require.NoError(t, c.AddScoped(newITHandler, Name("again")))
		again := c.ToSlice()[c.Count()-1]
		require.Len(t, again.Dependencies, 2)
		assert.Equal(t, PtrTypeOf[itRepo](), again.Dependencies[0].Type)
		assert.Equal(t, "replica", again.Dependencies[1].Key)

		// and the tampered-with collection still builds and wires correctly
		p, err := c.Build()
		require.NoError(t, err)
		t.Cleanup(func() { _ = p.Close() })
		s, err := p.CreateScope(context.Background())
		require.NoError(t, err)
		t.Cleanup(func() { _ = s.Close() })

		h := RequireResolve[*itHandler](t, s)
		assert.Equal(t, "main", h.Repo.Name)
		assert.Equal(t, "replica", h.Named.Name)
		assert.Same(t, h.Repo, RequireResolve[*itRepo](t, p))
		assert.Equal(t, int32(2), calls.Load(), "each singleton constructor ran once")
	})

	t.Run("clone", func(t *testing.T) {
		t.Parallel()
		assert.Nil(t, (*Descriptor)(nil).Clone())

		d, err := newDescriptor(newITHandler, Scoped)
		require.NoError(t, err)
		clone := d.Clone()
		require.NotSame(t, d, clone)
		assert.Equal(t, d, clone)
		require.NotEmpty(t, clone.Dependencies)
		assert.NotSame(t, d.Dependencies[0], clone.Dependencies[0])
		clone.paramFields[0].Name = "tampered"
		assert.NotEqual(t, "tampered", d.paramFields[0].Name)

		iface, err := newDescriptor(NewTService, Singleton, As[TInterface]())
		require.NoError(t, err)
		iface.As = []any{new(TInterface)}
		ifaceClone := iface.Clone()
		ifaceClone.As[0] = nil
		assert.NotNil(t, iface.As[0])
	})

	t.Run("concurrent_registration", func(t *testing.T) {
		t.Parallel()
		var calls atomic.Int32
		c := newITCollection(t, &calls)
		base := c.Count()

		const writers, perWriter = 4, 40
		var wg sync.WaitGroup
		for w := 0; w < writers; w++ {
			wg.Add(1)
			go func(w int) {
				defer wg.Done()
				for i := 0; i < perWriter; i++ {
					key := fmt.Sprintf("w%d-%d", w, i)
					assert.NoError(t, c.AddTransient(NewTServiceWithID(key), Name(key)))
					if i%2 == 1 {
						c.RemoveKeyed(PtrTypeOf[TService](), key)
					}
				}
			}(w)
		}

		for r := 0; r < 4; r++ {
			wg.Add(1)
			go func() {
				defer wg.Done()
				for i := 0; i < 40; i++ {
					n := 0
					seen := make(map[string]struct{})
					for d := range c.All() {
						n++
						if d.Group == "" {
							id := itIdentity(d)
							_, dup := seen[id]
							assert.False(t, dup, "a snapshot never lists an identity twice: %s", id)
							seen[id] = struct{}{}
						}
					}
					assert.GreaterOrEqual(t, n, base)
					assert.Equal(t, c.CountByLifetime(Singleton), 4)
				}
			}()
		}
		wg.Wait()

		assert.Equal(t, base+writers*perWriter/2, c.Count())
		assert.Len(t, slices.Collect(c.All()), c.Count())
	})
}

func TestCollectionCountByLifetime(t *testing.T) {
	t.Parallel()

	var calls atomic.Int32
	c := newITCollection(t, &calls)

	// main, replica and the two outputs of NewTMultiReturn
	assert.Equal(t, 4, c.CountByLifetime(Singleton))
	// handler and the void initializer
	assert.Equal(t, 2, c.CountByLifetime(Scoped))
	// the two group members
	assert.Equal(t, 2, c.CountByLifetime(Transient))
	assert.Equal(t, 0, c.CountByLifetime(Lifetime(42)))
	assert.Equal(t, c.Count(), c.CountByLifetime(Singleton)+c.CountByLifetime(Scoped)+c.CountByLifetime(Transient))

	// follows removals and rejected registrations
	c.Remove(PtrTypeOf[itRepo]())
	assert.Equal(t, 3, c.CountByLifetime(Singleton))
	require.Error(t, c.AddSingleton(itRepoCtor("dup", &calls), Name("replica")))
	assert.Equal(t, 3, c.CountByLifetime(Singleton))

	// a provider's build is what the counts describe
	require.NoError(t, c.AddSingleton(itRepoCtor("main2", &calls)))
	p, err := c.Build()
	require.NoError(t, err)
	t.Cleanup(func() { _ = p.Close() })
	assert.Equal(t, int32(2), calls.Load(), "two single-output singleton constructors")
	assert.Equal(t, 4, c.CountByLifetime(Singleton))

	assert.Equal(t, 0, NewCollection().CountByLifetime(Singleton))
}
