package godi

import (
	"context"
	"errors"
	"sync"
	"sync/atomic"
	"testing"

	"github.com/stretchr/testify/require"
)

type eachTask struct {
	name   string
	closed atomic.Int32
}

func (e *eachTask) Close() error {
	e.closed.Add(1)
	return nil
}

func newEachTask(name string, calls *atomic.Int32) func() *eachTask {
	return func() *eachTask {
		if calls != nil {
			calls.Add(1)
		}
		return &eachTask{name: name}
	}
}

func TestEach_OrderAndLifetimes(t *testing.T) {
	var singletonCalls, scopedCalls, transientCalls atomic.Int32

	c := NewCollection()
	require.NoError(t, c.AddSingleton(newEachTask("one", &singletonCalls), Group("tasks")))
	require.NoError(t, c.AddScoped(newEachTask("two", &scopedCalls), Group("tasks")))
	require.NoError(t, c.AddTransient(newEachTask("three", &transientCalls), Group("tasks")))
	require.NoError(t, c.AddSingleton(newEachTask("other", nil), Group("other")))

	p, err := c.Build()
	require.NoError(t, err)
	defer p.Close()

	s, err := p.CreateScope(context.Background())
	require.NoError(t, err)

	var first, second []*eachTask
	require.NoError(t, Each(s, "tasks", func(task *eachTask) error {
		first = append(first, task)
		return nil
	}))
	require.NoError(t, Each(s, "tasks", func(task *eachTask) error {
		second = append(second, task)
		return nil
	}))

	require.Len(t, first, 3)
	require.Equal(t, []string{"one", "two", "three"}, []string{first[0].name, first[1].name, first[2].name})

	// Same instances as ResolveGroup yields, lifetime by lifetime
	group, err := ResolveGroup[*eachTask](s, "tasks")
	require.NoError(t, err)
	require.Same(t, group[0], first[0])
	require.Same(t, group[1], first[1])
	require.Same(t, first[0], second[0])
	require.Same(t, first[1], second[1])
	require.NotSame(t, first[2], second[2])
	require.NotSame(t, first[2], group[2])
	require.Equal(t, int32(1), singletonCalls.Load())
	require.Equal(t, int32(1), scopedCalls.Load())
	require.Equal(t, int32(3), transientCalls.Load())

	// Another scope has its own scoped member
	s2, err := p.CreateScope(context.Background())
	require.NoError(t, err)
	defer s2.Close()
	var other []*eachTask
	require.NoError(t, Each(s2, "tasks", func(task *eachTask) error {
		other = append(other, task)
		return nil
	}))
	require.Same(t, first[0], other[0])
	require.NotSame(t, first[1], other[1])

	require.NoError(t, s.Close())
	require.Equal(t, int32(0), first[0].closed.Load())
	require.Equal(t, int32(1), first[1].closed.Load())
	require.Equal(t, int32(1), first[2].closed.Load())
	require.Equal(t, int32(1), second[2].closed.Load())
	require.Equal(t, int32(1), group[2].closed.Load())
	require.Equal(t, int32(0), other[1].closed.Load())
}

func TestEach_StopsEarlyWithoutConstructingTheRest(t *testing.T) {
	var secondCalls, thirdCalls atomic.Int32
	stop := errors.New("stop")

	c := NewCollection()
	require.NoError(t, c.AddScoped(newEachTask("one", nil), Group("tasks")))
	require.NoError(t, c.AddScoped(newEachTask("two", &secondCalls), Group("tasks")))
	require.NoError(t, c.AddTransient(newEachTask("three", &thirdCalls), Group("tasks")))

	p, err := c.Build()
	require.NoError(t, err)
	defer p.Close()

	s, err := p.CreateScope(context.Background())
	require.NoError(t, err)

	var seen []*eachTask
	err = Each(s, "tasks", func(task *eachTask) error {
		seen = append(seen, task)
		if task.name == "two" {
			return stop
		}
		return nil
	})
	require.True(t, err == stop, "the callback's error is returned as is")
	require.Len(t, seen, 2)
	require.Equal(t, int32(1), secondCalls.Load())
	require.Equal(t, int32(0), thirdCalls.Load())

	// What was constructed stays cached and owned by the scope
	group, err := ResolveGroup[*eachTask](s, "tasks")
	require.NoError(t, err)
	require.Same(t, seen[0], group[0])
	require.Same(t, seen[1], group[1])
	require.Equal(t, int32(1), secondCalls.Load())

	require.NoError(t, s.Close())
	require.Equal(t, int32(1), seen[0].closed.Load())
	require.Equal(t, int32(1), seen[1].closed.Load())
}

func TestEach_ResolutionFailure(t *testing.T) {
	boom := errors.New("boom")
	var fail atomic.Bool
	fail.Store(true)

	c := NewCollection()
	require.NoError(t, c.AddScoped(newEachTask("one", nil), Group("tasks")))
	require.NoError(t, c.AddScoped(func() (*eachTask, error) {
		if fail.Load() {
			return nil, boom
		}
		return &eachTask{name: "two"}, nil
	}, Group("tasks")))
	require.NoError(t, c.AddScoped(func() *eachTask { panic("kaboom") }, Group("broken")))

	p, err := c.Build()
	require.NoError(t, err)
	defer p.Close()

	s, err := p.CreateScope(context.Background())
	require.NoError(t, err)
	defer s.Close()

	var seen []*eachTask
	visit := func(task *eachTask) error {
		seen = append(seen, task)
		return nil
	}

	err = Each(s, "tasks", visit)
	require.ErrorIs(t, err, boom)
	var resolutionErr *ResolutionError
	require.ErrorAs(t, err, &resolutionErr)
	require.Len(t, seen, 1)

	// Same error as the eager variant
	_, groupErr := ResolveGroup[*eachTask](s, "tasks")
	require.EqualError(t, err, groupErr.Error())

	// A retry behaves like a first attempt and reuses what succeeded before
	fail.Store(false)
	first := seen[0]
	seen = nil
	require.NoError(t, Each(s, "tasks", visit))
	require.Len(t, seen, 2)
	require.Same(t, first, seen[0])

	// Constructor panics are reported, not propagated
	var panicErr *ConstructorPanicError
	err = Each(s, "broken", visit)
	require.ErrorAs(t, err, &panicErr)
	require.Equal(t, "kaboom", panicErr.Panic)
}

func TestEach_Validation(t *testing.T) {
	p := BuildProvider(t, AddSingleton(newEachTask("one", nil), Group("tasks")))
	noop := func(*eachTask) error { return nil }

	require.ErrorIs(t, Each(nil, "tasks", noop), ErrProviderNil)
	require.ErrorIs(t, Each(p, "", noop), ErrGroupNameEmpty)

	var validationErr *ValidationError
	require.ErrorAs(t, Each[*eachTask](p, "tasks", nil), &validationErr)

	// An empty or unknown group is not an error
	calls := 0
	require.NoError(t, Each(p, "unknown", func(*eachTask) error { calls++; return nil }))
	require.NoError(t, Each(p, "tasks", func(*TService) error { calls++; return nil }))
	require.Zero(t, calls)
}

func TestEach_Disposed(t *testing.T) {
	c := NewCollection()
	require.NoError(t, c.AddSingleton(newEachTask("one", nil), Group("tasks")))
	require.NoError(t, c.AddSingleton(newEachTask("two", nil), Group("tasks")))

	p, err := c.Build()
	require.NoError(t, err)

	s, err := p.CreateScope(context.Background())
	require.NoError(t, err)

	// Closing the scope from the callback ends the iteration, even though the
	// remaining members are singletons that need no construction
	calls := 0
	err = Each(s, "tasks", func(*eachTask) error {
		calls++
		return s.Close()
	})
	require.ErrorIs(t, err, ErrScopeDisposed)
	require.Equal(t, 1, calls)

	noop := func(*eachTask) error { calls++; return nil }
	require.ErrorIs(t, Each(s, "tasks", noop), ErrScopeDisposed)
	require.ErrorIs(t, Each(s, "unknown", noop), ErrScopeDisposed)
	require.Equal(t, 1, calls)

	// The same through the provider, which reports its own error
	calls = 0
	err = Each(p, "tasks", func(*eachTask) error {
		calls++
		return p.Close()
	})
	require.ErrorIs(t, err, ErrProviderDisposed)
	require.Equal(t, 1, calls)
	require.ErrorIs(t, Each(p, "tasks", noop), ErrProviderDisposed)
	require.ErrorIs(t, Each(p, "unknown", noop), ErrProviderDisposed)
	require.Equal(t, 1, calls)
}

// eachForeignProvider is a Provider implemented outside the package's own types.
type eachForeignProvider struct{ Provider }

func TestEach_ForeignProvider(t *testing.T) {
	p := BuildProvider(t,
		AddSingleton(newEachTask("one", nil), Group("tasks")),
		AddSingleton(newEachTask("two", nil), Group("tasks")),
	)

	var names []string
	require.NoError(t, Each(eachForeignProvider{p}, "tasks", func(task *eachTask) error {
		names = append(names, task.name)
		return nil
	}))
	require.Equal(t, []string{"one", "two"}, names)
}

func TestEach_Concurrent(t *testing.T) {
	c := NewCollection()
	require.NoError(t, c.AddSingleton(newEachTask("one", nil), Group("tasks")))
	require.NoError(t, c.AddScoped(newEachTask("two", nil), Group("tasks")))
	require.NoError(t, c.AddTransient(newEachTask("three", nil), Group("tasks")))

	p, err := c.Build()
	require.NoError(t, err)
	defer p.Close()

	var wg sync.WaitGroup
	for i := 0; i < 8; i++ {
		wg.Add(1)
		go func() {
			defer wg.Done()
			s, err := p.CreateScope(context.Background())
			if err != nil {
				t.Error(err)
				return
			}

			var closer sync.WaitGroup
			closer.Add(1)
			go func() {
				defer closer.Done()
				_ = s.Close()
			}()

			for j := 0; j < 50; j++ {
				count := 0
				err := Each(s, "tasks", func(task *eachTask) error {
					count++
					return nil
				})
				if err != nil {
					if !errors.Is(err, ErrScopeDisposed) {
						t.Errorf("unexpected error: %v", err)
					}
					break
				}
				if count != 3 {
					t.Errorf("visited %d members", count)
				}
			}
			closer.Wait()
		}()
	}
	wg.Wait()
}
