package fiber

import (
	"io"
	"net/http"
	"net/http/httptest"
	"sync"
	"sync/atomic"
	"testing"

	"github.com/gofiber/fiber/v2"
	"github.com/junioryono/godi/v4"
	"github.com/stretchr/testify/assert"
	"github.com/stretchr/testify/require"
)

// skipSession is a scoped disposable used to observe scope creation/closing.
type skipSession struct{ closes atomic.Int32 }

func (s *skipSession) Close() error { s.closes.Add(1); return nil }

type skipController struct{ Session *skipSession }

func (ctl *skipController) Hello(c *fiber.Ctx) error { return c.SendString("hello") }

type skipCounters struct {
	created  atomic.Int32
	sessions sync.Map
}

func (n *skipCounters) closedOnce(t *testing.T) int {
	t.Helper()
	count := 0
	n.sessions.Range(func(k, _ any) bool {
		count++
		assert.Equal(t, int32(1), k.(*skipSession).closes.Load(), "session closed exactly once")
		return true
	})
	return count
}

func buildSkipProvider(t *testing.T, n *skipCounters) godi.Provider {
	t.Helper()

	collection := godi.NewCollection()
	require.NoError(t, collection.AddScoped(func() *skipSession {
		n.created.Add(1)
		s := &skipSession{}
		n.sessions.Store(s, struct{}{})
		return s
	}))
	require.NoError(t, collection.AddScoped(func(s *skipSession) *skipController {
		return &skipController{Session: s}
	}))

	provider, err := collection.Build()
	require.NoError(t, err)
	t.Cleanup(func() { provider.Close() })
	return provider
}

func get(t *testing.T, app *fiber.App, path string) (int, string) {
	t.Helper()
	resp, err := app.Test(httptest.NewRequest(http.MethodGet, path, nil))
	require.NoError(t, err)
	defer resp.Body.Close()
	body, err := io.ReadAll(resp.Body)
	require.NoError(t, err)
	return resp.StatusCode, string(body)
}

// probe reports whether a request scope is visible to the handler.
func probe(c *fiber.Ctx) error {
	scope := FromContext(c)
	_, ctxErr := godi.FromContext(c.UserContext())
	switch {
	case scope == nil && ctxErr != nil:
		return c.SendString("no-scope")
	case scope != nil && ctxErr == nil:
		if _, err := godi.Resolve[*skipSession](scope); err != nil {
			return err
		}
		return c.SendString("scope")
	default:
		return c.SendString("inconsistent")
	}
}

func TestWithNextAndSkipPaths(t *testing.T) {
	t.Run("skipped requests get no scope, others get exactly one", func(t *testing.T) {
		var n skipCounters
		provider := buildSkipProvider(t, &n)

		mwRuns := 0
		app := fiber.New()
		app.Use(ScopeMiddleware(provider,
			WithNext(func(c *fiber.Ctx) bool { return c.Get("X-No-Scope") != "" }),
			WithSkipPaths("/healthz"),
			WithSkipPaths("/metrics", "/healthz"),
			WithMiddleware(func(godi.Scope, *fiber.Ctx) error { mwRuns++; return nil }),
		))
		app.Get("/*", probe)

		for _, path := range []string{"/healthz", "/metrics"} {
			_, body := get(t, app, path)
			assert.Equal(t, "no-scope", body, path)
		}
		assert.Equal(t, int32(0), n.created.Load())
		assert.Equal(t, 0, mwRuns, "scope middlewares do not run for skipped requests")

		// Only exact paths are skipped.
		for _, path := range []string{"/healthz/deep", "/api", "/"} {
			_, body := get(t, app, path)
			assert.Equal(t, "scope", body, path)
		}
		assert.Equal(t, int32(3), n.created.Load())
		assert.Equal(t, 3, mwRuns)

		// Next function.
		req := httptest.NewRequest(http.MethodGet, "/api", nil)
		req.Header.Set("X-No-Scope", "1")
		resp, err := app.Test(req)
		require.NoError(t, err)
		body, _ := io.ReadAll(resp.Body)
		assert.Equal(t, "no-scope", string(body))
		assert.Equal(t, int32(3), n.created.Load())

		assert.Equal(t, 3, n.closedOnce(t))
	})

	t.Run("Handle on a skipped route reports to the scope error handler", func(t *testing.T) {
		var n skipCounters
		provider := buildSkipProvider(t, &n)

		var scopeErr error
		handle := Handle((*skipController).Hello,
			WithScopeErrorHandler(func(c *fiber.Ctx, err error) error {
				scopeErr = err
				return c.Status(fiber.StatusServiceUnavailable).SendString("no scope")
			}),
			WithResolutionErrorHandler(func(*fiber.Ctx, error) error {
				t.Error("exactly one of the handlers runs")
				return nil
			}),
		)

		app := fiber.New()
		app.Use(ScopeMiddleware(provider, WithSkipPaths("/skipped")))
		app.Get("/skipped", handle)
		app.Get("/served", handle)

		status, _ := get(t, app, "/skipped")
		assert.Equal(t, fiber.StatusServiceUnavailable, status)
		assert.Error(t, scopeErr)
		assert.Equal(t, int32(0), n.created.Load())

		status, body := get(t, app, "/served")
		assert.Equal(t, fiber.StatusOK, status)
		assert.Equal(t, "hello", body)
		assert.Equal(t, 1, n.closedOnce(t))
	})

	t.Run("a skipped request never sees a scope left over from a previous one", func(t *testing.T) {
		// fiber recycles *fiber.Ctx values between requests.
		var n skipCounters
		provider := buildSkipProvider(t, &n)

		app := fiber.New()
		app.Use(ScopeMiddleware(provider, WithSkipPaths("/healthz")))
		app.Get("/*", probe)

		for i := 0; i < 20; i++ {
			_, body := get(t, app, "/api")
			assert.Equal(t, "scope", body)
			_, body = get(t, app, "/healthz")
			assert.Equal(t, "no-scope", body)
		}
		assert.Equal(t, int32(20), n.created.Load())
		assert.Equal(t, 20, n.closedOnce(t))
	})

	t.Run("option values are snapshots and can be shared between middlewares", func(t *testing.T) {
		var n skipCounters
		provider := buildSkipProvider(t, &n)

		paths := []string{"/a", "/b"}
		shared := WithSkipPaths(paths...)
		paths[0] = "/changed" // must not affect the option

		preset := map[string]struct{}{"/preset": {}}
		usePreset := func(c *Config) { c.SkipPaths = preset }

		first := fiber.New()
		first.Use(ScopeMiddleware(provider, usePreset, shared, WithSkipPaths("/only-first")))
		first.Get("/*", probe)

		second := fiber.New()
		second.Use(ScopeMiddleware(provider, shared))
		second.Get("/*", probe)

		for path, want := range map[string]string{
			"/a": "no-scope", "/b": "no-scope", "/preset": "no-scope", "/only-first": "no-scope", "/changed": "scope",
		} {
			_, body := get(t, first, path)
			assert.Equal(t, want, body, "first %s", path)
		}
		for path, want := range map[string]string{
			"/a": "no-scope", "/b": "no-scope", "/preset": "scope", "/only-first": "scope", "/changed": "scope",
		} {
			_, body := get(t, second, path)
			assert.Equal(t, want, body, "second %s", path)
		}

		assert.Equal(t, map[string]struct{}{"/preset": {}}, preset, "a caller-owned map is not written to")
		assert.Equal(t, 4, n.closedOnce(t))
	})

	t.Run("without the options every request gets a scope", func(t *testing.T) {
		var n skipCounters
		provider := buildSkipProvider(t, &n)

		app := fiber.New()
		app.Use(ScopeMiddleware(provider))
		app.Get("/*", probe)

		_, body := get(t, app, "/healthz")
		assert.Equal(t, "scope", body)
		assert.Equal(t, 1, n.closedOnce(t))
	})

	t.Run("concurrent mix of skipped and served requests", func(t *testing.T) {
		var n skipCounters
		provider := buildSkipProvider(t, &n)

		app := fiber.New()
		app.Use(ScopeMiddleware(provider, WithSkipPaths("/healthz")))
		app.Get("/*", probe)

		const workers, perWorker = 8, 30
		var wg sync.WaitGroup
		for w := 0; w < workers; w++ {
			path, want := "/api", "scope"
			if w%2 == 1 {
				path, want = "/healthz", "no-scope"
			}
			wg.Add(1)
			go func() {
				defer wg.Done()
				for i := 0; i < perWorker; i++ {
					resp, err := app.Test(httptest.NewRequest(http.MethodGet, path, nil))
					if !assert.NoError(t, err) {
						return
					}
					body, _ := io.ReadAll(resp.Body)
					resp.Body.Close()
					assert.Equal(t, want, string(body))
				}
			}()
		}
		wg.Wait()

		assert.Equal(t, int32(workers/2*perWorker), n.created.Load())
		assert.Equal(t, workers/2*perWorker, n.closedOnce(t))
	})
}
