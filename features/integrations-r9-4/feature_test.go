package echo

import (
	"errors"
	"net/http"
	"net/http/httptest"
	"runtime"
	"sync"
	"sync/atomic"
	"testing"
	"time"

	"github.com/junioryono/godi/v4"
	"github.com/labstack/echo/v4"
	"github.com/stretchr/testify/assert"
	"github.com/stretchr/testify/require"
)

// slowResource is a scoped service whose Close can be held back by a test.
type slowResource struct {
	gate    chan struct{} // nil: Close returns at once
	err     error
	doPanic bool
	closed  atomic.Int32
}

func (r *slowResource) Close() error {
	r.closed.Add(1)
	if r.gate != nil {
		<-r.gate
	}
	if r.doPanic {
		panic("close panic")
	}
	return r.err
}

// closeErrors is a concurrency-safe CloseErrorHandler.
type closeErrors struct {
	mu   sync.Mutex
	errs []error
}

func (c *closeErrors) handle(err error) {
	c.mu.Lock()
	c.errs = append(c.errs, err)
	c.mu.Unlock()
}

func (c *closeErrors) snapshot() []error {
	c.mu.Lock()
	defer c.mu.Unlock()
	return append([]error(nil), c.errs...)
}

func slowProvider(t *testing.T, next func() *slowResource) godi.Provider {
	t.Helper()
	collection := godi.NewCollection()
	require.NoError(t, collection.AddScoped(next))
	provider, err := collection.Build()
	require.NoError(t, err)
	t.Cleanup(func() { _ = provider.Close() })
	return provider
}

func serveEcho(e *echo.Echo, path string) *httptest.ResponseRecorder {
	rec := httptest.NewRecorder()
	e.ServeHTTP(rec, httptest.NewRequest(http.MethodGet, path, nil))
	return rec
}

func resolveSlow(c echo.Context) *slowResource {
	scope, _ := godi.FromContext(c.Request().Context())
	return godi.MustResolve[*slowResource](scope)
}

func TestWithCloseTimeout(t *testing.T) {
	t.Run("fast close completes before the request returns", func(t *testing.T) {
		res := &slowResource{}
		provider := slowProvider(t, func() *slowResource { return res })
		var errs closeErrors

		var captured godi.Scope
		e := echo.New()
		e.Use(ScopeMiddleware(provider, WithCloseTimeout(time.Minute), WithCloseErrorHandler(errs.handle)))
		e.GET("/", func(c echo.Context) error {
			captured, _ = godi.FromContext(c.Request().Context())
			resolveSlow(c)
			return c.NoContent(http.StatusOK)
		})

		assert.Equal(t, http.StatusOK, serveEcho(e, "/").Code)
		assert.EqualValues(t, 1, res.closed.Load())
		assert.Empty(t, errs.snapshot())
		_, err := godi.Resolve[*slowResource](captured)
		assert.ErrorIs(t, err, godi.ErrScopeDisposed)
		assert.Error(t, captured.Context().Err())
	})

	t.Run("slow close times out, finishes in the background, closes once", func(t *testing.T) {
		closeFailure := errors.New("flush failed")
		res := &slowResource{gate: make(chan struct{}), err: closeFailure}
		provider := slowProvider(t, func() *slowResource { return res })
		var errs closeErrors

		var captured godi.Scope
		e := echo.New()
		e.Use(ScopeMiddleware(provider, WithCloseTimeout(20*time.Millisecond), WithCloseErrorHandler(errs.handle)))
		e.GET("/", func(c echo.Context) error {
			captured, _ = godi.FromContext(c.Request().Context())
			resolveSlow(c)
			return c.String(http.StatusOK, "ok")
		})

		start := time.Now()
		rec := serveEcho(e, "/")
		assert.Less(t, time.Since(start), 5*time.Second)
		assert.Equal(t, "ok", rec.Body.String())

		got := errs.snapshot()
		require.Len(t, got, 1)
		assert.ErrorIs(t, got[0], ErrCloseTimeout)

		// The close is under way: the scope already refuses new work and a
		// second Close is a no-op that does not reach the resource again.
		assert.EqualValues(t, 1, res.closed.Load())
		_, err := godi.Resolve[*slowResource](captured)
		assert.ErrorIs(t, err, godi.ErrScopeDisposed)
		assert.NoError(t, captured.Close())

		close(res.gate)
		require.Eventually(t, func() bool { return len(errs.snapshot()) == 2 }, 5*time.Second, time.Millisecond)
		late := errs.snapshot()[1]
		var disposal *godi.DisposalError
		require.ErrorAs(t, late, &disposal)
		require.Len(t, disposal.Errors, 1)
		assert.ErrorIs(t, disposal.Errors[0], closeFailure)
		assert.EqualValues(t, 1, res.closed.Load())
	})

	t.Run("every exit path closes exactly once", func(t *testing.T) {
		var mu sync.Mutex
		var created []*slowResource
		provider := slowProvider(t, func() *slowResource {
			r := &slowResource{}
			mu.Lock()
			created = append(created, r)
			mu.Unlock()
			return r
		})
		var errs closeErrors

		handlerRuns := 0
		e := echo.New()
		e.Use(ScopeMiddleware(provider,
			WithCloseTimeout(time.Minute),
			WithCloseErrorHandler(errs.handle),
			WithMiddleware(func(scope godi.Scope, c echo.Context) error {
				godi.MustResolve[*slowResource](scope)
				if c.Path() == "/denied" {
					return errors.New("denied")
				}
				return nil
			}),
		))
		e.GET("/ok", func(c echo.Context) error { handlerRuns++; return c.NoContent(http.StatusOK) })
		e.GET("/denied", func(c echo.Context) error { handlerRuns++; return nil })
		e.GET("/fail", func(c echo.Context) error { handlerRuns++; return echo.NewHTTPError(http.StatusBadRequest) })
		e.GET("/panic", func(c echo.Context) error { handlerRuns++; panic("handler panic") })

		assert.Equal(t, http.StatusOK, serveEcho(e, "/ok").Code)
		assert.Equal(t, http.StatusInternalServerError, serveEcho(e, "/denied").Code)
		assert.Equal(t, http.StatusBadRequest, serveEcho(e, "/fail").Code)
		assert.PanicsWithValue(t, "handler panic", func() { serveEcho(e, "/panic") })

		assert.Equal(t, 3, handlerRuns)
		require.Len(t, created, 4)
		for _, r := range created {
			assert.EqualValues(t, 1, r.closed.Load())
		}
		assert.Empty(t, errs.snapshot())
	})

	t.Run("a panicking Close is reported as an error", func(t *testing.T) {
		res := &slowResource{doPanic: true}
		provider := slowProvider(t, func() *slowResource { return res })
		var errs closeErrors

		e := echo.New()
		e.Use(ScopeMiddleware(provider, WithCloseTimeout(time.Minute), WithCloseErrorHandler(errs.handle)))
		e.GET("/", func(c echo.Context) error { resolveSlow(c); return c.NoContent(http.StatusOK) })

		assert.Equal(t, http.StatusOK, serveEcho(e, "/").Code)
		got := errs.snapshot()
		require.Len(t, got, 1)
		assert.Contains(t, got[0].Error(), "close panic")
		assert.EqualValues(t, 1, res.closed.Load())
	})

	t.Run("zero and negative durations keep the synchronous close", func(t *testing.T) {
		for _, d := range []time.Duration{0, -time.Second} {
			res := &slowResource{err: errors.New("sync failure")}
			provider := slowProvider(t, func() *slowResource { return res })
			var errs closeErrors

			e := echo.New()
			e.Use(ScopeMiddleware(provider, WithCloseTimeout(d), WithCloseErrorHandler(errs.handle)))
			e.GET("/", func(c echo.Context) error { resolveSlow(c); return c.NoContent(http.StatusOK) })

			serveEcho(e, "/")
			assert.EqualValues(t, 1, res.closed.Load())
			require.Len(t, errs.snapshot(), 1)
			var disposal *godi.DisposalError
			require.ErrorAs(t, errs.snapshot()[0], &disposal)
			require.Len(t, disposal.Errors, 1)
			assert.ErrorIs(t, disposal.Errors[0], res.err)
		}
	})

	t.Run("concurrent requests leave no goroutines behind", func(t *testing.T) {
		var total, closed atomic.Int32
		collection := godi.NewCollection()
		require.NoError(t, collection.AddScoped(func() *countingCloser {
			total.Add(1)
			return &countingCloser{closed: &closed}
		}))
		provider, err := collection.Build()
		require.NoError(t, err)
		defer provider.Close()

		e := echo.New()
		e.Use(ScopeMiddleware(provider, WithCloseTimeout(time.Minute)))
		e.GET("/", func(c echo.Context) error {
			scope, _ := godi.FromContext(c.Request().Context())
			godi.MustResolve[*countingCloser](scope)
			return c.NoContent(http.StatusOK)
		})

		serveEcho(e, "/") // warm up
		before := runtime.NumGoroutine()

		var wg sync.WaitGroup
		for i := 0; i < 16; i++ {
			wg.Add(1)
			go func() {
				defer wg.Done()
				for j := 0; j < 25; j++ {
					serveEcho(e, "/")
				}
			}()
		}
		wg.Wait()

		assert.EqualValues(t, 401, total.Load())
		assert.EqualValues(t, 401, closed.Load())
		assert.Eventually(t, func() bool { return runtime.NumGoroutine() <= before+2 }, 5*time.Second, 5*time.Millisecond)
	})
}

type countingCloser struct{ closed *atomic.Int32 }

func (c *countingCloser) Close() error { c.closed.Add(1); return nil }
